"""X19 - topology entity registry (pox/topology/topology.py) and the OpenFlow topology bridge
(pox/openflow/topology.py: OpenFlowTopology / OpenFlowSwitch / OpenFlowPort).

specs/topoent/TopoEnt.tla is the oracle.  `Dev = {}` is the intended design, `Dev = AllDev` the code as built
(eight named deviations, see notes/X19.md "Defects observed"); the real code is bound to the as-built model:

1. TLC: the intended design with all properties, the as-built model with the surviving ones, three constant
   families (registry only / one dpid, several sessions / two dpids, links), vacuity guard on the actions.
2. spec -> code: edge cover of the as-built model (one behaviour per transition of the abstract state graph) and
   random deep behaviours (-simulate), replayed on the real Topology / OpenFlowTopology / OpenFlowSwitch /
   Discovery / of_01.Connection driven by OpenFlow bytes on scripted sockets; the WHOLE observation (events in
   order, what late listeners were told, exceptions, registry and entity state through the public API) is
   compared after every step.  Negative control: one corrupted expectation must be noticed.
3. code -> spec: a seeded random driver on the real code; TLC (TraceTopoEnt) must accept every recorded trace with
   the invariants evaluated at every step; a corrupted trace must be rejected.
"""
import copy
import random
import time

from engine import tlc, core, tracecheck

ADAPTER = "harness.adapters_x19:Adapter"
REG_ACTIONS = ["AddObj", "RemoveObj", "Listen"]
ONE_ACTIONS = REG_ACTIONS + ["Connect", "Down", "Expire", "PortStatus", "ConEvent", "Probe"]
TWO_ACTIONS = ["Connect", "Down", "Expire", "PortStatus", "ConEvent", "Probe", "LinkTimeout"]
ALL_ACTIONS = sorted(set(ONE_ACTIONS + TWO_ACTIONS))
# which properties of the intended design each deviation (alone) breaks
DEV_BREAKS = {"RejoinRefused": ["ConnectGivesEntity"],
              "StaleDown": ["ConnTracksNexus", "ArmedIffDown", "BoundIsConn", "GoneIsInert"],
              "ModUnknown": ["PortsFollowHistory", "ReRaisedOnce"],
              "AddKnown": ["PortsFollowHistory", "ReRaisedOnce"],
              "FlowRemAbort": ["ReRaisedOnce"],
              "ByNameNoPromise": ["PromiseKept"],
              "ListenCrash": ["ListenNeverFails"],
              "LinkRemoveIgnored": ["AdjSound", "AdjBacked"]}


def _mc(ctx, jobs):
  res = tlc.run_many([dict(spec_dir="topoent", module="MCTopoEnt", cfg=cfg, workers=3, tag="X19", timeout=3000)
                      for cfg, _, _ in jobs], parallel=6)
  for (cfg, acts, name), r in zip(jobs, res):
    if r.violated:
      raise tlc.TLCError("%s: the spec violates its own property %s:\n%s" % (cfg, r.violated, r.error_trace[:3000]))
    tlc.require_coverage(r, acts, name)
    ctx.add_model(name, r)


def _export(cfgs):
  res = tlc.run_many([dict(spec_dir="topoent", module="MCTopoEnt", cfg=cfg, workers=1, coverage=False, tag="X19",
                           timeout=3000) for cfg in cfgs], parallel=4)
  out = []
  for cfg, r in zip(cfgs, res):
    behs = r.tagged("T")
    if not behs:
      raise tlc.TLCError("no behaviours exported by %s" % cfg)
    out.append(behs)
  return out


def _sample(behs, n, rnd):
  """stratified: every (last action, discriminating argument) class keeps its share, at least a few of each"""
  if len(behs) <= n:
    return behs
  groups = {}
  for b in behs:
    la = b[-1]
    k = (la["a"], la["args"].get("how"), la["args"].get("r"), la["args"].get("kind"), bool(la["exp"]["exc"]))
    groups.setdefault(k, []).append(b)
  share = max(3, n // max(1, len(groups)))
  out = []
  for k in sorted(groups, key=str):
    g = groups[k]
    rnd.shuffle(g)
    out.extend(g[:share])
  return out


def run(ctx):
  from harness.adapters_x19 import fix
  quick = ctx.tier == "quick"
  rnd = random.Random(ctx.seed * 7919 + 19)
  ctx.rule = ("behaviours exported by TLC from TopoEnt.tla with Dev = AllDev (edge cover of the abstract state graph "
              "of three constant families + -simulate runs over the large constants) replayed on the real Topology / "
              "OpenFlowTopology / OpenFlowSwitch / Discovery / of_01.Connection (OpenFlow bytes on scripted sockets); "
              "the whole observation is compared after every step; plus seeded random implementation traces "
              "validated by TLC; distinct = distinct action/argument sequences")
  ctx.assumptions = [
      "bounds (model checking): registry with 7 generic objects (2 hosts, 2 generic switches, 1 plain entity, 2 "
      "controllers sharing an id) and 2 late listeners x 4 ways of subscribing; one dpid with 3 TCP sessions; two "
      "dpids with 3 sessions in total; 1-2 ports, 1-2 state values",
      "the code is bound to the AS-BUILT model (Dev = AllDev); the intended design (Dev = {}) is model-checked only",
      "timers (30 s reconnect timer, discovery's expiry check) are harness objects fired by the Expire / LinkTimeout "
      "steps; recoco.Timer itself is X04's subject; time is virtual (poxenv.clock)",
      "switch side = scripted peers writing OpenFlow bytes (harness/rawbytes.py) that the real of_01.Connection reads; "
      "discovery probes are built by discovery's own LLDPSender._create_discovery_packet",
      "events / timers of an OpenFlowSwitch object that has left the registry are not observed"]

  t0 = time.time()
  phases = ctx.notes.setdefault("phase_wall_s", {})

  # 1. the properties on the model
  jobs = [("MC_reg_q_strict.cfg", REG_ACTIONS, "registry, intended (quick constants)"),
          ("MC_reg_q_actual.cfg", REG_ACTIONS, "registry, as built (quick constants)"),
          ("MC_oneq_strict.cfg", ONE_ACTIONS, "one dpid / 3 sessions / 1 port, intended"),
          ("MC_oneq_actual.cfg", ONE_ACTIONS, "one dpid / 3 sessions / 1 port, as built"),
          ("MC_twoq_strict.cfg", TWO_ACTIONS, "two dpids / links / 1 port, intended"),
          ("MC_twoq_actual.cfg", TWO_ACTIONS, "two dpids / links / 1 port, as built")]
  if not quick:
    jobs += [("MC_reg_strict.cfg", REG_ACTIONS, "registry, intended"),
             ("MC_reg_actual.cfg", REG_ACTIONS, "registry, as built"),
             ("MC_one_strict.cfg", ONE_ACTIONS, "one dpid / 3 sessions / 2 ports, intended"),
             ("MC_one_actual.cfg", ONE_ACTIONS, "one dpid / 3 sessions / 2 ports, as built"),
             ("MC_two_strict.cfg", TWO_ACTIONS, "two dpids / links / 2 ports, intended"),
             ("MC_two_actual.cfg", TWO_ACTIONS, "two dpids / links / 2 ports, as built")]
  _mc(ctx, jobs)
  if not quick:
    # the intended design with exactly ONE deviation switched on must be refuted by the property the deviation is
    # listed against (so none of those properties holds vacuously)
    devs = sorted(DEV_BREAKS)
    res = tlc.run_many([dict(spec_dir="topoent", module="MCTopoEnt", cfg="DEV_Only%s.cfg" % d, workers=2, tag="X19",
                             timeout=3000, expect_violation=True, coverage=False) for d in devs], parallel=8)
    for d, r in zip(devs, res):
      if r.violated not in DEV_BREAKS[d]:
        raise tlc.TLCError("deviation %s alone: expected a violation of %s, TLC reports %s"
                           % (d, DEV_BREAKS[d], r.violated))
    ctx.notes["single_deviation_refuted_by"] = dict((d, r.violated) for d, r in zip(devs, res))
  phases["model_checking"] = round(time.time() - t0, 1)
  t0 = time.time()

  # 2. spec -> code: every transition of the abstract graph (as built)
  cfgs = ["EX_q_reg.cfg", "EX_q_one.cfg", "EX_q_two.cfg"] if quick else \
         ["EX_edges_reg.cfg", "EX_edges_oneq.cfg", "EX_edges_twoq.cfg"]
  per = 700 if quick else 8000
  okb = None
  seen_actions = set()
  for cfg, behs in zip(cfgs, _export(cfgs)):
    total = len(behs)
    behs = [fix(b) for b in _sample(behs, per, rnd)]
    seen_actions |= set(b[-1]["a"] for b in behs)
    st = core.replay(ctx, ADAPTER, behs, chunk=100)
    ctx.notes["replay_" + cfg[:-4]] = dict(exported=total, replayed=len(behs), **st)
    if okb is None and core.replay.last_ok:
      okb = behs[core.replay.last_ok[len(core.replay.last_ok) // 2]]
    del behs
  missing = [a for a in ALL_ACTIONS if a not in seen_actions]
  if missing:
    raise core.Machinery("edge cover never ends in: %s" % missing)

  phases["edge_cover_replay"] = round(time.time() - t0, 1)
  t0 = time.time()

  # 2b. random deep behaviours over the large constants
  num, depth = (120, 30) if quick else (1500, 45)
  r = tlc.run("topoent", "MCTopoEnt", "EX_sim.cfg" if quick else "EX_sim45.cfg", workers=1, coverage=False,
              simulate=dict(num=num), depth=depth + 1, seed=ctx.seed + 1, tag="X19", timeout=3000)
  behs = [fix(b) for b in r.tagged("H")]
  if len(behs) < num // 2:
    raise tlc.TLCError("simulation exported %d behaviours" % len(behs))
  st = core.replay(ctx, ADAPTER, behs, chunk=10 if quick else 40)
  ctx.notes["replay_sim"] = dict(behaviours=len(behs), depth=depth, **st)
  if okb is None and core.replay.last_ok:
    okb = behs[core.replay.last_ok[0]]

  # negative control of the replay: one corrupted expectation must be noticed
  if okb is not None:
    bad = copy.deepcopy(okb)
    bad[-1]["exp"]["log"] = bad[-1]["exp"]["log"] + [dict(src="topo", ev="Update", id="SwitchJoin", n=0, c=0)]
    nctx = core.Context("X19", ctx.tier, ctx.seed, ctx.level, clear=False)
    nctx.known = []
    core.replay(nctx, ADAPTER, [bad], procs=1)
    if not nctx.violations:
      raise core.Machinery("negative control: a corrupted expectation (one Update event too many) was not noticed")
    ctx.notes["negative_control_replay"] = "corrupted expectation noticed"
  elif not ctx.violations:
    raise core.Machinery("no behaviour replayed to its end and no mismatch reported")

  phases["simulation_replay"] = round(time.time() - t0, 1)
  t0 = time.time()

  # 3. code -> spec
  ntr, ln = (150, 40) if quick else (1200, 50)
  traces = core.run_driver("props.X19:drive", [(ctx.seed * 100003 + i, ln) for i in range(ntr)])
  bad = copy.deepcopy(traces[0])
  for e in bad:
    if e["obs"]["log"]:
      e["obs"]["log"] = e["obs"]["log"][:-1]          # one delivered event goes missing
      break
  else:
    bad[0]["obs"]["exc"] = ["Corrupted"]
  r, rej = tracecheck.validate("topoent", "TraceTopoEnt", "Trace.cfg", traces + [bad], tag="X19")
  ctx.add_model("TraceTopoEnt (validation of %d implementation traces)" % ntr, r)
  if len(traces) not in [t for t, _ in rej]:
    raise tlc.TLCError("negative control (a delivered event removed from a trace) was accepted by the trace spec")
  for t, matched in rej:
    if t == len(traces):
      continue
    ev = traces[t][matched]
    ctx.report(dict(action=ev["a"], via="trace", exc=ev["obs"].get("exc")),
               dict(trace=traces[t][:matched + 1], failing_step=matched, note="TLC rejected the trace at this event"))
  ctx.traces += len(traces)
  for t in traces[:2000]:
    ctx.case(core.fp([[e["a"], e["args"]] for e in t]), sample=None)
  acts = {}
  for t in traces:
    for e in t:
      acts[e["a"]] = acts.get(e["a"], 0) + 1
  if set(ALL_ACTIONS) - set(acts) and not ctx.violations:      # (with violations the verdict is theirs)
    raise core.Machinery("random driver never performed: %s" % sorted(set(ALL_ACTIONS) - set(acts)))
  ctx.notes["trace_validation"] = dict(traces=len(traces), events=sum(len(t) for t in traces), per_action=acts,
                                       rejected=len(rej) - 1, negative_control_rejected=True)
  phases["trace_validation"] = round(time.time() - t0, 1)
  ctx.exhaustive = True


def replay_one(ctx, rep):
  """./check X19 --replay FILE for a finding that came from trace validation"""
  if "behaviour" in rep:
    return core.replay(ctx, rep["adapter"], [rep["behaviour"]], params=rep.get("params"), procs=1)
  tr = drive_events([(e["a"], e["args"]) for e in rep["trace"]])
  r, rej = tracecheck.validate("topoent", "TraceTopoEnt", "Trace.cfg", [tr], tag="X19")
  for t, matched in rej:
    ev = tr[matched]
    ctx.report(dict(action=ev["a"], via="trace", exc=ev["obs"].get("exc")),
               dict(trace=tr[:matched + 1], failing_step=matched))


# --------------------------------------------------------------------------
# random driver (runs in worker processes)

OBJS = ["h1", "h2", "gs", "gs2", "e1", "c1", "c2"]
OBJ_ID = {"h1": "h1", "h2": "h2", "gs": "gs", "gs2": "gs2", "e1": "e1", "c1": "ctl", "c2": "ctl"}
OBJ_TAG = {"c2": 2}
HOWS = ["cls", "cls0", "name0", "auto"]
KINDS = ["PacketIn", "BarrierIn", "FlowRemoved"]
MAXCONN = 8
EMPTY = dict(log=[], told=[], exc=["DRIVER"], st=dict(ents=[], sws=[], links=[], ztimers=[]))


def _wf(o):
  try:
    assert set(o) == {"log", "told", "exc", "st"} and set(o["st"]) == {"ents", "sws", "links", "ztimers"}
    for e in o["log"]:
      assert set(e) == {"src", "ev", "id", "n", "c"} and isinstance(e["id"], str) and isinstance(e["n"], int) \
          and isinstance(e["c"], int)
    for e in o["told"]:
      assert set(e) == {"k", "id", "tag"} and isinstance(e["id"], str)
    assert all(isinstance(x, str) for x in o["exc"])
    for e in o["st"]["ents"]:
      assert set(e) == {"id", "kind", "tag"} and isinstance(e["id"], str) and isinstance(e["tag"], int)
    for s in o["st"]["sws"]:
      assert set(s) == {"d", "gen", "conn", "armed", "ports", "adj"} and isinstance(s["armed"], bool)
      assert all(set(p) == {"p", "st"} for p in s["ports"])
      assert all(set(p) == {"p", "d", "g", "live"} and isinstance(p["live"], bool) for p in s["adj"])
    return True
  except (AssertionError, TypeError, KeyError, AttributeError):
    return False


def _do(ad, a, args):
  try:
    obs = ad.step(a, args)
    wf = _wf(obs)
  except Exception as e:      # noqa
    obs, wf = dict(EMPTY, exc=["DRIVER:" + type(e).__name__]), False
  if not wf and obs is not None and not _wf(obs):
    obs = dict(EMPTY)
  return dict(a=a, args=args, obs=obs, wf=wf)


def drive_events(events):
  from harness.adapters_x19 import Adapter
  ad = Adapter()
  return [_do(ad, a, args) for a, args in events]


def drive(arg):
  """Random operation sequence on the real code; the choice of the next operation only uses what the code
  itself reported (so a wrong report is rejected where it is made, not later as a driver artefact)."""
  seed, n = arg
  from harness.adapters_x19 import Adapter
  rnd = random.Random(seed)
  ad = Adapter()
  tr = []
  live, ncon = [], 0
  late = set()
  st = dict(ents=[], sws=[], links=[], ztimers=[])
  # a few behaviours concentrate on the registry, the rest on the bridge
  wreg = 0.6 if seed % 5 == 0 else 0.15
  while len(tr) < n:
    k = rnd.random()
    a = args = None
    if k < wreg:
      j = rnd.random()
      if j < 0.45:
        a, args = "AddObj", dict(o=rnd.choice(OBJS))
      elif j < 0.8:
        o = rnd.choice(OBJS)
        there = [e for e in st["ents"] if e["id"] == OBJ_ID[o]]
        if there and there[0]["tag"] != OBJ_TAG.get(o, 1):
          continue          # another object holds the id: left out of the model
        a, args = "RemoveObj", dict(o=o)
      else:
        free = [x for x in (1, 2) if x not in late]
        if not free:
          continue
        kk = rnd.choice(free)
        late.add(kk)
        a, args = "Listen", dict(k=kk, how=rnd.choice(HOWS))
    else:
      j = rnd.random()
      armed = [s["d"] for s in st["sws"] if s["armed"]] + list(st["ztimers"])
      if j < 0.14 and ncon < MAXCONN:
        ncon += 1
        live.append(ncon)
        a, args = "Connect", dict(s=rnd.choice([1, 2]), ports=[rnd.choice([0, 0, 1, 9]), rnd.choice([0, 1, 9])])
      elif j < 0.24 and live:
        c = rnd.choice(live)
        live.remove(c)
        a, args = "Down", dict(c=c)
      elif j < 0.32 and armed:
        a, args = "Expire", dict(s=rnd.choice(armed))
      elif j < 0.55 and live:
        a, args = "PortStatus", dict(c=rnd.choice(live), r=rnd.choice(["add", "mod", "del"]), p=rnd.choice([1, 2]),
                                     st=rnd.choice([0, 1]))
      elif j < 0.68 and live:
        a, args = "ConEvent", dict(c=rnd.choice(live), kind=rnd.choice(KINDS), halt=rnd.random() < 0.5)
      elif j < 0.93 and live:
        a, args = "Probe", dict(a=rnd.choice([1, 2]), p=rnd.choice([1, 2]), c=rnd.choice(live), q=rnd.choice([1, 2]))
      elif st["links"]:
        a, args = "LinkTimeout", dict(x=0)
    if a is None:
      continue
    ev = _do(ad, a, args)
    tr.append(ev)
    if ev["wf"]:
      st = ev["obs"]["st"]
  return tr
