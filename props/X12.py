"""X12 - RIP distance-vector core (pox/proto/rip/rip_core.py).

specs/rip/RipCore.tla (one router as pure operators), Rip.tla (one router and its environment) and RipNet.tla
(a small network of such routers) are model-checked; behaviours exported by TLC are replayed on the real
rip_core code (harness/x12_env.py: minimal RIPRouter subclass, real recoco Timers under the virtual clock, real
pox.lib.packet.rip bytes in and out) with the whole table / timers / packets compared after every step; traces
recorded from the real code by a seeded random driver are validated by TLC against the same specs (every
invariant and action property evaluated at each step), with a corrupted trace as negative control.
"""
import copy
import json
import random

from engine import tlc, core, tracecheck

ADAPTER = "harness.adapters_x12:Adapter"
NET_ADAPTER = "harness.adapters_x12:NetAdapter"
RIP_ACTIONS = ["Response", "Request", "Timeout", "Garbage", "Fire", "Periodic", "Query", "Tick"]
CFG_ACTIONS = ["AddStatic", "AddConnected", "AddLocal", "AddIface"]

# what the adapter needs to know about each configuration (mirrors the .cfg files)
WORLD = {
    "EX_lan": dict(T=2, G=1, R=1, mtu=104),
    "EX_p2p": dict(T=2, G=1, R=2, mtu=104),
    "EX_sim": dict(T=25, G=70, R=2, mtu=124),
}


def canon(x):
  return json.dumps(x, sort_keys=True, separators=(",", ":"))


def sort_exp(beh):
  """canonical order for the set-valued fields of exported expectations (the adapter sorts the same way)"""
  for st in beh:
    e = st["exp"]
    if "tbl" in e:
      e["tbl"] = sorted(e["tbl"])
    for o in (e.get("out") or {}).values():
      o["adv"] = sorted(o["adv"])
    for r in (e.get("net") or {}).values():
      r["tbl"] = sorted(r["tbl"])
  return beh


def sample_raw(raws, n, seed):
  """a seeded sample of n exported behaviours (all of them if there are fewer), decoded"""
  idx = list(range(len(raws)))
  if len(raws) > n:
    random.Random(seed).shuffle(idx)
    idx = sorted(idx[:n])
  return [sort_exp(json.loads(json.loads(raws[i]))) for i in idx]


def check_model(ctx, name, module, cfg, actions, spec_dir="rip", timeout=1500, workers=8):
  r = tlc.run(spec_dir, module, cfg, tag="X12", timeout=timeout, workers=workers)
  if r.violated:
    raise tlc.TLCError("spec %s %s violates its own property %s:\n%s" % (module, cfg, r.violated, r.error_trace))
  tlc.require_coverage(r, actions, name)
  ctx.add_model(name, r)
  return r


def run(ctx):
  quick = ctx.tier == "quick"
  ctx.rule = ("behaviours exported by TLC from Rip.tla / RipNet.tla (edge cover: shortest path to every abstract "
              "state + each outgoing transition; -simulate runs with the code's own timer constants) replayed on the "
              "real rip_core router(s); distinct = distinct action/argument sequences; non-trivial = contains at "
              "least one RIP response")
  ctx.assumptions = [
      "one router: <= 3 neighbours on 2 interfaces, <= 3 prefixes (+ /32 routes of neighbours and own addresses); "
      "exhaustive worlds use T=3 G=2 R=2 (T=2 G=1 in the odd-entries world), simulations and traces the code's 25/70/2",
      "time is integral; timers that are due at the same instant may fire in any order (each is its own action)",
      "RIP messages are built with pox.lib.packet.rip, packed, and parsed again on the other side",
      "the minimal router subclass copies LinuxRIPRouter.run/send_updates and the static/local route constructors "
      "of ovs_rip / linux_rip (harness/x12_env.py)",
  ]
  # 1. the properties on the model
  jobs = [("Rip LAN world", "MC_lan.cfg", RIP_ACTIONS + CFG_ACTIONS)]
  if not quick:
    jobs += [("Rip point-to-point world", "MC_p2p.cfg", RIP_ACTIONS + ["AddStatic", "AddIface"]),
             ("Rip odd-entries world", "MC_odd.cfg", RIP_ACTIONS)]
  res = tlc.run_many([dict(spec_dir="rip", module="MCRip", cfg=c, tag="X12", timeout=1500, workers=4) for _, c, _ in jobs],
                     parallel=3)
  for (name, cfg, acts), r in zip(jobs, res):
    if r.violated:
      raise tlc.TLCError("spec MCRip %s violates its own property %s:\n%s" % (cfg, r.violated, r.error_trace))
    tlc.require_coverage(r, acts, name)
    ctx.add_model(name, r)
  # 2. spec -> code: every transition of the abstract graph of the small worlds
  nontriv = lambda b: any(s["a"] in ("Response", "Deliver") for s in b)
  for cfg in ["EX_lan", "EX_p2p"]:
    r = tlc.run("rip", "MCRip", cfg + ".cfg", workers=1, coverage=False, tag="X12", timeout=1500)
    raws = r.tagged_raw("T")
    if not raws:
      raise tlc.TLCError("no behaviours exported by %s" % cfg)
    behs = sample_raw(raws, 4000 if quick else len(raws), ctx.seed + 7)
    st = core.replay(ctx, ADAPTER, behs, params=WORLD[cfg], nontrivial=nontriv)
    ctx.notes["replay_" + cfg] = dict(exported=len(raws), behaviours=len(behs), **st)
  ctx.exhaustive = not quick


# ----------------------------------------------------------------------------------------------------------
# code -> spec: seeded random driver on the real router, timers fired in the real hub's order

KEYS = ["p1", "p2", "p3", "a", "b", "c", "s1", "s2"]
STATIC = [("p1", "a", 1), ("p2", "c", 3), ("p3", "b", 15)]
LOCAL = [("p3", 1), ("p2", 5)]
CONN = [("p1", "i1"), ("p3", "i2")]
DUMMY = dict(tbl=[], trig=[], out={"i1": dict(adv=[], sizes=[]), "i2": dict(adv=[], sizes=[])}, sync=0, orph=0, wire="bad")
ROW_TYPES = (str, str, int, str, str, bool, str, int)


def wellformed(o):
  """fixed schema, uniform types (TLC refuses to compare a string with an integer)"""
  try:
    if set(o) != set(DUMMY) or set(o["out"]) != {"i1", "i2"}:
      return False
    for row in o["tbl"]:
      if len(row) != 8 or any(type(v) is not t for v, t in zip(row, ROW_TYPES)):
        return False
    if any(type(v) is not int for v in o["trig"]):
      return False
    for p in o["out"].values():
      if set(p) != {"adv", "sizes"} or any(type(v) is not int for v in p["sizes"]):
        return False
      if any(len(e) != 2 or type(e[0]) is not str or type(e[1]) is not int for e in p["adv"]):
        return False
    return type(o["sync"]) is int and type(o["orph"]) is int and type(o["wire"]) is str
  except Exception:
    return False


def due_timer_event(ad):
  """the timer the real SelectHub would release first now, as a spec event (None: nothing is due)"""
  from harness import x12_env as env
  for t, due in env.timers():
    if t._cancelled or due > env.clock.now:
      continue
    kind = env.cb_kind(t)
    if kind == "trig":
      return "Fire", dict(x=0)
    for e in ad.r.table.values():
      if e.t is t:
        return ("Timeout" if kind == "to" else "Garbage"), dict(k=ad.names.key(e.ip, e.size))
    return "Orphan", dict(x=0)
  return None


def next_due(ad):
  from harness import x12_env as env
  ds = [due - env.clock.now for t, due in env.timers() if not t._cancelled]
  return min(ds) if ds else None


def drive(arg):
  """Random operation sequence on the real router; returns the recorded trace."""
  seed, n = arg
  from harness.adapters_x12 import Adapter
  rnd = random.Random(seed)
  ad = Adapter(T=25, G=70, R=2, mtu=124)
  tr = []
  metrics = [0, 1, 1, 1, 2, 2, 3, 7, 14, 15, 16, 16, 17]
  calm = rnd.random() < 0.5            # calm runs let routes live and die; busy ones keep rewriting the table
  while len(tr) < n:
    ev = due_timer_event(ad)
    if ev is not None and rnd.random() < 0.85:
      a, args = ev
    else:
      k = rnd.random()
      if k < (0.25 if calm else 0.45):
        nb = rnd.choice("abc")
        ents = []
        for _ in range(rnd.choice([0, 1, 1, 1, 2, 2, 3])):
          ents.append(dict(k=rnd.choice(KEYS[:3] if rnd.random() < 0.8 else KEYS), m=rnd.choice(metrics),
                           tag=0 if rnd.random() < 0.93 else 5, af="inet" if rnd.random() < 0.93 else "other"))
        a, args = "Response", dict(n=nb, i=ad.ifof[nb] if rnd.random() < 0.93 else "none", ents=ents)
      elif k < 0.75:
        if ev is not None:
          continue                     # time cannot pass over a timer that is due
        d = rnd.choice([1, 1, 2, 3, 5, 8, 12, 13, 20, 25, 45, 70])
        nd = next_due(ad)
        if nd is not None:
          d = min(d, int(nd))
        if d < 1:
          continue
        a, args = "Advance", dict(d=d)
      elif k < 0.81:
        a, args = "Periodic", dict(x=0)
      elif k < 0.84:
        a, args = "Request", dict(n=rnd.choice("abc"))
      elif k < 0.92:
        a, args = "Query", dict(i=rnd.choice(["i1", "i2"]), force=rnd.random() < 0.7, so=rnd.random() < 0.3,
                                mtu=rnd.choice([64, 84, 104, 124, 564, 1400]))
      elif calm and rnd.random() < 0.7:
        continue
      else:
        c = rnd.randrange(4)
        if c == 0:
          s = rnd.choice(STATIC)
          a, args = "AddStatic", dict(k=s[0], nh=s[1], m=s[2])
        elif c == 1:
          s = rnd.choice(LOCAL)
          a, args = "AddLocal", dict(k=s[0], m=s[1])
        elif c == 2:
          s = rnd.choice(CONN)
          a, args = "AddConnected", dict(k=s[0], i=s[1])
        else:
          a, args = "AddIface", dict(s=rnd.choice(["s1", "s2"]))
    if a == "Orphan":
      obs, wf = copy.deepcopy(DUMMY), False
    else:
      try:
        obs = ad.step(a, args)
        wf = wellformed(obs)
      except Exception as e:
        obs, wf = {"exc": type(e).__name__}, False
      if not wf:
        obs = copy.deepcopy(DUMMY)
    tr.append(dict(a=a, args=args, obs=obs, wf=wf))
    if not wf:
      break
  ad.close()
  return tr
