"""X12 - RIP distance-vector core (pox/proto/rip/rip_core.py).

specs/rip/RipCore.tla (one router as pure operators), Rip.tla (one router and its environment) and RipNet.tla
(a small network of such routers) are model-checked; behaviours exported by TLC are replayed on the real
rip_core code (harness/x12_env.py: minimal RIPRouter subclass, real recoco Timers under the virtual clock, real
pox.lib.packet.rip bytes in and out) with the whole table / timers / packets compared after every step; traces
recorded from the real code by a seeded random driver are validated by TLC against the same specs (every
invariant and action property evaluated at each step), with a corrupted trace as negative control.
"""
import copy
import json
import random

from engine import tlc, core, tracecheck

ADAPTER = "harness.adapters_x12:Adapter"
NET_ADAPTER = "harness.adapters_x12:NetAdapter"
RIP_ACTIONS = ["Response", "Request", "Timeout", "Garbage", "Fire", "Periodic", "Query", "Tick"]
CFG_ACTIONS = ["AddStatic", "AddConnected", "AddLocal", "AddIface"]

# what the adapter needs to know about each configuration (mirrors the .cfg files)
WORLD = {
    "EX_lan": dict(T=2, G=1, R=1, mtu=104),
    "EX_p2p": dict(T=2, G=1, R=2, mtu=104),
    "EX_sim": dict(T=6, G=9, R=2, mtu=124),
}


def canon(x):
  return json.dumps(x, sort_keys=True, separators=(",", ":"))


def sort_exp(beh):
  """canonical order for the set-valued fields of exported expectations (the adapters sort the same way)"""
  for st in beh:
    e = st["exp"]
    if "tbl" in e:
      e["tbl"] = sorted(e["tbl"])
    for o in (e.get("out") or {}).values():
      o["adv"] = sorted(o["adv"])
    for r in (e.get("net") or {}).values():
      r["tbl"] = sorted(r["tbl"])
    for k in ("q", "sent"):
      if k in e:
        e[k] = sorted(e[k])
  return beh


def decode(raw):
  return sort_exp(json.loads(json.loads(raw)))


def sample_raw(raws, n, seed):
  """a seeded sample of n exported behaviours (all of them if there are fewer), decoded"""
  idx = list(range(len(raws)))
  if len(raws) > n:
    random.Random(seed).shuffle(idx)
    idx = sorted(idx[:n])
  return [decode(raws[i]) for i in idx]


def distinct_prefixes(behs, per=2):
  """-simulate prints every candidate last step of a random walk: keep at most `per` behaviours per walk"""
  seen = {}
  out = []
  for b in behs:
    k = core.fp([[s["a"], s.get("args")] for s in b[:-1]])
    if seen.get(k, 0) < per:
      seen[k] = seen.get(k, 0) + 1
      out.append(b)
  return out


class _Probe(object):
  """stand-in context for negative controls: counts the mismatches replay reports, records nothing"""
  def __init__(self):
    self.traces = 0
    self.reports = []

  def case(self, *a, **kw):
    pass

  def report(self, sig, replay):
    self.reports.append(sig)
    return "violation"


def must_reject(adapter, beh, params, corrupt, what):
  """negative control: the same behaviour with one expectation corrupted must be reported as a mismatch"""
  bad = copy.deepcopy(beh)
  if not corrupt(bad):
    raise tlc.TLCError("negative control %s: nothing to corrupt" % what)
  p = _Probe()
  core.replay(p, adapter, [bad], params=params, procs=1)
  if not p.reports:
    raise tlc.TLCError("negative control %s: corrupted expectation was accepted by the replay" % what)


def corrupt_metric(beh):
  for st in reversed(beh):
    for row in st["exp"].get("tbl", []):
      if row[4] == "dyn":
        row[2] = row[2] - 1 if row[2] > 1 else row[2] + 1
        return True
  return False


def corrupt_ttl(beh):
  for st in reversed(beh):
    for row in st["exp"].get("tbl", []):
      if row[6] in ("to", "gc") and row[7] > 0:
        row[7] -= 1
        return True
  return False


def corrupt_adv(beh):
  for st in reversed(beh):
    for o in (st["exp"].get("out") or {}).values():
      if o["adv"]:
        o["adv"] = o["adv"][:-1]
        o["sizes"] = [len(o["adv"])] if o["adv"] else []
        return True
  return False


def corrupt_net(beh):
  for st in reversed(beh):
    for r in (st["exp"].get("net") or {}).values():
      for row in r["tbl"]:
        if row[4] == "dyn" and row[2] < 16:
          row[2] += 1
          return True
  return False


P2P = {"r1": "r1", "r2": "r2", "r3": "r3", "h": "h"}
LANIF = {"r1": "lan", "r2": "lan", "r3": "lan", "h": "h"}
TRI = [["r1", "r2"], ["r2", "r3"], ["r1", "r3"]]
NET = {
    "EXN_line": dict(routers=["r1", "r2", "r3"], links=[["r1", "r2"], ["r2", "r3"]], stubs=[], ifof=P2P, T=6, G=4, R=1, S=2),
    "EXN_tri": dict(routers=["r1", "r2", "r3"], links=TRI, stubs=[["h", "r3"]], ifof=P2P, T=4, G=2, R=1, S=2),
    "EXN_lan": dict(routers=["r1", "r2", "r3"], links=TRI, stubs=[["h", "r3"]], ifof=LANIF, T=4, G=2, R=1, S=2),
    "EXN_count": dict(routers=["r1", "r2", "r3"], links=TRI, stubs=[["h", "r3"]], ifof=P2P, T=4, G=2, R=1, S=2),
}
BIGSTACK = {"JAVA_TOOL_OPTIONS": "-Xss32m"}     # responses of 70 entries are folded recursively by the spec
NET_ACTIONS = ["Boot", "Send", "Fire", "Deliver", "Timeout", "Garbage", "Tick"]


def _lap(ctx, what):
  import time
  now = time.time()
  ctx.notes.setdefault("wall_by_phase", {})[what] = round(now - getattr(ctx, "_lap", ctx.t0), 1)
  ctx._lap = now


def run(ctx):
  quick = ctx.tier == "quick"
  ctx.rule = ("behaviours exported by TLC from Rip.tla / RipNet.tla (edge cover: shortest path to every abstract "
              "state + each outgoing transition; -simulate runs; the counting-to-infinity scenario) replayed on the "
              "real rip_core router(s); distinct = distinct action/argument sequences; non-trivial = contains at "
              "least one RIP response / delivered datagram")
  ctx.assumptions = [
      "one router: <= 3 neighbours on 2 interfaces, <= 3 prefixes (+ /32 routes of neighbours and own addresses); "
      "exhaustive worlds use T=3 G=2 R=2 (T=2 G=1 in the odd-entries world), simulations T=6 G=9 R=2, recorded "
      "traces the code's own 25/70/2",
      "network: 3 routers (line with one link failure; triangle and LAN with a host that dies), S=2 T=6|4 G=4|2 R=1; "
      "a datagram is never delayed but everything due at one instant happens in any order; triangle/LAN liveness "
      "is checked under the SlowLink scenario constraint with one boot alignment (the full graphs exceed the budget)",
      "time is integral; timers that are due at the same instant may fire in any order (each is its own action)",
      "RIP messages are built with pox.lib.packet.rip, packed, and parsed again on the other side",
      "the minimal router subclass copies LinuxRIPRouter.run/send_updates and the static/local route constructors "
      "of ovs_rip / linux_rip (harness/x12_env.py)",
  ]
  # ---- all TLC runs of the tier, concurrently
  J = lambda module, cfg, **kw: dict(dict(spec_dir="rip", module=module, cfg=cfg, tag="X12", timeout=1700), **kw)
  X = dict(workers=1, coverage=False)
  nsim = 12 if quick else 120
  jobs = {
      "MC_lan": J("MCRip", "MC_lan.cfg", workers=4),
      "NET_counts": J("MCRipNet", "NET_tri_counts.cfg", workers=2, expect_violation=True),
      "EX_lan": J("MCRip", "EX_lan.cfg", **X),
      "EX_p2p": J("MCRip", "EX_p2p.cfg", **X),
      "EX_sim": J("MCRip", "EX_sim.cfg", simulate=dict(num=30 if quick else 400), depth=61, seed=ctx.seed + 1, **X),
      "EXN_count": J("MCRipNet", "EXN_count.cfg", **X),
  }
  for w in ("line", "tri", "lan"):
    jobs["EXN_" + w] = J("MCRipNet", "EXN_%s.cfg" % w, simulate=dict(num=nsim), depth=101, seed=ctx.seed + 2, **X)
  if quick:
    jobs["NET_line0"] = J("MCRipNet", "NET_line0.cfg", workers=2)
  else:
    jobs.update({
        "MC_p2p": J("MCRip", "MC_p2p.cfg", workers=4),
        "MC_odd": J("MCRip", "MC_odd.cfg", workers=4),
        "NET_line": J("MCRipNet", "NET_line.cfg", workers=2),
        "NET_tri_slow": J("MCRipNet", "NET_tri_slow.cfg", workers=2),
        "NET_lan_slow": J("MCRipNet", "NET_lan_slow.cfg", workers=2),
    })
  names = list(jobs)
  res = dict(zip(names, tlc.run_many([jobs[n] for n in names], parallel=8)))

  _lap(ctx, "tlc")
  ctx.notes["tlc_wall"] = {n: round(r.wall, 1) for n, r in res.items()}
  # ---- 1. the properties on the models (with the vacuity guard)
  models = [("MC_lan", "Rip LAN world", RIP_ACTIONS + CFG_ACTIONS),
            ("MC_p2p", "Rip point-to-point world", RIP_ACTIONS + ["AddStatic", "AddIface"]),
            ("MC_odd", "Rip odd-entries world", RIP_ACTIONS + ["AddIface"]),
            ("NET_line0", "RipNet line, no failure (safety + convergence)", ["Boot", "Send", "Fire", "Deliver", "Tick"]),
            ("NET_line", "RipNet line, one link failure (safety + convergence)", NET_ACTIONS + ["LinkDown"]),
            ("NET_tri_slow", "RipNet triangle + dying host, SlowLink scenario (safety + convergence)", NET_ACTIONS),
            ("NET_lan_slow", "RipNet LAN + dying host, SlowLink scenario (safety + convergence)", NET_ACTIONS)]
  for key, name, acts in models:
    if key not in res:
      continue
    r = res[key]
    if r.violated:
      raise tlc.TLCError("spec %s violates its own property %s:\n%s" % (key, r.violated, r.error_trace))
    tlc.require_coverage(r, acts, name)
    ctx.add_model(name, r)
  r = res["NET_counts"]
  if r.violated != "NeverCounts":
    raise tlc.TLCError("vacuous network model: no router ever counts beyond 5 hops towards the dead host "
                       "(NeverCounts was expected to be violated, TLC says %r)" % (r.violated,))
  ctx.add_model("RipNet triangle: witness that the model counts to infinity (NeverCounts violated as expected)", r)

  # ---- 2. spec -> code, one router: every transition of the small worlds, random deep behaviours
  nontriv = lambda b: any(s["a"] in ("Response", "Deliver") for s in b)
  for cfg in ["EX_lan", "EX_p2p"]:
    raws = res[cfg].tagged_raw("T")
    if not raws:
      raise tlc.TLCError("no behaviours exported by %s" % cfg)
    behs = sample_raw(raws, 2500 if quick else len(raws), ctx.seed + 7)
    st = core.replay(ctx, ADAPTER, behs, params=WORLD[cfg], nontrivial=nontriv)
    ctx.notes["replay_" + cfg] = dict(exported=len(raws), behaviours=len(behs), **st)
    if cfg == "EX_lan":
      ok = [behs[i] for i in core.replay.last_ok if len(behs[i]) >= 4]
      for corrupt, what in ((corrupt_metric, "metric"), (corrupt_ttl, "timer"), (corrupt_adv, "advertisement")):
        cand = [b for b in ok if corrupt(copy.deepcopy(b))]
        if not cand:
          raise tlc.TLCError("negative control %s: no behaviour to corrupt" % what)
        must_reject(ADAPTER, cand[len(cand) // 2], WORLD[cfg], corrupt, what)
      ctx.notes["replay_negative_controls"] = ["metric", "timer", "advertisement", "network metric"]
  behs = distinct_prefixes([decode(x) for x in res["EX_sim"].tagged_raw("H")])
  if len(behs) < 20:
    raise tlc.TLCError("simulation exported %d behaviours" % len(behs))
  st = core.replay(ctx, ADAPTER, behs, params=WORLD["EX_sim"], nontrivial=nontriv, chunk=10)
  ctx.notes["replay_EX_sim"] = dict(behaviours=len(behs), depth=60, **st)

  _lap(ctx, "replay_router")
  # ---- 3. spec -> code, network
  for cfg in ["EXN_line", "EXN_tri", "EXN_lan"]:
    behs = distinct_prefixes([decode(x) for x in res[cfg].tagged_raw("H")])
    if len(behs) < nsim // 2:
      raise tlc.TLCError("network simulation %s exported %d behaviours" % (cfg, len(behs)))
    st = core.replay(ctx, NET_ADAPTER, behs, params=NET[cfg], nontrivial=nontriv, chunk=4)
    ctx.notes["replay_" + cfg] = dict(behaviours=len(behs), depth=100, **st)
    if cfg == "EXN_tri":
      must_reject(NET_ADAPTER, behs[core.replay.last_ok[0]], NET[cfg], corrupt_net, "network metric")
  raws = res["EXN_count"].tagged_raw("T")
  if not raws:
    raise tlc.TLCError("the counting-to-infinity scenario exported no behaviour")
  behs = sample_raw(raws, 24 if quick else 400, ctx.seed + 9)
  peak = max(row[2] for b in behs for s in b for r in s["exp"]["net"].values() for row in r["tbl"] if row[0] == "h" and row[2] < 16)
  if peak != 15:
    raise tlc.TLCError("counting scenario: highest finite metric towards the dead host is %d, not 15" % peak)
  st = core.replay(ctx, NET_ADAPTER, behs, params=NET["EXN_count"], nontrivial=nontriv, chunk=2)
  ctx.notes["replay_EXN_count"] = dict(exported=len(raws), behaviours=len(behs), peak_metric=peak, **st)

  _lap(ctx, "replay_network")
  # ---- 4. code -> spec: random driver on the real router (the code's own 25/70/2), traces validated by TLC
  ntr = 150 if quick else 2500
  traces = core.run_driver("props.X12:drive", [(ctx.seed * 100003 + i, 80) for i in range(ntr)])
  bad = copy.deepcopy(next(t for t in traces if any(e["a"] == "Timeout" for e in t)))
  for e in bad:                         # negative control: a route that "timed out" one metric short of infinity
    if e["a"] == "Timeout":
      for row in e["obs"]["tbl"]:
        if row[0] == e["args"]["k"]:
          row[2] = 15
      break
  r, rej = tracecheck.validate("rip", "TraceRip", "Trace.cfg", traces + [bad], tag="X12")
  ctx.add_model("TraceRip (validation of %d implementation traces)" % ntr, r)
  if len(traces) not in [t for t, _ in rej]:
    raise tlc.TLCError("negative control (timed-out route with metric 15) was accepted by the trace spec")
  for t, matched in rej:
    if t == len(traces):
      continue
    ev = traces[t][matched]
    ctx.report(dict(action=ev["a"], via="trace", wf=ev["wf"]),
               dict(trace=traces[t][:matched + 1], failing_step=matched, note="TLC rejected the trace at this event"))
  ctx.traces += len(traces)
  for t in traces[:3000]:
    ctx.case(core.fp([[e["a"], e["args"]] for e in t]), sample=None)
  ctx.notes["trace_validation"] = dict(traces=len(traces), events=sum(len(t) for t in traces),
                                       rejected=len(rej) - 1, negative_control_rejected=True)
  _lap(ctx, "traces")
  # ---- 5. the same with up to 140 routes: package_responses at the real MTUs (DEFAULT_MTU: 66 entries per packet)
  nb = 12 if quick else 200
  bulk = core.run_driver("props.X12:drive_bulk", [ctx.seed * 7919 + i for i in range(nb)])
  bad = None
  for t in bulk:                        # negative control: one entry moved from the first packet to the second
    for j, e in enumerate(t):
      if e["a"] in ("Query", "Periodic") and any(len(p["sizes"]) > 1 and p["sizes"][0] > 1 for p in e["obs"]["out"].values()):
        bad = copy.deepcopy(t[:j + 1])
        p = next(p for p in bad[j]["obs"]["out"].values() if len(p["sizes"]) > 1 and p["sizes"][0] > 1)
        p["sizes"][0] -= 1
        p["sizes"][1] += 1
        break
    if bad:
      break
  if bad is None:
    raise tlc.TLCError("bulk traces: no update was split into several packets")
  r, rej = tracecheck.validate("rip", "TraceRip", "TraceBig.cfg", bulk + [bad], tag="X12", extra_env=BIGSTACK)
  ctx.add_model("TraceRip, bulk world (validation of %d implementation traces)" % nb, r)
  if len(bulk) not in [t for t, _ in rej]:
    raise tlc.TLCError("negative control (entry moved to the next packet) was accepted by the trace spec")
  for t, matched in rej:
    if t == len(bulk):
      continue
    ev = bulk[t][matched]
    ctx.report(dict(action=ev["a"], via="bulk-trace", wf=ev["wf"]),
               dict(trace=[dict(a=e["a"], args=e["args"] if e["a"] != "Response" else dict(n=e["args"]["n"], i=e["args"]["i"], ents=len(e["args"]["ents"])))
                           for e in bulk[t][:matched + 1]],
                    observed=ev["obs"]["out"], failing_step=matched, note="TLC rejected the trace at this event"))
  ctx.traces += len(bulk)
  for t in bulk:
    ctx.case(core.fp([[e["a"], e["args"]] for e in t]), sample=None)
  ctx.notes["bulk_trace_validation"] = dict(traces=len(bulk), max_packet=max([s for t in bulk for e in t for p in e["obs"]["out"].values() for s in p["sizes"]] + [0]),
                                            rejected=len(rej) - 1, negative_control_rejected=True)
  _lap(ctx, "bulk_traces")
  ctx.exhaustive = not quick


# ----------------------------------------------------------------------------------------------------------
# code -> spec: seeded random driver on the real router, timers fired in the real hub's order

KEYS = ["p1", "p2", "p3", "a", "b", "c", "s1", "s2"]
STATIC = [("p1", "a", 1), ("p2", "c", 3), ("p3", "b", 15)]
LOCAL = [("p3", 1), ("p2", 5)]
CONN = [("p1", "i1"), ("p3", "i2")]
DUMMY = dict(tbl=[], trig=[], out={"i1": dict(adv=[], sizes=[]), "i2": dict(adv=[], sizes=[])}, sync=0, orph=0, wire="bad")
ROW_TYPES = (str, str, int, str, str, bool, str, int)


def wellformed(o):
  """fixed schema, uniform types (TLC refuses to compare a string with an integer)"""
  try:
    if set(o) != set(DUMMY) or set(o["out"]) != {"i1", "i2"}:
      return False
    for row in o["tbl"]:
      if len(row) != 8 or any(type(v) is not t for v, t in zip(row, ROW_TYPES)):
        return False
    if any(type(v) is not int for v in o["trig"]):
      return False
    for p in o["out"].values():
      if set(p) != {"adv", "sizes"} or any(type(v) is not int for v in p["sizes"]):
        return False
      if any(len(e) != 2 or type(e[0]) is not str or type(e[1]) is not int for e in p["adv"]):
        return False
    return type(o["sync"]) is int and type(o["orph"]) is int and type(o["wire"]) is str
  except Exception:
    return False


def due_timer_event(ad):
  """the timer the real SelectHub would release first now, as a spec event (None: nothing is due)"""
  from harness import x12_env as env
  for t, due in env.timers():
    if t._cancelled or due > env.clock.now:
      continue
    kind = env.cb_kind(t)
    if kind == "trig":
      return "Fire", dict(x=0)
    for e in ad.r.table.values():
      if e.t is t:
        return ("Timeout" if kind == "to" else "Garbage"), dict(k=ad.names.key(e.ip, e.size))
    return "Orphan", dict(x=0)
  return None


def next_due(ad):
  from harness import x12_env as env
  ds = [due - env.clock.now for t, due in env.timers() if not t._cancelled]
  return min(ds) if ds else None


def drive(arg):
  """Random operation sequence on the real router; returns the recorded trace."""
  seed, n = arg
  from harness.adapters_x12 import Adapter
  rnd = random.Random(seed)
  ad = Adapter(T=25, G=70, R=2, mtu=124)
  tr = []
  metrics = [0, 1, 1, 1, 2, 2, 3, 7, 14, 15, 16, 16, 17]
  calm = rnd.random() < 0.5            # calm runs let routes live and die; busy ones keep rewriting the table
  while len(tr) < n:
    ev = due_timer_event(ad)
    if ev is not None and rnd.random() < 0.85:
      a, args = ev
    else:
      k = rnd.random()
      if k < (0.25 if calm else 0.45):
        nb = rnd.choice("abc")
        ents = []
        for _ in range(rnd.choice([0, 1, 1, 1, 2, 2, 3])):
          ents.append(dict(k=rnd.choice(KEYS[:3] if rnd.random() < 0.8 else KEYS), m=rnd.choice(metrics),
                           tag=0 if rnd.random() < 0.93 else 5, af="inet" if rnd.random() < 0.93 else "other"))
        a, args = "Response", dict(n=nb, i=ad.ifof[nb] if rnd.random() < 0.93 else "none", ents=ents)
      elif k < 0.75:
        if ev is not None:
          continue                     # time cannot pass over a timer that is due
        d = rnd.choice([1, 1, 2, 3, 5, 8, 12, 13, 20, 25, 45, 70])
        nd = next_due(ad)
        if nd is not None:
          d = min(d, int(nd))
        if d < 1:
          continue
        a, args = "Advance", dict(d=d)
      elif k < 0.81:
        a, args = "Periodic", dict(x=0)
      elif k < 0.84:
        a, args = "Request", dict(n=rnd.choice("abc"))
      elif k < 0.92:
        a, args = "Query", dict(i=rnd.choice(["i1", "i2"]), force=rnd.random() < 0.7, so=rnd.random() < 0.3,
                                mtu=rnd.choice([64, 84, 104, 124, 564, 1400]))
      elif calm and rnd.random() < 0.7:
        continue
      else:
        c = rnd.randrange(4)
        if c == 0:
          s = rnd.choice(STATIC)
          a, args = "AddStatic", dict(k=s[0], nh=s[1], m=s[2])
        elif c == 1:
          s = rnd.choice(LOCAL)
          a, args = "AddLocal", dict(k=s[0], m=s[1])
        elif c == 2:
          s = rnd.choice(CONN)
          a, args = "AddConnected", dict(k=s[0], i=s[1])
        else:
          a, args = "AddIface", dict(s=rnd.choice(["s1", "s2"]))
    if a == "Orphan":
      obs, wf = copy.deepcopy(DUMMY), False
    else:
      try:
        obs = ad.step(a, args)
        wf = wellformed(obs)
      except Exception as e:
        obs, wf = {"exc": type(e).__name__}, False
      if not wf:
        obs = copy.deepcopy(DUMMY)
    tr.append(dict(a=a, args=args, obs=obs, wf=wf))
    if not wf:
      break
  ad.close()
  return tr


def record(ad, steps):
  """run a fixed history on the real router and log it in the trace schema"""
  tr = []
  for a, args in steps:
    try:
      obs = ad.step(a, args)
      wf = wellformed(obs)
    except Exception as e:
      obs, wf = {"exc": type(e).__name__}, False
    if not wf:
      obs = copy.deepcopy(DUMMY)
    tr.append(dict(a=a, args=args, obs=obs, wf=wf))
    if not wf:
      break
  ad.close()
  return tr


def drive_bulk(seed):
  """a router that learns up to 140 routes and advertises them with the MTUs that matter (the router's own
  send_updates uses rip_core's DEFAULT_MTU): package_responses at real sizes"""
  from harness.adapters_x12 import Adapter
  rnd = random.Random(seed)
  ad = Adapter(T=25, G=70, R=2, mtu=None)
  n = rnd.choice([1, 24, 25, 26, 49, 50, 51, 65, 66, 67, 75, 100, 132, 133, 140]) if seed % 3 else rnd.randint(1, 140)
  keys = ["p%d" % j for j in range(1, n + 1)]
  rnd.shuffle(keys)
  steps = []
  while keys:
    k = rnd.randint(1, 40)          # (the spec folds a response recursively: TLC's stack bounds its length)
    part, keys = keys[:k], keys[k:]
    steps.append(("Response", dict(n=rnd.choice("ac"), i="i1" if rnd.random() < 0.5 else "none",
                                   ents=[dict(k=x, m=rnd.choice([1, 2, 15]), tag=0, af="inet") for x in part])))
  # note: i is overwritten below - a response comes in on the interface its sender lives on (or none)
  for a, args in steps:
    if args["i"] != "none":
      args["i"] = ad.ifof[args["n"]]
  steps.append(("Advance", dict(d=2)))
  steps.append(("Fire", dict(x=0)))
  for mtu in rnd.sample([1400, 1385, 1384, 1383, 584, 565, 564, 563, 512, 104, 85, 84, 64], 6):
    steps.append(("Query", dict(i=rnd.choice(["i1", "i2"]), force=True, so=False, mtu=mtu)))
  steps.append(("Periodic", dict(x=0)))
  steps.append(("Advance", dict(d=20)))
  return record(ad, steps)
