"""X12 - RIP distance-vector core (pox/proto/rip/rip_core.py).

specs/rip/RipCore.tla (one router as pure operators), Rip.tla (one router and its environment) and RipNet.tla
(a small network of such routers) are model-checked; behaviours exported by TLC are replayed on the real
rip_core code (harness/x12_env.py: minimal RIPRouter subclass, real recoco Timers under the virtual clock, real
pox.lib.packet.rip bytes in and out) with the whole table / timers / packets compared after every step; traces
recorded from the real code by a seeded random driver are validated by TLC against the same specs (every
invariant and action property evaluated at each step), with a corrupted trace as negative control.
"""
import copy
import json
import random

from engine import tlc, core, tracecheck

ADAPTER = "harness.adapters_x12:Adapter"
NET_ADAPTER = "harness.adapters_x12:NetAdapter"
RIP_ACTIONS = ["Response", "Request", "Timeout", "Garbage", "Fire", "Periodic", "Query", "Tick"]
CFG_ACTIONS = ["AddStatic", "AddConnected", "AddLocal", "AddIface"]

# what the adapter needs to know about each configuration (mirrors the .cfg files)
WORLD = {
    "EX_lan": dict(T=2, G=1, R=1, mtu=104),
    "EX_p2p": dict(T=2, G=1, R=2, mtu=104),
    "EX_sim": dict(T=25, G=70, R=2, mtu=124),
}


def canon(x):
  return json.dumps(x, sort_keys=True, separators=(",", ":"))


def sort_exp(beh):
  """canonical order for the set-valued fields of exported expectations (the adapter sorts the same way)"""
  for st in beh:
    e = st["exp"]
    if "tbl" in e:
      e["tbl"] = sorted(e["tbl"])
    for o in (e.get("out") or {}).values():
      o["adv"] = sorted(o["adv"])
    for r in (e.get("net") or {}).values():
      r["tbl"] = sorted(r["tbl"])
  return beh


def sample_raw(raws, n, seed):
  """a seeded sample of n exported behaviours (all of them if there are fewer), decoded"""
  idx = list(range(len(raws)))
  if len(raws) > n:
    random.Random(seed).shuffle(idx)
    idx = sorted(idx[:n])
  return [sort_exp(json.loads(json.loads(raws[i]))) for i in idx]


def check_model(ctx, name, module, cfg, actions, spec_dir="rip", timeout=1500, workers=8):
  r = tlc.run(spec_dir, module, cfg, tag="X12", timeout=timeout, workers=workers)
  if r.violated:
    raise tlc.TLCError("spec %s %s violates its own property %s:\n%s" % (module, cfg, r.violated, r.error_trace))
  tlc.require_coverage(r, actions, name)
  ctx.add_model(name, r)
  return r


def run(ctx):
  quick = ctx.tier == "quick"
  ctx.rule = ("behaviours exported by TLC from Rip.tla / RipNet.tla (edge cover: shortest path to every abstract "
              "state + each outgoing transition; -simulate runs with the code's own timer constants) replayed on the "
              "real rip_core router(s); distinct = distinct action/argument sequences; non-trivial = contains at "
              "least one RIP response")
  ctx.assumptions = [
      "one router: <= 3 neighbours on 2 interfaces, <= 3 prefixes (+ /32 routes of neighbours and own addresses); "
      "exhaustive worlds use T=3 G=2 R=2 (T=2 G=1 in the odd-entries world), simulations and traces the code's 25/70/2",
      "time is integral; timers that are due at the same instant may fire in any order (each is its own action)",
      "RIP messages are built with pox.lib.packet.rip, packed, and parsed again on the other side",
      "the minimal router subclass copies LinuxRIPRouter.run/send_updates and the static/local route constructors "
      "of ovs_rip / linux_rip (harness/x12_env.py)",
  ]
  # 1. the properties on the model
  jobs = [("Rip LAN world", "MC_lan.cfg", RIP_ACTIONS + CFG_ACTIONS)]
  if not quick:
    jobs += [("Rip point-to-point world", "MC_p2p.cfg", RIP_ACTIONS + ["AddStatic", "AddIface"]),
             ("Rip odd-entries world", "MC_odd.cfg", RIP_ACTIONS)]
  res = tlc.run_many([dict(spec_dir="rip", module="MCRip", cfg=c, tag="X12", timeout=1500, workers=4) for _, c, _ in jobs],
                     parallel=3)
  for (name, cfg, acts), r in zip(jobs, res):
    if r.violated:
      raise tlc.TLCError("spec MCRip %s violates its own property %s:\n%s" % (cfg, r.violated, r.error_trace))
    tlc.require_coverage(r, acts, name)
    ctx.add_model(name, r)
  # 2. spec -> code: every transition of the abstract graph of the small worlds
  nontriv = lambda b: any(s["a"] in ("Response", "Deliver") for s in b)
  for cfg in ["EX_lan", "EX_p2p"]:
    r = tlc.run("rip", "MCRip", cfg + ".cfg", workers=1, coverage=False, tag="X12", timeout=1500)
    raws = r.tagged_raw("T")
    if not raws:
      raise tlc.TLCError("no behaviours exported by %s" % cfg)
    behs = sample_raw(raws, 4000 if quick else len(raws), ctx.seed + 7)
    st = core.replay(ctx, ADAPTER, behs, params=WORLD[cfg], nontrivial=nontriv)
    ctx.notes["replay_" + cfg] = dict(exported=len(raws), behaviours=len(behs), **st)
  ctx.exhaustive = not quick
