"""C02 - message framing is independent of stream segmentation: Framing.tla model-checked, every
segmentation it enumerates replayed on the real controller-side and switch-side readers."""
import copy

from engine import tlc, core

AD = "harness.adapters_c02:Adapter"


def run(ctx):
  quick = ctx.tier == "quick"
  ctx.rule = ("each behaviour = one stream of well-formed OpenFlow messages (bytes built with struct) and one "
              "segmentation of it into reads, enumerated by TLC from Framing.tla (all segmentations with <=2 cuts "
              "(<=3 thorough) of short streams, 1-byte dribble, cuts at every message/header boundary +-1 and around "
              "the 2048-byte read size for long streams, random k-cuts by simulation); replayed on of_01.Connection.read "
              "and on OFConnection.read; after every read the messages delivered (identity, bytes) and the residual "
              "buffer length are compared; distinct = distinct (stream, segmentation)")
  ctx.assumptions = ["streams of 1-3 messages with lengths 8, 9, 12, 16, 64, 72, 88, 1518, 2040-2056, 40000, 65535; "
                     "streams of 130, 300 and 520 messages of 8-9 bytes (hundreds of messages in one read)",
                     "controller reads are capped at its recv(2048); the switch side is fed through IOWorker._push_receive_data"]
  cfgs = ["MC_small2", "MC_mediumQ", "MC_bigQ", "MC_dribble", "MC_huge", "MC_hugeC", "MC_many", "MC_manyC", "MC_helloC"] if quick else \
         ["MC_small", "MC_medium", "MC_big", "MC_big4", "MC_dribble", "MC_huge", "MC_hugeC", "MC_many", "MC_manyC", "MC_helloC"]
  first = None
  results = tlc.run_many([dict(spec_dir="framing", module="MCFraming", cfg=c + ".cfg", tag="C02", timeout=2400,
                               workers=4) for c in cfgs], parallel=4)
  for c, r in zip(cfgs, results):
    if r.violated:
      raise tlc.TLCError("Framing.tla violates %s (%s):\n%s" % (r.violated, c, r.error_trace[:2000]))
    if r.coverage.get("Choose", (0, 0))[1] + r.coverage.get("ChooseAny", (0, 0))[1] == 0:
      raise tlc.TLCError("vacuous model run %s: Choose never taken" % c)
    if r.coverage.get("Read", (0, 0))[1] + r.coverage.get("ReadAny", (0, 0))[1] == 0:   # TLC names it either way
      raise tlc.TLCError("vacuous model run %s: Read never taken" % c)
    ctx.add_model("Framing " + c, r)
    behs = r.tagged("H")
    if not behs:
      raise tlc.TLCError("no behaviours exported by " + c)
    # sides: controller reader (reads capped at 2048), switch reader fed directly, and the switch reader
    # behind the real I/O loop with a worker that is still in its connecting state
    sides = ("ctl",) if c in ("MC_hugeC", "MC_manyC", "MC_helloC") else ("sw", "swloop") if c in ("MC_huge", "MC_many") \
        else ("ctl", "sw", "swloop")
    for side in sides:
      bb = behs
      if side == "swloop" and len(bb) > (1500 if quick else 20000):
        import random
        bb = random.Random(ctx.seed).sample(bb, 1500 if quick else 20000)
      st = core.replay(ctx, AD, bb, params=dict(side=side), chunk=300, nontrivial=lambda b: len(b) > 1)
      ctx.notes["replay %s on %s" % (c, side)] = dict(behaviours=len(bb), **st)
    if first is None and core.replay.last_ok:
      first = behs[core.replay.last_ok[-1]]
  num = 300 if quick else 5000
  r = tlc.run("framing", "MCFraming", "SIM_any.cfg", workers=1, coverage=False, simulate=dict(num=num),
              depth=200, seed=ctx.seed + 2, tag="C02", timeout=1200)
  behs = r.tagged("H")
  if len(behs) < num // 2:
    raise tlc.TLCError("simulation exported only %d behaviours" % len(behs))
  for side in ("ctl", "sw", "swloop"):
    st = core.replay(ctx, AD, behs, params=dict(side=side), chunk=100)
    ctx.notes["replay random segmentations on %s" % side] = dict(behaviours=len(behs), **st)
  # negative control
  if first is not None:
    bad = copy.deepcopy(first)
    bad[-1]["exp"]["residual"] += 1
    c2 = core.Context(ctx.pid, ctx.tier, ctx.seed, ctx.level)
    c2.known = []
    core.replay(c2, AD, [bad], params=dict(side="ctl"), procs=1)
    if not c2.violations:
      raise core.Machinery("negative control not reported")
  ctx.exhaustive = True
