"""C16 - address types: Addr.tla / AddrOrder.tla model-checked, every transition
replayed on pox.lib.addresses / pox.lib.util, random traces validated by TLC."""
import collections
import copy
import random
import threading

from engine import tlc, core, tracecheck

ADAPTER = "harness.adapters_c16:Adapter"
ACTIONS = ["MakeText", "MakeBin", "Reparse", "Props", "Mutate", "MutateSource", "InNet", "InNetInfer",
           "GetNetwork", "ToStr6", "SetMac6", "CidrToMask", "MaskToCidr", "ParseCidr", "ParseCidrAgain", "DpidToStr",
           "StrToDpid", "DpidRound"]
EXPORTS = {"quick": ["EX_q_v4.cfg", "EX_q_v6.cfg", "EX_q_md.cfg"],
           "thorough": ["EX_q_v4.cfg", "EX_q_v6.cfg", "EX_t_v4a.cfg", "EX_t_v4b.cfg", "EX_t_v4c.cfg", "EX_t_v6a.cfg",
                        "EX_t_v6b.cfg", "EX_t_v6c.cfg", "EX_t_v6d.cfg", "EX_t_md.cfg"]}


def _parallel(jobs, limit):
  """run callables in threads (each one blocks in a TLC subprocess)"""
  out = [None] * len(jobs)
  sem = threading.Semaphore(limit)

  def work(i):
    with sem:
      try:
        out[i] = ("ok", jobs[i]())
      except BaseException as e:      # re-raised in the caller
        out[i] = ("err", e)
  ts = [threading.Thread(target=work, args=(i,)) for i in range(len(jobs))]
  for t in ts:
    t.start()
  for t in ts:
    t.join()
  for kind, v in out:
    if kind == "err":
      raise v
  return [v for _, v in out]


def _export(cfg):
  def job():
    r = tlc.run("addr", "MCAddr", cfg, workers=1, coverage=False, tag="C16", timeout=3000)
    if r.violated:
      raise tlc.TLCError("Addr.tla violates its own property %s (%s):\n%s" % (r.violated, cfg, r.error_trace))
    behs = r.tagged("T")
    if not behs:
      raise tlc.TLCError("no behaviours exported by %s" % cfg)
    # vacuity guard.  TLC's -coverage switches off the memoisation of LET
    # definitions and runs out of memory on the recursive text operators, so
    # the per-action counts are taken from TLC's other per-transition output:
    # ExportT is evaluated (and prints) once for every generated transition.
    cnt = collections.Counter(b[-1]["a"] for b in behs)
    for a, n in cnt.items():
      r.coverage[a] = (0, n)
    if len(behs) != r.generated - 1:
      raise tlc.TLCError("%s: %d transitions generated but %d exported" % (cfg, r.generated - 1, len(behs)))
    return r, behs
  return job


def _one_report_per_signature(ctx):
  """The engine keeps the replay data of the first 50 reports only; thousands of
  mismatches with the same signature (one defect, many inputs) would hide the
  other defects.  Pass on the first report of each signature, count the rest."""
  orig = ctx.report
  seen = collections.Counter()

  def report(sig, rep):
    key = core.canon(sig)
    seen[key] += 1
    if seen[key] > 1 and not any(core.sig_matches(e["signature"], sig) for e in ctx.known):
      return "violation"
    return orig(sig, rep)
  ctx.report = report
  return seen


def run(ctx):
  quick = ctx.tier == "quick"
  ctx.level = "exploration"
  seen = _one_report_per_signature(ctx)
  try:
    _run(ctx, quick)
  finally:
    if seen:
      ctx.notes["mismatches_per_signature"] = dict(seen)


def _run(ctx, quick):
  ctx.rule = ("every transition of Addr.tla's state graph (constructor from each textual/binary form, then each "
              "operation; each stateless helper call) and of AddrOrder.tla's (comparison histories) exported by TLC "
              "and replayed on the real classes, plus TLC-simulated long behaviours and TLC-validated random traces; "
              "distinct = distinct action/argument sequences; non-trivial = ends in an action that observes the code "
              "(all do); the same text reached under two rule names counts twice")
  ctx.assumptions = [
      "expected texts/booleans come only from specs/addr/AddrLib.tla (character-level parsers, RFC 4291/5952 printing, "
      "unit-wise masks cross-checked against a bit-level definition by TLC)",
      "integers above 2^31 cross the TLC boundary as octet lists; host order = big-endian number, network order = "
      "native in-memory bytes (sys.byteorder)",
      "texts in the grey class (inet_aton dialects, int() decorations, leading zeros beyond the group width, "
      "six-character MAC strings, IPv4-vs-IPv6 comparison) are not constrained",
      "IPv4 domain: each octet position 0..255 with the other octets 0 (thorough: 0/85/170/255), all 33 prefix "
      "lengths; IPv6: all 256 zero/non-zero group patterns, all 129 prefix lengths on boundary bases and bit-flipped "
      "partners (quick: 8 flip positions, thorough: all 128 on 4 bases)"]
  agg = collections.Counter()
  # 1. model-check + export every transition (spec -> code); thorough: also long
  #    random behaviours (constructors and operations chained on one object)
  jobs = [_export(c) for c in EXPORTS[ctx.tier]]
  nsim = 0 if quick else 400
  if nsim:
    jobs.append(lambda: tlc.run("addr", "MCAddr", "EX_sim.cfg", workers=1, coverage=False, simulate=dict(num=nsim),
                                depth=17, seed=ctx.seed + 1, tag="C16", timeout=3000))
  results = _parallel(jobs, 11)
  for cfg, (r, behs) in zip(EXPORTS[ctx.tier], results):
    ctx.add_model("Addr %s (all invariants/action properties, every transition exported)" % cfg, r)
    for a, (_, n) in r.coverage.items():
      agg[a] += n
    st = core.replay(ctx, ADAPTER, behs, chunk=400)
    ctx.notes["replay_" + cfg[3:-4]] = dict(behaviours=len(behs), **st)
    del behs
  fake = tlc.TLCResult()
  fake.coverage = {a: (0, n) for a, n in agg.items()}
  tlc.require_coverage(fake, ACTIONS, "Addr.tla (all export runs)")
  ctx.notes["transitions_per_action"] = dict(agg)
  if nsim:
    r = results[-1]
    behs = r.tagged("H")
    if len(behs) < nsim // 4:
      raise tlc.TLCError("simulation exported %d behaviours" % len(behs))
    st = core.replay(ctx, ADAPTER, behs, chunk=25)
    ctx.notes["replay_sim"] = dict(behaviours=len(behs), min_depth=7, max_depth=16, **st)
  # 3. ordering / equality / hashing
  for k in ("4", "6", "Mac"):
    r = tlc.run("addr", "MCAddrOrder", "MC_order_%s.cfg" % k, tag="C16")
    if r.violated:
      raise tlc.TLCError("AddrOrder.tla violates its own property %s:\n%s" % (r.violated, r.error_trace))
    tlc.require_coverage(r, ["CmpV"], "AddrOrder %s" % k)
    ctx.add_model("AddrOrder %s" % k, r)
    r = tlc.run("addr", "MCAddrOrder", "EX_order_%s.cfg" % k, workers=1, coverage=False, tag="C16")
    behs = r.tagged("T")
    if not behs:
      raise tlc.TLCError("no order behaviours exported (%s)" % k)
    st = core.replay(ctx, ADAPTER, behs, chunk=60)
    ctx.notes["replay_order_" + k] = dict(behaviours=len(behs), **st)
  # 4. code -> spec: random values, styles and damaged texts; TLC decides
  ntr = 300 if quick else 6000
  traces = core.run_driver("props.C16:drive", [(ctx.seed * 1000003 + i, 14) for i in range(ntr)])
  _validate(ctx, "TraceAddr", "Trace.cfg", traces, _corrupt(traces), "trace_validation")
  otr = core.run_driver("props.C16:drive_order", [(ctx.seed * 1000033 + i, 16) for i in range(ntr)])
  _validate(ctx, "TraceAddrOrder", "TraceOrder.cfg", otr, _corrupt_order(otr), "order_trace_validation")
  ctx.exhaustive = False


def _corrupt(traces):
  """negative control: one observation changed in a copy of an accepted-looking trace"""
  for t in traces:
    for i, e in enumerate(t):
      if e["a"] == "InNet" and e["wf"] and e["obs"]["r"]:
        bad = copy.deepcopy(t[:i + 1])
        bad[i]["obs"]["r"][0] = not bad[i]["obs"]["r"][0]
        return bad
  raise core.Machinery("no InNet event to corrupt for the negative control")


def _corrupt_order(traces):
  for t in traces:
    for i, e in enumerate(t):
      if e["wf"] and e["obs"]["lt"] == "T" and e["args"]["a"]["k"] == e["args"]["b"]["k"]:
        bad = copy.deepcopy(t[:i + 1])
        a, b = bad[i]["args"]["a"], bad[i]["args"]["b"]
        # the same two values compared the other way round must answer "greater"
        bad.append(dict(a="Cmp", args=dict(a=b, b=a), obs=dict(bad[i]["obs"]), wf=True))
        return bad
  raise core.Machinery("no ordered pair to corrupt for the negative control")


def _validate(ctx, module, cfg, traces, bad, note):
  r, rej = tracecheck.validate("addr", module, cfg, traces + [bad], tag="C16")
  ctx.add_model("%s (validation of %d implementation traces)" % (module, len(traces)), r)
  if len(traces) not in [t for t, _ in rej]:
    raise tlc.TLCError("negative control (corrupted observation) was accepted by %s" % module)
  nrej = 0
  for t, matched in rej:
    if t == len(traces):
      continue
    nrej += 1
    ev = traces[t][matched]
    sig = dict(action=ev["a"], via="trace")
    for f in ("k", "form", "style", "attr"):
      if f in ev["args"]:
        sig[f] = ev["args"][f]
    if "a" in ev["args"] and isinstance(ev["args"]["a"], dict):
      sig["kinds"] = "/".join(sorted([ev["args"]["a"]["k"], ev["args"]["b"]["k"]]))
    sig["well_formed"] = ev["wf"]
    ctx.report(sig, dict(trace=traces[t][:matched + 1], failing_step=matched, raw_observation=ev.get("raw"),
                         note="TLC rejected the trace at this event"))
  ctx.traces += len(traces)
  for t in traces:
    ctx.case(core.fp([[e["a"], e["args"]] for e in t]), sample=None)
  if traces and len(ctx.samples) < 5:
    ctx.samples.append(traces[0][:6])
  ctx.notes[note] = dict(traces=len(traces), events=sum(len(t) for t in traces), rejected=nrej,
                         negative_control_rejected=True)


# ---------------------------------------------------------------------------
# random drivers (run in worker processes)

HEX = "0123456789abcdef"
NOISE = "0123456789abcdefABCDEFg:.-/ x+_|%"


def _rand_units(rnd, n, top):
  style = rnd.random()
  if style < 0.25:
    return [rnd.choice([0, top, 1, top - 1, (top + 1) // 2, (top + 1) // 2 - 1]) for _ in range(n)]
  if style < 0.5:       # runs of zeros
    return [0 if rnd.random() < 0.55 else rnd.randint(1, top) for _ in range(n)]
  return [rnd.randint(0, top) for _ in range(n)]


def _text4(v):
  return ".".join(str(x) for x in v)


def _text6(rnd, h):
  up = rnd.random() < 0.2
  pad = rnd.random() < 0.2
  tail = rnd.random() < 0.2
  lim = 6 if tail else 8
  g = [("%04x" if pad else "%x") % x for x in h[:lim]]
  if up:
    g = [x.upper() for x in g]
  tl = [_text4([h[6] >> 8, h[6] & 255, h[7] >> 8, h[7] & 255])] if tail else []
  runs = [(p, n) for p in range(lim) for n in range(1, lim - p + 1) if all(x == 0 for x in h[p:p + n])]
  if runs and rnd.random() < 0.7:
    p, n = rnd.choice(runs)
    return ":".join(g[:p]) + "::" + ":".join(g[p + n:] + tl)
  return ":".join(g + tl)


def _textmac(rnd, v):
  s = rnd.random()
  g = ["%02x" % x for x in v]
  if s < 0.3:
    t = ":".join(g)
  elif s < 0.45:
    t = "-".join(g)
  elif s < 0.6:
    t = "".join(g)
  else:
    t = ":".join(("%x" % x) if rnd.random() < 0.5 else ("%02x" % x) for x in v)
  return t.upper() if rnd.random() < 0.2 else t


def _damage(rnd, t):
  k = rnd.random()
  if not t or k < 0.3:
    i = rnd.randint(0, len(t))
    return t[:i] + rnd.choice(NOISE) + t[i:]
  i = rnd.randrange(len(t))
  if k < 0.6:
    return t[:i] + t[i + 1:]
  if k < 0.85:
    return t[:i] + rnd.choice(NOISE) + t[i + 1:]
  return t[:i] + t[i] + t[i:]


def _mask_units(b, n, w):
  full = (1 << (n * w)) - 1
  m = full ^ ((1 << (n * w - b)) - 1)
  return [(m >> (w * (n - 1 - i))) & ((1 << w) - 1) for i in range(n)]


def _and(v, m):
  return [a & b for a, b in zip(v, m)]


def _octets(k, v):
  return [b for h in v for b in (h >> 8, h & 255)] if k == "v6" else list(v)


def _is_view(o):
  return (isinstance(o, dict) and set(o) == {"ok", "str", "repr", "raw", "n"} and o["ok"] in ("T", "F")
          and isinstance(o["str"], str) and isinstance(o["repr"], str) and isinstance(o["n"], int)
          and isinstance(o["raw"], list) and all(isinstance(x, int) for x in o["raw"]))


def _ints(x, n):
  return isinstance(x, list) and len(x) == n and all(isinstance(i, int) and not isinstance(i, bool) for i in x)


def _bools(d, keys):
  return isinstance(d, dict) and set(d) == set(keys) and all(v is True or v is False for v in d.values())


NOVIEW = {"ok": "F", "str": "", "repr": "", "raw": [], "n": 0}


def _wf(a, args, o):
  """well-formedness (types TLC can compare) and the default used otherwise"""
  if a in ("MakeText", "MakeBin", "CidrToMask"):
    return _is_view(o), dict(NOVIEW)
  if a == "Reparse":
    return (isinstance(o, dict) and set(o) == {"eq", "ne", "heq", "view"} and _is_view(o["view"])
            and all(o[f] in ("T", "F") for f in ("eq", "ne", "heq"))), dict(eq="F", ne="F", heq="F", view=dict(NOVIEW))
  if a == "Props":
    k = args["k"]
    if k == "v4":
      return (isinstance(o, dict) and set(o) == {"uh", "un", "sh", "sn"} and all(_ints(o[f], 4) for f in o),
              dict(uh=[], un=[], sh=[], sn=[]))
    if k == "v6":
      return (isinstance(o, dict) and set(o) == {"num", "ipv4", "class"} and _ints(o["num"], 16)
              and isinstance(o["ipv4"], str) and _bools(o["class"], ["mc", "gu", "ul", "ll", "compat", "mapped"]),
              dict(num=[], ipv4="", **{"class": dict(mc=False, gu=False, ul=False, ll=False, compat=False,
                                                     mapped=False)}))
    return (isinstance(o, dict) and set(o) == {"tuple", "dash", "flags"} and _ints(o["tuple"], 6)
            and isinstance(o["dash"], str) and _bools(o["flags"], ["mc", "local", "bf", "bc"]),
            dict(tuple=[], dash="", flags=dict(mc=False, local=False, bf=False, bc=False)))
  if a == "Mutate":
    return (isinstance(o, dict) and set(o) == {"refused", "view"} and o["refused"] in ("T", "F")
            and _is_view(o["view"])), dict(refused="F", view=dict(NOVIEW))
  if a == "MutateSource":
    return isinstance(o, dict) and set(o) == {"view"} and _is_view(o["view"]), dict(view=dict(NOVIEW))
  if a == "InNet":
    return (isinstance(o, dict) and set(o) == {"r"} and isinstance(o["r"], list)
            and all(x is True or x is False for x in o["r"])), dict(r=[])
  if a in ("ToStr6", "SetMac6", "DpidToStr"):
    return isinstance(o, dict) and set(o) == {"s"} and isinstance(o["s"], str), dict(s="")
  if a == "MaskToCidr":
    return (isinstance(o, dict) and set(o) == {"ok", "b"} and o["ok"] in ("T", "F")
            and isinstance(o["b"], int)), dict(ok="F", b=-1)
  if a == "ParseCidr":
    return (isinstance(o, dict) and set(o) == {"ok", "str", "b"} and o["ok"] in ("T", "F")
            and isinstance(o["str"], str) and isinstance(o["b"], int)), dict(ok="F", str="", b=-1)
  if a == "StrToDpid":
    return (isinstance(o, dict) and set(o) == {"ok", "d"} and o["ok"] in ("T", "F") and isinstance(o["d"], list)
            and all(isinstance(x, int) for x in o["d"])), dict(ok="F", d=[])
  if a == "DpidRound":
    return isinstance(o, dict) and set(o) == {"d"} and _ints(o["d"], 8), dict(d=[])
  raise ValueError(a)


def drive(arg):
  """Random operation sequence on the real classes; returns the recorded trace."""
  seed, n = arg
  from harness.adapters_c16 import Adapter
  rnd = random.Random(seed)
  ad = Adapter()
  tr = []
  NU = {"v4": 4, "v6": 8, "mac": 6}
  TOP = {"v4": 255, "v6": 65535, "mac": 255}
  W = {"v4": 8, "v6": 16}
  cur = None          # (kind, units, mutable source?)

  def emit(a, largs, cargs):
    """largs: logged for TLC, cargs: handed to the code"""
    try:
      obs = ad.step(a, cargs)
    except Exception as e:       # adapter-level surprise: recorded, never hidden
      obs = {"adapter-exception": type(e).__name__ + ": " + str(e)[:100]}
    ok, dflt = _wf(a, largs, obs)
    ev = dict(a=a, args=largs, obs=obs if ok else dflt, wf=ok)
    if not ok:
      ev["raw"] = obs
    tr.append(ev)
    return obs

  def rtext(k, v):
    t = _text4(v) if k == "v4" else _text6(rnd, v) if k == "v6" else _textmac(rnd, v)
    while rnd.random() < 0.3:
      t = _damage(rnd, t)
    return t

  for _ in range(n):
    x = rnd.random()
    if cur is None or x < 0.22:
      k = rnd.choice(["v4", "v6", "v6", "mac"])
      v = _rand_units(rnd, NU[k], TOP[k])
      if rnd.random() < 0.6:
        t = rtext(k, v)
        form = "str" if k == "v6" else rnd.choice(["str", "bytes"])
        obs = emit("MakeText", dict(k=k, form=form, cs=list(t), text=t), dict(k=k, form=form, text=t))
        cur = (k, False) if ad.x is not None else None
      else:
        form = rnd.choice({"v4": ["raw", "bytearray", "int_h", "int_hs", "int_n", "copy"],
                           "v6": ["raw", "rawkw", "bytearray", "from_raw", "copy", "from_num"],
                           "mac": ["raw", "list", "tuple", "bytearray", "copy"]}[k])
        adj = rnd.choice([0, 0, 0, 0, -1, 1]) if form in ("raw", "rawkw", "bytearray", "from_raw", "list", "tuple") else 0
        if k == "v4" and adj:
          v = [rnd.choice([0, 255]) for _ in v]     # wrong-length bytes must not look like a text
        o = _octets(k, v)
        emit("MakeBin", dict(k=k, form=form, v=o, adj=adj), dict(k=k, form=form, v=o, adj=adj))
        cur = (k, form in ("bytearray", "list")) if ad.x is not None else None
      continue
    k, mut = cur
    if x < 0.4:
      attr = rnd.choice(["_value", "raw"])
      emit("Mutate", dict(attr=attr), dict(attr=attr))
    elif mut:
      emit("MutateSource", dict(x=0), dict(x=0))
    elif x < 0.5:
      emit("Reparse", dict(k=k), dict(k=k))
    elif x < 0.6:
      emit("Props", dict(k=k), dict(k=k))
    elif x < 0.8 and k in W:
      me = list(ad.x.raw)
      me = [me[2 * i] * 256 + me[2 * i + 1] for i in range(8)] if k == "v6" else me
      nets, cnets = [], []
      for _ in range(rnd.randint(1, 4)):
        bits = NU[k] * W[k]
        n0 = list(me) if rnd.random() < 0.7 else _rand_units(rnd, NU[k], TOP[k])
        if rnd.random() < 0.7:
          j = rnd.randrange(bits)
          n0[j // W[k]] ^= 1 << (W[k] - 1 - j % W[k])
        b = rnd.choice([0, bits, rnd.randint(0, bits), rnd.randint(0, bits)])
        net = _and(n0, _mask_units(b, NU[k], W[k]))
        nets.append(dict(n=net, b=b))
        cnets.append(dict(t=_text4(net) if k == "v4" else ":".join("%x" % h for h in net), b=b, m=""))
      style = rnd.choice(["cidr", "tuple_text", "tuple_obj", "sep_bits", "sep_obj"])
      emit("InNet", dict(k=k, style=style, nets=nets), dict(k=k, style=style, nets=cnets))
    elif x < 0.87 and k == "v6":
      a = dict(zd=rnd.random() < 0.5, sd=rnd.random() < 0.5, v4=rnd.choice(["auto", "yes", "no"]))
      emit("ToStr6", a, a)
    elif x < 0.92 and k == "v6":
      m = _rand_units(rnd, 6, 255)
      emit("SetMac6", dict(m=m), dict(mac=":".join("%02x" % b for b in m)))
    else:
      y = rnd.random()
      kk = rnd.choice(["v4", "v6"])
      bits = NU[kk] * W[kk]
      if y < 0.2:
        b = rnd.randint(-2, bits + 2)
        emit("CidrToMask", dict(k=kk, b=b), dict(k=kk, b=b))
      elif y < 0.4:
        m = _mask_units(rnd.randint(0, bits), NU[kk], W[kk]) if rnd.random() < 0.6 else _rand_units(rnd, NU[kk], TOP[kk])
        form = rnd.choice(["str", "obj"])
        t = _text4(m) if kk == "v4" else ":".join("%x" % h for h in m)
        emit("MaskToCidr", dict(k=kk, form=form, m=m), dict(k=kk, form=form, t=t))
      elif y < 0.7:
        v = _rand_units(rnd, NU[kk], TOP[kk])
        b = rnd.randint(0, bits)
        if rnd.random() < 0.6:
          v = _and(v, _mask_units(b, NU[kk], W[kk]))
        t = _text4(v) if kk == "v4" else _text6(rnd, v)
        z = rnd.random()
        if z < 0.5:
          t += "/%d" % b
        elif z < 0.8:
          mk = _mask_units(b, NU[kk], W[kk])
          t += "/" + (_text4(mk) if kk == "v4" else _text6(rnd, mk))
        while rnd.random() < 0.2:
          t = _damage(rnd, t)
        a = dict(k=kk, infer=rnd.random() < 0.5 or kk == "v6", allowHost=rnd.random() < 0.5)
        emit("ParseCidr", dict(a, cs=list(t)), dict(a, text=t))
      else:
        d = _rand_units(rnd, 8, 255)
        if rnd.random() < 0.4:
          d[0] = d[1] = 0
        z = rnd.random()
        if z < 0.3:
          a = dict(form=rnd.choice(["int", "raw"]), d=d, long=rnd.random() < 0.5)
          emit("DpidToStr", a, a)
        elif z < 0.6:
          a = dict(d=d, long=rnd.random() < 0.5)
          emit("DpidRound", a, a)
        else:
          t = "-".join("%02x" % b for b in d[2:])
          if d[0] or d[1] or rnd.random() < 0.3:
            t += "|%d" % (d[0] * 256 + d[1])
          while rnd.random() < 0.35:
            t = _damage(rnd, t)
          obs = emit("StrToDpid", dict(cs=list(t)), dict(text=t))
          if isinstance(obs, dict) and obs.get("ok") == "T" and not isinstance(obs.get("d"), list):
            # a number beyond 64 bits: a well-formed observation that equals no datapath id
            tr[-1].update(obs=dict(ok="T", d=[-1]), wf=True)
  return tr


def drive_order(arg):
  """Random comparisons between objects holding random values."""
  seed, n = arg
  from harness.adapters_c16 import Adapter
  rnd = random.Random(seed)
  ad = Adapter()
  k = rnd.choice(["v4", "v6", "mac"])
  NU = {"v4": 4, "v6": 8, "mac": 6}
  TOP = {"v4": 255, "v6": 65535, "mac": 255}
  forms = {"v4": ["text", "raw", "bytearray", "int_h", "int_hs", "int_n", "copy"],
           "v6": ["text", "raw", "rawkw", "bytearray", "from_raw", "copy"],
           "mac": ["text", "raw", "list", "tuple", "bytearray", "copy"]}
  regs = []
  for i in range(5):
    kk = k
    if i == 4 and rnd.random() < 0.5:        # one address of another type (never IPv4 with IPv6)
      kk = rnd.choice([c for c in ("v4", "v6", "mac") if c != k and {c, k} != {"v4", "v6"}])
    if regs and kk == k and rnd.random() < 0.3:
      v = list(rnd.choice([r for r in regs if r["k"] == k])["units"])
    else:
      v = _rand_units(rnd, NU[kk], TOP[kk])
      if rnd.random() < 0.5:                  # differ in one unit only: sign/byte-order sensitive
        base = [r for r in regs if r["k"] == kk]
        if base:
          v = list(rnd.choice(base)["units"])
          v[rnd.randrange(len(v))] = rnd.choice([0, 1, TOP[kk], (TOP[kk] + 1) // 2, rnd.randint(0, TOP[kk])])
    t = _text4(v) if kk == "v4" else ":".join("%x" % h for h in v) if kk == "v6" else ":".join("%02x" % b for b in v)
    regs.append(dict(r=i + 1, k=kk, form=rnd.choice(forms[kk]), text=t, v=_octets(kk, v), units=v))
  tr = []
  ok_vals = ("T", "F", "exc")
  for _ in range(n):
    a, b = rnd.choice(regs), rnd.choice(regs)
    da = {f: a[f] for f in ("r", "k", "form", "text", "v")}
    db = {f: b[f] for f in ("r", "k", "form", "text", "v")}
    try:
      obs = ad.order_step("Cmp", dict(a=da, b=db))
    except Exception as e:       # recorded as a malformed observation, never hidden
      obs = {"adapter-exception": type(e).__name__ + ": " + str(e)[:100]}
    wf = (isinstance(obs, dict) and set(obs) == {"eq", "ne", "lt", "le", "gt", "ge", "heq"}
          and all(obs[f] in ok_vals for f in ("eq", "ne", "lt", "le", "gt", "ge")) and obs["heq"] in ("eq", "ne"))
    ev = dict(a="Cmp", args=dict(a=dict(k=a["k"], v=a["v"]), b=dict(k=b["k"], v=b["v"])),
              obs=obs if wf else dict(eq="F", ne="F", lt="F", le="F", gt="F", ge="F", heq="ne"), wf=wf)
    if not wf:
      ev["raw"] = obs
    tr.append(ev)
  return tr
