"""X09 - messenger: JSON stream framing, sessions, channels, membership, bots, closing, TCP transport.

Specs: specs/messenger/Destream.tla (Connection._rx_raw at character level) and Messenger.tla (nexus / channels /
connections / TCP transport at message level).  Both are model-checked, every transition of their state graphs is
exported and replayed on the real code (a seeded sample in the quick tier for the two big graphs), random deep
behaviours are replayed, and traces recorded from the real code by seeded random drivers are validated by TLC.

`/venv/bin/python -m props.X09 strict` (not part of run): replays the DESIGN (Dev = {}) on the unchanged tree and
shows that every deviation listed in notes/X09.md is rejected.
"""
import concurrent.futures
import copy
import json
import os
import random

from engine import tlc, core, tracecheck

DA = "harness.adapters_x09:DestreamAdapter"
MA = "harness.adapters_x09:MessengerAdapter"
REST = ["D4", "D5", "D6", "D8"]          # deviations of the pinned tree that stay once D0-D3 are neutralised
ALL_ACTIONS = ["Listen", "Open", "Rx", "PeerClose", "Close", "ChanSendAct", "ConSendAct", "SetSend"]
MEM_ACTIONS = ["Open", "Rx", "Close", "ChanSendAct", "ConSendAct"]

# cfg -> (adapter parameters, actions that must be covered)
MCFG = {
  "mem1": (dict(NC=2, kind="mem", dev=REST, watched=["a"]), MEM_ACTIONS),
  "mem2": (dict(NC=2, kind="mem", dev=REST, watched=["a", "temp_1"]), MEM_ACTIONS),
  "mem3": (dict(NC=3, kind="mem", dev=REST, watched=["a"]), MEM_ACTIONS),
  "tcp1": (dict(NC=2, kind="tcp", dev=REST, watched=["a"]), ALL_ACTIONS),
  "tcp3": (dict(NC=3, kind="tcp", dev=REST, watched=["a"]), ALL_ACTIONS),
  "tcpD0": (dict(NC=2, kind="tcp", dev=["D0"] + REST, watched=["a"]), ["Listen"]),
  "tcpD1": (dict(NC=2, kind="tcp", dev=["D1"] + REST, watched=["a"]), ["Listen", "Open"]),
  "tcpD2": (dict(NC=2, kind="tcp", dev=["D2"] + REST, watched=["a"]), ["Listen", "Open", "Close", "ConSendAct"]),
  "tcpD3": (dict(NC=2, kind="tcp", dev=["D3"] + REST, watched=["a"]), ["Listen", "Open", "Rx", "Close", "SetSend"]),
  "memD1": (dict(NC=2, kind="mem", dev=["D1"] + REST, watched=["a"]), ["Open"]),
}
SIM = {"SIM_mem": dict(NC=3, kind="mem", dev=REST, watched=["a", "temp_2"]),
       "SIM_tcp": dict(NC=3, kind="tcp", dev=REST, watched=["a", "temp_2"])}


def _check(r, what):
  if r.violated:
    raise tlc.TLCError("spec %s violates its own property %s:\n%s" % (what, r.violated, r.error_trace))


def _sample(behs, n, seed):
  """a seeded sample that keeps every behaviour of the rarer actions (the last step is what an edge adds)"""
  if len(behs) <= n:
    return behs
  rnd = random.Random(seed)
  by = {}
  for b in behs:
    by.setdefault(b[-1]["a"], []).append(b)
  out = []
  share = max(1, n // len(by))
  rest = []
  for a in sorted(by):
    lst = by[a]
    rnd.shuffle(lst)
    out.extend(lst[:share])
    rest.extend(lst[share:])
  rnd.shuffle(rest)
  out.extend(rest[:max(0, n - len(out))])
  return out


def _validate(ctx, name, module, cfg, traces, corrupt, what):
  bad = corrupt(copy.deepcopy(traces))
  r, rej = tracecheck.validate("messenger", module, cfg, traces + [bad], tag="X09")
  ctx.add_model("%s (validation of %d implementation traces)" % (module + "/" + cfg, len(traces)), r)
  if len(traces) not in [t for t, _ in rej]:
    raise tlc.TLCError("negative control (%s) was accepted by %s" % (what, module))
  n = 0
  for t, matched in rej:
    if t == len(traces):
      continue
    n += 1
    ev = traces[t][matched]
    ctx.report(dict(spec=module, via="trace", action=ev["a"], args=ev["args"] if ev["a"] != "Rx" or "ms" not in ev["args"]
                    else "/".join(m["k"] for m in ev["args"]["ms"])),
               dict(trace=traces[t], failing_step=matched, note="TLC rejected the trace at this event", cfg=cfg))
  ctx.traces += len(traces)
  for t in traces[:1000]:
    ctx.case(core.fp([[e["a"], e["args"]] for e in t]))
  ctx.notes[name] = dict(traces=len(traces), events=sum(len(t) for t in traces), rejected=n,
                         negative_control_rejected=True)


def run(ctx):
  import sys
  import time
  quick = ctx.tier == "quick"
  t00 = time.time()
  phases = ctx.notes.setdefault("phase_wall_s", {})

  def phase(name):
    phases[name] = round(time.time() - t00, 1)
    if os.environ.get("X09_VERBOSE"):
      sys.stderr.write("X09 phase %s done at %.1fs\n" % (name, time.time() - t00))
  from harness import x09_msgs
  err = x09_msgs.check_shapes(os.path.join(tlc.SPECS, "messenger", "MCDestream.tla"))
  if err:
    raise core.Machinery(err)
  ctx.rule = ("Destream.tla: behaviours = a stream of JSON objects cut into chunks (every (position, length) transition, "
              "every split into <= 4 chunks of short streams, random fine-grained splits) replayed through "
              "Connection._rx_raw and through TCPConnection.run; Messenger.tla: edge cover of the abstract state graph "
              "(a seeded sample per tier for the big graphs, all edges of the deviation graphs) + simulated deep behaviours "
              "replayed on a real MessengerNexus with real (mem / TCP) connections, every step compared on events, "
              "sent messages, registry, connection states; traces of seeded random drivers validated by TLC. "
              "distinct = distinct action/argument sequences")
  ctx.assumptions = [
    "bounds: 2-3 connections, channel names a/b + 2 generated names, one invited bot per channel, chunks of 1-2 objects, "
    "at most one socket refusing writes at a time",
    "D0-D3 (TCP transport unusable under Python 3) are neutralised by the harness for the bulk of the check and each one is "
    "bound un-neutralised by its own small configuration (tcpD0..tcpD3, memD1); D4/D5/D6/D8 are modelled as the code behaves",
    "time and randomness: virtual clock, random.random() constant, random.randint scripted by the spec's draws",
    "the JSON decoder itself (json.JSONDecoder.raw_decode) is part of what is checked; the revent layer (C05) and recoco "
    "Recv (C06) are the substrate",
  ]
  W = 3
  # ---- 1. model checking + exports, all TLC runs concurrently
  jobs = [dict(spec_dir="messenger", module="MCDestream", cfg="MC_destream.cfg", workers=W, tag="X09", timeout=900)]
  mcs = ["mem1", "tcp1", "tcpD0", "tcpD1", "tcpD2", "tcpD3", "memD1"] + ([] if quick else ["mem2", "mem3", "tcp3"])
  for c in mcs:
    jobs.append(dict(spec_dir="messenger", module="MCMessenger", cfg="MC_%s.cfg" % c, workers=W, tag="X09", timeout=2400))
  exd = ["EX_destream_edges.cfg", "EX_destream_splits3q.cfg" if quick else "EX_destream_splits3.cfg"]
  for c in exd:
    jobs.append(dict(spec_dir="messenger", module="MCDestream", cfg=c, workers=1, coverage=False, tag="X09", timeout=1200))
  jobs.append(dict(spec_dir="messenger", module="MCDestream", cfg="EX_destream_sim.cfg", workers=1, coverage=False,
                   simulate=dict(num=150 if quick else 2000), depth=120, seed=ctx.seed + 1, tag="X09", timeout=900))
  exm = ["mem1", "tcp1", "tcpD0", "tcpD1", "tcpD2", "tcpD3", "memD1"] + ([] if quick else ["mem2", "mem3", "tcp3"])
  for c in exm:
    jobs.append(dict(spec_dir="messenger", module="MCMessenger", cfg="EX_%s.cfg" % c, workers=1, coverage=False,
                     tag="X09", timeout=2400))
  nsim = 120 if quick else 1500
  for c in sorted(SIM):
    jobs.append(dict(spec_dir="messenger", module="MCMessenger", cfg=c + ".cfg", workers=1, coverage=False,
                     simulate=dict(num=nsim), depth=41, seed=ctx.seed + 1, tag="X09", timeout=900))
  res = tlc.run_many(jobs, parallel=8 if quick else 6)
  phase("tlc")
  if os.environ.get("X09_VERBOSE"):
    for j, rr in zip(jobs, res):
      sys.stderr.write("   %-28s %6.1fs states=%d\n" % (j["cfg"], rr.wall, rr.distinct))
  it = iter(res)
  r = next(it)
  _check(r, "Destream")
  tlc.require_coverage(r, ["Rx"], "Destream")
  ctx.add_model("Destream (all streams)", r)
  for c in mcs:
    r = next(it)
    _check(r, "Messenger " + c)
    tlc.require_coverage(r, MCFG[c][1], "Messenger " + c)
    ctx.add_model("Messenger " + c, r)
  # ---- 2. spec -> code
  edges = next(it).tagged("T")
  splits = next(it).tagged("H")
  sims = next(it).tagged("H")
  if not edges or not splits or len(sims) < (100 if quick else 1000):
    raise tlc.TLCError("Destream export: %d edge, %d split, %d simulated behaviours" % (len(edges), len(splits), len(sims)))
  nontriv = lambda b: any(s["a"] == "Rx" and s["exp"]["msgs"] for s in b)
  for via in ("mem", "tcp"):
    st = core.replay(ctx, DA, edges, params=dict(via=via, seed=ctx.seed), nontrivial=nontriv, chunk=400)
    ctx.notes["destream_edges_" + via] = dict(behaviours=len(edges), **st)
    if via == "mem":
      okd = list(core.replay.last_ok)
    st = core.replay(ctx, DA, sims, params=dict(via=via, seed=ctx.seed + 7), nontrivial=nontriv, chunk=50)
    ctx.notes["destream_sim_" + via] = dict(behaviours=len(sims), **st)
  st = core.replay(ctx, DA, splits, params=dict(via="mem", seed=ctx.seed + 3), nontrivial=nontriv, chunk=400)
  ctx.notes["destream_all_splits"] = dict(behaviours=len(splits), **st)
  # negative control of the replay itself: a wrong expectation must be reported
  if okd:
    cand = [i for i in okd if edges[i][-1]["exp"]["msgs"]]
    bad = copy.deepcopy(edges[cand[0] if cand else okd[0]])
    bad[-1]["exp"]["msgs"] = bad[-1]["exp"]["msgs"] + ["A"]
    probe = core.Context("X09", ctx.tier, ctx.seed, ctx.level, clear=False)
    core.replay(probe, DA, [bad], params=dict(via="mem", seed=ctx.seed))
    if not probe.violations:
      raise tlc.TLCError("negative control: a corrupted Destream expectation was not reported by the replay")
  phase("replay_destream")
  from harness.adapters_x09 import norm_exp
  nontriv_m = lambda b: any(s["a"] == "Rx" for s in b)
  budget = {"mem1": 4500, "tcp1": 4500} if quick else {"mem1": 30000, "tcp1": 30000, "mem2": 30000, "mem3": 30000,
                                                         "tcp3": 30000}
  okm = None
  for c in exm:
    behs = [norm_exp(b) for b in next(it).tagged("T")]
    if not behs:
      raise tlc.TLCError("no behaviours exported for " + c)
    total = len(behs)
    behs = _sample(behs, budget.get(c, 10 ** 9), ctx.seed + 11)
    st = core.replay(ctx, MA, behs, params=dict(seed=ctx.seed, **MCFG[c][0]), nontrivial=nontriv_m, chunk=100)
    ctx.notes["messenger_edges_" + c] = dict(exported=total, replayed=len(behs), **st)
    if c == "mem1":
      okm = (behs, list(core.replay.last_ok))
  for c in sorted(SIM):
    behs = [norm_exp(b) for b in next(it).tagged("H")]
    if len(behs) < nsim // 2:
      raise tlc.TLCError("simulation %s exported %d behaviours" % (c, len(behs)))
    st = core.replay(ctx, MA, behs, params=dict(seed=ctx.seed + 5, **SIM[c]), nontrivial=nontriv_m, chunk=10)
    ctx.notes["messenger_sim_" + c] = dict(behaviours=len(behs), depth=40, **st)
  if okm and okm[1]:
    behs, ok = okm
    cand = [i for i in ok if behs[i][-1]["exp"]["ev"]]
    bad = copy.deepcopy(behs[cand[0] if cand else ok[0]])
    bad[-1]["exp"]["ev"] = bad[-1]["exp"]["ev"][:-1]
    probe = core.Context("X09", ctx.tier, ctx.seed, ctx.level, clear=False)
    core.replay(probe, MA, [bad], params=dict(seed=ctx.seed, **MCFG["mem1"][0]))
    if not probe.violations:
      raise tlc.TLCError("negative control: a corrupted Messenger expectation was not reported by the replay")
  phase("replay_messenger")
  # ---- 3. code -> spec
  nd = 300 if quick else 4000
  nm = 120 if quick else 1500
  td = core.run_driver("props.X09:drive_d", [(ctx.seed * 100003 + i, "mem" if i % 2 else "tcp") for i in range(nd)], procs=8)
  tm = core.run_driver("props.X09:drive_m", [(ctx.seed * 100019 + i, "mem", 40) for i in range(nm)], procs=8)
  tt = core.run_driver("props.X09:drive_m", [(ctx.seed * 100043 + i, "tcp", 40) for i in range(nm)], procs=8)

  phase("drivers")

  def corrupt_d(trs):
    for t in trs:
      for e in t:
        if e["a"] == "Rx" and e["obs"]["msgs"]:
          e["obs"]["msgs"] = e["obs"]["msgs"][1:]
          return t
    raise tlc.TLCError("no trace to corrupt")

  def corrupt_m(trs):
    for t in trs:
      for e in t:
        if e["a"] == "Rx" and any(x["e"] == "ChannelJoin" for x in e["obs"]["ev"]):
          e["obs"]["ev"] = [x for x in e["obs"]["ev"] if x["e"] != "ChannelJoin"]
          return t
    raise tlc.TLCError("no trace to corrupt")
  with concurrent.futures.ThreadPoolExecutor(3) as ex:
    futs = [ex.submit(_validate, ctx, "trace_destream", "TraceDestream", "Trace_destream.cfg", td, corrupt_d,
                      "a dispatched message dropped from the observation"),
            ex.submit(_validate, ctx, "trace_messenger_mem", "TraceMessenger", "Trace_mem.cfg", tm, corrupt_m,
                      "a ChannelJoin event dropped from the observation"),
            ex.submit(_validate, ctx, "trace_messenger_tcp", "TraceMessenger", "Trace_tcp.cfg", tt, corrupt_m,
                      "a ChannelJoin event dropped from the observation")]
    for f in futs:
      f.result()
  phase("trace_validation")
  ctx.exhaustive = not quick


# --------------------------------------------------------------------------------------------------
# drivers (code -> spec): what to do next is chosen from what is visible of the REAL system

def drive_d(arg):
  seed, via = arg
  from harness.adapters_x09 import DestreamAdapter
  from harness import x09_msgs as XM
  rnd = random.Random(seed)
  items = []
  for _ in range(rnd.randint(1, 5)):
    items.extend(["_"] * rnd.choice([0, 0, 1, 1, 2, 3]))
    items.append(rnd.choice(sorted(XM.TEXTS)))
  items.extend(["_"] * rnd.choice([0, 1, 2]))
  ad = DestreamAdapter(via=via, seed=seed)
  ad.step("Stream", {"items": items})
  tr = [dict(a="Stream", args=dict(items=items), obs=dict(msgs=[], buf=0), wf=True)]
  n = len(ad.text)
  style = rnd.choice(["tiny", "mixed", "big"])
  while ad.pos < n:
    k = {"tiny": rnd.randint(1, 2), "mixed": rnd.randint(1, 12), "big": rnd.randint(1, n)}[style]
    k = min(k, n - ad.pos)
    cls = XM.shape(ad.text[ad.pos:ad.pos + k])
    try:
      obs = ad.step("Rx", {"k": k, "cls": cls})
      wf = set(obs) == {"msgs", "buf"}
    except Exception as e:
      if isinstance(e, core.Machinery):
        raise
      obs, wf = {}, False
    if not wf:
      obs = dict(msgs=["!" + json.dumps(obs, sort_keys=True, default=str)[:200]], buf=-1)
    tr.append(dict(a="Rx", args=dict(k=k), obs=obs, wf=wf))
    if not wf:
      break
  ad.close()
  return tr


NAMES = ["a", "b"]
GEN = ["temp_1", "temp_2"]


def _msg(k, n="-", r1=0, r2=0):
  return dict(k=k, n=n, r1=r1, r2=r2)


def _random_msg(rnd, ad):
  k = rnd.choice(["join", "join", "joinp", "leave", "leave", "new", "invite", "invitex", "say", "say", "odd", "test",
                  "nlon", "nloff", "bogus"])
  if k in ("join", "joinp"):
    return _msg(k, rnd.choice(NAMES))
  if k == "leave":
    return _msg(k, rnd.choice(NAMES + GEN))
  if k == "new":
    return _msg(k, "-", rnd.choice([1, 2]), 0)
  if k in ("invite", "invitex"):
    if rnd.random() < 0.3:
      m = _msg(k, "-", rnd.choice([1, 2]), 0)
      target = "temp_%d" % m["r1"]
    else:
      m = _msg(k, rnd.choice(NAMES))
      target = m["n"]
    if k == "invite":
      # bound of the model: one invited bot per channel
      ch = ad.w.nexus._channels.get(target)
      if ch is not None and any(b.channel is ch for b in ad.w.bots):
        return _msg("test")
    return m
  if k in ("say", "odd"):
    return _msg(k, rnd.choice(NAMES + GEN))
  return _msg(k)


def drive_m(arg):
  seed, kind, n = arg
  from harness.adapters_x09 import MessengerAdapter
  rnd = random.Random(seed)
  NC = 3
  ad = MessengerAdapter(NC=NC, kind=kind, dev=REST, watched=["a", "temp_2"], seed=seed)
  tr = []
  shape = dict(ev=[], out=[[] for _ in range(NC)], chans=[], cst=["none"] * NC, tmem=[], shut=[], lsn="?", r="?")

  def do(a, args):
    try:
      obs = ad.step(a, args)
      wf = set(obs) == set(shape)
    except Exception as e:
      if isinstance(e, core.Machinery):
        raise
      obs, wf = {"r": "exception:" + type(e).__name__}, False
    if not wf:
      obs = dict(shape, r="!" + json.dumps(obs, sort_keys=True, default=str)[:300])
    tr.append(dict(a=a, args=args, obs=obs, wf=wf))
    return wf
  if kind == "tcp":
    do("Listen", {"x": 0})
  while len(tr) < n:
    w = ad.w
    opened = sorted(w.cons)
    live = [c for c in opened if w.cons[c].is_connected]
    p = rnd.random()
    ok = True
    if (not opened or p < 0.08) and len(opened) < NC:
      ok = do("Open", {"c": len(opened) + 1})
    elif p < 0.62 and live:
      c = rnd.choice(live)
      ms = [_random_msg(rnd, ad)]
      if rnd.random() < 0.25:
        m2 = _random_msg(rnd, ad)
        if not (m2["r1"] and ms[0]["r1"]) and not (m2["k"] == "invite" and ms[0]["k"] in ("invite", "new", "join", "joinp", "leave")):
          ms.append(m2)
      ok = do("Rx", {"c": c, "ms": ms})
    elif p < 0.68 and live and kind == "tcp":
      ok = do("PeerClose", {"c": rnd.choice(live), "how": rnd.choice(["eof", "err"])})
    elif p < 0.74 and opened:
      ok = do("Close", {"c": rnd.choice(opened)})
    elif p < 0.86:
      ok = do("ChanSend", {"n": rnd.choice([""] + NAMES + GEN)})
    elif p < 0.92 and opened:
      ok = do("ConSend", {"c": rnd.choice(opened)})
    elif kind == "tcp" and live:
      badc = [c for c in live if w.socks[c].send_mode != "ok"]
      if badc and rnd.random() < 0.5:
        ok = do("SetSend", {"c": badc[0], "mode": "ok"})
      elif not badc:
        ok = do("SetSend", {"c": rnd.choice(live), "mode": rnd.choice(["err", "short"])})
    if not ok:
      break
  ad.close()
  return tr


# --------------------------------------------------------------------------------------------------
def strict_demo():
  """Not part of the check: the DESIGN (Dev = {}) replayed on the tree as it is."""
  from harness.adapters_x09 import norm_exp
  import collections
  for cfg, kind, devs in [("STRICT_EX_tcp1.cfg", "tcp", ["D0", "D1", "D2", "D3"]), ("STRICT_EX_tcp1.cfg", "tcp", ["D1", "D2", "D3"]),
                          ("STRICT_EX_tcp1.cfg", "tcp", ["D2", "D3"]), ("STRICT_EX_tcp1.cfg", "tcp", ["D3"]),
                          ("STRICT_EX_tcp1.cfg", "tcp", []), ("STRICT_EX_mem1.cfg", "mem", ["D1"]), ("STRICT_EX_mem1.cfg", "mem", [])]:
    r = tlc.run("messenger", "MCMessenger", cfg, workers=1, coverage=False, tag="X09", timeout=1200)
    behs = _sample([norm_exp(b) for b in r.tagged("T")], 6000, 1)
    ctx = core.Context("X09", "strict", 0, "model_checking", clear=False)
    st = core.replay(ctx, MA, behs, params=dict(NC=2, kind=kind, dev=devs, watched=["a"], seed=1), procs=8)
    print("%s, harness leaves %s un-neutralised: %s" % (cfg, devs or "nothing", st))
    cnt = collections.Counter(core.canon(s) for s, _ in ctx.violations)
    for s, k in cnt.most_common(8):
      print("   %5d  %s" % (k, s))
    shown = set()
    for s, rep in ctx.violations:
      key = (s["action"], s.get("msgs"), tuple(s.get("fields", [])))
      if rep is None or key in shown or len(shown) >= 6:
        continue
      shown.add(key)
      print("   e.g.", [(x["a"], x["args"] if x["a"] != "Rx" else (x["args"]["c"], [m["k"] + ":" + m["n"] for m in x["args"]["ms"]]))
                        for x in rep["behaviour"]])
      for f in s.get("fields", []):
        print("        %s: expected %s observed %s" % (f, json.dumps(rep["expected"].get(f))[:300], json.dumps(rep["observed"].get(f))[:300]))


if __name__ == "__main__":
  import sys
  if sys.argv[1:] == ["strict"]:
    strict_demo()
