"""C20 - send path: SendPath.tla (controller: Connection.send + DeferredSender, two threads) and
Worker.tla (switch: IOWorker / RecocoIOWorker) model-checked; every transition of their state graphs and
simulated deep behaviours replayed on the real code (the two real threads stepped by the thread controller)."""
import copy

from engine import tlc, core

AD = "harness.adapters_c20:Adapter"
ADW = "harness.adapters_c20w:Adapter"
ACTS = ["CoopCall", "CoopFlag", "CoopDirect", "CoopDefer", "DefSnap", "DefSelect", "DefFlushW", "Close"]


def mc(ctx, module, cfg, acts):
  r = tlc.run("sendpath", module, cfg, tag="C20", timeout=1500)
  if r.violated:
    raise tlc.TLCError("%s violates %s in %s:\n%s" % (module, r.violated, cfg, r.error_trace[:3000]))
  tlc.require_coverage(r, acts, cfg)
  ctx.add_model("%s %s" % (module, cfg), r)


def negative_control(ctx, adapter, beh, params, mut):
  bad = copy.deepcopy(beh)
  mut(bad)
  c2 = core.Context(ctx.pid, ctx.tier, ctx.seed, ctx.level)
  c2.known = []
  core.replay(c2, adapter, [bad], params=params, procs=1)
  if not c2.violations:
    raise core.Machinery("negative control: corrupted expectation was not reported")


def run(ctx):
  quick = ctx.tier == "quick"
  ctx.rule = ("behaviours exported by TLC from SendPath.tla / Worker.tla (one per transition of the state graph, "
              "plus simulated deep ones) replayed on the real of_01.Connection + DeferredSender (two real threads "
              "stepped at the flag read / lock / select / socket-write points) and on the real RecocoIOWorker with "
              "scripted sockets; after every step the bytes accepted per socket, the bytes still queued, the "
              "sending flag, disconnected state and close notifications are compared; distinct = distinct "
              "action sequences")
  ctx.assumptions = ["<=2 connections, <=3-4 messages of 3 bytes, PIPE_BUF patched to 2 so slicing is exercised",
                     "socket outcomes per call: full, 1 byte, all but 1 byte, EAGAIN, fatal",
                     "interleaving granularity: the sending-flag read, the sender's lock blocks, select and "
                     "the direct socket write (everything else is under the lock or thread-private)",
                     "closing a connection that still has deferred data is outside the property's fault set and is not driven",
                     "switch side: shutdown() = flush what is queued, then SHUT_WR exactly once, after which the scripted socket refuses data"]
  mc(ctx, "MCSendPath", "MC_AB2.cfg", ACTS)
  mc(ctx, "MCSendPath", "MC_A3.cfg", ACTS)
  if not quick:
    mc(ctx, "MCSendPath", "MC_AB3.cfg", ACTS)
  mc(ctx, "Worker", "MC_W.cfg", ["Send", "SendFast", "DoSend", "Shutdown"])
  # spec -> code
  r = tlc.run("sendpath", "MCSendPath", "EX_AB2.cfg", workers=1, coverage=False, tag="C20")
  behs = r.tagged("T")
  st = core.replay(ctx, AD, behs, params=dict(conns=("A", "B")), chunk=60, nontrivial=lambda b: len(b) > 1)
  ctx.notes["replay EX_AB2 (all interleavings, 2 msgs)"] = dict(behaviours=len(behs), **st)
  if not core.replay.last_ok:
    return

  def mut(b):
    for s in reversed(b):
      for c, v in s["exp"]["accepted"].items():
        if v:
          v[-1] += 1
          s["alts"] = []
          return
    b[-1]["exp"]["sending"] = not b[-1]["exp"]["sending"]
    b[-1]["alts"] = []
  okb = [behs[i] for i in core.replay.last_ok]
  negative_control(ctx, AD, max(okb, key=len), dict(conns=("A", "B")), mut)
  r = tlc.run("sendpath", "MCSendPath", "EX_A3.cfg", workers=1, coverage=False, tag="C20")
  behs = r.tagged("T")
  st = core.replay(ctx, AD, behs, params=dict(conns=("A",)), chunk=60, nontrivial=lambda b: len(b) > 1)
  ctx.notes["replay EX_A3 (all interleavings, 1 connection, 3 msgs)"] = dict(behaviours=len(behs), **st)
  if not quick:
    r = tlc.run("sendpath", "MCSendPath", "EXS_AB3.cfg", workers=1, coverage=False, tag="C20")
    behs = r.tagged("T")
    st = core.replay(ctx, AD, behs, params=dict(conns=("A", "B")), chunk=100, nontrivial=lambda b: len(b) > 1)
    ctx.notes["replay EXS_AB3 (sequential, 3 msgs)"] = dict(behaviours=len(behs), **st)
  num = 150 if quick else 3000
  r = tlc.run("sendpath", "MCSendPath", "SIM_AB4.cfg", workers=1, coverage=False, simulate=dict(num=num),
              depth=31, seed=ctx.seed + 3, tag="C20")
  behs = r.tagged("H")
  if len(behs) < num // 5:
    raise tlc.TLCError("simulation exported only %d behaviours" % len(behs))
  st = core.replay(ctx, AD, behs, params=dict(conns=("A", "B")), chunk=20)
  ctx.notes["replay SIM_AB4 (depth 30, 4 msgs)"] = dict(behaviours=len(behs), **st)
  # switch side
  r = tlc.run("sendpath", "Worker", "EX_W.cfg", workers=1, coverage=False, tag="C20")
  behs = r.tagged("T")
  st = core.replay(ctx, ADW, behs, chunk=50)
  ctx.notes["replay EX_W (worker, 3 msgs)"] = dict(behaviours=len(behs), **st)

  def mutw(b):
    b[-1]["exp"]["closes"] += 1
  negative_control(ctx, ADW, behs[-1], {}, mutw)
  # a worker that is still connecting: data queued meanwhile and what the connect handler sends leave in order
  mc(ctx, "Worker", "MC_WC.cfg", ["Send", "SendFast", "DoSend", "Shutdown"])
  r = tlc.run("sendpath", "Worker", "EX_WC.cfg", workers=1, coverage=False, tag="C20")
  behs = r.tagged("T")
  if not any(s["a"] == "DoSend" and b[i - 1]["exp"]["connecting"] and b[i - 1]["exp"]["buf"]
             for b in behs for i, s in enumerate(b) if i > 0):
    raise core.Machinery("EX_WC: no behaviour in which the loop serves a connecting worker with queued data")
  st = core.replay(ctx, ADW, behs, params=dict(connecting=True), chunk=50)
  ctx.notes["replay EX_WC (connecting worker, 3 msgs)"] = dict(behaviours=len(behs), **st)
  r = tlc.run("sendpath", "Worker", "SIM_W.cfg", workers=1, coverage=False, simulate=dict(num=num),
              depth=13, seed=ctx.seed + 4, tag="C20")
  behs = r.tagged("H")
  st = core.replay(ctx, ADW, behs, chunk=50)
  ctx.notes["replay SIM_W (worker, 6 msgs)"] = dict(behaviours=len(behs), **st)
  ctx.exhaustive = True
