"""C01 - OpenFlow 1.0 / Nicira wire codec: OFWire.tla is the layout oracle.

1. TLC model-checks the oracle on every family of objects (Enc/Dec are inverse, length
   fields, alignment, no stale image after a change) and prints each behaviour
   Choose -> Encode [-> Modify -> Encode]* -> Decode -> Reencode with the expected bytes.
2. Every behaviour is replayed on the real library (harness/adapters_c01.py).
3. The oracle's tables are cross-checked against harness/rawbytes.py (an independent
   struct-only transcription of the standard).
4. Seeded random objects are pushed through the real library and the recorded traces are
   validated by TLC (TraceOFWire.tla), with a corrupted trace as negative control.
"""
import collections
import copy
import random
import threading

from engine import tlc, core, tracecheck

ADAPTER = "harness.adapters_c01:Adapter"
ACTIONS = ["Choose", "Receive", "Encode", "Modify", "Decode", "Reencode"]
RUNS = {"quick": ["q_dev", "q_dev_stats", "q_nx", "q_match", "q_uniform", "q_shapes", "q_nxm", "q_recv", "q_hist", "q_hist2", "q_mod"],
        # (longest first: the runs share the machine through a semaphore)
        "thorough": ["t_long", "t_match_other", "t_shapes", "t_match_fm", "q_dev", "q_dev_stats", "q_nx", "t_nx", "q_match",
                     "q_uniform", "t_pairs", "q_nxm", "t_recv", "t_hist", "t_hist2", "q_hist", "q_hist2", "q_shapes", "q_mod"]}
# the recursive codec operators of the spec need a deeper Java stack than the default on long payloads / lists
JENV = {"JAVA_TOOL_OPTIONS": "-Xss1g"}
JUNK = {0: [], 8: [(i * 37 + 11) % 256 for i in range(1, 9)], 24: [(i * 37 + 11) % 256 for i in range(1, 25)]}


def _parallel(jobs, limit):
  out = [None] * len(jobs)
  sem = threading.Semaphore(limit)

  def work(i):
    with sem:
      try:
        out[i] = ("ok", jobs[i]())
      except BaseException as e:
        out[i] = ("err", e)
  ts = [threading.Thread(target=work, args=(i,)) for i in range(len(jobs))]
  for t in ts:
    t.start()
  for t in ts:
    t.join()
  for kind, v in out:
    if kind == "err":
      raise v
  return [v for _, v in out]


def _export(name):
  def job():
    r = tlc.run("wire", "MC_" + name, "MC_%s.cfg" % name, workers=1, coverage=False, tag="C01", timeout=3000, env=JENV)
    if r.violated:
      raise tlc.TLCError("OFWire.tla violates its own property %s (%s):\n%s" % (r.violated, name, r.error_trace[:4000]))
    behs = r.tagged("H")
    if not behs:
      raise tlc.TLCError("no behaviours exported by MC_%s" % name)
    # vacuity guard.  TLC's -coverage switches off the memoisation of LET definitions, which the recursive
    # codec operators need, so the per-action counts are taken from the behaviours TLC printed: every
    # complete behaviour is printed once, and its steps are the transitions TLC generated.
    cnt = collections.Counter(s["a"] for b in behs for s in b)
    for a, n in cnt.items():
      r.coverage[a] = (0, n)
    return r, behs
  return job


def _one_report_per_signature(ctx):
  """keep the replay data of the first report of each signature, count the rest"""
  orig = ctx.report
  seen = collections.Counter()

  def report(sig, rep):
    key = core.canon(sig)
    seen[key] += 1
    if seen[key] > 1 and not any(core.sig_matches(e["signature"], sig) for e in ctx.known):
      return "violation"
    return orig(sig, rep)
  ctx.report = report
  return seen


def run(ctx):
  ctx.level = "exploration"
  seen = _one_report_per_signature(ctx)
  try:
    _run(ctx, ctx.tier == "quick")
  finally:
    if seen:
      ctx.notes["mismatches_per_signature"] = dict(seen)


def _run(ctx, quick):
  ctx.rule = ("one behaviour per enumerated object of OFWire.tla (Choose, Encode, [Modify, Encode]*, Decode, Reencode), "
              "exported by TLC with the expected bytes / decoded value / consumed length and replayed on the real "
              "library through its public constructors, pack(), the real decode dispatch and len(); plus seeded random "
              "objects recorded from the library and validated by TLC; distinct = distinct (object, modifications, "
              "buffer placement); non-trivial = all (every behaviour encodes and decodes)")
  ctx.assumptions = [
      "expected bytes come only from the layout tables of specs/wire/OFWire.tla + NXWire.tla (transcribed from openflow.h "
      "0x01 / nicira-ext.h); TLC checks on them that Dec(Enc(m)) = m, length fields = byte counts, declared sizeof()s, "
      "8-byte alignment; the tables are cross-checked against harness/rawbytes.py",
      "domain = objects the library lets a caller construct in canonical form (OFWire.tla Constructible): prerequisite-"
      "normal matches with masked prefixes, max_len only for OFPP_CONTROLLER, total_len >= data, packet-out data only "
      "without buffer, NXM entries of named fields with proper masks; wildcard bits of fields whose prerequisite is "
      "unmet are free (NormalizePrereqs)",
      "field values: classes zero / all-ones / sign bit / largest positive / per-field pattern for every field alone "
      "and all together; values in between only through the seeded random traces",
      "decode entry points: of_01.unpackers (+ nicira's hook) for messages, _unpack_actions / _unpack_queue_props, "
      "unpack_new of the class for structures, Nicira messages a controller never receives and Nicira actions"]
  from harness import c01_lib
  layout = c01_lib.export_layout()
  # 1 + 2: model-check each family, replay what TLC printed
  names = RUNS[ctx.tier]
  results = _parallel([_export(n) for n in names], 11 if quick else 12)
  agg = collections.Counter()
  own = 0
  keep = []
  for name, (r, behs) in zip(names, results):
    ctx.add_model("OFWire %s (all invariants; every behaviour exported)" % name, r, behaviours=len(behs))
    for a, (_, n) in r.coverage.items():
      agg[a] += n
    own += sum(1 for b in behs for s in b if s["a"] == "Decode" and s["args"]["src"] == "own")
    _crosscheck(ctx, behs)
    st = core.replay(ctx, ADAPTER, behs, params={}, chunk=40 if name != "t_long" else 1)
    ctx.notes["replay_" + name] = dict(behaviours=len(behs), **st)
    if name == "q_uniform":
      keep = [behs[i] for i in core.replay.last_ok[:50]]
    del behs
  fake = tlc.TLCResult()
  fake.coverage = {a: (0, n) for a, n in agg.items()}
  tlc.require_coverage(fake, ACTIONS, "OFWire.tla (all runs)")
  if own == 0:
    raise tlc.TLCError("vacuous: no Decode of the implementation's own bytes (free bits) was generated")
  ctx.notes["transitions_per_action"] = dict(agg)
  ctx.notes["decode_own_bytes"] = own
  ctx.notes["oracle_crosscheck_rawbytes"] = dict(_XC)
  if not _XC or min(_XC.values()) == 0:
    raise core.Machinery("oracle cross-check against rawbytes.py did not run for every covered kind: %r" % (_XC,))
  # negative control of the replay: a behaviour that passed must fail when one expected byte is changed
  if keep:
    _negative_replay(ctx, keep)
  # 4: code -> spec
  ntr = 500 if quick else 6000
  traces = core.run_driver("props.C01:drive", [(ctx.seed * 1000003 + i, i) for i in range(ntr)])
  bad = copy.deepcopy(next(t for t in traces if all(e["wf"] for e in t)))
  for e in bad:
    if e["a"] == "Encode":
      e["obs"]["wire"][-1] ^= 0x10
      break
  r, rej = tracecheck.validate("wire", "TraceOFWire", "Trace.cfg", traces + [bad], tag="C01", timeout=3000, extra_env=JENV)
  ctx.add_model("TraceOFWire (validation of %d implementation traces)" % ntr, r)
  if len(traces) not in [t for t, _ in rej]:
    raise tlc.TLCError("negative control (one flipped byte in a recorded encoding) was accepted by the trace spec")
  nrej = 0
  for t, matched in rej:
    if t == len(traces):
      continue
    nrej += 1
    ev = traces[t][matched]
    kind = traces[t][0]["args"]["msg"]["k"]
    sig = dict(action=ev["a"], kind=kind, modified=any(e["a"] == "Modify" for e in traces[t][:matched + 1]),
               observed=ev.get("why") or "rejected-by-spec", via="trace")
    if any(e["a"] == "Modify" and e["args"].get("form") == "wildcards" for e in traces[t][:matched + 1]):
      sig["wildcards_assigned"] = True
    ctx.report(sig, dict(trace=traces[t], failing_step=matched, note="TLC rejected the trace at this event"))
  ctx.traces += len(traces)
  for t in traces[:3000]:
    ctx.case(core.fp([[e["a"], e["args"]] for e in t]), sample=None)
  ctx.notes["trace_validation"] = dict(traces=len(traces), events=sum(len(t) for t in traces), rejected=nrej,
                                       kinds=len(set(t[0]["args"]["msg"]["k"] for t in traces)),
                                       with_modification=sum(1 for t in traces if any(e["a"] == "Modify" for e in t)),
                                       negative_control_rejected=True)
  ctx.exhaustive = False


# ---------------------------------------------------------------------------
# oracle cross-check: the bytes TLC computed vs. harness/rawbytes.py (independent of POX and of the spec)
_XC = collections.Counter()


def _i(b):
  return int.from_bytes(bytes(b), "big")


def _rb_match(m):
  from harness import rawbytes as rb
  f = m["f"]
  w = 0
  bit = dict(in_port=rb.FW_IN_PORT, dl_vlan=rb.FW_DL_VLAN, dl_src=rb.FW_DL_SRC, dl_dst=rb.FW_DL_DST,
             dl_type=rb.FW_DL_TYPE, nw_proto=rb.FW_NW_PROTO, tp_src=rb.FW_TP_SRC, tp_dst=rb.FW_TP_DST,
             dl_vlan_pcp=rb.FW_DL_VLAN_PCP, nw_tos=rb.FW_NW_TOS)
  kw = {}
  for n, b in bit.items():
    if not f[n]:
      w |= b
    else:
      kw[n] = bytes(f[n]) if n in ("dl_src", "dl_dst") else _i(f[n])
  w |= (32 - f["nw_src_bits"][0]) << rb.FW_NW_SRC_SHIFT
  w |= (32 - f["nw_dst_bits"][0]) << rb.FW_NW_DST_SHIFT
  for n in ("nw_src", "nw_dst"):
    if f[n]:
      kw[n] = bytes(f[n])
  return rb.match(wildcards=w, **kw)


def _rb_actions(acts):
  from harness import rawbytes as rb
  out = b""
  for a in acts:
    k, f = a["k"], a["f"]
    if k == "a_output":
      # NormalizeMaxLen (OFWire.tla PackCanon): pack() keeps max_len only towards the controller
      out += rb.a_output(_i(f["port"]), _i(f["max_len"]) if _i(f["port"]) == rb.OFPP_CONTROLLER else 0)
    elif k == "a_set_vlan_vid":
      out += rb.a_vlan_vid(_i(f["vlan_vid"]))
    elif k == "a_set_vlan_pcp":
      out += rb.a_vlan_pcp(_i(f["vlan_pcp"]))
    elif k == "a_strip_vlan":
      out += rb.a_strip_vlan()
    elif k == "a_set_dl_src":
      out += rb.a_dl_src(bytes(f["dl_addr"]))
    elif k == "a_set_dl_dst":
      out += rb.a_dl_dst(bytes(f["dl_addr"]))
    elif k == "a_set_nw_src":
      out += rb.a_nw_src(bytes(f["nw_addr"]))
    elif k == "a_set_nw_dst":
      out += rb.a_nw_dst(bytes(f["nw_addr"]))
    elif k == "a_set_nw_tos":
      out += rb.a_nw_tos(_i(f["nw_tos"]))
    elif k == "a_set_tp_src":
      out += rb.a_tp_src(_i(f["tp_port"]))
    elif k == "a_set_tp_dst":
      out += rb.a_tp_dst(_i(f["tp_port"]))
    elif k == "a_enqueue":
      out += rb.a_enqueue(_i(f["port"]), _i(f["queue_id"]))
    elif k == "a_vendor":
      out += rb.a_vendor(_i(f["vendor"]), bytes(f["body"]))
    else:
      return None
  return out


def _rb_port(p):
  from harness import rawbytes as rb
  f = p["f"]
  return rb.phy_port(_i(f["port_no"]), bytes(f["hw_addr"]), bytes(f["name"]), _i(f["config"]), _i(f["state"]),
                     _i(f["curr"]), _i(f["advertised"]), _i(f["supported"]), _i(f["peer"]))


def _rawbytes(msg):
  """the message built by rawbytes.py, or None where rawbytes has no builder"""
  from harness import rawbytes as rb
  k, f = msg["k"], msg["f"]
  if not isinstance(f, dict) or "xid" not in f:
    if k == "actions":
      return _rb_actions(f["actions"])
    if k == "match":
      return _rb_match(msg)
    if k == "phy_port":
      return _rb_port(msg)
    return None
  x = _i(f["xid"])
  simple = {"hello": rb.hello, "features_request": rb.features_request, "get_config_request": rb.get_config_request,
            "barrier_request": rb.barrier_request, "barrier_reply": rb.barrier_reply}
  if k in simple:
    return simple[k](xid=x)
  if k == "echo_request":
    return rb.echo_request(bytes(f["body"]), x)
  if k == "echo_reply":
    return rb.echo_reply(bytes(f["body"]), x)
  if k == "error":
    return rb.error(_i(f["type"]), _i(f["code"]), bytes(f["data"]), x)
  if k == "vendor":
    return rb.vendor(_i(f["vendor"]), bytes(f["data"]), x)
  if k == "set_config":
    return rb.set_config(_i(f["flags"]), _i(f["miss_send_len"]), x)
  if k == "get_config_reply":
    return rb.msg(rb.GET_CONFIG_REPLY, rb.set_config(_i(f["flags"]), _i(f["miss_send_len"]))[8:], x)
  if k == "features_reply":
    return rb.features_reply(_i(f["datapath_id"]), [_rb_port(p) for p in f["ports"]], _i(f["n_buffers"]),
                             _i(f["n_tables"]), _i(f["capabilities"]), _i(f["actions"]), x)
  if k == "packet_in":
    return rb.packet_in(_i(f["buffer_id"]), _i(f["total_len"]), _i(f["in_port"]), _i(f["reason"]), bytes(f["data"]), x)
  if k == "packet_out":
    a = _rb_actions(f["actions"])
    return None if a is None else rb.packet_out(_i(f["buffer_id"]), _i(f["in_port"]), a, bytes(f["data"]), x)
  if k == "flow_mod":
    a = _rb_actions(f["actions"])
    return None if a is None else rb.flow_mod(_rb_match(f["match"]), _i(f["cookie"]), _i(f["command"]),
                                              _i(f["idle_timeout"]), _i(f["hard_timeout"]), _i(f["priority"]),
                                              _i(f["buffer_id"]), _i(f["out_port"]), _i(f["flags"]), a, x)
  if k == "flow_removed":
    return rb.flow_removed(_rb_match(f["match"]), _i(f["cookie"]), _i(f["priority"]), _i(f["reason"]),
                           _i(f["duration_sec"]), _i(f["duration_nsec"]), _i(f["idle_timeout"]),
                           _i(f["packet_count"]), _i(f["byte_count"]), x)
  if k == "port_status":
    return rb.port_status(_i(f["reason"]), _rb_port(f["desc"]), x)
  if k == "port_mod":
    return rb.port_mod(_i(f["port_no"]), bytes(f["hw_addr"]), _i(f["config"]), _i(f["mask"]), _i(f["advertise"]), x)
  if k == "queue_get_config_request":
    return rb.queue_get_config_request(_i(f["port"]), x)
  fl = _i(f["flags"]) if "flags" in f else 0
  if k in ("sreq_desc", "sreq_table"):
    return rb.stats_request(rb.ST_DESC if k == "sreq_desc" else rb.ST_TABLE, b"", fl, x)
  if k in ("sreq_flow", "sreq_aggregate"):
    return rb.stats_request(rb.ST_FLOW if k == "sreq_flow" else rb.ST_AGGREGATE,
                            rb.flow_stats_request_body(_rb_match(f["match"]), _i(f["table_id"]), _i(f["out_port"])), fl, x)
  if k == "sreq_port":
    return rb.stats_request(rb.ST_PORT, rb.port_stats_request_body(_i(f["port_no"])), fl, x)
  if k == "sreq_queue":
    return rb.stats_request(rb.ST_QUEUE, rb.queue_stats_request_body(_i(f["port_no"]), _i(f["queue_id"])), fl, x)
  if k == "srep_desc":
    return rb.stats_reply(rb.ST_DESC, rb.desc_stats_body(bytes(f["mfr_desc"]), bytes(f["hw_desc"]), bytes(f["sw_desc"]),
                                                         bytes(f["serial_num"]), bytes(f["dp_desc"])), fl, x)
  if k == "srep_flow":
    body = b""
    for e in f["body"]:
      g = e["f"]
      a = _rb_actions(g["actions"])
      if a is None:
        return None
      body += rb.flow_stats_entry(_rb_match(g["match"]), _i(g["table_id"]), _i(g["duration_sec"]),
                                  _i(g["duration_nsec"]), _i(g["priority"]), _i(g["idle_timeout"]),
                                  _i(g["hard_timeout"]), _i(g["cookie"]), _i(g["packet_count"]), _i(g["byte_count"]), a)
    return rb.stats_reply(rb.ST_FLOW, body, fl, x)
  if k == "srep_port":
    names = ["rx_packets", "tx_packets", "rx_bytes", "tx_bytes", "rx_dropped", "tx_dropped", "rx_errors", "tx_errors",
             "rx_frame_err", "rx_over_err", "rx_crc_err", "collisions"]
    return rb.stats_reply(rb.ST_PORT, b"".join(rb.port_stats_entry(_i(e["f"]["port_no"]), [_i(e["f"][n]) for n in names])
                                               for e in f["body"]), fl, x)
  if k == "srep_table":
    return rb.stats_reply(rb.ST_TABLE, b"".join(
        rb.table_stats_entry(_i(e["f"]["table_id"]), bytes(e["f"]["name"]), _i(e["f"]["wildcards"]),
                             _i(e["f"]["max_entries"]), _i(e["f"]["active_count"]), _i(e["f"]["lookup_count"]),
                             _i(e["f"]["matched_count"])) for e in f["body"]), fl, x)
  if k == "srep_queue":
    return rb.stats_reply(rb.ST_QUEUE, b"".join(
        rb.queue_stats_entry(_i(e["f"]["port_no"]), _i(e["f"]["queue_id"]), _i(e["f"]["tx_bytes"]),
                             _i(e["f"]["tx_packets"]), _i(e["f"]["tx_errors"])) for e in f["body"]), fl, x)
  return None


def _crosscheck(ctx, behs):
  for b in behs:
    if len(b) < 2 or b[0]["a"] != "Choose" or b[1]["a"] != "Encode":
      continue
    msg = b[0]["args"]["msg"]
    try:
      raw = _rawbytes(msg)
    except Exception as e:
      raise core.Machinery("rawbytes cross-check failed to build %s: %r" % (b[0]["args"]["tag"], e))
    if raw is None:
      continue
    _XC[msg["k"]] += 1
    if list(raw) != b[1]["exp"]["wire"]:
      raise core.Machinery("layout oracle and harness/rawbytes.py disagree on %s:\n spec %s\n raw  %s" %
                           (b[0]["args"]["tag"], bytes(b[1]["exp"]["wire"]).hex(), raw.hex()))


def _negative_replay(ctx, behs):
  sub = core.Context(ctx.pid, ctx.tier, ctx.seed, ctx.level)
  sub.known = []
  bad = []
  for b in behs:
    b = copy.deepcopy(b)
    w = b[1]["exp"]["wire"]
    w[len(w) // 2] ^= 1
    b[3]["exp"]["wire"] = list(w)
    bad.append(b)
  st = core.replay(sub, ADAPTER, bad, params={}, procs=1)
  if st["mismatch"] != len(bad):
    raise core.Machinery("negative control: %d of %d behaviours with a flipped expected byte were accepted"
                         % (len(bad) - st["mismatch"], len(bad)))
  ctx.notes["negative_control_replay"] = dict(behaviours=len(bad), rejected=st["mismatch"])


# ---------------------------------------------------------------------------
# code -> spec driver: one random object through the real library
_GEN = {}


def drive(item):
  """item = (seed, index): indexes below 2 * (number of kinds) walk through every kind with the constructor's
  defaults (first none, then a random half of the fields set); the rest is random"""
  seed, idx = item
  from harness import c01_lib
  from harness.adapters_c01 import Adapter
  if "layout" not in _GEN:
    _GEN["layout"] = c01_lib.load_layout()
  rnd = random.Random(seed)
  gen = c01_lib.Gen(_GEN["layout"], rnd)
  kinds = gen.top_kinds()
  kind = kinds[idx % len(kinds)] if (idx < 2 * len(kinds) or rnd.random() < 0.5) else rnd.choice(kinds)
  msg = gen.value(kind)
  ad = Adapter(_GEN["layout"])
  tr = []

  def do(a, args, targs=None):
    """perform one action; returns False when the trace ends here"""
    why = ""
    try:
      obs = ad.step(a, args)
      wf = True
    except Exception as e:
      obs, wf, why = {}, False, "exception:" + type(e).__name__
    if wf:
      if a in ("Choose", "Modify"):
        wf = obs == {"ok": True}
        why = "" if wf else "construct"
      elif a in ("Encode", "Reencode"):
        wf = isinstance(obs.get("wire"), list) and isinstance(obs.get("len"), int)
        why = "" if wf else "not-bytes"
        if wf and a == "Reencode" and obs.get("rt") is not True:
          wf, why = False, "redecode=%s" % (obs.get("rt"),)
        obs = {"len": obs.get("len"), "wire": obs.get("wire")}
      else:
        wf = isinstance(obs.get("eq"), bool) and isinstance(obs.get("consumed"), int) and not c01_lib.has_bad(obs.get("val"))
        why = "" if wf else ("eq=%s" % obs.get("eq") if not isinstance(obs.get("eq"), bool) else "value")
    ev = dict(a=a, args=targs if targs is not None else args, obs=obs if wf else {}, wf=wf)
    if why:
      ev["why"] = why
    tr.append(ev)
    return wf

  partial = None
  if (idx < 2 * len(kinds) or rnd.random() < 0.15) and kind not in ("match", "actions", "props", "nxmatch") \
     and isinstance(msg["f"], dict):
    # the constructor's own defaults, with a random subset of the fields set
    some = {n: v for n, v in msg["f"].items() if idx >= len(kinds) and rnd.random() < 0.5}
    try:
      partial = ad.step("ChoosePartial", {"kind": kind, "fields": some})
    except Exception:
      partial = None
    if partial is not None and (c01_lib.has_bad(partial) or partial.get("k") != kind):
      partial = None            # a field the constructor leaves unset on purpose: not an object yet
  if partial is not None:
    msg = copy.deepcopy(partial)
    tr.append(dict(a="Choose", args={"msg": copy.deepcopy(msg)}, obs={"ok": True}, wf=True))
  elif not do("Choose", {"tag": "random/random", "msg": msg}, {"msg": copy.deepcopy(msg)}):
    return tr
  # construction history: writes on the match before the first encoding, ending in the value it already has
  if partial is None and rnd.random() < 0.6:
    for m in c01_lib.match_history(gen, msg):
      if not do("Modify", m):
        return tr
  if not do("Encode", {"x": 0}):
    return tr
  nmod = rnd.choice([0, 0, 0, 1, 1, 2])
  for _ in range(nmod):
    m = gen.modification(msg)
    if m is None:
      break
    if not do("Modify", m):
      return tr
    c01_lib.apply_mod(msg, m)
    if not do("Encode", {"x": 0}):
      return tr
  pre, post = rnd.choice([(0, 0), (8, 24)])
  if not do("Decode", {"src": "own", "pre": JUNK[pre], "post": JUNK[post], "wire": []},
            {"src": "own", "pre": pre, "post": post}):
    return tr
  do("Reencode", {"x": 0})
  return tr
