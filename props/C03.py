"""C03 - flow match and lookup semantics: OFMatch.tla / Lookup.tla model-checked,
TLC-computed lookup answers replayed on a real SoftwareSwitch, random histories of
the real switch validated by TLC."""
import copy
import random
import time
from concurrent.futures import ThreadPoolExecutor

from engine import tlc, core, tracecheck

ADAPTER = "harness.adapters_c03:Adapter"
SPEC = "match"

SHAPES = ["tcp", "udp", "icmp", "gre", "tcpopt", "tcpecn", "frag1", "frag2", "fraglast", "vtcp", "v0udp",
          "arpreq", "arprep", "arphi", "varp", "other", "ipv6", "rarp", "llc", "snapip", "snaparp", "snapx",
          "vllc", "vsnap", "qinq"]
NW_SHAPES = ["tcp", "udp", "icmp", "gre", "tcpopt", "tcpecn", "frag1", "frag2", "fraglast", "vtcp", "v0udp",
             "arpreq", "arprep", "arphi", "varp", "snapip", "snaparp", "vsnap"]


FAM_ROWS = {"flags": 1024, "flagsP": 1024, "wvals": 1024, "wvalsW": 1024, "single": 84, "prefix": 363,
            "garble": 121, "line64": 192, "full64": 4096}
GRP_SIZE = {"all": 25, "nw": 18, "q12": 12, "rest": 13, "q3": 3}


def plan(tier):
  """(family, catalog selection) pairs: rows exported and replayed / model-checked."""
  if tier == "quick":
    ex = [("single", "q12"), ("flags", "tcp"), ("wvals", "other"),
          ("prefix", "varp"), ("garble", "udp"), ("line64", "icmp")]
    mc = [("single", "q3")]
  else:
    ex = [("flags", s) for s in SHAPES]
    ex += [("wvals", s) for s in ("tcp", "icmp", "vtcp", "arpreq", "other", "llc", "snapip", "vsnap")]
    ex += [("flagsP", s) for s in ("tcp", "frag1", "v0udp", "varp", "vsnap")]
    ex += [("wvalsW", s) for s in ("tcp", "other")]
    ex += [("prefix", "nw"), ("garble", "nw"), ("line64", "nw"), ("single", "all"),
           ("prefix", "other"), ("line64", "llc"), ("full64", "tcp")]
    mc = [("single", "all")]
    mc += [("flags", s) for s in ("tcp", "arpreq", "vsnap", "other")]
    mc += [("wvals", "other"), ("prefix", "udp"), ("garble", "varp"), ("line64", "tcp")]
  return ex, mc


def cost(job):
  kind, fam, grp, cfg, kw = job
  if cfg in ("MC_rows.cfg", "EX_rows.cfg"):
    rows = FAM_ROWS[fam] * GRP_SIZE.get(grp, 1)
    return rows * (50 if kind == "mc" else 7) / 1000.0 / kw.get("workers", 1)
  return 15


def _run(job):
  kind, fam, base, cfg, kw = job
  env = {"C03_FAM": fam, "C03_GRP": base}
  if kind == "mc":
    return job, tlc.run(SPEC, kw.get("module", "MCLookup"), cfg, env=env, tag="C03", workers=kw.get("workers", 1),
                        timeout=1500)
  return job, tlc.run(SPEC, "MCLookup", cfg, env=env, tag="C03", workers=1, coverage=False, timeout=1500, **kw.get("tlc", {}))


def parallel(jobs, threads):
  """Run independent TLC jobs side by side (each is a subprocess; one worker each)."""
  out = []
  with ThreadPoolExecutor(max_workers=threads) as ex:
    for res in ex.map(_run, jobs):
      out.append(res)
  return out


def norm(behs):
  """sets exported by TLC -> sorted lists"""
  for b in behs:
    for st in b:
      e = st["exp"]
      if "outs" in e:
        if st["a"] == "ProbeAll":
          e["outs"] = [sorted(o) for o in e["outs"]]
        else:
          e["outs"] = sorted(e["outs"])
      if st["a"] == "Install":
        st["args"]["m"]["wc"] = sorted(st["args"]["m"]["wc"])
  return behs


def corrupt(beh):
  """negative control: claim the opposite lookup answer in the last probe of a behaviour"""
  b = copy.deepcopy(beh)
  for st in reversed(b):
    if st["a"] == "ProbeAll":
      for i, o in enumerate(st["exp"]["outs"]):
        if o == [0]:
          st["exp"]["outs"][i] = [1]
          return b
      st["exp"]["outs"][0] = [0] if st["exp"]["outs"][0] != [0] else [1]
      return b
    if st["a"] == "Packet":
      st["exp"]["outs"] = [0] if st["exp"]["outs"] != [0] else [1]
      return b
  return None


def run(ctx):
  quick = ctx.tier == "quick"
  threads = 8 if quick else 12
  ctx.rule = ("lookup answers computed by TLC from OFMatch.tla/Lookup.tla (for each match of a family derived from a "
              "frame shape: the answers for every frame of the shape's one-field neighbourhood and for all 25 shapes; "
              "for tables: every ordered installation of up to 3 entries, random deeper ones) replayed on a real "
              "SoftwareSwitch (FLOW_MOD bytes in, raw Ethernet frames in, output port / PACKET_IN bytes out); "
              "distinct = distinct (match or table, frame catalog) behaviours; all are non-trivial")
  ctx.assumptions = [
      "prerequisites are decided by the match: nw_* take part only if dl_type is specified as IPv4/ARP (nw_tos: IPv4), "
      "tp_* only if additionally nw_proto is specified as ICMP/TCP/UDP; the value of a wildcarded field never matters "
      "(OpenFlow 1.0.1 section 3.4 wording, which libopenflow_01 quotes)",
      "latitude: dl_vlan_pcp of an untagged frame compared as 0 or not compared; an entry whose only wildcards are on "
      "fields that cannot take part may or may not count as exact-match; ties in priority: any matching entry",
      "frames are well formed (complete headers); 25 frame shapes x one-field variations; MACs are symbols "
      "concretised from 4 pools; addresses/ports/priorities are real numbers",
      "FLOW_MOD / frame bytes are built and PACKET_IN decoded by harness/rawbytes.py + harness/c03_frames.py (struct only)"]
  ex_plan, mc_plan = plan(ctx.tier)

  # ---- 1. the property on the model
  jobs = [("mc", "single", "tcp", "MC_oracle.cfg", dict(module="MCOracle")),
          ("mc", "single", "tcp", "MC_tbl.cfg" if quick else "MC_tbl_full.cfg", dict(workers=4))]
  jobs += [("mc", fam, base, "MC_rows.cfg", dict(workers=min(4, GRP_SIZE.get(base, 1)))) for fam, base in mc_plan]
  # ---- 2. exports (run side by side with the model checking)
  jobs += [("ex", fam, base, "EX_rows.cfg", {}) for fam, base in ex_plan]
  jobs.append(("ex", "single", "tcp", "EX_tbl.cfg" if quick else "EX_tbl_full.cfg", {}))
  nsim = 30 if quick else 300
  jobs.append(("ex", "single", "tcp", "EX_sim.cfg",
               dict(tlc=dict(simulate=dict(num=nsim), depth=31, seed=ctx.seed + 1))))
  jobs.sort(key=lambda j: -cost(j))      # longest first
  t0 = time.time()
  results = parallel(jobs, threads)
  timing = dict(tlc_jobs=len(jobs), tlc_phase_s=round(time.time() - t0, 1),
                tlc_cpu_s=round(sum(r.wall for _, r in results), 1))
  t0 = time.time()

  exports = []
  rows_mc = 0
  for job, r in results:
    kind, fam, base, cfg, kw = job
    if kind == "mc":
      if r.violated:
        raise tlc.TLCError("spec violates its own property %s (%s %s %s):\n%s" % (r.violated, cfg, fam, base, r.error_trace))
      if cfg == "MC_oracle.cfg":
        ctx.add_model("MCOracle (ASSUMEs: extraction, prefix arithmetic, policies)", r)
      elif cfg.startswith("MC_tbl"):
        tlc.require_coverage(r, ["InstallSome", "PacketSome", "ProbeAll"], cfg)
        ctx.add_model("Lookup tables " + cfg, r)
      else:
        tlc.require_coverage(r, ["InstallSome", "ProbeAll"], "%s %s/%s" % (cfg, fam, base))
        rows_mc += r.coverage["ProbeAll"][1]
        ctx.add_model("Lookup rows %s/%s" % (fam, base), r)
    else:
      exports.append((job, r))
  ctx.notes["matches_model_checked"] = rows_mc

  # ---- 3. spec -> code
  tot = dict(ok=0, diverted=0, mismatch=0)
  nrows = 0
  nlook = 0
  neg = None
  for n, (job, r) in enumerate(exports):
    kind, fam, base, cfg, kw = job
    if cfg == "EX_rows.cfg":
      frames = r.tagged("FR")[0]
      behs = norm(r.tagged("H"))
      what = "rows %s/%s" % (fam, base)
    else:
      frames = r.tagged("FT")[0]
      behs = norm(r.tagged("H"))
      what = cfg
    if not behs:
      raise tlc.TLCError("no behaviours exported by %s %s/%s" % (cfg, fam, base))
    if cfg == "EX_sim.cfg" and len(behs) < nsim:
      raise tlc.TLCError("simulation exported only %d behaviours" % len(behs))
    params = dict(frames=frames, pool=(ctx.seed + n) % 4, reserved=(0xffc00000 if n % 3 == 1 else 0))
    st = core.replay(ctx, ADAPTER, behs, params=params, chunk=(100 if cfg == "EX_rows.cfg" else 50))
    for k in tot:
      tot[k] += st[k]
    nrows += len(behs)
    nlook += sum(len(st["exp"]["outs"]) if st["a"] == "ProbeAll" else 1
                 for b in behs for st in b if st["a"] != "Install")
    ctx.notes.setdefault("replay", {})[what] = dict(behaviours=len(behs), frames=len(frames), **st)
    if neg is None and core.replay.last_ok and cfg == "EX_rows.cfg":
      neg = (corrupt(behs[core.replay.last_ok[0]]), params)
    r.prints = None
    r.stdout = None
  ctx.notes["replay_total"] = dict(behaviours=nrows, lookups_compared=nlook, **tot)
  timing["replay_phase_s"] = round(time.time() - t0, 1)
  t0 = time.time()

  # negative control of the replay: a corrupted expectation must be reported
  if neg is not None and neg[0] is not None:
    probe = core.Context(ctx.pid, ctx.tier, ctx.seed, ctx.level)
    probe.known = []
    st = core.replay(probe, ADAPTER, [neg[0]], params=neg[1], procs=1)
    if st["mismatch"] != 1:
      raise tlc.TLCError("negative control (corrupted lookup answer) was not reported by the replay")
    ctx.notes["replay_negative_control_rejected"] = True

  # ---- 4. code -> spec: random flow-mods / frames on the real switch, TLC decides
  ntr = 160 if quick else 1500
  traces = core.run_driver("props.C03:drive", [(ctx.seed * 1000003 + i, 40) for i in range(ntr)])
  bad = None
  for t in traces:                      # negative control: flip one lookup answer
    hit = [e for e in t if e["a"] == "Packet" and e["wf"] and e["obs"]["out"] > 0]
    if hit:
      bad = copy.deepcopy(t)
      for e in bad:
        if e["a"] == "Packet" and e["wf"] and e["obs"]["out"] > 0:
          e["obs"]["out"] = 0
          break
      break
  if bad is None:
    raise tlc.TLCError("random driver produced no table hit at all")
  r, rej = tracecheck.validate(SPEC, "TraceLookup", "Trace.cfg", traces + [bad], tag="C03")
  ctx.add_model("TraceLookup (validation of %d implementation traces)" % ntr, r)
  if len(traces) not in [t for t, _ in rej]:
    raise tlc.TLCError("negative control (hit reported as miss) was accepted by the trace spec")
  for t, matched in rej:
    if t == len(traces):
      continue
    ev = traces[t][matched]
    ctx.report(trace_signature(ev), dict(trace=traces[t], failing_step=matched, seed=ctx.seed * 1000003 + t,
                                         note="TLC rejected the trace at this event"))
  ctx.traces += len(traces)
  for t in traces[:3000]:
    ctx.case(core.fp([[e["a"], e["args"]] for e in t]))
  ctx.notes["trace_validation"] = dict(traces=len(traces), events=sum(len(t) for t in traces),
                                       rejected=len(rej) - 1, negative_control_rejected=True)
  timing["trace_phase_s"] = round(time.time() - t0, 1)
  ctx.notes["timing"] = timing
  ctx.exhaustive = True


def gen_inputs(seed, n):
  """Seeded random flow-mods and frames (inputs only)."""
  from harness import c03_gen as g
  rnd = random.Random(seed)
  ins = []
  pool = [g.frame(rnd) for _ in range(3)]
  # distinct priorities: replacing an entry with the same priority and match is C04's subject
  prios = sorted(set([0, 1, 2, 0x7fff, 0x8000, 0xfffe, 0xffff] + [rnd.randrange(65536) for _ in range(4)]))
  rnd.shuffle(prios)
  nk = 0
  for _ in range(n):
    if nk < 8 and (nk == 0 or rnd.random() < 0.2):
      nk += 1
      x = rnd.choice(pool)
      ins.append(("Install", dict(k=nk, m=g.match_for(rnd, x), prio=prios.pop())))
    else:
      k = rnd.random()
      if k < 0.35:
        x = rnd.choice(pool)
      elif k < 0.8:
        x = g.variant(rnd, rnd.choice(pool))
      else:
        x = g.frame(rnd)
        pool[rnd.randrange(len(pool))] = x
      ins.append(("Packet", dict(x=x)))
  return ins


def execute(ins, seed):
  """Run the inputs on a fresh real switch; returns the recorded trace (fixed schema)."""
  from harness.adapters_c03 import Adapter
  ad = Adapter(frames={}, pool=seed % 4, reserved=(0xffc00000 if seed % 2 else 0))
  tr = []
  for a, args in ins:
    note = ""
    try:
      obs = ad.step(a, args)
      wf = True
    except core.Machinery:
      raise
    except Exception as e:
      obs, wf, note = {}, False, "exception:" + type(e).__name__
    if a == "Install":
      wf = wf and set(obs) == {"n"}
      if not wf:
        note = note or "reply:" + ",".join(obs.get("msgs", []))
        obs = dict(n=-1)
    else:
      wf = wf and isinstance(obs.get("out"), int)
      if not wf:
        note = note or str(obs.get("out"))
        obs = dict(out=-1)
    tr.append(dict(a=a, args=args, obs=obs, wf=wf, note=note))
  return tr


def drive(arg):
  """Random flow-mods and frames on the real switch; returns the recorded trace."""
  seed, n = arg
  return execute(gen_inputs(seed, n), seed)


def trace_signature(ev):
  from harness import adapters_c03 as ad
  sig = dict(action=ev["a"], via="trace")
  if ev["a"] == "Packet":
    sig["frame"] = ad.frame_class(ev["args"]["x"])
    sig["kind"] = ("anomaly" if not ev["wf"] else "false_miss" if ev["obs"]["out"] == 0 else "false_hit_or_wrong_entry")
    if not ev["wf"]:
      sig["detail"] = ev.get("note", "")
  return sig


def replay_one(ctx, rep):
  """./check C03 --replay FILE: behaviours are replayed as recorded; for a rejected trace the
  recorded inputs are run again on the current tree and TLC decides again."""
  if "behaviour" in rep:
    core.replay(ctx, rep["adapter"], [rep["behaviour"]], params=rep.get("params"), procs=1)
    return
  ins = [(e["a"], e["args"]) for e in rep["trace"]]
  tr = execute(ins, rep.get("seed", 0))
  r, rej = tracecheck.validate(SPEC, "TraceLookup", "Trace.cfg", [tr], tag="C03")
  for t, matched in rej:
    ctx.report(trace_signature(tr[matched]), dict(trace=tr, failing_step=matched, seed=rep.get("seed", 0)))
