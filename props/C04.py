"""C04 - flow table as the OpenFlow 1.0 FLOW_MOD / timeout state machine.

FlowTable.tla is model-checked (the property as invariants and action
properties), its behaviours are exported three ways (every path of depth 3,
every transition of several abstract state graphs, long random walks) and
replayed on a real SoftwareSwitch over OpenFlow bytes with the whole table
compared after every step; seeded random histories run on the real switch are
validated by TLC against the same spec (TraceFlowTable.tla).
"""
import concurrent.futures
import copy
import random
import re
import time

from engine import tlc, core, tracecheck
from harness.adapters_c04 import sort_exp, match_class, junk_kinds
from harness import c04_tour

ADAPTER = "harness.adapters_c04:Adapter"
SPEC = "flowtable"
MOD = "MCFlowTable"
ACTIONS = ["RejectEmerg", "RefuseOverlap", "RefuseFull", "Replace", "Insert", "ModifyHit",
           "DeleteSome", "DeleteNone", "Hit", "Miss", "Tick", "SweepSome", "SweepNone", "Stats"]
TIMELESS = {"Tick", "SweepSome"}                # not enabled in the configs without a clock
# outcomes that the replayed behaviours, taken together, must have exercised
HOWS = ["insert", "replace", "full", "overlap_nested", "overlap_partial", "emerg", "modify",
        "modify_insert", "modify_full", "modify_overlap_nested", "delete", "delete_none",
        "hit", "miss", "tick", "sweep", "sweep_none", "stats"]

# outcomes that must have been exercised by a message whose match has prefixes on BOTH
# nw_src and nw_dst, both spelled with non-zero bits beyond the prefix ("/sd"), resp. by a
# message spelled with junk in its wildcarded fields ("/wild")
HOWS_SPELT = ["insert/sd", "replace/sd", "modify/sd", "modify_insert/sd", "delete/sd",
              "delete_none/sd", "overlap_nested/sd", "overlap_partial/sd", "full/sd", "stats/sd",
              "insert/wild", "replace/wild", "delete/wild", "delete_none/wild", "stats/wild",
              "hit/src", "miss/src"]

# (config, needs clock, adapter params)
MC_QUICK = [("MC_cmd.cfg", False), ("MC_time_late.cfg", True), ("MC_time_early.cfg", True),
            ("MC_nw.cfg", False), ("MC_sd.cfg", False)]
MC_THOROUGH = MC_QUICK + [("MC_cmd3.cfg", False), ("MC_time2_late.cfg", True),
                          ("MC_time2_early.cfg", True)]
EDGES_Q = [("EX_edges_cmdQ.cfg", dict(max_entries=2, late=True)),
           ("EX_edges_nwQ.cfg", dict(max_entries=2, late=True, prios="edge", cookies="edge",
                                     hostbits=True)),
           ("EX_edges_sdQ.cfg", dict(max_entries=2, late=True, cookies="edge")),
           ("EX_edges_time1_late.cfg", dict(max_entries=1, late=True)),
           ("EX_edges_time1_early.cfg", dict(max_entries=1, late=False, scale=16000)),
           ("EX_edges_time2_late.cfg", dict(max_entries=2, late=True, scale=16000, prios="low")),
           ("EX_edges_time2_early.cfg", dict(max_entries=2, late=False))]
TOUR_CAP = 9000       # at most this many tours of one graph are replayed
TOUR_CAPS = {"EX_edges_sd.cfg": 3000}
EDGES_BIG = [("EX_edges_cmd.cfg", dict(max_entries=2, late=True, prios="edge")),
             ("EX_edges_nw.cfg", dict(max_entries=2, late=True, cookies="edge", hostbits=True)),
             ("EX_edges_sd.cfg", dict(max_entries=2, late=True, prios="edge")),
             ("EX_edges_time_late.cfg", dict(max_entries=2, late=True)),
             ("EX_edges_time_early.cfg", dict(max_entries=2, late=False))]


def _parallel(jobs, workers=6):
  """Run independent TLC jobs (callables) concurrently; results in job order."""
  with concurrent.futures.ThreadPoolExecutor(max_workers=workers) as ex:
    futs = [ex.submit(j) for j in jobs]
    return [f.result() for f in futs]


def _count_hows(behs, seen):
  for b in behs:
    prev = []
    for st in b:
      seen[st["how"]] = seen.get(st["how"], 0) + 1
      a = st["args"]
      tags = []
      if st["a"] in ("FlowMod", "Stats"):
        m = a["m"]
        if 0 < m["sl"] < 32 and 0 < m["nl"] < 32 and a["sp"] & 3 == 3:
          tags.append("sd")
        if a["sp"] & 4 and not m["ex"]:
          tags.append("wild")
      elif st["a"] == "Packet":
        # the frame was counted by an entry with an nw_src prefix (hit), resp. passed one by (miss)
        if any(e["m"]["sl"] and not e["m"]["ex"] and (st["how"] == "miss" or e not in prev)
               for e in st["exp"]["tbl"]):
          tags.append("src")
      for t in tags:
        k = st["how"] + "/" + t
        seen[k] = seen.get(k, 0) + 1
      prev = st["exp"]["tbl"]


def _nontrivial(beh):
  """At least one step changed the table or produced a message."""
  prev = []
  for st in beh:
    if st["exp"]["msgs"] or st["exp"]["tbl"] != prev:
      return True
    prev = st["exp"]["tbl"]
  return False


def _keep_one_replay_per_class(ctx):
  """engine.core.Context keeps the replay payload of the first 50 violations only,
  so a second failure class found later would get no replay file.  Same
  verdicts and known-finding handling, but the first violation of every
  distinct signature keeps its payload (and is listed first)."""
  seen = set()
  pos = [0, 0]        # number of distinct classes with a replayable behaviour / in total

  def report(sig, replay):
    for e in ctx.known:
      if core.sig_matches(e["signature"], sig):
        ctx.known_hits[e["what"]] = ctx.known_hits.get(e["what"], 0) + 1
        return "known"
    k = core.canon(sig)
    if k not in seen:
      seen.add(k)
      if "behaviour" in replay:
        ctx.violations.insert(pos[0], (sig, replay))
        pos[0] += 1
      else:
        ctx.violations.insert(pos[1], (sig, replay))
      pos[1] += 1
    else:
      ctx.violations.append((sig, None))
    return "violation"
  ctx.report = report


def run(ctx):
  quick = ctx.tier == "quick"
  _keep_one_replay_per_class(ctx)
  rnd = random.Random(ctx.seed * 7919 + 4)
  ctx.rule = ("behaviours exported by TLC from FlowTable.tla (all paths of depth 3 over a "
              "FLOW_MOD/packet/tick/sweep/stats alphabet; transition tours covering every "
              "transition of the abstract state graphs of seven (quick) / twelve (thorough) "
              "alphabets (thorough: a seeded sample of 9000 resp. 3000 tours of each of the three "
              "largest graphs); -simulate walks of depth 60) replayed on a real SoftwareSwitch through "
              "OFConnection bytes, table + messages + emitted ports compared after every step; "
              "plus seeded random "
              "histories of the real switch validated by TLC (TraceFlowTable).  distinct = "
              "distinct action/argument sequences; non-trivial = some step changes the table "
              "or produces a message")
  ctx.assumptions = [
      "matches range over in_port x dl_dst x nw_src prefix x nw_dst prefix (/8,/16,/32) and one "
      "exact match; priorities 3 symbols (concretised plain and at 0/0x8000/0xffff), table "
      "capacity 1..3",
      "every FLOW_MOD / stats request carries a spelling (spec field sp): non-zero address bits "
      "beyond the nw_src and/or nw_dst prefix length, junk values in wildcarded fields and "
      "wildcard counts 33..63; the spec gives spellings no meaning (OpenFlow 1.0: ignored bits)",
      "clock: virtual; every tick is skewed by 1/1024 s so that 'age = timeout exactly' never "
      "occurs; both skew directions are run (removal threshold pinned from both sides)",
      "sweep = FlowTable.remove_expired_entries() (what ExpireMixin's timer calls)",
      "OpenFlow bytes built/decoded by harness/rawbytes.py (struct only); frames are raw "
      "IPv4/UDP bytes parsed by pox.lib.packet",
      "emergency flows, buffer_id in FLOW_MOD, exact matches with several priorities: out of scope"]
  hows = {}
  t0 = time.time()
  stages = ctx.notes.setdefault("stage_wall_s", {})

  def lap(name):
    stages[name] = round(time.time() - t0, 1)

  # 1. the property on the model ------------------------------------------
  mcs = MC_QUICK if quick else MC_THOROUGH
  res = _parallel([(lambda c=c: tlc.run(SPEC, MOD, c, tag="C04", workers=3 if quick else 8))
                   for c, _ in mcs], workers=5 if quick else 4)
  for (cfg, clocked), r in zip(mcs, res):
    if r.violated:
      raise tlc.TLCError("spec violates its own property %s (%s):\n%s" %
                         (r.violated, cfg, r.error_trace))
    need = [a for a in ACTIONS if clocked or a not in TIMELESS]
    if "nw" in cfg or "sd" in cfg:
      need = [a for a in need if a != "RejectEmerg"]
    if "time" in cfg:
      need = [a for a in need if a not in ("RejectEmerg", "RefuseOverlap")]
    tlc.require_coverage(r, need, cfg)
    ctx.add_model("FlowTable " + cfg, r)

  lap("model_checking")
  # 2. spec -> code: every path of depth 3 ---------------------------------
  paths_cfg = "EX_pathsQ.cfg" if quick else "EX_paths.cfg"
  jobs = [lambda: tlc.run(SPEC, MOD, paths_cfg, workers=1, coverage=False, tag="C04")]
  edges = EDGES_Q if quick else EDGES_Q + EDGES_BIG
  for cfg, _ in edges:
    jobs.append(lambda c=cfg: tlc.run(SPEC, MOD, c, workers=1, coverage=False, tag="C04",
                                      timeout=1500))
  nsim = 60 if quick else 600
  for i, n in enumerate(("late", "early")):
    jobs.append(lambda n=n, i=i: tlc.run(SPEC, MOD, "EX_sim_%s.cfg" % n, workers=1,
                                         coverage=False, simulate=dict(num=nsim), depth=61,
                                         seed=ctx.seed + 1 + i, tag="C04"))
  deep = [] if quick else [("EX_paths5_late.cfg", True), ("EX_paths5_early.cfg", False)]
  for cfg, _ in deep:
    jobs.append(lambda c=cfg: tlc.run(SPEC, MOD, c, workers=1, coverage=False, tag="C04",
                                      timeout=1500))
  out = _parallel(jobs, workers=7 if quick else 8)
  lap("exports")
  r = out[0]
  behs = [sort_exp(b) for b in r.tagged("H")]
  if len(behs) < 1000:
    raise tlc.TLCError("only %d depth-3 paths exported" % len(behs))
  _count_hows(behs, hows)
  st = core.replay(ctx, ADAPTER, behs, params=dict(max_entries=2, late=True),
                   nontrivial=_nontrivial)
  ctx.notes["replay_paths_depth3"] = dict(config=paths_cfg, behaviours=len(behs), **st)
  # negative control of the replay itself: one corrupted expectation must be reported
  neg = copy.deepcopy(next(b for b in behs if b[-1]["exp"]["tbl"]))
  neg[-1]["exp"]["tbl"][0]["n"] += 1
  c2 = core.Context(ctx.pid, ctx.tier, ctx.seed, ctx.level)
  c2.known = []
  if core.replay(c2, ADAPTER, [neg], params=dict(max_entries=2, late=True), procs=1)["mismatch"] != 1:
    raise tlc.TLCError("negative control: a corrupted expectation was accepted by the replay")
  for (cfg, late), r in zip(deep, out[3 + len(edges):]):
    behs = [sort_exp(b) for b in r.tagged("H")]
    if len(behs) < 1000:
      raise tlc.TLCError("only %d depth-5 paths exported by %s" % (len(behs), cfg))
    _count_hows(behs, hows)
    st = core.replay(ctx, ADAPTER, behs, params=dict(max_entries=2, late=late),
                     nontrivial=_nontrivial)
    ctx.notes["replay_" + cfg[3:-4]] = dict(behaviours=len(behs), **st)

  lap("replay_paths")
  # 3. spec -> code: every transition of the abstract graphs ---------------
  # (covered by transition tours built from the export, see harness/c04_tour.py)
  for (cfg, params), r in zip(edges, out[1:1 + len(edges)]):
    behs = [sort_exp(b) for b in r.tagged("T")]
    if not behs:
      raise tlc.TLCError("no behaviours exported by %s" % cfg)
    walks = c04_tour.tours(behs, maxlen=80, reach=4)
    ntours = len(walks)
    cap = TOUR_CAPS.get(cfg, TOUR_CAP)
    if ntours > cap:                      # the big graphs (thorough tier): seeded sample
      walks = rnd.sample(walks, cap)
    _count_hows(walks, hows)
    st = core.replay(ctx, ADAPTER, walks, params=params, nontrivial=_nontrivial, chunk=20)
    ctx.notes["replay_" + cfg[3:-4]] = dict(transitions=len(behs), tours=ntours,
                                            tours_replayed=len(walks),
                                            steps=sum(len(w) for w in walks),
                                            params=params, **st)
  lap("replay_edges")
  # 4. spec -> code: long random behaviours --------------------------------
  for (n, late), r in zip((("late", True), ("early", False)), out[1 + len(edges):3 + len(edges)]):
    behs = [sort_exp(b) for b in r.tagged("H")]
    if len(behs) < nsim // 2:
      raise tlc.TLCError("simulation exported %d behaviours" % len(behs))
    _count_hows(behs, hows)
    st = core.replay(ctx, ADAPTER, behs, params=dict(max_entries=3, late=late), chunk=10,
                     nontrivial=_nontrivial)
    ctx.notes["replay_sim_" + n] = dict(behaviours=len(behs), depth=60, **st)
  missing = [h for h in HOWS + HOWS_SPELT if not hows.get(h)]
  if missing:
    raise tlc.TLCError("vacuous replay: outcomes never exercised: %s" % missing)
  ctx.notes["outcomes_replayed"] = hows

  lap("replay_sim")
  # 5. code -> spec: random histories of the real switch, validated by TLC --
  ntr = 120 if quick else 1500
  rejected = 0
  for k, (n, late) in enumerate((("late", True), ("early", False))):
    items = [(ctx.seed * 100003 + k * 50021 + i, 60, late) for i in range(ntr)]
    runs = core.run_driver("props.C04:drive", items)
    traces = [t for t, _, _ in runs]
    bad = copy.deepcopy(traces[0])          # negative control: one counter off by one
    done = False
    for e in bad:
      if e["wf"] and e["obs"]["tbl"]:
        e["obs"]["tbl"][0]["n"] += 1
        done = True
        break
    if not done:
      bad[0]["obs"]["out"] = [3]
    r, rej = tracecheck.validate(SPEC, "TraceFlowTable", "Trace_%s.cfg" % n, traces + [bad],
                                 tag="C04")
    ctx.add_model("TraceFlowTable %s (validation of %d implementation traces)" % (n, ntr), r)
    if len(traces) not in [t for t, _ in rej]:
      raise tlc.TLCError("negative control (corrupted packet count) was accepted by the trace spec")
    expected = _expected(r)
    for t, matched in rej:
      if t == len(traces):
        continue
      rejected += 1
      ev = traces[t][matched]
      raw = runs[t][1].get(matched, ev["obs"])
      alts = expected.get((t + 1, matched + 1), [])
      sig = dict(action=ev["a"], via="trace", how=sorted(set(h for h, _ in alts)),
                 wf=ev["wf"])
      if runs[t][2]["dontcare_bits"]:
        sig["dontcare_bits"] = True
        sig["dontcare"] = runs[t][2]["dontcare"]
      if ev["a"] in ("FlowMod", "Stats"):
        sp = ev["args"]["sp"] | (3 if runs[t][2]["hostbits"] else 0)
        sig["match"] = match_class(ev["args"]["m"])
        sig["spelling"] = junk_kinds(ev["args"]["m"], sp) or ["canonical"]
      if ev["a"] == "FlowMod":
        sig["cmd"] = ev["args"]["cmd"]
        sig["errors"] = sorted(m.get("code", "") for m in raw.get("msgs", [])
                               if isinstance(m, dict) and m.get("t") == "error") \
            if isinstance(raw, dict) else []
      if isinstance(raw, dict) and "EXC" in raw:
        sig["observed"] = "exception:" + raw["EXC"]
      ctx.report(sig, dict(trace=traces[t][:matched + 1], failing_step=matched,
                           params=runs[t][2],
                           observed=raw, spec_allows=[dict(how=h, exp=e) for h, e in alts],
                           note="TLC rejected the trace at this event"))
    ctx.traces += len(traces)
    for t in traces:
      ctx.case(core.fp([[e["a"], e["args"]] for e in t]),
               nontrivial=any(e["obs"]["tbl"] for e in t), sample=None)
    ctx.notes["trace_validation_" + n] = dict(traces=len(traces),
                                              events=sum(len(t) for t in traces),
                                              rejected=len(rej) - 1,
                                              negative_control_rejected=True)
  lap("trace_validation")
  ctx.exhaustive = True
  ctx.notes["exhaustive_scope"] = (
      "complete: all paths of depth 3 (thorough: and depth 5) over the stated alphabets, every "
      "transition of the reduced graphs (cmdQ, nwQ, sdQ, time1, time2) and, in thorough, of the "
      "cmd and nw graphs; sampled: tours of the two largest timeout graphs and of the sd graph "
      "(thorough), random walks and random implementation histories")


_exp_re = re.compile(r'^<<"EXPECTED", (\d+), (\d+), "([a-z_]+)", (".*")>>$')


def _expected(res):
  """{(trace id, event index) -> [(how, exp)]} printed by TraceFlowTable!Check."""
  import json
  out = {}
  for ln in res.prints:
    m = _exp_re.match(ln)
    if m:
      out.setdefault((int(m.group(1)), int(m.group(2))), []).append(
          (m.group(3), json.loads(json.loads(m.group(4)))))
  return out


# --------------------------------------------------------------------------
# random driver (runs in worker processes)

def _M(ip, dd, nl=0, nv=0, ex=0, sl=0, sv=0):
  return dict(ip=ip, dd=dd, sl=sl, sv=sv, nl=nl, nv=nv, ex=ex)


H1 = 167837697
SRC, SRC2, SRC3 = 335609865, 335675401, 352321545        # 20.1.0.9, 20.2.0.9, 21.0.0.9
MATCHES = [_M(0, 0), _M(1, 0), _M(2, 0), _M(0, 1), _M(0, 2), _M(1, 1), _M(2, 1),
           _M(0, 0, 8, 10), _M(0, 0, 16, 2561), _M(0, 0, 16, 2562), _M(1, 0, 16, 2561),
           _M(1, 1, 32, H1)]
# nw_src prefixes alone and with nw_dst prefixes (nested, overlapping, disjoint)
MATCHES_SD = [_M(0, 0, sl=8, sv=20), _M(0, 0, sl=16, sv=5121), _M(0, 0, 8, 10, sl=8, sv=20),
              _M(0, 0, 8, 10, sl=16, sv=5121), _M(0, 0, 16, 2561, sl=8, sv=20),
              _M(0, 0, 16, 2561, sl=16, sv=5121), _M(0, 0, 16, 2561, sl=16, sv=5122),
              _M(1, 0, sl=16, sv=5121), _M(0, 0, 32, H1, sl=32, sv=SRC),
              # zero continuation of 20/8 and 10/8: same network address, longer prefix
              _M(0, 0, 16, 2560, sl=16, sv=5120), _M(0, 0, sl=16, sv=5120),
              _M(0, 0, 8, 10, sl=16, sv=5120), _M(0, 0, 16, 2560, sl=8, sv=20)]
EXACT = _M(1, 1, 32, H1, 1, sl=32, sv=SRC)
PKTS = [dict(ip=1, dd=1, ns=SRC, na=H1, ref=1, len=60), dict(ip=1, dd=1, ns=SRC, na=H1, ref=0, len=62),
        dict(ip=1, dd=2, ns=SRC, na=167903233, ref=0, len=100),
        dict(ip=2, dd=1, ns=SRC, na=184549377, ref=0, len=200),
        dict(ip=2, dd=2, ns=SRC, na=H1, ref=0, len=1000), dict(ip=2, dd=1, ns=SRC, na=H1 + 1, ref=0, len=64),
        dict(ip=1, dd=1, ns=SRC2, na=H1, ref=0, len=66), dict(ip=2, dd=2, ns=SRC + 1, na=167903233, ref=0, len=102),
        dict(ip=2, dd=1, ns=SRC3, na=H1, ref=0, len=202)]
ENTRY_KEYS = {"m", "p", "a", "i", "h", "r", "c", "g", "t", "n", "b"}
MATCH_KEYS = {"ip", "dd", "sl", "sv", "nl", "nv", "ex"}
MSG_KEYS = {"removed": {"t", "m", "p", "why", "n", "b", "i", "c"}, "error": {"t", "code"},
            "packet_in": {"t", "port", "total"}}
BLANK = dict(tbl=[], msgs=[], out=[])


def _wf_entry(e, keys):
  return isinstance(e, dict) and set(e) == keys and set(e["m"]) == MATCH_KEYS and \
      all(isinstance(e[k], int) and not isinstance(e[k], bool) for k in keys - {"m", "a"}) and \
      isinstance(e["a"], str) and all(isinstance(v, int) for v in e["m"].values())


def _wf(a, obs):
  """Observation has the shape and field types the trace spec can compare."""
  if not isinstance(obs, dict):
    return False
  want = {"tbl", "msgs", "out"} | ({"flows", "agg"} if a == "Stats" else set())
  if set(obs) != want:
    return False
  if not all(_wf_entry(e, ENTRY_KEYS) for e in obs["tbl"]):
    return False
  for m in obs["msgs"]:
    if m.get("t") not in MSG_KEYS or set(m) != MSG_KEYS[m["t"]]:
      return False
    if m["t"] == "removed" and not (
        isinstance(m["m"], dict) and set(m["m"]) == MATCH_KEYS and isinstance(m["why"], str)
        and all(isinstance(v, int) for v in m["m"].values())
        and all(isinstance(m[k], int) for k in ("p", "n", "b", "i", "c"))):
      return False
    if m["t"] == "error" and not isinstance(m["code"], str):
      return False
    if m["t"] == "packet_in" and not (isinstance(m["port"], int) and isinstance(m["total"], int)):
      return False
  if not all(isinstance(p, int) for p in obs["out"]):
    return False
  if a == "Stats":
    if not all(_wf_entry(e, ENTRY_KEYS) for e in obs["flows"]):
      return False
    if not (isinstance(obs["agg"], dict) and set(obs["agg"]) == {"n", "b", "f"}):
      return False
  return True


def drive(arg):
  """Random history on the real switch.  Returns (trace, {index: raw observation
  of an ill-formed event}, adapter parameters)."""
  seed, n, late = arg
  from harness.adapters_c04 import Adapter
  rnd = random.Random(seed)
  meta = dict(max_entries=3, late=late, scale=rnd.choice([1, 1, 16000]),
              prios=rnd.choice(["plain", "edge", "low"]), cookies=rnd.choice(["plain", "edge"]),
              hostbits=rnd.choice([False, True]))
  ad = Adapter(**meta)
  # every other history lives among the nw_src x nw_dst prefixes; the spelling of each
  # message (which ignored bits are non-zero) is drawn per message
  sd = seed % 2 == 1
  spells = [0, 0, 1, 2, 3, 3, 4, 7] if sd else [0, 0, 0, 1, 4, 5]
  tr = []
  raws = {}
  for idx in range(n):
    k = rnd.random()
    if k < 0.45:
      a = "FlowMod"
      cmd = rnd.choices(["ADD", "MOD", "MODS", "DEL", "DELS"], [40, 15, 10, 20, 15])[0]
      if rnd.random() < 0.08:
        m, prio = EXACT, 1
      elif sd:
        m, prio = rnd.choice(MATCHES_SD if rnd.random() < 0.8 else MATCHES), rnd.choice([5, 5, 5, 7])
      else:
        m, prio = rnd.choice(MATCHES), rnd.choice([5, 5, 7])
      args = dict(cmd=cmd, m=m, prio=prio, acts=rnd.choice(["none", "o3", "o4", "o34"]),
                  idle=rnd.choice([0, 0, 1, 2, 3]), hard=rnd.choice([0, 0, 2, 3, 4]),
                  rem=rnd.choice([0, 1, 1]), chk=rnd.choice([0, 0, 1]),
                  em=1 if rnd.random() < 0.04 else 0,
                  outp=rnd.choice([0, 0, 0, 3, 4, 9]) if cmd in ("DEL", "DELS") else 0,
                  cookie=rnd.randint(1, 3), sp=rnd.choice(spells))
      if args["em"] and cmd != "ADD":
        args["em"] = 0
    elif k < 0.65:
      a, args = "Packet", rnd.choice(PKTS)
    elif k < 0.80:
      a, args = "Tick", dict(d=rnd.choice([1, 1, 2, 3]))
    elif k < 0.90:
      a, args = "Sweep", dict(x=0)
    else:
      a, args = "Stats", dict(m=rnd.choice((MATCHES_SD if sd else MATCHES) + [EXACT]),
                              outp=rnd.choice([0, 0, 3, 4, 9]), sp=rnd.choice(spells))
    try:
      obs = ad.step(a, args)
    except core.Machinery:
      raise
    except Exception as e:
      obs = {"EXC": type(e).__name__, "msg": str(e)[:200]}
    wf = _wf(a, obs)
    if not wf:
      raws[idx] = obs
      obs = dict(BLANK, flows=[], agg=dict(n=0, b=0, f=0)) if a == "Stats" else dict(BLANK)
    tr.append(dict(a=a, args=args, obs=obs, wf=wf))
    if not wf:
      break
  meta["dontcare_bits"] = ad.sent_junk
  meta["dontcare"] = sorted(ad.junk_kinds)
  return tr, raws, meta
