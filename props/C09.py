"""C09 - connection lifecycle events and the connection registry.

specs/handshake/Handshake.tla is model-checked (safety for 2 and 3
connections, liveness of connection-down under fair closing), every
transition out of every implementation-reachable state of its graph is
replayed on the real of_01 accept/read/close loop + Connection + nexus
(spec -> code), and random long histories recorded from the real code are
validated by TLC against the same spec (code -> spec).
"""
import copy
import random
from collections import defaultdict

from engine import tlc, core, tracecheck

ACTIONS = ["StepAccept", "StepNoise", "StepFeatures", "StepBarrier", "StepReject", "StepErr",
           "StepPortStatus", "StepEchoFail", "StepEchoFailThen", "StepDisconnect", "StepClose",
           "StepSendTo", "StepSendToFail"]
ADAPTER = "harness.adapters_c09:Adapter"
SPEC = "handshake"


def norm(beh):
  """TLC prints sets in its own order: compare them sorted."""
  for st in beh:
    st["exp"]["reg"] = sorted(st["exp"]["reg"])
    st["exp"]["gone"] = sorted(st["exp"]["gone"])
  return beh


def merge(raw):
  """Exported transitions -> behaviours to replay.

  Every exported item is (shortest history to a state) + one transition.  All
  transitions out of one state share that history.  Transitions that leave
  the abstract state unchanged and have a single permitted outcome are
  chained after the shared history into ONE behaviour (still a behaviour of
  the spec); transitions with several permitted outcomes, or that change the
  state, stay one behaviour each so that the replay engine sees all
  alternatives under the same prefix.
  """
  groups = defaultdict(list)
  for x in raw:
    h = norm(x["h"])
    groups[core.canon(h[:-1])].append((h, x["loop"]))
  out = []
  nalt = 0
  for _, lst in groups.items():
    byact = defaultdict(list)
    for h, loop in lst:
      byact[core.canon([h[-1]["a"], h[-1]["args"]])].append((h, loop))
    chain = []
    prefix = lst[0][0][:-1]
    for _, items in byact.items():
      exps = {}
      for h, loop in items:
        exps.setdefault(core.canon(h[-1]["exp"]), (h, loop))
      if len(exps) == 1 and all(l for _, l in items):
        chain.append(items[0][0][-1])
      else:
        nalt += len(exps) - 1
        out.extend(h for h, _ in exps.values())
    if chain:
      out.append(prefix + chain)
  # interleave by final action so that the first reports of a failing run show
  # every kind of failure, not fifty copies of the most frequent one
  by = defaultdict(list)
  for b in out:
    by[b[-1]["a"]].append(b)
  lists = [by[k] for k in sorted(by)]
  n = max(len(l) for l in lists)
  out = [l[i] for i in range(n) for l in lists if i < len(l)]
  return out, nalt


def compact(ctx):
  """Keep one reported violation (with its replay file content) per distinct
  signature.  The engine keeps replay data for the first 50 reports only; an
  exhaustive replay reports the same defect thousands of times, which would
  hide every other signature.  The total number is kept in the evidence."""
  seen, keep = set(), []
  counts = ctx.notes.setdefault("mismatches_per_signature", {})
  for sig, rep in ctx.violations[ctx.notes.get("_kept", 0):]:
    counts[core.canon(sig)] = counts.get(core.canon(sig), 0) + 1
  for sig, rep in ctx.violations:
    k = core.canon(sig)
    if k in seen or rep is None:
      continue
    seen.add(k)
    keep.append((sig, rep))
  ctx.notes["mismatching_behaviours_total"] = \
      ctx.notes.get("mismatching_behaviours_total", 0) + len(ctx.violations) - ctx.notes.get("_kept", 0)
  ctx.violations[:] = keep
  ctx.notes["_kept"] = len(keep)


def run(ctx):
  quick = ctx.tier == "quick"
  ctx.rule = ("spec->code: for every state of Handshake.tla reachable through choices the "
              "implementation makes, the shortest history to it plus each outgoing transition "
              "(all permitted alternatives) is replayed on the real OpenFlow_01_Task loop / "
              "Connection / OpenFlowNexus over OpenFlow bytes; events on nexus and connection, "
              "core.openflow.connections, socket shutdown state and the target of sendToDPID are "
              "compared after EVERY step; every event record includes what its handler saw at that "
              "instant (registry entry of its dpid, target of a sendToDPID issued from inside the "
              "handler), and one action lets a ConnectionUp listener disconnect the switch.  code->spec: random histories of the real code validated "
              "by TLC.  distinct = distinct action/argument sequences; non-trivial = at least one "
              "step other than Accept")
  ctx.assumptions = [
      "bounds: <=3 connections (4 in random traces), 2 datapath ids, 2 port numbers, <=2 "
      "(3 in traces) buffered early port-status per connection",
      "segmentation is part of the spec: k>=1 consecutive messages of a connection in ONE read "
      "and a message split over two reads (exhaustively for 1 connection, randomly in the traces; "
      "byte-level cut positions are C02's subject); nothing carrying the barrier's xid shares a "
      "read with the features reply (the switch cannot have seen the request); after the "
      "controller shuts a socket down the peer sends nothing more",
      "exactly one features reply per connection; no features reply after connection-up",
      "no event handler halts an event; default OpenFlowConnectionArbiter; DeferredSender idle "
      "(sends complete or fail outright)",
      "dpids / port numbers / xids are symbols in the spec, concretised with boundary values "
      "(0, 2^64-1, OFPP_LOCAL ...); the barrier xid is read from the bytes the controller wrote",
      "OpenFlow bytes built/decoded by harness/rawbytes.py (struct only)"]

  # 1. the property on the model
  mcs = [("2 connections, 2 dpids, %d port(s), MaxPS=2, coalesced and split reads" %
          (1 if quick else 2), "MC_C2q.cfg" if quick else "MC_C2.cfg"),
         ("3 connections, 2 dpids, 1 port, MaxPS=%d" % (1 if quick else 2),
          "MC_C3q.cfg" if quick else "MC_C3.cfg")]
  for name, cfg in mcs:
    r = tlc.run(SPEC, "MCHandshake", cfg, tag="C09", timeout=1500)
    if r.violated:
      raise tlc.TLCError("spec violates its own property %s:\n%s" % (r.violated, r.error_trace))
    tlc.require_coverage(r, ACTIONS, "Handshake " + name)
    ctx.add_model("Handshake safety: " + name, r)
  r = tlc.run(SPEC, "MCHandshake", "MC_live.cfg", tag="C09", timeout=1500)
  if r.violated:
    raise tlc.TLCError("spec violates liveness %s:\n%s" % (r.violated, r.error_trace))
  tlc.require_coverage(r, ACTIONS, "Handshake liveness")
  ctx.add_model("Handshake liveness (connection-down eventually, fair Close): 2 connections", r)

  # 2. spec -> code
  if quick:
    plan = [("EX_edges_C1.cfg", [0]), ("EX_edges_C2s.cfg", [1]), ("EX_edges_C3d1q.cfg", [2])]
  else:
    plan = [("EX_edges_C1.cfg", [0, 1, 2, 3]), ("EX_edges_C2seg.cfg", [2]),
            ("EX_edges_C2.cfg", [1, 0]), ("EX_edges_C3d1.cfg", [3]),
            ("EX_edges_C3.cfg", [0])]
  for cfg, variants in plan:
    r = tlc.run(SPEC, "MCHandshake", cfg, workers=1, coverage=False, tag="C09", timeout=1500)
    raw = r.tagged("T")
    if not raw:
      raise tlc.TLCError("no behaviours exported by %s" % cfg)
    behs, nalt = merge(raw)
    ctx.add_model("Handshake export %s" % cfg, r, transitions_exported=len(raw),
                  behaviours=len(behs))
    for v in variants:
      st = core.replay(ctx, ADAPTER, behs, params=dict(variant=v),
                       nontrivial=lambda b: len(b) > 1, chunk=400)
      ctx.notes["replay_%s_v%d" % (cfg[:-4], v)] = dict(
          behaviours=len(behs), transitions=len(raw),
          final_step_alternatives=nalt, **st)
      compact(ctx)

  # 3. code -> spec
  ntr, length = (150, 60) if quick else (3000, 80)
  traces = core.run_driver("props.C09:drive",
                           [(ctx.seed * 100003 + i, length) for i in range(ntr)])
  good, bad = control_traces()
  r, rej = tracecheck.validate(SPEC, "TraceHandshake", "Trace.cfg", traces + good + bad,
                               tag="C09")
  ctx.add_model("TraceHandshake (validation of %d implementation traces)" % ntr, r)
  rejected = dict(rej)
  for i in range(len(good)):
    if len(traces) + i in rejected:
      raise tlc.TLCError("positive control %d (hand-written correct history) was rejected at "
                         "event %d" % (i, rejected[len(traces) + i]))
  for i in range(len(bad)):
    if len(traces) + len(good) + i not in rejected:
      raise tlc.TLCError("negative control %d (corrupted history) was accepted by the trace spec" % i)
  from harness.adapters_c09 import classify_trace
  nrej = 0
  for t, matched in rej:
    if t >= len(traces):
      continue
    nrej += 1
    sig = classify_trace(traces[t], matched)
    ctx.report(sig, dict(trace=traces[t][:matched + 1], failing_step=matched,
                         note="TLC rejected the trace at this event: no behaviour of "
                              "Handshake.tla produces this observation"))
  compact(ctx)
  ctx.notes.pop("_kept", None)
  ctx.traces += len(traces)
  for t in traces:
    ctx.case(core.fp([[e["a"], e["args"]] for e in t]), sample=None)
  ctx.notes["trace_validation"] = dict(
      traces=len(traces), events=sum(len(t) for t in traces), rejected=nrej,
      negative_controls_rejected=len(bad),
      reached_up=sum(1 for t in traces if any(x["k"] == "Up" for e in t for x in e["obs"]["ev"])))
  ctx.exhaustive = True


def _e(a, c=0, d=0, p=0, k="", s="own", ev=(), reg=(), gone=(), to=0, ok=True):
  return dict(a=a, args=dict(c=c, d=d, p=p, k=k, s=s),
              obs=dict(ev=list(ev), reg=[list(x) for x in reg], gone=list(gone), to=to, ok=ok),
              wf=True)


def control_traces():
  """A hand-written history every correct controller produces (positive
  control) and corrupted copies TLC must reject (negative controls)."""
  up, ps = dict(k="Up", c=1, x=1, r=1, t=1), dict(k="PS", c=1, x=2, r=1, t=1)
  dn = dict(k="Down", c=1, x=1, r=0, t=0)
  good = [_e("Accept", c=1), _e("RxFeatures", c=1, d=1), _e("RxPortStatus", c=1, p=2),
          _e("RxBarrier", c=1, k="match", ev=[up, ps], reg=[(1, 1)]),
          _e("SendTo", d=1, reg=[(1, 1)], to=1),
          _e("Close", c=1, ev=[dn], gone=[1])]
  bad = []
  def variant(i, **obs):
    t = copy.deepcopy(good)
    t[i]["obs"].update(obs)
    bad.append(t)
  variant(5, ev=[])                       # connection-down lost
  variant(5, ev=[dn, dn])                 # connection-down twice
  variant(5, reg=[[1, 1]])                # closed connection still registered
  variant(3, ev=[up, up, ps])             # connection-up twice
  variant(3, ev=[ps, up])                 # early port-status before connection-up
  variant(3, ev=[up])                     # early port-status lost
  variant(1, ev=[up], reg=[[1, 1]])       # connection-up before the barrier reply
  variant(4, to=0)                        # sendToDPID did not reach the connection
  variant(4, ok=False, to=0)              # registered dpid not reachable
  variant(2, ev=[ps])                     # port-status event before connection-up
  variant(3, ev=[dict(up, r=0, t=0), ps])  # registry empty while connection-up is delivered
  variant(3, ev=[dict(up, t=0), ps])      # send by dpid from the connection-up handler lost
  variant(5, ev=[dict(dn, r=1, t=1)])     # registry still leads to c during connection-down
  # the same history with the port-status, the barrier reply and a later
  # port-status COALESCED in one read, the last message split over two reads
  ps2 = dict(k="PS", c=1, x=1, r=1, t=1)
  good2 = [_e("Accept", c=1), _e("RxFeatures", c=1, d=1), _e("RxPortStatus", c=1, p=2, s="more"),
           _e("RxBarrier", c=1, k="match", s="more"),
           _e("RxPortStatus", c=1, p=1, s="split", ev=[up, ps, ps2], reg=[(1, 1)]),
           _e("Close", c=1, ev=[dn], gone=[1])]
  def variant2(i, **obs):
    t = copy.deepcopy(good2)
    t[i]["obs"].update(obs)
    bad.append(t)
  variant2(4, ev=[up, ps])                # message behind the barrier reply lost
  variant2(4, ev=[up, ps2, ps])           # ... delivered out of order
  variant2(4, ev=[up, ps, ps2, ps2])      # ... delivered twice
  variant2(3, ev=[up, ps], reg=[[1, 1]])  # effects visible before the read was delivered
  return [good, good2], bad


NOISE = ["hello", "desc", "echo", "pktin"]
ERRS = ["unsup", "type", "code", "xid"]
NCMAX, MAXPS = 4, 3


def drive(arg):
  """Random history on the real controller; returns the recorded trace.

  The driver only issues actions whose precondition holds according to what
  it did and what it OBSERVED (events, registry, socket state) - never
  according to the spec."""
  seed, n = arg
  from harness.adapters_c09 import Adapter
  rnd = random.Random(seed)
  ad = Adapter(variant=seed % 12)
  accepted, closed, gone = [], set(), set()
  featsent, announced, nps = {}, set(), {}
  reg = {}
  tr = []
  rd, rdlen, rdfeat = 0, 0, False     # open coalesced read: connection, length, has features
  for stepno in range(n):
    live = [c for c in accepted if c not in closed and c not in gone]
    opts = []
    if rd:
      # inside a read only further messages of that connection can follow
      c = rd
      for k in NOISE:
        opts.append((0.5, "RxNoise", c, 0, 0, k))
      if c not in featsent:
        for d in (1, 2):
          opts.append((2, "RxFeatures", c, d, 0, ""))
      if c in featsent and not rdfeat:
        opts.append((3, "RxBarrier", c, 0, 0, "match"))
        opts.append((1, "RxErr", c, 0, 0, "unsup"))
      opts.append((0.3, "RxErr", c, 0, 0, "xid"))
      if nps.get(c, 0) < MAXPS:
        for p in (1, 2):
          opts.append((1.5, "RxPortStatus", c, 0, p, ""))
    elif len(accepted) < NCMAX:
      opts.append((3 if not live else 1, "Accept", len(accepted) + 1, 0, 0, ""))
    for c in ([] if rd else live):
      half = c not in announced
      for k in NOISE:
        opts.append((0.4, "RxNoise", c, 0, 0, k))
      if half and c not in featsent:
        for d in (1, 2):
          opts.append((3, "RxFeatures", c, d, 0, ""))
      if c in featsent:
        opts.append((5 if half else 0.5, "RxBarrier", c, 0, 0, "match"))
        if half and nps.get(c, 0) == 0:
          opts.append((0.7, "RxBarrierReject", c, 0, 0, "match"))
      opts.append((0.4, "RxBarrier", c, 0, 0, "other"))
      for k in ERRS:
        if k == "xid" or c in featsent:
          opts.append((1.5 if (k == "unsup" and half) else 0.3, "RxErr", c, 0, 0, k))
      if not half or nps.get(c, 0) < MAXPS:
        for p in (1, 2):
          opts.append((0.8, "RxPortStatus", c, 0, p, ""))
      opts.append((0.5, "RxEchoFail", c, 0, 0, ""))
      if c in featsent:
        for k in ("match", "unsup"):
          opts.append((0.15, "RxEchoFailThen", c, 0, 0, k))
      opts.append((0.5, "Disconnect", c, 0, 0, ""))
    for c in ([] if rd else accepted):
      if c not in closed:
        opts.append((1.2 if c in gone else 0.6, "Close", c, 0, 0, ""))
    for d in ([] if rd else (1, 2)):
      opts.append((0.7, "SendTo", 0, d, 0, ""))
      if d in reg:
        opts.append((0.5, "SendToFail", 0, d, 0, ""))
    tot = sum(o[0] for o in opts)
    x = rnd.random() * tot
    for o in opts:
      x -= o[0]
      if x <= 0:
        break
    _, a, c, d, p, k = o
    seg = "own"
    if a in ("RxNoise", "RxFeatures", "RxBarrier", "RxErr", "RxPortStatus"):
      x = rnd.random()
      last_chance = rdlen >= 3 or stepno >= n - 1
      if x < (0.55 if rd else 0.2) and not last_chance and not (a == "RxBarrier" and k == "other"):
        seg = "more"
      elif x < 0.75 if rd else x < 0.3:
        seg = "split"
    args = dict(c=c, d=d, p=p, k=k, s=seg)
    try:
      obs = ad.step(a, args)
      wf = True
    except Exception as e:
      obs, wf = {"exc": type(e).__name__}, False
    wf = wf and well_formed(obs)
    if not wf:
      tr.append(dict(a=a, args=args, obs=dict(ev=[], reg=[], gone=[], to=0, ok=True), wf=False))
      break
    tr.append(dict(a=a, args=args, obs=obs, wf=True))
    # bookkeeping
    in_read = rd != 0 or seg == "more"
    if seg == "more":
      rd, rdlen = c, rdlen + 1
      rdfeat = rdfeat or a == "RxFeatures"
    else:
      rd, rdlen, rdfeat = 0, 0, False
    if a == "Accept":
      accepted.append(c)
    elif a == "RxFeatures":
      featsent[c] = d
    elif a == "Close":
      closed.add(c)
    elif a == "RxPortStatus" and (c not in announced or in_read):
      nps[c] = nps.get(c, 0) + 1
    for e in obs["ev"]:
      if e["k"] == "Up":
        announced.add(e["c"])
    gone = set(obs["gone"])
    reg = dict((dd, cc) for dd, cc in obs["reg"])
  ad.close()
  return tr


def well_formed(obs):
  if not isinstance(obs, dict) or set(obs) != {"ev", "reg", "gone", "to", "ok"}:
    return False
  if not isinstance(obs["ev"], list) or not isinstance(obs["ok"], bool):
    return False
  for e in obs["ev"]:
    if set(e) != {"k", "c", "x", "r", "t"} or \
        not all(isinstance(e[f], int) for f in ("c", "x", "r", "t")):
      return False
  return isinstance(obs["to"], int)
