"""C17 - the controller's picture of switch ports and multipart statistics is exact.

specs/ports/PortView.tla  (features reply + port-status notifications -> connection.ports /
                           connection.original_ports mapping API)
specs/ports/StatsAgg.tla  (multipart STATS_REPLY reassembly -> *StatsReceived events)

Both are model-checked with TLC and bound to the real of_01.Connection in both directions:
spec -> code (every transition of the exported state graphs, covered by walks, plus TLC
-simulate behaviours, replayed as OpenFlow bytes through Connection.read) and code -> spec
(seeded random drivers, traces validated by TLC).
"""
import copy
import gc
import random
from concurrent.futures import ThreadPoolExecutor

from engine import tlc, core, tracecheck
from harness import c17_tour

PORTS = "harness.adapters_c17:PortAdapter"
STATS = "harness.adapters_c17:StatsAdapter"
PORT_ACTIONS = ["FeaturesHS", "EarlySet", "EarlyDelete", "Barrier", "StatusSet", "StatusDelete", "Features"]
STAT_ACTIONS = ["PartMore", "PartFinal", "Other"]
# models with replies of NOT multipart-capable types that are split all the same (vendor / unknown / desc / aggr + MORE)
STAT_ACTIONS_ODD = STAT_ACTIONS + ["OddMore", "OddFinal"]


def stat_actions(cfg):
  return STAT_ACTIONS_ODD if ("_S3o" in cfg or "_S2or" in cfg) else STAT_ACTIONS
NVARIANTS = 3


def ssort(xs):
  from harness.adapters_c17 import ssort as s
  return s(xs)


def prep_ports(behs):
  """TLC prints sets in its own order: sort them (the adapter sorts its side the same way)."""
  seen = set()
  for b in behs:
    for st in b:
      if id(st) in seen:
        continue
      seen.add(id(st))
      e = st["exp"]
      for side in ("cur", "orig"):
        if side in e:
          v = e[side]
          v["nos"] = ssort(v["nos"])
          v["has"] = ssort(v["has"])
          for f in ("byname", "byhw"):
            for k in v[f]:
              v[f][k] = ssort(v[f][k])
  return behs


# --------------------------------------------------------------------------
# TLC runs (all started up front, a few at a time; results are consumed in a fixed order)

def _tlc_mc(ctx, module, cfg, actions):
  r = tlc.run("ports", module, cfg, tag=ctx.pid, workers=4, timeout=1500)
  if r.violated:
    raise tlc.TLCError("%s violates its own property %s in %s:\n%s" %
                       (module, r.violated, cfg, r.error_trace[:3000]))
  tlc.require_coverage(r, actions, cfg)
  return r


def _tlc_graph(ctx, module, cfg, actions):
  """One TLC run model-checks the spec (invariants, action properties, per-action coverage =
  vacuity guard) AND prints its state graph, one line per transition (ACTION_CONSTRAINT ExportG)."""
  r = tlc.run("ports", module, cfg, workers=1, coverage=True, tag=ctx.pid, timeout=1500)
  if r.violated:
    raise tlc.TLCError("%s violates its own property %s in %s:\n%s" %
                       (module, r.violated, cfg, r.error_trace[:3000]))
  tlc.require_coverage(r, actions, cfg)
  r.stdout = ""
  edges = r.tagged("G")
  r.prints = []
  if not edges or len(edges) != r.generated - 1:
    raise tlc.TLCError("%s: %d transitions generated but %d exported" % (cfg, r.generated - 1, len(edges)))
  walks, info = c17_tour.tours(edges, maxlen=40)
  del edges
  return r, walks, info


def _tlc_sim(ctx, module, cfg, num, depth, seed_off):
  r = tlc.run("ports", module, cfg, workers=1, coverage=False, simulate=dict(num=num),
              depth=depth + 1, seed=ctx.seed + 17 + seed_off, tag=ctx.pid, timeout=1500)
  behs = r.tagged("H")
  if len(behs) < num // 2:
    raise tlc.TLCError("simulation %s exported only %d behaviours" % (cfg, len(behs)))
  return behs


class Jobs(object):
  def __init__(self, ctx, workers):
    self.ctx = ctx
    self.ex = ThreadPoolExecutor(max_workers=workers)
    self.fut = {}

  def mc(self, module, cfg, actions):
    self.fut[cfg] = self.ex.submit(_tlc_mc, self.ctx, module, cfg, actions)

  def graph(self, module, cfg, actions):
    self.fut[cfg] = self.ex.submit(_tlc_graph, self.ctx, module, cfg, actions)

  def sim(self, module, cfg, num, depth, seed_off=0):
    self.fut[cfg] = self.ex.submit(_tlc_sim, self.ctx, module, cfg, num, depth, seed_off)

  def get(self, cfg):
    return self.fut.pop(cfg).result()

  def close(self):
    self.ex.shutdown(wait=True, cancel_futures=True)


def replay_variants(ctx, adapter, walks, params, name, all_variants=False, nontrivial=None, pick=None):
  """walk i is replayed under concretisation variant i mod 3 (thorough: under all three)."""
  total = dict(ok=0, diverted=0, mismatch=0)
  okb = None
  for v in range(NVARIANTS):
    sub = walks if all_variants else walks[v::NVARIANTS]
    if not sub:
      continue
    p = dict(params, variant=v)
    gc.freeze()        # forked replay workers must not touch (and so copy) the parent's heap
    try:
      st = core.replay(ctx, adapter, sub, params=p, chunk=max(5, min(60, len(sub) // 48 or 1)),
                       nontrivial=nontrivial or (lambda b: len(b) > 1))
    finally:
      gc.unfreeze()
    for k in total:
      total[k] += st[k]
    if okb is None:          # a conforming behaviour for the negative control
      cands = [sub[i] for i in core.replay.last_ok if pick is None or pick(sub[i])]
      if cands:
        okb = (max(cands, key=len), p)
  ctx.notes["replay " + name] = dict(behaviours=total["ok"] + total["diverted"] + total["mismatch"],
                                     steps=sum(len(w) for w in walks) * (NVARIANTS if all_variants else 1),
                                     **total)
  return okb


def negative_control_replay(ctx, adapter, okb, corrupt):
  """corrupt one expectation of a behaviour that conforms: the replay must report it"""
  if okb is None:
    return False
  beh, params = okb
  bad = copy.deepcopy(beh)
  if not corrupt(bad):
    return False
  c2 = core.Context(ctx.pid, ctx.tier, ctx.seed, ctx.level)
  c2.known = []
  core.replay(c2, adapter, [bad], params=params, procs=1)
  if not c2.violations:
    raise core.Machinery("negative control: a corrupted expectation was not reported (%s)" % adapter)
  return True


def corrupt_ports(beh):
  for st in reversed(beh):
    if "cur" in st["exp"]:
      for nm, lst in st["exp"]["cur"]["byname"].items():
        if not lst:            # claim a port has a name that no port has
          st["exp"]["cur"]["byname"][nm] = [[1, nm, "A", 0]]
          return True
  return False


def corrupt_stats(beh):
  for st in reversed(beh):
    if st["exp"]["con"] and len(st["exp"]["con"][0]["e"]) >= 2:
      for w in ("con", "nexus"):
        e = st["exp"][w][0]["e"]
        e[0], e[1] = e[1], e[0]          # entries of two parts swapped
      return True
  for st in reversed(beh):
    if not st["exp"]["con"] and st["a"] == "Part":
      ev = {"t": st["args"]["t"], "x": st["args"]["x"], "e": []}
      st["exp"] = {"con": [ev], "nexus": [ev], "free": []}      # an event before the final part
      return True
  return False


# --------------------------------------------------------------------------
# code -> spec

def validate_traces(ctx, module, cfg, driver, items, corrupt, name, describe):
  gc.freeze()
  try:
    traces = core.run_driver(driver, items)
  finally:
    gc.unfreeze()
  bad = copy.deepcopy(max(traces, key=len))
  if not corrupt(bad):
    raise core.Machinery("negative control: nothing to corrupt in a %s trace" % name)
  r, rej = tracecheck.validate("ports", module, cfg, traces + [bad], tag=ctx.pid)
  ctx.add_model("%s (validation of %d implementation traces)" % (module, len(traces)), r)
  if len(traces) not in [t for t, _ in rej]:
    raise tlc.TLCError("negative control (corrupted %s trace) was accepted by the trace spec" % name)
  nrej = 0
  for t, matched in rej:
    if t == len(traces):
      continue
    nrej += 1
    ev = traces[t][matched]
    ctx.report(describe(ev), dict(trace=traces[t], failing_step=matched, driver=driver, item=items[t],
                                  note="TLC rejected the trace at this event"))
  ctx.traces += len(traces)
  for t in traces:
    ctx.case(core.fp([[e["a"], e["args"]] for e in t]),
             sample=[dict(a=e["a"], args=e["args"]) for e in t[:6]])
  ctx.notes["trace_validation " + name] = dict(traces=len(traces), events=sum(len(t) for t in traces),
                                               rejected=nrej, negative_control_rejected=True)


def corrupt_port_trace(tr):
  for e in reversed(tr):
    if e["a"] in ("Status", "Barrier", "Features") and e["wf"]:
      e["obs"]["cur"]["n"] += 1
      return True
  return False


def corrupt_stats_trace(tr):
  for e in reversed(tr):
    if (e["a"] == "Part" and e["wf"] and T9[e["args"]["k"] - 1] in MULTI and e["obs"]["con"] and
        e["obs"]["con"][0]["e"]):
      e["obs"]["con"][0]["e"].pop()       # the event lost its last entry
      return True
  return False


def describe_port_event(ev):
  d = dict(spec="PortView", action=ev["a"], via="trace")
  if ev["a"] in ("Status", "EarlyStatus"):
    d["reason"] = ev["args"]["r"]
  if ev["args"].get("lis", "none") != "none":
    d["listeners"] = ev["args"]["lis"]
  if not ev["wf"]:
    d["observed"] = "malformed observation: %s" % (ev.get("why"),)
  return d


def describe_stats_event(ev):
  d = dict(spec="StatsAgg", action=ev["a"], via="trace")
  if ev["a"] == "Part":
    d["type"] = T9[ev["args"]["k"] - 1]
    d["final"] = not ev["args"]["more"]
    if ev["args"]["raw"] != "none":
      d["raw_listeners"] = ev["args"]["raw"]
    if ev.get("since"):
      d["interleaved_with"] = "reply_of_non_multipart_type"
      d.pop("raw_listeners", None)
  else:
    d["kind"] = ev["args"]["kind"]
  if not ev["wf"]:
    d["observed"] = "malformed observation: %s" % (ev.get("why"),)
  return d


# ---- ports driver
MODES = ["listen", "halt_nexus", "halt_con", "raise_nexus", "raise_con", "remove_nexus", "remove_con"]
NAMES3, HWS3 = ["a", "b", "c"], ["A", "B", "C"]
PNAMES, PHWS = ["a", "b", "c", "zz"], ["A", "B", "C", "ZZ"]
NONE = {"name": "-", "hw": "-", "st": 0}
DUMMY_FOUND = {"p": 0, "name": "-", "hw": "-", "st": 0}


def _dummy_view(NP):
  return dict(ports=[dict(NONE) for _ in range(NP)], nos=[], n=0, has=[],
              byname={k: dict(DUMMY_FOUND) for k in PNAMES}, byhw={k: dict(DUMMY_FOUND) for k in PHWS},
              same=True)


def _trace_view(v, NP):
  """adapter view -> fixed-schema, uniformly typed record for TLC (or None when malformed)."""
  def isrec(r):
    return (isinstance(r, dict) and set(r) == {"name", "hw", "st"} and isinstance(r["name"], str) and
            isinstance(r["hw"], str) and r["st"] in (0, 1))
  if not (isinstance(v, dict) and len(v.get("ports", [])) == NP and all(isrec(r) for r in v["ports"])):
    return None, "ports"
  for f in ("nos", "has"):
    if not all(isinstance(x, int) and not isinstance(x, bool) for x in v[f]):
      return None, f
  if not isinstance(v["n"], int):
    return None, "n"
  out = dict(ports=v["ports"], nos=v["nos"], n=v["n"], has=v["has"], byname={}, byhw={},
             same=not any(k.startswith("via_") for k in v))
  for f, keys in (("byname", PNAMES), ("byhw", PHWS)):
    for k in keys:
      lst = v[f][k]
      if not lst:
        out[f][k] = dict(DUMMY_FOUND)
      else:
        t = lst[0]
        if not (isinstance(t[0], int) and isinstance(t[1], str) and isinstance(t[2], str) and t[3] in (0, 1)):
          return None, f
        out[f][k] = dict(p=t[0], name=t[1], hw=t[2], st=t[3])
  return out, None


def drive_ports(arg):
  """Random history on a real Connection; returns the recorded trace."""
  seed, n = arg
  from harness.adapters_c17 import PortAdapter
  rnd = random.Random(seed)
  NP = 4
  ad = PortAdapter(variant=rnd.randrange(NVARIANTS), NP=NP, probe_names=PNAMES, probe_hws=PHWS)

  def rrec():
    return dict(name=rnd.choice(NAMES3), hw=rnd.choice(HWS3), st=rnd.randint(0, 1))

  def rports():
    dens = rnd.choice([0.0, 0.5, 0.8, 1.0])
    return [rrec() if rnd.random() < dens else dict(NONE) for _ in range(NP)]

  def rlis():
    return "none" if rnd.random() < 0.4 else rnd.choice(MODES)

  def rstatus():
    r = rnd.choice(["add", "mod", "mod", "del"])
    return dict(r=r, p=rnd.randint(1, NP), rec=rrec(), ports=[dict(NONE)] * NP, lis=rlis())

  plan = [("FeaturesHS", dict(r="-", p=0, rec=dict(NONE), ports=rports(), lis="none"))]
  plan += [("EarlyStatus", dict(rstatus(), lis="none")) for _ in range(rnd.choice([0, 0, 1, 2, 3]))]
  plan.append(("Barrier", dict(r="-", p=0, rec=dict(NONE), ports=[dict(NONE)] * NP, lis=rlis())))
  for _ in range(n):
    if rnd.random() < 0.06:
      plan.append(("Features", dict(r="-", p=0, rec=dict(NONE), ports=rports(), lis=rlis())))
    else:
      plan.append(("Status", rstatus()))
  tr = []
  for a, args in plan:
    why = None
    try:
      obs = ad.step(a, args)
      wf = True
    except core.Machinery:
      raise
    except Exception as e:
      obs, wf, why = None, False, "exception %s" % type(e).__name__
    out = dict(cur=_dummy_view(NP), orig=_dummy_view(NP))
    if wf and a in ("Barrier", "Status", "Features"):
      if not (isinstance(obs, dict) and "cur" in obs and "orig" in obs):
        wf, why = False, "no view"
      else:
        for side in ("cur", "orig"):
          tv, bad = _trace_view(obs[side], NP)
          if tv is None:
            wf, why = False, side + "." + bad
          else:
            out[side] = tv
    ev = dict(a=a, args=args, obs=out, wf=wf)
    if why:
      ev["why"] = why
    tr.append(ev)
  return tr


# ---- stats driver (key table = MCStatsAgg T9 / X9 / M9)
T9 = ["flow", "flow", "table", "port", "queue", "desc", "aggr", "vendor", "unk"]
X9 = [1, 2, 1, 2, 1, 2, 1, 1, 2]
KMAX9 = [8, 8, 8, 8, 8, 2, 2, 3, 3]
MULTI = ("flow", "table", "port", "queue")
OTHERS = ["echo", "pktin", "portstatus", "barrier", "flowrem", "error", "config",
          "vendormsg", "echoreply", "hello", "features"]


def drive_stats(arg):
  seed, n = arg
  from harness.adapters_c17 import StatsAdapter
  rnd = random.Random(seed)
  ad = StatsAdapter(variant=rnd.randrange(NVARIANTS))
  NK = len(T9)
  nparts = [0] * NK
  nent = [0] * NK
  gen = [0] * NK
  style = rnd.choice(["sequential", "interleaved", "interleaved", "mixed", "odd"])
  odd_keys = [k for k in range(NK) if T9[k] not in MULTI]
  focus = None
  tr = []
  for _ in range(n):
    since = ""
    if rnd.random() < 0.15:
      a, args = "Other", dict(kind=rnd.choice(OTHERS), k=0, more=False, n=0, raw="none")
      sargs = dict(kind=args["kind"])
    else:
      open_keys = [k for k in range(NK) if nparts[k] > 0 and nparts[k] < KMAX9[k]]
      if style == "sequential" and open_keys:
        k = open_keys[0]
      elif style == "mixed" and focus in open_keys and rnd.random() < 0.7:
        k = focus
      elif style == "odd" and rnd.random() < 0.5:
        k = rnd.choice(odd_keys)         # replies of not multipart-capable types in between, often
      else:
        k = rnd.choice([k for k in range(NK) if nparts[k] < KMAX9[k]] or [0])
      focus = k
      if nparts[k] >= KMAX9[k]:
        continue
      t = T9[k]
      multi = t in MULTI
      # (the spec splits a not multipart-capable type only where there is room left for the final part)
      more = nparts[k] + 1 < KMAX9[k] and rnd.random() < (0.6 if multi else 0.5)
      cnt = rnd.choice([0, 1, 1, 2, 3, 5]) if multi else (1 if t in ("desc", "aggr") else rnd.choice([0, 1, 2]))
      a = "Part"
      raw = "none" if rnd.random() < 0.4 else rnd.choice(MODES)
      args = dict(kind="-", k=k + 1, more=more, n=cnt, raw=raw)
      sargs = dict(k=k + 1, t=t, x=X9[k], g=gen[k], first=nent[k] + 1, n=cnt, more=more, raw=raw)
      if more:
        nparts[k] += 1
        if t not in ("vendor", "unk"):       # opaque bodies carry no entries
          nent[k] += cnt
      else:
        nparts[k] = 0
        nent[k] = 0
        gen[k] += 1
    why = None
    try:
      obs = ad.step(a, sargs)
      wf = True
    except core.Machinery:
      raise
    except Exception as e:
      obs, wf, why = None, False, "exception %s" % type(e).__name__
    if a == "Part":
      since = ",".join(ad.cur_since)
    out = dict(con=[], nexus=[])
    if wf:
      if not (isinstance(obs, dict) and "con" in obs and "nexus" in obs):
        wf, why = False, "no observation"
      else:
        for w in ("con", "nexus"):
          for ev in obs[w]:
            if not (isinstance(ev["x"], int) and isinstance(ev["t"], str) and
                    all(len(t) == 3 and all(isinstance(x, int) for x in t) for t in ev["e"])):
              wf, why = False, "event with unidentifiable request or entries"
        if wf:
          out = dict(con=obs["con"], nexus=obs["nexus"])
    ev = dict(a=a, args=args, obs=out, wf=wf, since=since)
    if why:
      ev["why"] = why
    tr.append(ev)
  return tr


# --------------------------------------------------------------------------

def run(ctx):
  quick = ctx.tier == "quick"
  ctx.rule = ("PortView.tla and StatsAgg.tla are model-checked by TLC; their state graphs are exported "
              "(one line per transition) and every transition is covered by walks from the initial state; "
              "each walk, plus TLC -simulate behaviours, is replayed as OpenFlow bytes (built with struct only) "
              "through the real of_01.Connection.read(); after every step the complete answers of "
              "connection.ports / original_ports (by number, name, address, len, iteration, membership, "
              "values/items/get/has_key) resp. the *StatsReceived events seen on the Connection and on "
              "core.openflow are compared with the spec's expectation.  Seeded random drivers additionally "
              "record traces from the real code which TLC validates against the specs.  distinct = distinct "
              "action/argument sequences; non-trivial = more than one step")
  ctx.assumptions = [
      "PortView exhaustive transition cover: 3 port numbers x 2 names x 2 addresses, and 2 port numbers x link flag "
      "under all 8 listener modes (quick; + 2 ports x 2 names x 2 addresses x link flag, 3 ports with link flag and "
      "4 port numbers x 2 names in thorough), features "
      "replies from a fixed list incl. empty / duplicate names and addresses / gaps; 1 notification inside the "
      "handshake; 4 ports x 3 names x 3 addresses x link flag, histories of 12-34 notifications and up to 3 "
      "notifications inside the handshake only by TLC simulation and random traces",
      "add/modify of any number installs the carried description, delete of an unknown number is a no-op",
      "lookups by a name/address shared by several ports may answer with any of them (set-valued expectation)",
      "the view is not observed while the handshake is still running (nobody can reach the connection then)",
      "StatsAgg exhaustive transition cover: one reply in <=6 parts of 0..2 entries; a <=6-part reply interleaved "
      "with a single-part desc/aggregate reply of another request; three requests (same type/other xid, other "
      "type/same xid) with <=2 parts (thorough <=3/2/2) of 0..1 entries, each key reusable after completion; flow "
      "and port types in quick, all four multipart types in thorough; more requests, more parts, 0..5 entries per "
      "part and all unrelated message kinds only by simulation and random traces",
      "a request is identified by (xid, stats type); requests outstanding at the same time differ in one of them",
      "replies of NOT multipart-capable types as the second request's reply: vendor statistics (OFPST_VENDOR) and a "
      "stats type OpenFlow 1.0 does not define (6 / 0x7fff / 0xfffe), in 1..3 parts with the MORE flag, and desc / "
      "aggregate replies split in 2 parts with MORE, sharing the xid of the splittable reply or not: exhaustive "
      "transition cover on EX_S3o_<flow|port> (quick; <=3-part splittable reply x 2 generations, together with "
      "features-reply / OFPT_VENDOR / hello / barrier resp. echo-reply / flow-removed / error / config messages in "
      "between) and EX_S2or_flow (all 8 raw-listener modes); thorough: EX_S3ow / EX_S2or for all four types.  No "
      "aggregated event exists for vendor / unknown types (none may fire); the events for the OWN (type, xid) of a "
      "desc / aggregate reply that is split are left open by the spec (exp.free) - everything else, in particular "
      "every other request's event, is compared exactly",
      "connected state only (stats replies during the handshake are not modelled); a vendor statistics body always "
      "carries its 4-byte vendor id (a shorter one is malformed input - property C10)",
      "OpenFlow bytes built by harness/rawbytes.py (struct only); segmentation of the byte stream varies per step",
  ]

  types = ("flow", "port") if quick else ("flow", "port", "table", "queue")
  others = () if quick else ("table", "port", "queue")
  num = 80 if quick else 1500
  jobs = Jobs(ctx, workers=6 if quick else 3)
  try:
    # all TLC work is queued now; EX_*.cfg = model check + graph export in one run, MC_*.cfg = model check only
    mcs = [("MCPortView", "MC_hist3.cfg", PORT_ACTIONS)]
    pgraphs = [("EX_edges_P3q.cfg" if quick else "EX_edges_P3.cfg", 3)]
    sgraphs = ["EX_S1_flow.cfg", "EX_S3q_flow.cfg" if quick else "EX_S3_flow.cfg"]
    sgraphs += ["EX_S2_%s.cfg" % t for t in types]
    # the listener environment: every way other components may treat the raw per-part event / PortStatus
    sgraphs += ["EX_S2r_flow.cfg"] if quick else ["EX_S2r_%s.cfg" % t for t in types]
    # replies of NOT multipart-capable types (vendor / unknown stats type, desc / aggregate) that are split with
    # the MORE flag all the same, as "a second request's reply" while a splittable reply is being assembled
    sgraphs += ["EX_S3o_flow.cfg", "EX_S3o_port.cfg", "EX_S2or_flow.cfg"] if quick else (
        ["EX_S3ow_%s.cfg" % t for t in types] + ["EX_S2or_%s.cfg" % t for t in types])
    pgraphs += [("EX_edges_P2l.cfg", 2)]
    if not quick:
      mcs += [("MCPortView", "MC_P2w.cfg", PORT_ACTIONS), ("MCPortView", "MC_hist4.cfg", PORT_ACTIONS),
              ("MCStatsAgg", "MC_S3w_flow.cfg", STAT_ACTIONS)]
      pgraphs += [("EX_edges_P2s.cfg", 2), ("EX_edges_P3s.cfg", 3), ("EX_edges_P4.cfg", 4)]
      sgraphs += ["EX_S1_%s.cfg" % t for t in others] + ["EX_S3_%s.cfg" % t for t in others]
    for cfg, _ in pgraphs:
      jobs.graph("MCPortView", cfg, PORT_ACTIONS)
    for cfg in sgraphs:
      jobs.graph("MCStatsAgg", cfg, stat_actions(cfg))
    jobs.sim("MCPortView", "SIM_P4.cfg", num, 16)
    jobs.sim("MCStatsAgg", "SIM_S9.cfg", num, 30)
    if not quick:
      jobs.sim("MCPortView", "SIM_P4_deep.cfg", 600, 34, 1)
      jobs.sim("MCStatsAgg", "SIM_S9_deep.cfg", 600, 80, 2)
    for m, cfg, acts in mcs:
      jobs.mc(m, cfg, acts)

    # 1. the properties on the models  +  2. spec -> code: transition cover of the state graphs
    okp = oks = None
    # (the small statistics graphs are ready first; the port graphs are still being exported meanwhile)
    for cfg in sgraphs:
      r, walks, info = jobs.get(cfg)
      ctx.add_model("StatsAgg " + cfg, r)
      ctx.notes["graph " + cfg] = info
      ok = replay_variants(ctx, STATS, walks, dict(), cfg, all_variants=not quick, pick=lambda b: any(
          st["exp"]["con"] and len(st["exp"]["con"][0]["e"]) >= 2 for st in b))
      oks = oks or ok
    for cfg, np_ in pgraphs:
      r, walks, info = jobs.get(cfg)
      ctx.add_model("PortView " + cfg, r)
      prep_ports(walks)
      ctx.notes["graph " + cfg] = info
      ok = replay_variants(ctx, PORTS, walks, dict(NP=np_), cfg, all_variants=not quick and np_ < 3,
                           pick=lambda b: any("cur" in st["exp"] for st in b))
      okp = okp or ok
    if not ctx.violations:
      if not negative_control_replay(ctx, PORTS, okp, corrupt_ports):
        raise core.Machinery("negative control (ports) could not be constructed")
      if not negative_control_replay(ctx, STATS, oks, corrupt_stats):
        raise core.Machinery("negative control (stats) could not be constructed")
      ctx.notes["negative_controls_replay"] = "corrupted expectations were reported (ports, stats)"

    # 3. long random behaviours chosen by TLC
    sims = [("SIM_P4.cfg", PORTS, dict(NP=4), prep_ports), ("SIM_S9.cfg", STATS, dict(), None)]
    if not quick:
      sims += [("SIM_P4_deep.cfg", PORTS, dict(NP=4), prep_ports), ("SIM_S9_deep.cfg", STATS, dict(), None)]
    for cfg, adapter, params, prep in sims:
      behs = jobs.get(cfg)
      if prep:
        prep(behs)
      replay_variants(ctx, adapter, behs, params, cfg)

    for m, cfg, acts in mcs:
      ctx.add_model("%s %s" % (m[2:], cfg), jobs.get(cfg))
  finally:
    jobs.close()

  # 4. code -> spec: random drivers on the real Connection, traces validated by TLC
  ntr = 120 if quick else 1500
  validate_traces(ctx, "TracePortView", "TracePorts.cfg", "props.C17:drive_ports",
                  [(ctx.seed * 100003 + i, 12 + (i % 19)) for i in range(ntr)],
                  corrupt_port_trace, "ports", describe_port_event)
  validate_traces(ctx, "TraceStatsAgg", "TraceStats.cfg", "props.C17:drive_stats",
                  [(ctx.seed * 100019 + i, 25 + (i % 40)) for i in range(ntr)],
                  corrupt_stats_trace, "stats", describe_stats_event)
  ctx.exhaustive = True
