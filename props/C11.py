"""C11 - learning-switch control loop forwards like an ideal learning bridge.

1. TLC model-checks LearningNet.tla: the DESIGN layer (l2_learning on OpenFlow
   switches: packet-in, learn, drop / flood / install + forward, timeouts)
   satisfies the PROPERTY layer (HopOK: the clauses of the property) on all
   histories up to a length, on 1-3 switches, and on long random histories.
2. TLC exports behaviours of the design (all paths over small alphabets, one
   behaviour per transition of the bounded state graph over large alphabets,
   random deep walks).  Their INPUTS are run on the real control loop
   (harness/c11_netsim.py: real l2_learning + of_01.Connection +
   SoftwareSwitch over OpenFlow bytes) under varying concretisations.
   Round 6: TLC also searches MUTANT designs (MutLearningNet.tla: one duty of
   the controller - learn the source / delete the flows of a source that
   moved - skipped on one decision class of packet-in) for the histories on
   which they break the property; the inputs of these witness histories are
   run on the real code as well.
3. TLC validates every recorded execution against the PROPERTY layer
   (TraceLearningNet.tla): each hop of each frame must satisfy HopOK in the
   state built from the recorded history.  That is the verdict.  Whether the
   execution also equals the design model's prediction is only counted
   (notes.design_agreement); it is not a verdict.
"""
import copy
import time
import json
import random
import re
from concurrent.futures import ThreadPoolExecutor

from engine import tlc, core, tracecheck

DRIVER = "harness.adapters_c11:run_behaviour"
# cases of the design model (NextC in LearningNet.tla); every one must be exercised by the model runs
CASES = ["ViaFiltered", "ViaFlood", "ViaForward", "ViaSamePort", "ViaFlow", "ViaDropFlow", "ViaOlderFlow",
         "ViaLink", "Move", "TickExpires", "TickKeeps",
         # a source that moved announces itself by a frame of each decision class while its flows are cached
         "MvLldp", "MvFilt", "MvGroup", "MvUnknown", "MvSame", "MvFwd",
         # Round 8, launch options: a flood held down / a known unicast forwarded during the hold-down / the
         # hold-down running out or not at a Tick / link-local frames flooded and unicast by a transparent bridge
         "ViaHeld", "HeldForward", "HoldExpires", "HoldGoesOn", "TranspFlood", "TranspUni"]
_OPT = ["ViaHeld", "HeldForward", "HoldExpires", "HoldGoesOn", "TranspFlood", "TranspUni"]
CLASSES = ["lldp", "filt", "group", "unknown", "same", "fwd"]

AT = {
    "At1_2": [[1, 1], [1, 2]],
    "At1_3": [[1, 1], [1, 2], [1, 3]],
    "At1_same": [[1, 1], [1, 1]],
    "At2_3": [[1, 1], [1, 2], [2, 1]],
    "At2_4": [[1, 1], [1, 2], [2, 1], [2, 2]],
    "At3_3": [[1, 1], [2, 1], [3, 1]],
    "At3_5": [[1, 1], [1, 2], [2, 1], [3, 1], [3, 2]],
}

# (cfg, tag, topology, initial attachment, max behaviours kept (None = all)[, module, concretisations per
#  behaviour (or per duty of the mutant), mutants that must each yield a witness])
MUT = "MutLearningNet"
DEL = ["delete/" + c for c in CLASSES]
LRN = ["learn/" + c for c in CLASSES]
EXPORTS = {
    "quick": [
        ("MUT_T1r_qa_d8.cfg", "W", "T1", "At1_2", None, MUT, dict(delete=5, learn=1), DEL[:3] + LRN),
        ("MUT_T1r_qb_d8.cfg", "W", "T1", "At1_2", None, MUT, dict(delete=5, learn=1), DEL[3:]),
        ("EX_paths_T1_d3.cfg", "H", "T1", "At1_2", None),
        ("EX_paths_T1s_d4.cfg", "H", "T1", "At1_same", None),
        ("EX_paths_T1m_d7.cfg", "H", "T1", "At1_2", None),
        ("EX_paths_T2_d3.cfg", "H", "T2", "At2_3", 700),
        ("EX_edges_T1_d2.cfg", "T", "T1", "At1_3", 800),
        ("EX_edges_T3_d2.cfg", "T", "T3", "At3_5", 500),
        # tag "O": behaviours printed with the launch options (hold-down, transparent) of their initial state
        ("EX_edges_T1o_d2.cfg", "O", "T1", "At1_3", 700),
        ("EX_edges_T2o_d2.cfg", "O", "T2", "At2_3", 250),
    ],
    "thorough": [
        ("MUT_T1r_delcN_d9.cfg", "W", "T1", "At1_2", None, MUT, 12, DEL),
        ("MUT_T1r_del_d7.cfg", "W", "T1", "At1_2", None, MUT, 6, DEL),
        ("MUT_T1r_learn_d5.cfg", "W", "T1", "At1_2", None, MUT, 2, LRN),
        ("EX_edges_T1r_d6.cfg", "T", "T1", "At1_2", 2500),
        ("EX_paths_T1_d4.cfg", "H", "T1", "At1_2", None),
        ("EX_paths_T1s_d4.cfg", "H", "T1", "At1_same", None),
        ("EX_paths_T1m_d5.cfg", "H", "T1", "At1_2", None),
        ("EX_paths_T1m_d7.cfg", "H", "T1", "At1_2", None),
        ("EX_paths_T1f_d3.cfg", "H", "T1", "At1_same", None),
        ("EX_paths_T1f_d4.cfg", "H", "T1", "At1_same", 20000),
        ("EX_paths_T2_d3.cfg", "H", "T2", "At2_3", None),
        ("EX_paths_T2_d4.cfg", "H", "T2", "At2_3", 20000),
        ("EX_edges_T1_d2.cfg", "T", "T1", "At1_3", None),
        ("EX_edges_T1_d3.cfg", "T", "T1", "At1_3", 12000),
        ("EX_edges_T2_d2.cfg", "T", "T2", "At2_4", None),
        ("EX_edges_T2_d3.cfg", "T", "T2", "At2_4", 8000),
        ("EX_edges_T3_d2.cfg", "T", "T3", "At3_5", None),
        ("EX_edges_T3_d3.cfg", "T", "T3", "At3_3", 8000),
        ("EX_edges_T1o_d2.cfg", "O", "T1", "At1_3", None),
        ("EX_edges_T1o_d3.cfg", "O", "T1", "At1_3", 12000),
        ("EX_edges_T2o_d2.cfg", "O", "T2", "At2_3", None),
    ],
}
SIMS = {
    "quick": [("EX_sim60_T1.cfg", "T1", "At1_3", 16, 60), ("EX_sim60_T2.cfg", "T2", "At2_4", 12, 60),
              ("EX_sim60_T3.cfg", "T3", "At3_5", 12, 60), ("EX_sim60_T1o.cfg", "T1", "At1_3", 9, 60)],
    "thorough": [("EX_sim200_T1.cfg", "T1", "At1_3", 250, 200), ("EX_sim200_T2.cfg", "T2", "At2_4", 200, 200),
                 ("EX_sim200_T3.cfg", "T3", "At3_5", 200, 200), ("EX_sim60_T1o.cfg", "T1", "At1_3", 150, 60)],
}
MODELS = {
    "quick": [("MC_T1_d3.cfg", "T1: 3 hosts, destinations host|unknown|broadcast|filtered, shapes a/l, gaps 11/31, histories <= 4"),
              ("MC_T1r_d6.cfg", "T1 re-plug family: two hosts, one re-plugged between all three ports, every "
                                "destination class and LLDP from both, histories <= 7"),
              ("MC_T2_d2.cfg", "T2: 2 switches, 3 hosts, histories <= 3"),
              ("MC_T3_d2.cfg", "T3: 3 switches, 3 hosts, histories <= 3"),
              ("MC_T1o_d3.cfg", "T1 launch options: hold-down 11 s and / or transparent, 2 hosts, every destination "
                                "class, shapes a/l, gaps 5/11/31, histories <= 4")],
    "thorough": [("MC_T1_d4.cfg", "T1: 3 hosts, all destination classes, shapes a/l, gaps 11/31, histories <= 5"),
                 ("MC_T1same_d4.cfg", "T1: 2 hosts behind one port, shapes a/b/l, histories <= 5"),
                 ("MC_T1m_d7.cfg", "T1: two hosts in conversation, one moving between two ports, histories <= 8"),
                 ("MC_T1r_d7.cfg", "T1 re-plug family: two hosts, one re-plugged between all three ports, every "
                                   "destination class and LLDP from both, histories <= 8"),
                 ("MC_T2_d4.cfg", "T2: 2 switches, 3 hosts, histories <= 5"),
                 ("MC_T3_d4.cfg", "T3: 3 switches, 3 hosts, histories <= 5"),
                 ("MC_T1o_d4.cfg", "T1 launch options: hold-down 11 s and / or transparent, 2 hosts, every "
                                   "destination class, shapes a/l, gaps 5/11/31, histories <= 5")],
}



# cases a model run must exercise by itself (default: ViaFlood, ViaForward, ViaFlow, Move); the union of the
# tier's runs must exercise all CASES
_MV = ["ViaOlderFlow", "MvLldp", "MvFilt", "MvGroup", "MvUnknown", "MvSame", "MvFwd", "Move"]
PER_MODEL = {"MC_T1r_d6.cfg": _MV, "MC_T1r_d7.cfg": _MV, "MC_T1o_d3.cfg": _OPT, "MC_T1o_d4.cfg": _OPT}


def _narrow(beh):
  """EX_paths_T1m_*: TLC also prints the paths whose last step leaves the family (CONSTRAINT Narrow)."""
  return all((st["a"] != "Send" or st["args"]["h"] != st["args"]["dst"]) and
             (st["a"] != "Move" or st["args"]["h"] == 1) for st in beh)


FILTERS = {"EX_paths_T1m_d5.cfg": _narrow, "EX_paths_T1m_d7.cfg": _narrow}
# models of the component as built, each expected to violate Conforms (thorough tier)
AS_BUILT = [("MC_asbuilt.cfg", "drop flow without ingress port (finding 01)"),
            ("MC_asbuilt2.cfg", "no flow deletion when a source shows up on a new port (finding 03)")]

_diag = re.compile(r'^<<"DIAG", (\d+), (\d+), (.*), (\d+), (\d+), (\d+)>>$')
_want = re.compile(r'^<<"WANT", (\d+), (\d+), (\d+), (.*)>>$')


def _export(e):
  """EXPORTS entry -> (cfg, tag, topo, at, cap, module, concretisations per behaviour, required mutants)"""
  return tuple(e[:5]) + (e[5] if len(e) > 5 else "MCLearningNet", e[6] if len(e) > 6 else 1,
                         e[7] if len(e) > 7 else [])


def announce_class(args):
  """decision-relevant class of a frame, from its inputs (for signatures)"""
  if args["sh"] == "l":
    return "lldp"
  return dst_class(args["dst"])


def moved_via(trace, upto, host):
  """How did `host` announce itself each time it showed up on a new attachment point before event `upto`?
  (sorted classes of those first frames; [] if it was always seen at one point).  From the inputs only."""
  at = {}
  seen_at = {}
  via = set()
  for e in trace[:upto]:
    if e["a"] == "At":
      for h, sp in enumerate(e["args"]["at"], 1):
        at[h] = tuple(sp)
    elif e["a"] == "Move":
      at[e["args"]["h"]] = (e["args"]["s"], e["args"]["p"])
    elif e["a"] == "Send" and e["args"]["h"] == host:
      if host in seen_at and seen_at[host] != at.get(host):
        via.add(announce_class(e["args"]))
      seen_at[host] = at.get(host)
  return sorted(via)


def _par(jobs, n=4, first=()):
  """run thunks concurrently (each is a TLC subprocess), keep order; the jobs whose indexes are listed in
  `first` are started before the others (long single-threaded runs must not queue behind short ones)."""
  order = [k for k in first] + [k for k in range(len(jobs)) if k not in first]
  with ThreadPoolExecutor(max_workers=n) as ex:
    futs = {k: ex.submit(jobs[k]) for k in order}
    return [futs[k].result() for k in range(len(jobs))]


def dst_class(d):
  return {90: "unknown-unicast", 91: "broadcast", 92: "multicast", 93: "bridge-filtered"}.get(d, "host")


def _norm_steps(beh):
  """exported behaviour -> steps with sorted sets (design expectation kept)."""
  out = []
  for st in beh:
    st = dict(a=st["a"], args=st["args"], exp=st.get("exp", {}))
    if st["a"] == "Send":
      st["exp"] = dict(hops=sorted(
          (dict(s=h["s"], i=h["i"], pktin=h["pktin"], out=sorted(h["out"])) for h in st["exp"]["hops"]),
          key=lambda h: h["s"]))
    elif st["a"] == "Tick":
      st["exp"] = dict(tbls=[list(t) for t in st["exp"]["tbls"]])
    out.append(st)
  return out


def _brief(hops):
  out = []
  for h in hops:
    ports = sorted(set(h["out"]))
    out.append([h["s"], h["i"], h["pktin"], ports, 1 if len(ports) != len(h["out"]) else 0,
                h.get("mod", 0), h.get("buf", 0)])
  return sorted(out)


def _replay_form(steps, trace, matched, want=None):
  """behaviour for `./check C11 --replay`: the inputs up to the rejected
  event; expectation = what was recorded (and accepted) before it, the
  design model's prediction at it.  For a witness history of a mutant design
  (whose `exp` is the MUTANT's prediction) the expectation at the rejected
  event is the recorded hop with the ports the property layer demands
  (`want`: {switch: ports}, printed by TLC with the diagnosis)."""
  beh = []
  for j, st in enumerate(steps[:matched]):
    exp = {}
    if st["a"] == "Send":
      if j < matched - 1:
        exp = {"hops": _brief(trace[j + 1]["obs"]["hops"])}
      elif want is not None:
        exp = {"hops": sorted([h["s"], h["i"], h["pktin"],
                               sorted(want[h["s"]]) if want.get(h["s"], [0]) != [0] else sorted(set(h["out"])),
                               0, 0, 0] for h in trace[j + 1]["obs"]["hops"])}
      else:
        exp = {"hops": sorted([h["s"], h["i"], h["pktin"], sorted(h["out"]), 0, 0, 0]
                              for h in st["exp"]["hops"])}
    beh.append(dict(a=st["a"], args=st["args"], exp=exp))
  return beh


def _validate(topo, traces, tag):
  """-> (result, {trace index: matched prefix}, {trace index: [diag]})"""
  r, rej = tracecheck.validate("learning", "TraceLearningNet", "Trace_%s.cfg" % topo, traces, tag=tag,
                               timeout=3000)
  diags = {}
  for ln in r.prints:
    m = _diag.match(ln)
    if m:
      t = int(m.group(1)) - 1
      try:
        cl = json.loads(json.loads(m.group(3)))
      except Exception:
        cl = [m.group(3).strip('"')]
      diags.setdefault(t, []).append(dict(event=int(m.group(2)) - 1, clauses=cl, s=int(m.group(4)),
                                          i=int(m.group(5)), pktin=int(m.group(6))))
      continue
    m = _want.match(ln)
    if m:
      # the ports the property layer demands at a rejected hop ([0] = latitude); joins its DIAG entry
      t, ev, sw = int(m.group(1)) - 1, int(m.group(2)) - 1, int(m.group(3))
      for d in diags.get(t, []):
        if d["event"] == ev and d["s"] == sw and "want" not in d:
          d["want"] = json.loads(json.loads(m.group(4)))
          break
  return r, dict(rej), diags


def _corrupt(trace, kind):
  """negative controls: one observation of an accepted execution falsified."""
  tr = copy.deepcopy(trace)
  hold = transp = up = 0
  for e in tr:
    if e["a"] == "At":
      hold, transp = e["args"].get("hold", 0), e["args"].get("transp", False)
    if e["a"] == "Tick":
      up += e["args"]["d"]
    held = up < hold
    if e["a"] != "Send":
      continue
    if held and kind in ("flood-minus-one",):
      continue
    for h in e["obs"]["hops"]:
      if kind == "flood-minus-one" and len(h["out"]) >= 2:
        h["out"] = h["out"][:-1]
        return tr
      if kind == "back-out-ingress" and h["pktin"] == 1:
        h["out"] = h["out"] + [h["i"]]
        return tr
      if kind == "delivered-twice" and len(h["out"]) >= 1:
        h["out"] = h["out"] + [h["out"][0]]
        return tr
      if kind == "buffer-left" and h["pktin"] == 1:
        h["buf"] = 1
        return tr
      if kind == "wrong-port" and h["pktin"] == 1 and len(h["out"]) == 1 and e["args"]["dst"] < 90 \
          and e["args"]["sh"] != "l":
        h["out"] = [p for p in (1, 2, 3) if p not in (h["i"], h["out"][0])][:1]
        return tr
      if kind == "flooded-during-hold-down" and held and h["pktin"] == 1 and not h["out"] \
          and (e["args"]["dst"] in (90, 91, 92) and (transp or e["args"]["sh"] != "l")):
        h["out"] = [p for p in (1, 2, 3) if p != h["i"]]
        return tr
      if kind == "buffer-left-during-hold-down" and held and h["pktin"] == 1 and not h["out"]:
        h["buf"] = 1
        return tr
      if kind == "link-local-dropped-by-transparent" and transp and h["out"] and h["pktin"] == 1 \
          and (e["args"]["dst"] == 93 or e["args"]["sh"] == "l"):
        h["out"] = []
        return tr
      if kind == "filtered-forwarded" and not transp and (e["args"]["dst"] == 93 or e["args"]["sh"] == "l"):
        h["out"] = [p for p in (1, 2, 3) if p != h["i"]]
        return tr
  return None


NEG_KINDS = ["flood-minus-one", "back-out-ingress", "delivered-twice", "buffer-left", "wrong-port",
             "filtered-forwarded"]
# controls of the option dimension (must be rejected wherever an execution with these options exists: T1, T2)
NEG_OPT = ["flooded-during-hold-down", "buffer-left-during-hold-down", "link-local-dropped-by-transparent"]


def run(ctx):
  quick = ctx.tier == "quick"
  tier = "quick" if quick else "thorough"
  rnd = random.Random(ctx.seed * 7919 + 11)
  ctx.rule = ("inputs of behaviours exported by TLC from the design layer of LearningNet.tla (all paths to "
              "depth 3-4 over small alphabets; one behaviour per transition of the depth-bounded state graph "
              "over large alphabets; -simulate walks of length 60/200; witness histories on which TLC finds "
              "that a mutant design - one controller duty (learn / delete the flows of a moved source) skipped "
              "on one decision class of packet-in - breaks the property) are executed on real l2_learning + "
              "of_01.Connection + SoftwareSwitch connected by OpenFlow bytes; every recorded execution is "
              "validated by TLC against the property layer (TraceLearningNet.tla: each hop of each frame "
              "must satisfy HopOK in the state built from the recorded history). distinct = distinct "
              "(topology, concretisation variant, input sequence); non-trivial = at least one frame sent")
  ctx.assumptions = [
      "line topologies of 1-3 switches with 3 ports each, 2-5 hosts, hosts may share a port and move",
      "one frame in flight at a time (each frame is processed to quiescence of the control channel)",
      "sightings are the controller's (packet-in sources); flow tables are read through OFPST_FLOW on the "
      "wire, buffer occupancy from SoftwareSwitch._packet_buffer",
      "frames and the decoding of all OpenFlow messages use struct only (harness/rawbytes.py, c11_netsim.py)",
      "switches have no automatic expiry timer: expiry happens when the input sequence says Tick(d, sweep)",
      "controller launch options: hold_down in {0, 11 s}, transparent in {False, True} (given as int / bool or as "
      "command-line strings); `ignore` not used; topologies with loops are out of the component's contract",
  ]

  # ---- 1. the property on the model
  # the quick tier's largest model run goes without TLC's coverage bookkeeping (twice as fast); the
  # vacuity guard is then carried by the other model runs, which exercise every case
  nocov = {"MC_T1_d3.cfg"} if quick else set()

  def mc(cfg):
    # (the re-plug family's run carries the Mv* cases, i.e. TLC's coverage bookkeeping: more workers keep it
    #  off the critical path)
    return lambda: tlc.run("learning", "MCLearningNet", cfg, tag="C11",
                           workers=4 if not quick or cfg in PER_MODEL else 2,
                           coverage=cfg not in nocov, timeout=1700)
  sims = SIMS[tier]

  def sim(cfg, num, depth, k):
    return lambda: tlc.run("learning", "MCLearningNet", cfg, workers=1, coverage=False,
                           simulate=dict(num=num), depth=depth + 1, seed=ctx.seed + 1 + k, tag="C11",
                           timeout=1700)
  exports = EXPORTS[tier]

  exports = [_export(e) for e in exports]

  def ex(cfg, module):
    return lambda: tlc.run("learning", module, cfg, workers=1, coverage=False, tag="C11",
                           timeout=1700)
  jobs = [mc(c) for c, _ in MODELS[tier]] + \
         [sim(c, n, d, k) for k, (c, _, _, n, d) in enumerate(sims)] + \
         [ex(e[0], e[5]) for e in exports]
  def asb(cfg):
    return lambda: tlc.run("learning", "MCLearningNet", cfg, tag="C11", workers=2, coverage=False,
                           expect_violation=True)
  nab = 0 if quick else len(AS_BUILT)
  jobs += [asb(c) for c, _ in AS_BUILT[:nab]]
  t0 = time.time()
  nmc = len(MODELS[tier])
  res = _par(jobs, n=9, first=list(range(nmc)) + [nmc + len(sims) + k for k, e in enumerate(exports) if e[1] == "W"])
  phases = dict(tlc_model_and_export_s=round(time.time() - t0, 1))
  nm, ns_ = len(MODELS[tier]), len(sims)
  merged = tlc.TLCResult()
  for (cfg, what), r in zip(MODELS[tier], res[:nm]):
    if r.violated:
      raise tlc.TLCError("the design model violates %s (%s):\n%s" % (r.violated, cfg, r.error_trace[:3000]))
    if cfg in nocov:
      if r.generated < 1000:
        raise tlc.TLCError("model run %s explored only %d transitions" % (cfg, r.generated))
    else:
      tlc.require_coverage(r, PER_MODEL.get(cfg, ["ViaFlood", "ViaForward", "ViaFlow", "Move"]), cfg)
    for k, (a, b) in r.coverage.items():
      old = merged.coverage.get(k, (0, 0))
      merged.coverage[k] = (old[0] + a, old[1] + b)
    ctx.add_model("LearningNet " + what, r, config=cfg)
  tlc.require_coverage(merged, CASES, "LearningNet model runs of tier " + tier)
  ctx.notes["model_case_coverage"] = {k: merged.coverage[k][1] for k in CASES}
  for (cfg, topo, at, num, depth), r in zip(sims, res[nm:nm + ns_]):
    if r.violated:
      raise tlc.TLCError("the design model violates %s in simulation (%s):\n%s"
                         % (r.violated, cfg, r.error_trace[:3000]))
    ctx.add_model("LearningNet %s: %d random histories of length %d (all invariants + Conforms checked)"
                  % (topo, num, depth), r, config=cfg)
  if nab:
    for (cfg, what), r in zip(AS_BUILT, res[-nab:]):
      if r.violated != "Conforms":
        raise tlc.TLCError("model of the component AS BUILT (%s, %s) was expected to violate Conforms, "
                           "TLC says: %s" % (cfg, what, r.violated))
    ctx.notes["as_built_models"] = {cfg: "violates Conforms as expected: " + what for cfg, what in AS_BUILT}
    res = res[:-nab]

  # ---- 2. behaviours -> inputs for the real code
  items = []
  per_export = {}
  mutant_models = {}
  for (cfg, tag, topo, at, cap, module, reps, need), r in zip(exports, res[nm + ns_:]):
    behs = r.tagged(tag)
    if cfg in FILTERS:
      behs = [b for b in behs if FILTERS[cfg](b)]
    if not behs:
      raise tlc.TLCError("no behaviours exported by %s" % cfg)
    muts = None
    opts = None
    if tag == "O":
      opts = [dict(hold=w["opt"]["hold"], transp=bool(w["opt"]["transp"])) for w in behs]
      behs = [w["hist"] for w in behs]
    if tag == "W":
      # witness histories of mutant designs: each mutant must break the property somewhere in the bounded
      # family (a mutant without a witness = a dimension of the spec that the run does not exercise)
      muts = ["%s/%s" % (w["mut"]["duty"], w["mut"]["cls"]) for w in behs]
      missing = [m for m in need if m not in muts]
      if missing:
        raise tlc.TLCError("vacuous mutant run %s: TLC found no history on which the mutant design(s) %s "
                           "violate Conforms" % (cfg, missing))
      behs = [w["hist"] for w in behs]
      mutant_models[cfg] = {m: muts.count(m) for m in sorted(set(muts))}
      ctx.add_model("MutLearningNet: histories of the mutant designs %s that break Conforms (%d witnesses)"
                    % (",".join(sorted(set(muts))), len(behs)), r, config=cfg)
    total = len(behs)
    pick = list(range(total))
    if cap is not None and total > cap:
      pick = sorted(rnd.sample(pick, cap))
    per_export[cfg] = dict(exported=total, used=len(pick), concretisations_each=reps)
    for j in pick:
      n = reps if not isinstance(reps, dict) else reps[muts[j].split("/")[0]]
      for c in range(n):
        it = dict(topo=topo, at=AT[at], steps=_norm_steps(behs[j]), src=cfg)
        if muts is not None:
          it["mutant"] = muts[j]
        if opts is not None:
          it["opt"] = opts[j]
        items.append(it)
  for (cfg, topo, at, num, depth), r in zip(sims, res[nm:nm + ns_]):
    behs = r.tagged("H")
    opts = None
    if not behs:
      opts = r.tagged("O")
      behs = [w["hist"] for w in opts]
    if len(behs) < num // 2:
      raise tlc.TLCError("simulation %s exported only %d behaviours" % (cfg, len(behs)))
    per_export[cfg] = dict(exported=len(behs), used=len(behs), depth=depth)
    for j, b in enumerate(behs):
      it = dict(topo=topo, at=AT[at], steps=_norm_steps(b), src=cfg)
      if opts:
        it["opt"] = dict(hold=opts[j]["opt"]["hold"], transp=bool(opts[j]["opt"]["transp"]))
      items.append(it)
  nvar = 36 if quick else 216
  for k, it in enumerate(items):
    it["variant"] = (k * 7 + ctx.seed) % nvar
  ctx.notes["exports"] = per_export
  ctx.notes["mutant_witnesses"] = dict(
      per_config=mutant_models,
      note="TLC: number of (state, step) pairs of each mutant design (duty/decision class skipped) at which "
           "Conforms breaks within the bounded family; the histories leading there are executed on the real "
           "code and judged by the property layer (the mutants take no part in the verdict)")

  # ---- 3. run them on the real control loop
  t0 = time.time()
  out = core.run_driver(DRIVER, items, chunk=max(1, min(100, len(items) // 64 or 1)))
  phases["real_code_s"] = round(time.time() - t0, 1)
  plain = [o for it, o in zip(items, out) if "mutant" not in it]
  agree = sum(1 for o in plain if o["agree"])
  ctx.notes["design_agreement"] = dict(
      behaviours=len(plain), identical_to_design_model=agree,
      note="informational: executions whose every hop (packet-in or not, ports) and table equals what the "
           "design layer predicts; the verdict below does not depend on it")

  # ---- 4. TLC validates the recorded executions against the property layer
  by_topo = {}
  for k, (it, o) in enumerate(zip(items, out)):
    by_topo.setdefault(it["topo"], []).append(k)
  vjobs = []
  chunks = []
  csize = 5000 if quick else 6000
  for topo, idx in sorted(by_topo.items()):
    # (executions under launch options lead, so that the first chunk holds candidates for every negative control)
    idx = [k for k in idx if items[k].get("opt")] + [k for k in idx if not items[k].get("opt")]
    for c in range(0, len(idx), csize):
      part = idx[c:c + csize]
      chunks.append((topo, part))
  # negative controls ride in the first chunk of their topology
  negs = {}
  for topo, part in chunks:
    if topo in negs:
      continue
    lst = []
    # (executions of ordinary exported behaviours first: a witness history is where a broken tree misbehaves,
    #  and corrupting a wrong observation may make it right)
    cands = sorted(range(len(part)), key=lambda t: ("mutant" in items[part[t]], t))
    for kind in NEG_KINDS + NEG_OPT:
      for t in cands:
        k = part[t]
        if kind in NEG_OPT and not items[k].get("opt"):
          continue
        if all(e["wf"] for e in out[k]["trace"]):
          bad = _corrupt(out[k]["trace"], kind)
          if bad is not None:
            lst.append((kind, bad, t))
            break
    negs[topo] = lst
  first = set()
  for topo, part in chunks:
    extra = []
    if topo not in first:
      first.add(topo)
      extra = [t for _, t, _ in negs[topo]]
    vjobs.append((topo, part, extra))

  def vjob(topo, part, extra):
    return lambda: _validate(topo, [out[k]["trace"] for k in part] + extra, "C11")
  t0 = time.time()
  vres = _par([vjob(*j) for j in vjobs], n=4 if quick else 8)
  phases["tlc_trace_validation_s"] = round(time.time() - t0, 1)
  ctx.notes["phases"] = phases
  nrej = 0
  rej_src = {}
  negok = {}
  for (topo, part, extra), (r, rej, diags) in zip(vjobs, vres):
    ctx.add_model("TraceLearningNet %s (validation of %d implementation executions)" % (topo, len(part)), r,
                  config="Trace_%s.cfg" % topo)
    for j, (kind, _, base) in enumerate(negs[topo] if extra else []):
      t = len(part) + j
      if base in rej:
        # the execution it was made from is itself rejected (broken tree): not a control, and a verdict anyway
        continue
      if t not in rej:
        raise tlc.TLCError("negative control '%s' (%s) was accepted by the trace specification" % (kind, topo))
      negok.setdefault(topo, []).append(kind)
    for t, matched in sorted(rej.items()):
      if t >= len(part):
        continue
      nrej += 1
      k = part[t]
      it, o = items[k], out[k]
      rej_src[it["src"]] = rej_src.get(it["src"], 0) + 1
      ev = o["trace"][matched]
      dg = [d for d in diags.get(t, []) if d["event"] == matched]
      sig = dict(action=ev["a"], via="trace")
      if not ev["wf"]:
        sig["anomaly"] = ev.get("why", "malformed")
        if ev["a"] == "Send":
          sig["dst"] = dst_class(ev["args"]["dst"])
      elif ev["a"] == "Send":
        cl = sorted(set(c for d in dg for c in d["clauses"]))
        sig["clauses"] = cl or ["unclassified"]
        sig["dst"] = dst_class(ev["args"]["dst"])
        sig["frame"] = "lldp" if ev["args"]["sh"] == "l" else "data"
        if it.get("opt"):
          sig["options"] = sorted(k for k, v in (("hold-down", it["opt"]["hold"]),
                                                 ("transparent", it["opt"]["transp"])) if v)
        sig["decided_by"] = sorted(set("controller" if d["pktin"] else "cached-flow" for d in dg)) or ["?"]
        if sig["dst"] == "host":
          # the classes of frame by which the destination announced itself when it appeared on a new port
          sig["dst_moves_announced_by"] = moved_via(o["trace"], matched, ev["args"]["dst"])
      want = None
      if "mutant" in it and ev["a"] == "Send" and ev["wf"] and any("want" in d for d in dg):
        want = {d["s"]: d["want"] for d in dg if "want" in d}
      ctx.report(sig, dict(adapter="harness.adapters_c11:ReplayAdapter",
                           params=dict(topo=it["topo"], variant=it["variant"], at=it["at"], opt=it.get("opt")),
                           behaviour=_replay_form(it["steps"], o["trace"], matched, want),
                           failing_step=matched - 1, world=o["world"], source=it["src"],
                           witness_of_mutant=it.get("mutant"),
                           rejected_event=ev, diagnosis=dg,
                           recorded_execution=o["trace"][:matched + 1],
                           note="TLC rejected the recorded execution at this event: the hop(s) listed in "
                                "`diagnosis` violate the named clauses of HopOK (LearningNet.tla)"))
  for topo, lst in negs.items():
    # (on a tree so broken that hardly any execution is well-formed there is nothing to corrupt;
    #  the rejections themselves are the verdict then)
    if len(lst) < 4 and nrej == 0:
      raise tlc.TLCError("only %d negative controls could be built for %s" % (len(lst), topo))
    if topo in ("T1", "T2") and nrej == 0 and [k for k in NEG_OPT if k not in [x[0] for x in lst]]:
      raise tlc.TLCError("negative controls of the option dimension missing for %s: have %s"
                         % (topo, [x[0] for x in lst]))
  ctx.traces += len(items)
  nsend = 0
  for it, o in zip(items, out):
    sends = sum(1 for s in it["steps"] if s["a"] == "Send")
    nsend += sends
    ctx.case(core.fp([it["topo"], it["variant"], it["at"], it.get("opt"), [[s["a"], s["args"]] for s in it["steps"]]]),
             nontrivial=sends > 0,
             sample=dict(world=o["world"], execution=o["trace"][:4]) if len(it["steps"]) <= 4 else None)
  ctx.notes["trace_validation"] = dict(executions=len(items), frames_sent=nsend, rejected=nrej,
                                       rejected_by_source=rej_src,
                                       negative_controls_rejected=negok,
                                       concretisation_variants=nvar)
  ctx.exhaustive = True
  ctx.notes["exhaustive_scope"] = ("TLC enumerated the depth-bounded state space of the design model completely "
                                   "(all histories up to the stated length); on the real code the families "
                                   + ", ".join(sorted(c for c, v in per_export.items()
                                                      if v["used"] == v["exported"] and "sim" not in c))
                                   + " were run completely, the others as seeded samples / random walks")
