"""X07 - ip_loadbalancer server liveness and flow memory (pox/misc/ip_loadbalancer.py): LoadBalancer.tla
model-checked, its transitions replayed on the real iplb (started by its own launch()) over a real
SoftwareSwitch under the virtual clock, random implementation traces validated by TLC."""
import copy
import json
import random

from engine import tlc, core, tracecheck

ADAPTER = "harness.adapters_x07:Adapter"
ACTIONS = ["Start", "Probe", "Advance", "ArpReply", "ClientFast", "ClientKnown", "ClientNew", "ClientNoServer",
           "ServerFast", "ServerKnown", "ServerUnknown", "ServerCrash", "Other"]
VIAS = ["Start", "Probe", "Advance", "ArpReplyAnswer", "ArpReplyIgnored", "ClientFast", "ClientKnown", "ClientNew",
        "ClientNoServer", "ServerFast", "ServerKnown", "ServerUnknown", "ServerCrash", "Other"]

# constant sets (specs/lb/*.cfg) and the adapter parameters that realise them
P_N1 = dict(servers=["s1"], unit=1, M=7, I=2, B=1)
P_N2 = dict(servers=["s1", "s2"], unit=0.5, M=8, I=2, B=1)
P_N2Z = dict(servers=["s1", "s2"], unit=0.5, M=8, I=2, B=0)
S5 = ["s1", "s2", "s3", "s4", "s5"]
P_N5 = dict(servers=S5, unit=1, M=4, I=2, B=1)
P_N5F = dict(servers=S5, unit=1, M=3, I=1, B=0)
P_SIM = dict(servers=["s1", "s2"], unit=0.5, M=30, I=6, B=3)
P_REAL2 = dict(servers=["s1", "s2"], unit=0.5, M=None, I=None, B=16)
P_REAL5 = dict(servers=S5, unit=1, M=None, I=None, B=2)


def skey(x):
  return json.dumps(x, sort_keys=True)


def sort_obs(o):
  for k in ("em", "arp", "cands"):
    if isinstance(o.get(k), list):
      o[k] = sorted(o[k], key=skey)
  st = o.get("st")
  if isinstance(st, dict):
    for k in ("live", "probes", "mem", "flows"):
      if isinstance(st.get(k), list):
        st[k] = sorted(st[k], key=skey)
  return o


def sort_sets(b):
  for st in b:
    sort_obs(st["exp"])
  return b


def nontrivial(b):
  return any(s["via"] in ("ClientKnown", "ClientNew", "ServerKnown", "ServerCrash", "ClientFast", "ServerFast")
             for s in b)


def tlc_jobs(ctx, mc_jobs, ex_cfgs, sim):
  """every TLC run of the check in one pool: the model-checking runs (several workers each) next to the export runs
  (single-threaded).  Returns {export cfg: behaviours}, simulated behaviours."""
  jobs = [dict(spec_dir="lb", module="MCLoadBalancer", cfg=cfg, tag="X07", timeout=2400, workers=3)
          for cfg, _, _ in mc_jobs]
  jobs += [dict(spec_dir="lb", module="MCLoadBalancer", cfg=c, workers=1, coverage=False, tag="X07", timeout=2400)
           for c, _ in ex_cfgs]
  jobs.append(dict(spec_dir="lb", module="MCLoadBalancer", cfg=sim[0], workers=1, coverage=False, tag="X07",
                   timeout=2400, **sim[1]))
  res = tlc.run_many(jobs, parallel=8)
  for (cfg, name, need), r in zip(mc_jobs, res):
    if r.violated:
      raise tlc.TLCError("spec violates its own property %s (%s):\n%s" % (r.violated, cfg, r.error_trace[:4000]))
    tlc.require_coverage(r, need, name)
    ctx.add_model(name, r)
    r.stdout = ""
  out = {}
  for (c, n), r in zip(ex_cfgs, res[len(mc_jobs):]):
    r.stdout = ""
    raws = r.tagged_raw("T")
    r.prints = []
    if not raws:
      raise tlc.TLCError("no behaviours exported by " + c)
    # choose BEFORE decoding: the decoded behaviours of a whole edge cover would take gigabytes
    keep = sample(raws, n, ctx.seed * 7919 + len(c), via=_raw_via)
    out[c] = (len(raws), [sort_sets(json.loads(json.loads(x))) for x in keep])
  res[-1].stdout = ""
  return out, [sort_sets(b) for b in res[-1].tagged("H")]


_VIA = '\\"via\\":\\"'


def _raw_via(raw):
  """the `via` of the last step of a behaviour still in TLC's quoted JSON"""
  i = raw.rfind(_VIA)
  return raw[i + len(_VIA):raw.index('\\"', i + len(_VIA))] if i >= 0 else "?"


def sample(behs, n, seed, via=lambda b: b[-1]["via"]):
  """a seeded sample of n behaviours that is forced to contain every spec action (`via`) that occurs at all,
  each as the LAST step of some behaviour (that is the transition the behaviour was exported for)"""
  if len(behs) <= n:
    return behs
  rnd = random.Random(seed)
  by_via = {}
  for i, b in enumerate(behs):
    by_via.setdefault(via(b), []).append(i)
  keep = set()
  for v, idx in sorted(by_via.items()):
    keep.update(rnd.sample(idx, min(len(idx), max(20, n // (4 * len(by_via))))))
  rest = [i for i in range(len(behs)) if i not in keep]
  if len(keep) < n:
    keep.update(rnd.sample(rest, min(len(rest), n - len(keep))))
  return [behs[i] for i in sorted(keep)]


def complain(ctx, msg):
  """a vacuity complaint (some path was never exercised).  When conformance failures have already been reported
  the missing paths are their consequence (e.g. servers that never die): the verdict stands, the complaint is
  only noted.  Otherwise it is a machinery failure."""
  if ctx.violations:
    ctx.notes.setdefault("vacuity_complaints_after_violations", []).append(msg)
  else:
    raise tlc.TLCError(msg)


def run(ctx):
  quick = ctx.tier == "quick"
  ctx.rule = ("behaviours exported by TLC from LoadBalancer.tla (edge cover: shortest path to every abstract state + "
              "each outgoing transition, for several constant sets; plus -simulate runs) replayed on the real iplb "
              "(started by ip_loadbalancer.launch) over a real SoftwareSwitch, the full observation (OpenFlow "
              "messages, frames leaving the ports, projection of live_servers / outstanding_probes / memory / flow "
              "table / buffers / timer) compared after every step; seeded random implementation traces validated by "
              "TLC against TraceLB.tla; distinct = distinct action/argument sequences; non-trivial = a TCP segment is "
              "forwarded, remembered, re-installed or hits the crash path")
  ctx.assumptions = [
      "iplb started by the module's own launch(ip, servers) on the first ConnectionUp; the ARP responder launch() also "
      "boots is replaced by an inert stand-in (its PacketIn handler is another area)",
      "one switch with 4 ports: clients on ports 1-2, servers on ports 3-4; 1/2/5 servers (of five only two ever answer), "
      "<= 3 client connections; an alternative MAC/port for server s1",
      "time in ticks of 0.5 s (2 servers) or 1 s (1 or 5 servers) on the virtual clock; probe_cycle_time 5 s and "
      "arp_timeout 3 s are always iplb's own; FLOW_MEMORY_TIMEOUT / FLOW_IDLE_TIMEOUT are scaled down through the "
      "module constants in the exhaustive configurations and left at 300 s / 10 s in the trace validation",
      "the switch forgets an idle flow entry the instant its timeout is over (ideal environment)",
      "ip_loadbalancer.random is a scripted source in the replay (the spec's `pick` argument) and a seeded "
      "free-running one in the trace driver",
      "the projection of iplb.live_servers / outstanding_probes / memory / servers is read after every step"]
  # 1. the properties on the model
  no_other = [x for x in ACTIONS if x != "Other"]
  jobs = [("MC_n1.cfg", "1 server (alt. address), 1 connection on 2 client ports, W5 A3 M7 I2, deltas {2,3}", ACTIONS),
          ("MC_n2.cfg", "2 servers (alt. address for s1), 1 connection, W5 A6 M8 I2, delta 3", no_other),
          ("MC_n5.cfg", "5 servers (2 answer), 1 connection, W1 A3 M3 I1: probe instants fall on the deadlines",
           [x for x in no_other if x != "Advance"])]
  if not quick:
    jobs += [("MC_n1t.cfg", "1 server, every tick (deltas {1,2}), W5 A3 M7 I2", no_other),
             ("MC_n1f.cfg", "1 server, 2 connections", no_other),
             ("MC_n2b.cfg", "2 servers, 1 connection, W5 A6 M13 I4, no buffers", no_other),
             ("MC_n2f.cfg", "2 servers, 2 connections, forward path only", ["Start", "Probe", "Advance", "ArpReply",
              "ClientFast", "ClientKnown", "ClientNew", "ClientNoServer"]),
             ("MC_n2d2.cfg", "2 servers, 1 connection, delta 2 (ticks 0,2,4 of every period), no buffers", no_other),
             ("MC_n5t.cfg", "5 servers (2 answer), W1 A3 M4 I2, 1 buffer", [x for x in no_other if x != "Advance"]),
             ("MC_strict.cfg", "Strict = TRUE (no ServerCrash): 2 servers, 1 connection",
              [x for x in no_other if x != "ServerCrash"])]
  # 2. spec -> code: the transitions of the abstract graphs (a deterministic 1-in-k sample taken inside TLC - see
  #    LoadBalancer!ExportS - of which a seeded subset that contains every action is replayed)
  if quick:
    plans = [("EXQ_edges_n1.cfg", P_N1, 1500), ("EXQ_edges_n2.cfg", P_N2, 1800), ("EXQ_edges_n5.cfg", P_N5, 1200)]
  else:
    plans = [("EXT_edges_n1.cfg", P_N1, 8000), ("EXT_edges_n2.cfg", P_N2, 9000), ("EX_edges_n5.cfg", P_N5, 6000),
             ("EXT_edges_n2xl.cfg", P_N2, 6000), ("EXT_edges_n2f.cfg", P_N2Z, 6000),
             ("EX_edges_n1f.cfg", dict(P_N1, B=0), 7000)]
  nsim = 30 if quick else 400
  exported, simbehs = tlc_jobs(ctx, jobs, [(p[0], p[2]) for p in plans],
                               ("EX_sim.cfg", dict(simulate=dict(num=nsim), depth=121, seed=ctx.seed + 1)))
  seen_via = set()
  last_ok = None
  for cfg, params, n in plans:
    total, behs = exported.pop(cfg)
    st = core.replay(ctx, ADAPTER, behs, params=params, nontrivial=nontrivial, chunk=40)
    for b in behs:
      seen_via.update(s["via"] for s in b)
    if last_ok is None and core.replay.last_ok:
      cands = [behs[i] for i in core.replay.last_ok if behs[i][-1]["via"] in ("ClientKnown", "ClientNew")]
      if cands:
        last_ok = (params, cands[0])
    ctx.notes["replay_" + cfg[:-4]] = dict(exported=total, replayed=len(behs), params=params, **st)
  # 3. random deep behaviours (mid-size constants: memory 15 s, idle 3 s, 3 buffers, 3 connections, all traffic kinds)
  behs = simbehs
  if len(behs) < nsim // 2:
    raise tlc.TLCError("simulation exported %d behaviours" % len(behs))
  st = core.replay(ctx, ADAPTER, behs, params=P_SIM, nontrivial=nontrivial, chunk=4)
  for b in behs:
    seen_via.update(s["via"] for s in b)
  ctx.notes["replay_sim"] = dict(behaviours=len(behs), depth=120, **st)
  missing = [v for v in VIAS if v not in seen_via]
  if missing:
    complain(ctx, "vacuous replay: spec actions never replayed: %s" % missing)
  # negative control of the replay: one corrupted expectation must be reported
  if last_ok is None:
    complain(ctx, "no fully replayed behaviour ending in a forwarding step for the negative control")
  else:
    params, beh = last_ok
    bad = copy.deepcopy(beh)
    bad[-1]["exp"]["em"][0]["dip"] = "s2" if bad[-1]["exp"]["em"][0]["dip"] == "s1" else "s1"
    probe = core.Context(ctx.pid, ctx.tier, ctx.seed, ctx.level, clear=False)
    core.replay(probe, ADAPTER, [bad], params=params, chunk=1)
    if not probe.violations:
      raise tlc.TLCError("negative control (corrupted destination server) was accepted by the replay")
  # 4. code -> spec: seeded random driver on the real code (real constants), traces validated by TLC
  ntr, nev = (60, 160) if quick else (700, 220)
  total_tr, nrej = 0, 0
  stats = {}
  for name, cfgfile, params in (("n2", "Trace_n2.cfg", P_REAL2), ("n5", "Trace_n5.cfg", P_REAL5)):
    n = ntr if name == "n2" else ntr // 2
    traces = core.run_driver("props.X07:drive", [(ctx.seed * 100003 + i, nev, params) for i in range(n)])
    for t in traces:
      for e in t:
        stats[e["via"]] = stats.get(e["via"], 0) + 1
    controls = negative_controls(ctx, traces)
    r, rej = tracecheck.validate("lb", "TraceLB", cfgfile, [strip(t) for t in traces] + controls, tag="X07",
                                 timeout=2400)
    ctx.add_model("TraceLB %s (validation of %d implementation traces)" % (name, n), r)
    rejected = set(t for t, _ in rej)
    for k in range(len(controls)):
      if len(traces) + k not in rejected:
        raise tlc.TLCError("negative control %d (corrupted trace, %s) was accepted by the trace spec" % (k, name))
    for t, matched in rej:
      if t >= len(traces):
        continue
      nrej += 1
      ev = traces[t][matched]
      ctx.report(dict(action=ev["a"], via="trace", args=ev["args"], config=name),
                 dict(trace=traces[t][:matched + 1], failing_step=matched, params=params,
                      note="TLC rejected the trace at this event"))
    ctx.traces += len(traces)
    total_tr += len(traces)
    for t in traces:
      ctx.case(core.fp([[e["a"], e["args"]] for e in t]), sample=None)
    ctx.notes["trace_validation_" + name] = dict(traces=len(traces), events=sum(len(t) for t in traces),
                                                 negative_controls_rejected=len(controls))
  ctx.notes["trace_validation"] = dict(traces=total_tr, rejected=nrej, per_path=stats)
  need = ["ClientNew", "ClientKnown", "ClientFast", "ServerKnown", "ServerFast", "expired", "died"]
  if any(stats.get(k, 0) == 0 for k in need):
    complain(ctx, "vacuous trace validation: %s" % {k: stats.get(k, 0) for k in need})
  ctx.exhaustive = True


# ------------------------------------------------------------------------------------------------------------
# the random driver (runs in worker processes)

ST_KEYS = {"live", "probes", "mem", "flows", "held", "timer", "rr"}
OBS_KEYS = {"pin", "msgs", "em", "arp", "cands", "exc", "st"}
BLANK = dict(pin=-1, msgs=[], em=[], arp=[], cands=[], exc="?", st=dict(live=[], probes=[], mem=[], flows=[], held=-1,
                                                                        timer=-1, rr=[]))


def _int(x):
  return isinstance(x, int) and not isinstance(x, bool)


def _acts_ok(acts):
  return all(set(a) == {"t", "s", "n"} and isinstance(a["t"], str) and isinstance(a["s"], str) and _int(a["n"])
             for a in acts)


def well_formed(o):
  """uniform schema and field types (TLC refuses to compare a string with an integer)"""
  try:
    st = o["st"]
    return (set(o) == OBS_KEYS and set(st) == ST_KEYS and _int(o["pin"]) and isinstance(o["exc"], str)
            and all(set(m) == {"t", "buf", "data", "inport", "mk", "acts", "idle"} and isinstance(m["t"], str)
                    and isinstance(m["buf"], bool) and isinstance(m["data"], bool) and _int(m["inport"])
                    and isinstance(m["mk"], str) and _acts_ok(m["acts"]) and _int(m["idle"]) for m in o["msgs"])
            and all(set(e) == {"port", "es", "ed", "sip", "dip", "sp", "dp"} and _int(e["port"]) and _int(e["sp"])
                    and _int(e["dp"]) for e in o["em"])
            and all(set(e) == {"port", "op", "es", "ed", "sha", "spa", "tha", "tpa"} and _int(e["op"]) for e in o["arp"])
            and all(isinstance(c, str) for c in o["cands"])
            and all(set(e) == {"s", "mac", "port"} and _int(e["port"]) for e in st["live"])
            and all(set(e) == {"s", "ttl"} and _int(e["ttl"]) for e in st["probes"])
            and all(set(e) == {"k", "srv", "f", "cport", "ttl"} and set(e["k"]) == {"t", "s", "f"} and _int(e["ttl"])
                    and _int(e["cport"]) and isinstance(e["f"], str) for e in st["mem"])
            and all(set(e) == {"k", "acts", "ttl"} and set(e["k"]) == {"dir", "f", "s", "p"} and _int(e["k"]["p"])
                    and _acts_ok(e["acts"]) and _int(e["ttl"]) for e in st["flows"])
            and _int(st["held"]) and _int(st["timer"]) and all(isinstance(x, str) for x in st["rr"]))
  except Exception:
    return False


def path_of(a, obs, prev):
  """which path the code took, for the statistics / vacuity guard only (never part of the verdict)"""
  if a == "Client":
    if obs["pin"] == 0:
      return "ClientFast"
    if obs["cands"]:
      return "ClientNew"
    return "ClientKnown" if any(m["t"] == "fm" for m in obs["msgs"]) else "ClientNoServer"
  if a == "Server":
    if obs["pin"] == 0:
      return "ServerFast"
    if obs["exc"]:
      return "ServerCrash"
    return "ServerKnown" if any(m["t"] == "fm" for m in obs["msgs"]) else "ServerUnknown"
  if a == "Tick" and prev is not None:
    if len(obs["st"]["mem"]) < len(prev["st"]["mem"]):
      return "expired"
    if len(obs["st"]["live"]) < len(prev["st"]["live"]):
      return "died"
  return a


def drive(arg):
  """Random operation sequence on the real load balancer; returns the recorded trace."""
  seed, n, params = arg
  from harness.adapters_x07 import Adapter, HOME
  rnd = random.Random(seed)
  ad = Adapter(free_random=random.Random(seed + 1), **params)
  servers = params["servers"]
  responders = [s for s in servers if s in ("s1", "s2")]
  idents = {"s1": [("m1", 3), ("m1x", 4)], "s2": [("m2", 4)]}
  flows = ["f1", "f2", "f3"]
  tr = []
  prev = [None]

  def do(a, args):
    try:
      obs = json.loads(json.dumps(ad.step(a, args)))
      wf = well_formed(obs)
    except Exception as e:          # an exception escaping the adapter: recorded, never matched by the spec
      obs, wf = dict(BLANK, exc="exc:" + type(e).__name__), False
    if not wf:
      obs = dict(copy.deepcopy(BLANK), exc=str(obs.get("exc", "?"))[:60] if isinstance(obs, dict) else "?")
    tr.append(dict(a=a, args=args, obs=obs, wf=wf, via=path_of(a, obs, prev[0]) if wf else "malformed"))
    prev[0] = obs if wf else None
    return obs

  # per trace: how reliably each server answers its probes, how busy the clients are
  p_ans = {s: rnd.choice([0.0, 0.5, 0.9, 1.0, 1.0]) for s in responders}
  p_tick = rnd.choice([0.15, 0.3, 0.5])
  work = [(rnd.choice(flows), rnd.choice([1, 2])) for _ in range(2)]
  do("Start", dict(x=0))
  pending = []                       # servers probed and not answered yet (driver's own bookkeeping)

  def tick(d):
    nt = ad.net.next_timer()
    nt = ad.ticks(nt) if nt is not None else 10 ** 6
    if not isinstance(nt, int) or nt <= 0:
      nt = 1
    d = min(d, nt)
    before = list(ad.net.lb.servers)
    obs = do("Tick", dict(d=d))
    if d == nt and obs["arp"]:
      pending.append(obs["arp"][0]["tpa"])
    return obs

  try:
    while len(tr) < n:
      k = rnd.random()
      if pending and rnd.random() < 0.7:
        s = pending.pop(0)
        if s in p_ans and rnd.random() < p_ans[s]:
          mac, port = rnd.choice(idents[s]) if rnd.random() < 0.15 else idents[s][0]
          if rnd.random() < 0.5:
            tick(rnd.choice([1, 1, 2]))
          do("ArpReply", dict(s=s, mac=mac, port=port))
        continue
      if k < p_tick:
        if rnd.random() < 0.06:
          # a long quiet stretch: only the probing goes on (servers keep answering or not)
          for _ in range(rnd.choice([5, 30, 125])):
            obs = tick(10 ** 6)
            if pending:
              s = pending.pop(0)
              if s in p_ans and rnd.random() < p_ans[s]:
                do("ArpReply", dict(s=s, mac=idents[s][0][0], port=idents[s][0][1]))
            if len(tr) >= n + 150:
              break
        else:
          tick(rnd.choice([1, 1, 2, 3, 5, 10 ** 6]))
      elif k < p_tick + (1 - p_tick) * 0.45:
        f, p = rnd.choice(work) if rnd.random() < 0.8 else (rnd.choice(flows), rnd.choice([1, 2]))
        do("Client", dict(f=f, p=p, pick="-"))
      elif k < p_tick + (1 - p_tick) * 0.8:
        mem = prev[0]["st"]["mem"] if prev[0] else []
        ks = [m["k"] for m in mem if m["k"]["t"] == "s"]
        if ks and rnd.random() < 0.85:
          kk = rnd.choice(ks)
          do("Server", dict(s=kk["s"], f=kk["f"]))
        else:
          do("Server", dict(s=rnd.choice(servers), f=rnd.choice(flows)))
      elif k < p_tick + (1 - p_tick) * 0.9:
        s = rnd.choice(responders)
        mac, port = rnd.choice(idents[s])
        do("ArpReply", dict(s=s, mac=mac, port=port))          # unsolicited / late / duplicate answers
      else:
        do("Other", dict(kind=rnd.choice(["udp", "tcpx", "arpreq", "arpcli"]), p=rnd.choice([1, 2])))
      if p_ans and rnd.random() < 0.02:
        s = rnd.choice(responders)
        p_ans[s] = rnd.choice([0.0, 1.0])                      # a server dies / comes back for good
  finally:
    ad.close()
  return tr


def strip(trace):
  """what TLC gets to see: a, args, obs, wf (the driver's own path statistics stay outside)"""
  return [dict(a=e["a"], args=e["args"], obs=e["obs"], wf=e["wf"]) for e in trace]


def negative_controls(ctx, traces):
  """corrupted copies of recorded traces that the trace spec must reject"""
  out = []
  # 1. a forwarded segment goes to the other server
  for t in traces:
    for i, e in enumerate(t):
      if e["a"] == "Client" and e["obs"]["em"] and e["obs"]["pin"] != 0:
        bad = strip(copy.deepcopy(t))
        em = bad[i]["obs"]["em"][0]
        em["dip"] = "s2" if em["dip"] == "s1" else "s1"
        out.append(bad)
        break
    if out:
      break
  # 2. a memory entry that disappears one probe period early
  for t in traces:
    done = False
    for i, e in enumerate(t):
      if e["via"] == "expired":
        for j in range(i - 1, 0, -1):
          if t[j]["a"] == "Tick" and t[j]["obs"]["arp"]:
            bad = strip(copy.deepcopy(t))
            for k in range(j, i):
              bad[k]["obs"]["st"]["mem"] = e["obs"]["st"]["mem"]
            out.append(bad)
            done = True
            break
        break
    if done:
      break
  # 3. a dead server that stays in live_servers one probe period longer
  for t in traces:
    done = False
    for i, e in enumerate(t):
      if e["via"] == "died" and i > 0:
        bad = strip(copy.deepcopy(t))
        bad[i]["obs"]["st"]["live"] = t[i - 1]["obs"]["st"]["live"]
        out.append(bad)
        done = True
        break
    if done:
      break
  if len(out) < 2:
    complain(ctx, "could not build the negative controls (%d)" % len(out))
  return out


# ------------------------------------------------------------------------------------------------------------
def strict_demo():
  """Not part of run(): replays the behaviours of the Strict = TRUE specification (the documented intent: a
  remembered connection's answer is always rewritten) on the unchanged code and prints how they are rejected."""
  r = tlc.run("lb", "MCLoadBalancer", "EX_strict.cfg", workers=1, coverage=False, tag="X07", timeout=2400)
  behs = [sort_sets(b) for b in r.tagged("T")]
  ctx = core.Context("X07", "quick", 0, "model_checking", clear=False)
  st = core.replay(ctx, ADAPTER, behs, params=P_N2, chunk=40)
  sigs = {}
  for sig, _ in ctx.violations:
    k = "%s/%s" % (sig.get("action"), sig.get("via"))
    sigs[k] = sigs.get(k, 0) + 1
  print("Strict = TRUE: %d behaviours, %s; rejected at: %s" % (len(behs), st, sigs))
  for sig, rep in ctx.violations:
    if rep:
      print(json.dumps(dict(history=[[s["a"], s["args"]] for s in rep["behaviour"][:rep["failing_step"] + 1]],
                            expected=dict(msgs=rep["expected"]["msgs"], em=rep["expected"]["em"], exc=rep["expected"]["exc"]),
                            observed=dict(msgs=rep["observed"]["msgs"], em=rep["observed"]["em"], exc=rep["observed"]["exc"])),
                       indent=1))
      break
