"""X14 - OpenFlow <-> JSON conversion (pox/openflow/of_json.py) and the web service's flow table
(pox/openflow/webservice.py).

specs/ofjson/OFJsonTables.tla  the mapping tables, transcribed
specs/ofjson/OFJsonCodec.tla   what the conversions are written / documented to do (forms, meaning, objects,
                               dictionaries written back, OpenFlow 1.0 bytes), as built and as intended
specs/ofjson/OFJson.tla        one conversion job: Choose / Build / Dump / Rebuild / Pack / Reset (+ named deviations)
specs/ofjson/WebTable.tla      the web service driving a switch: set_table / get_flow_stats step by step

Verdicts: TLC model-checks both machines (as built with the deviation actions, and Strict = the intended design);
TLC-exported behaviours are replayed on the real code with comparison after every step; seeded random
conversion jobs recorded from the real code are validated by TLC (TraceOFJson) with a corrupted trace as
negative control.
"""
import copy
import json
import random
import string

from engine import tlc, core, tracecheck

CODEC = "harness.adapters_x14:Adapter"
WEB = "harness.adapters_x14:WebAdapter"

CODEC_ACTIONS = ["ChooseAny", "Build", "BuildDeviating", "Dump", "Rebuild", "RebuildDeviating", "Pack", "Reset"]
WEB_ACTIONS = ["CallSetTable", "CallGetStats", "CallNoSwitch", "InitSetTable", "InitAbortsMidway", "InitGetStats",
               "InitStatsAborts", "SwitchStep", "CtlStep", "Respond", "Timeout", "Packet", "Tick"]
BUILD_DEVS = ["ActionTypeLost", "ByteListCrashes", "DefaultBufferMinusOne", "FixParsedRejectsBytes",
              "FlowOutputKeyCrashes", "NestedPayloadRejected", "NumberedClassNotAPacketType",
              "PacketAddressNotConverted", "StringDataDropped", "UnknownPortNameDropped"]
REBUILD_DEVS = ["ActionTypeLost", "EthNameReadAsHex"]

# names of the two ethertype tables of OFJsonTables.tla (spelling only): the spec lists which of them consist of
# hexadecimal digits, because TLA+ cannot take a string apart
ETH_NAMES = ["IP", "ARP", "RARP", "VLAN", "LLDP", "PAE", "MPLS", "MPLS_MC", "IPV6", "PPP", "LWAPP", "GSMP", "IPX", "WOL",
             "TRILL", "JUMBO", "SCSI", "ATA", "QINQ", "INVALID", "BAD"]
HEXLIKE_IN_SPEC = {"BAD"}


def _key(x):
  return json.dumps(x, sort_keys=True)


def sort_sets(b):
  for st in b:
    e = st.get("exp") or {}
    if isinstance(e.get("table"), list):
      e["table"] = sorted(e["table"], key=_key)
    o = e.get("out")
    if isinstance(o, dict) and isinstance(o.get("list"), list):
      o["list"] = sorted(o["list"], key=_key)
  return b


def check_model(ctx, name, r, actions):
  if r.violated:
    raise tlc.TLCError("spec violates its own property %s (%s):\n%s" % (r.violated, name, r.error_trace))
  tlc.require_coverage(r, actions, name)
  ctx.add_model(name, r)


def corrupt(beh):
  """negative control: change one expectation of a behaviour that replayed cleanly"""
  b = copy.deepcopy(beh)
  for st in reversed(b):
    e = st["exp"]
    if isinstance(e.get("wire"), list) and e["wire"]:
      e["wire"][-1] ^= 1
      return b
    if isinstance(e.get("json"), dict):
      e["json"]["kv"] = e["json"]["kv"][:-1] if e["json"]["kv"] else [{"k": "zz", "v": e["json"]}]
      return b
    if isinstance(e.get("o"), dict) and "ok" in e:
      e["ok"] = not e["ok"]
      return b
    if isinstance(e.get("table"), list) and e["table"]:
      e["table"][0]["pkts"] += 1
      return b
    o = e.get("out")
    if isinstance(o, dict) and "resp" in o:
      o["resp"] = "flowmod" if o["resp"] != "flowmod" else "flowstats"
      return b
    if isinstance(o, dict) and o.get("sent"):
      o["sent"] = o["sent"][:-1]
      return b
  return None


def negative_control(ctx, adapter, behs, params=None, k=30):
  ok = list(core.replay.last_ok)
  rnd = random.Random(ctx.seed + 17)
  rnd.shuffle(ok)
  bad = [c for c in (corrupt(behs[i]) for i in ok[:4 * k]) if c is not None][:k]
  if len(bad) < min(k, 5):
    raise core.Machinery("negative control: not enough corruptible behaviours for %s" % adapter)
  scratch = core.Context(ctx.pid, ctx.tier, ctx.seed, ctx.level, clear=False)
  st = core.replay(scratch, adapter, bad, params=params or {}, chunk=10)
  # ("diverted": the observation differs from the corrupted expectation and equals the intact expectation that
  # another corrupted behaviour with the same prefix still carries - rejected as well)
  if st["ok"] != 0 or st["mismatch"] + st["diverted"] != len(bad):
    raise core.Machinery("negative control: %d of %d corrupted behaviours were NOT rejected (%s)"
                         % (st["ok"], len(bad), adapter))
  return len(bad)


def run(ctx):
  quick = ctx.tier == "quick"
  ctx.rule = ("(1) conversion jobs exported by TLC from OFJson.tla (one maximal behaviour Choose-Build-Dump-Rebuild-Pack-"
              "Reset per enumerated document, plus random chains of jobs) replayed on the real of_json functions: the "
              "object is projected attribute by attribute, compared with the one built directly through libopenflow_01, "
              "dictionaries pass through the web service's JSON encoding, bytes are compared with the spec's; "
              "(2) behaviours of WebTable.tla (edge cover + random deep ones) replayed on the real web service handler "
              "driving a real SoftwareSwitch over OpenFlow bytes, the switch's table read back after every step; "
              "(3) seeded random match / action documents converted by the real code, traces validated by TLC. "
              "distinct = distinct action/argument sequences")
  ctx.assumptions = [
      "as-built model (Strict = FALSE): 13 named deviation actions (notes/X14.md, Defects observed); the intended design "
      "(Strict = TRUE) is model-checked with the same properties holding unconditionally",
      "numbers >= 2^31 (cookies, counters, queue ids) are not enumerated (TLC integers)",
      "web service: the scheduler runs a queued _do_init before the next HTTP request and within the 5 s wait; one "
      "switch; frames of one kind (ethertype 0x88b5); statistics requests name at most in_port",
      "service names resolved by the sandbox's services database (http, domain, ssh)",
      "OpenFlow bytes fed into the library / read at the switch are built and decoded with struct only"]
  # 0. the one derived table of the spec
  hexlike = {n for n in ETH_NAMES if all(c in string.hexdigits for c in n)}
  if hexlike != HEXLIKE_IN_SPEC:
    raise core.Machinery("OFJsonTables!HexLikeNames is not the set of hex-like ethertype names: %r" % (hexlike,))

  # 1. the properties on the models; the same runs export one behaviour per transition (ACTION_CONSTRAINT ExportT,
  #    one worker so that every PrintT is one line)
  one = dict(spec_dir="ofjson", workers=1, tag="X14", timeout=2400)
  two = dict(spec_dir="ofjson", workers=2, tag="X14", timeout=2400)
  jobs = [dict(one, module="MCOFJson", cfg="MCX_q.cfg" if quick else "MCX_t.cfg"),
          dict(two, module="MCOFJson", cfg="MC_strict.cfg"),
          dict(one, module="MCWebTable", cfg="MCX_Wa.cfg"),
          dict(one, module="MCWebTable", cfg="MCX_Wfull.cfg"),
          dict(one, module="MCWebTable", cfg="MCX_Wb.cfg"),
          dict(two, module="MCWebTable", cfg="MC_Wstrict.cfg"),
          dict(one, module="MCOFJson", cfg="EX_sim.cfg", coverage=False, simulate=dict(num=40 if quick else 400), depth=31,
               seed=ctx.seed + 1),
          dict(one, module="MCWebTable", cfg="EX_Wsim.cfg", coverage=False, simulate=dict(num=60 if quick else 800), depth=41,
               seed=ctx.seed + 2)]
  if not quick:
    jobs += [dict(one, module="MCWebTable", cfg="MCX_Wc.cfg"),
             dict(spec_dir="ofjson", workers=4, tag="X14", timeout=2400, module="MCWebTable", cfg="MC_Wseq.cfg")]
  res = tlc.run_many(jobs, parallel=7 if quick else 5)
  check_model(ctx, "OFJson as built (%s)" % jobs[0]["cfg"], res[0], CODEC_ACTIONS)
  check_model(ctx, "OFJson intended (Strict)", res[1], ["ChooseAny", "Build", "Dump", "Rebuild", "Pack", "Reset"])
  check_model(ctx, "WebTable as built, one request", res[2], WEB_ACTIONS)
  check_model(ctx, "WebTable as built, table of 3 entries", res[3],
              [a for a in WEB_ACTIONS if a not in ("InitAbortsMidway", "InitStatsAborts")])
  check_model(ctx, "WebTable as built, statistics of a populated table", res[4],
              [a for a in WEB_ACTIONS if a not in ("InitAbortsMidway", "InitStatsAborts", "Tick", "Timeout", "CallNoSwitch")] + ["CallNoSwitch"])
  check_model(ctx, "WebTable intended (Strict)", res[5],
              [a for a in WEB_ACTIONS if a != "InitAbortsMidway"] + ["InitRefusesBadFlows"])
  if not quick:
    check_model(ctx, "WebTable as built, two concurrent requests", res[8],
                [a for a in WEB_ACTIONS if a not in ("InitStatsAborts", "Packet")])
    check_model(ctx, "WebTable as built, two requests in sequence", res[9], WEB_ACTIONS)
  exr = [res[0], res[6], res[2], res[3], res[8] if not quick else None, res[7], res[4]]

  # 3. spec -> code, the conversion jobs
  behs = exr[0].tagged("T")
  if len(behs) < 1000:
    raise tlc.TLCError("only %d conversion jobs exported" % len(behs))
  seen_b = set(s["args"]["dev"] for b in behs for s in b if s["a"] == "Build")
  seen_r = set(s["args"]["dev"] for b in behs for s in b if s["a"] == "Rebuild")
  missing = [d for d in BUILD_DEVS if d not in seen_b] + [d for d in REBUILD_DEVS if d not in seen_r]
  if missing:
    raise core.Machinery("deviation actions never exported: %s" % missing)
  kinds = set(b[0]["args"]["kind"] for b in behs)
  if kinds != {"match", "action", "awire", "flow", "po", "fix"}:
    raise core.Machinery("kinds exported: %s" % sorted(kinds))
  st = core.replay(ctx, CODEC, behs, chunk=60)
  ctx.notes["replay_jobs"] = dict(behaviours=len(behs), **st)
  ctx.notes["negative_control_jobs"] = negative_control(ctx, CODEC, behs)
  sims = exr[1].tagged("H")
  if len(sims) < (20 if quick else 200):
    raise tlc.TLCError("simulation exported %d chains of jobs" % len(sims))
  sims = sims[:300 if quick else 3000]          # (TLC prints one chain per simulation worker and trace)
  st = core.replay(ctx, CODEC, sims, chunk=10)
  ctx.notes["replay_job_chains"] = dict(behaviours=len(sims), depth=30, **st)

  # 4. spec -> code, the web service
  rnd = random.Random(ctx.seed + 5)
  for nm, r, params, cap in (("one_request", exr[2], dict(max_entries=8), None),
                             ("table_of_3", exr[3], dict(max_entries=3), None),
                             ("stats_populated", exr[6], dict(max_entries=8), None),
                             ("two_concurrent", exr[4], dict(max_entries=8), 20000)):
    if r is None:
      continue
    wb = [sort_sets(b) for b in r.tagged("T")]
    if len(wb) < 1000:
      raise tlc.TLCError("only %d web-service behaviours exported (%s)" % (len(wb), nm))
    total = len(wb)
    if cap is not None and len(wb) > cap:
      rnd.shuffle(wb)
      wb = wb[:cap]
    st = core.replay(ctx, WEB, wb, params=params, chunk=60)
    ctx.notes["replay_web_" + nm] = dict(exported=total, behaviours=len(wb), **st)
    if nm == "one_request":
      ctx.notes["negative_control_web"] = negative_control(ctx, WEB, wb, params=params)
  wsim = [sort_sets(b) for b in exr[5].tagged("H")]
  if len(wsim) < (20 if quick else 300):
    raise tlc.TLCError("simulation exported %d web-service behaviours" % len(wsim))
  wsim = wsim[:300 if quick else 3000]
  st = core.replay(ctx, WEB, wsim, params=dict(max_entries=3), chunk=5)
  ctx.notes["replay_web_random"] = dict(behaviours=len(wsim), depth=40, **st)

  # 5. code -> spec: random documents, converted by the real code, validated by TLC
  ntr = 300 if quick else 4000
  traces = core.run_driver("props.X14:drive", [ctx.seed * 100003 + i for i in range(ntr)])
  bad = copy.deepcopy(next(t for t in traces if any(e["a"] == "Pack" and e["ok"] and len(e["wire"]) > 9 for e in t)))
  for e in bad:
    if e["a"] == "Pack" and e["ok"]:
      e["wire"][9] ^= 4          # negative control: one bit of the wildcard word
      break
  r, rej = tracecheck.validate("ofjson", "TraceOFJson", "Trace.cfg", traces + [bad], tag="X14")
  ctx.add_model("TraceOFJson (validation of %d implementation traces)" % ntr, r)
  if len(traces) not in [t for t, _ in rej]:
    raise tlc.TLCError("negative control (one flipped bit of the packed match) was accepted by the trace spec")
  for t, matched in rej:
    if t == len(traces):
      continue
    ev = traces[t][matched]
    ctx.report(dict(action=ev["a"], via="trace", kind=traces[t][0]["kind"]),
               dict(trace=traces[t], failing_step=matched, note="TLC rejected the trace at this event"))
  ctx.traces += len(traces)
  for t in traces[:3000]:
    ctx.case(core.fp(t[0]["doc"]), sample=None)
  ctx.notes["trace_validation"] = dict(traces=len(traces), events=sum(len(t) for t in traces), rejected=len(rej) - 1,
                                       negative_control_rejected=True)
  ctx.exhaustive = True


# ------------------------------------------------------------------------------------------------ code -> spec
# A random document is described the way the spec describes documents (FORMS), rendered to JSON text HERE (an
# independent transcription of OFJsonCodec!Render), converted by the real code through the replay adapter, and the
# recorded trace carries the forms, the rendered document and everything the code answered.  TLC (TraceOFJson)
# checks that the rendering is the spec's rendering of those forms and that every answer is the spec's.

def fm(f, n=0, s="", b=()):
  return {"f": f, "n": n, "s": s, "b": list(b)}


PORT_NAMES = ["OFPP_MAX", "OFPP_IN_PORT", "OFPP_TABLE", "OFPP_NORMAL", "OFPP_FLOOD", "OFPP_ALL", "OFPP_CONTROLLER",
              "OFPP_LOCAL", "OFPP_NONE"]
ETH_IN = [n for n in ETH_NAMES if n != "BAD"]
PROTO_NAMES = ["ICMP", "TCP", "UDP", "IGMP", "GRE"]


def _mask(bits):
  v = (0xffffffff << (32 - bits)) & 0xffffffff
  return [(v >> s) & 255 for s in (24, 16, 8, 0)]


def render(key, f):
  """JSON value of a form (Python transcription; TLC compares it with OFJsonCodec!Render)"""
  t = f["f"]
  if t == "int":
    return f["n"]
  if t == "null":
    return None
  if t == "text":
    return f["s"]
  if t == "long":
    return f["s"] + ("_PROTOCOL" if key == "nw_proto" else "_TYPE")
  if t == "hex":
    return {"0x": "0x%x", "min": "%x", "802.3/": "802.3/%04x", "": "%04x"}[f["s"]] % f["n"]
  if t == "mac":
    b = f["b"]
    return {"lower": ":".join("%02x" % x for x in b), "upper": ":".join("%02X" % x for x in b),
            "dash": "-".join("%02x" % x for x in b), "plain": "".join("%02x" % x for x in b),
            "loose": ":".join("%x" % x for x in b)}[f["s"]]
  if t == "ip":
    d = ".".join(str(x) for x in f["b"])
    if f["s"] == "plain":
      return d
    if f["s"] == "mask":
      return d + "/" + ".".join(str(x) for x in _mask(f["n"]))
    return "%s/%d" % (d, f["n"])
  if t == "aname":
    short = {"OFPAT_OUTPUT": "output", "OFPAT_SET_VLAN_VID": "set_vlan_vid", "OFPAT_SET_VLAN_PCP": "Set_Vlan_Pcp",
             "OFPAT_STRIP_VLAN": "strip_vlan", "OFPAT_SET_DL_SRC": "set_dl_src", "OFPAT_SET_DL_DST": "SET_DL_DST",
             "OFPAT_SET_NW_SRC": "set_nw_src", "OFPAT_SET_NW_DST": "ofpat_set_nw_dst", "OFPAT_SET_NW_TOS": "set_nw_tos",
             "OFPAT_SET_TP_SRC": "set_tp_src", "OFPAT_SET_TP_DST": "set_tp_dst", "OFPAT_ENQUEUE": "enqueue"}
    return short[f["s"]] if f["n"] == 1 else f["s"]
  raise core.Machinery("render: form %r" % (t,))


def gen_field(rnd, key):
  r = rnd.random()
  if r < 0.04:
    return fm("null")
  if key == "in_port":
    if r < 0.4:
      return fm("text", s=rnd.choice(PORT_NAMES))
    if r < 0.45:
      return fm("text", s="OFPP_" + rnd.choice(["BOGUS", "LOCL", "ANY"]))
    return fm("int", n=rnd.choice([0, 1, 65279, 65280, 65534, 65535, 65536, rnd.randrange(65536)]))
  if key in ("dl_src", "dl_dst"):
    if r < 0.08:
      return fm("text", s=rnd.choice(["zz", "00:11:22:33:44", "0011223344556"]))
    return fm("mac", s=rnd.choice(["lower", "upper", "dash", "plain", "loose"]), b=[rnd.randrange(256) for _ in range(6)])
  if key == "dl_type":
    if r < 0.3:
      return fm(rnd.choice(["text", "long"]), s=rnd.choice(ETH_IN))
    if r < 0.36:
      return fm(rnd.choice(["text", "long"]), s=rnd.choice(["BAD", "BOGUS", "ETHER"]))
    if r < 0.55:
      n = rnd.choice([0x800, 0x806, 0x86dd, 0x5dc, 0x5dd, 0xffff, rnd.randrange(65536)])
      return fm("hex", n=n, s=rnd.choice(["0x", "", "min"] + (["802.3/"] if n <= 0x5dc else [])))
    return fm("int", n=rnd.choice([0, 1500, 1501, 1535, 1536, 2048, 2054, 34525, 35020, 65535, 2989, rnd.randrange(65536)]))
  if key == "nw_proto":
    if r < 0.3:
      return fm(rnd.choice(["text", "long"]), s=rnd.choice(PROTO_NAMES))
    if r < 0.35:
      return fm("text", s="SCTP")
    return fm("int", n=rnd.choice([0, 1, 2, 6, 17, 47, 255, 256, rnd.randrange(256)]))
  if key in ("nw_src", "nw_dst"):
    if r < 0.08:
      return fm("text", s=rnd.choice(["300.1.1.1", "1.2.3.4.5", "ten.0.0.1"]))
    bits = rnd.choice([0, 1, 7, 8, 9, 16, 17, 24, 25, 31, 32, 32, 33, rnd.randrange(33)])
    v = rnd.getrandbits(32)
    if rnd.random() < 0.8 and bits <= 32:
      v &= (0xffffffff << (32 - bits)) & 0xffffffff           # a proper network address, most of the time
    b = [(v >> s) & 255 for s in (24, 16, 8, 0)]
    st = rnd.choice(["plain", "cidr", "cidr", "mask"])
    if st == "mask" and bits > 32:
      st = "cidr"
    return fm("ip", n=32 if st == "plain" else bits, s=st, b=b)
  if key in ("tp_src", "tp_dst"):
    if r < 0.2:
      return fm("text", s=rnd.choice(["http", "domain", "ssh"]))
    if r < 0.25:
      return fm("text", s="nosuchsvc")
    return fm("int", n=rnd.choice([0, 80, 65535, 65536, rnd.randrange(65536)]))
  lim = {"dl_vlan": 65535, "dl_vlan_pcp": 255, "nw_tos": 255}[key]
  return fm("int", n=rnd.choice([0, lim, lim + 1, rnd.randrange(lim + 1)]))


MATCH_KEYS = ["dl_dst", "dl_src", "dl_type", "dl_vlan", "dl_vlan_pcp", "in_port", "nw_dst", "nw_proto", "nw_src", "nw_tos",
              "tp_dst", "tp_src"]


def gen_match(rnd):
  keys = [k for k in MATCH_KEYS if rnd.random() < rnd.choice([0.15, 0.5, 0.9])]
  if rnd.random() < 0.5 and "dl_type" not in keys:
    keys.append("dl_type")
  doc = [{"k": k, "fm": gen_field(rnd, k)} for k in sorted(keys)]
  if rnd.random() < 0.6:       # protocols that make the dependent fields matter
    for e in doc:
      if e["k"] == "dl_type":
        e["fm"] = rnd.choice([fm("text", s="IP"), fm("int", n=2048), fm("hex", n=2048, s="0x"), fm("text", s="ARP")])
      if e["k"] == "nw_proto" and rnd.random() < 0.7:
        e["fm"] = rnd.choice([fm("int", n=6), fm("text", s="UDP"), fm("long", s="ICMP")])
  if rnd.random() < 0.1:
    doc.insert(0, {"k": "bogus", "fm": fm("int", n=1)})       # documents are written with their keys in order
  return doc


ACTION_FIELDS = {"OFPAT_OUTPUT": ["max_len", "port"], "OFPAT_SET_VLAN_VID": ["vlan_vid"], "OFPAT_SET_VLAN_PCP": ["vlan_pcp"],
                 "OFPAT_STRIP_VLAN": [], "OFPAT_SET_DL_SRC": ["dl_addr"], "OFPAT_SET_DL_DST": ["dl_addr"],
                 "OFPAT_SET_NW_SRC": ["nw_addr"], "OFPAT_SET_NW_DST": ["nw_addr"], "OFPAT_SET_NW_TOS": ["nw_tos"],
                 "OFPAT_SET_TP_SRC": ["tp_port"], "OFPAT_SET_TP_DST": ["tp_port"], "OFPAT_ENQUEUE": ["port", "queue_id"]}


def gen_action(rnd):
  name = rnd.choice(sorted(ACTION_FIELDS))
  f = []
  for k in ACTION_FIELDS[name]:
    if rnd.random() < 0.15:
      continue
    if k == "port":
      v = gen_field(rnd, "in_port")
    elif k == "dl_addr":
      v = gen_field(rnd, "dl_src")
    elif k == "nw_addr":
      v = fm("ip", n=32, s="plain", b=[rnd.randrange(256) for _ in range(4)]) if rnd.random() < 0.85 else \
          fm("ip", n=8, s="cidr", b=[10, 0, 0, 0])
    else:
      lim = {"max_len": 65535, "vlan_vid": 65535, "vlan_pcp": 255, "nw_tos": 255, "tp_port": 65535, "queue_id": 2147483647}[k]
      v = fm("int", n=rnd.choice([0, lim, rnd.randrange(lim + 1)] + ([lim + 1] if lim < 2147483647 else [])))
    f.append({"k": k, "fm": v})
  if rnd.random() < 0.06:
    f.insert(0, {"k": "bogus", "fm": fm("int", n=1)})
  ty = fm("aname", n=rnd.randrange(2), s=name) if rnd.random() < 0.93 else rnd.choice([fm("text", s="bogus"), fm("null")])
  return {"ty": ty, "f": f}


def drive(seed):
  from harness.adapters_x14 import Adapter, j_encode
  rnd = random.Random(seed)
  if rnd.random() < 0.6:
    kind = "match"
    doc = gen_match(rnd)
    case = {"kind": kind, "doc": {"kv": doc}}
    py = {e["k"]: render(e["k"], e["fm"]) for e in doc}
  else:
    kind = rnd.choice(["action", "action", "awire"])
    doc = gen_action(rnd)
    if kind == "awire":      # what arrives on the wire is well formed
      doc["ty"] = fm("aname", n=0, s=rnd.choice(sorted(ACTION_FIELDS)))
      doc["f"] = []
      for k in ACTION_FIELDS[doc["ty"]["s"]]:
        if k == "port":
          v = fm("int", n=rnd.choice([1, 65531, 65533, 65534, rnd.randrange(65536)]))
        elif k == "dl_addr":
          v = fm("mac", s="lower", b=[rnd.randrange(256) for _ in range(6)])
        elif k == "nw_addr":
          v = fm("ip", n=32, s="plain", b=[rnd.randrange(256) for _ in range(4)])
        else:
          lim = {"max_len": 65535, "vlan_vid": 65535, "vlan_pcp": 255, "nw_tos": 255, "tp_port": 65535, "queue_id": 2147483647}[k]
          v = fm("int", n=rnd.randrange(lim + 1))
        doc["f"].append({"k": k, "fm": v})
    case = {"kind": kind, "doc": doc}
    py = {e["k"]: render(e["k"], e["fm"]) for e in doc["f"]}
    py["type"] = render("type", doc["ty"])
  ad = Adapter()
  xid = rnd.choice([1, 77, 2147483647])
  tr = []
  # uniform event records: a, kind, case (forms), doc (rendered), ok, why, o (projection of the object; "" when there is none), json, same, wire
  def ev(a, **kw):
    e = dict(a=a, kind=kind, case=case, doc=j_encode(py), ok=False, why="", o="", json=j_encode(None), same=False, wire=[],
             xid=xid)
    e.update(kw)
    tr.append(e)
  ad.step("Choose", {"kind": kind, "doc": j_encode(py)})
  ev("Choose")
  try:
    b = ad.step("Build", {"kind": kind})
  except core.Machinery:
    raise
  except Exception as e:                  # noqa
    b = {"ok": False, "why": "harness:" + type(e).__name__, "o": None}
  extra = [k for k in b if k not in ("ok", "why", "o") and not (k == "intact" and b[k] is True)]
  ev("Build", ok=b["ok"], why=b["why"] + ("|" + ",".join(extra) if extra else ""), o=b["o"] if b["ok"] else "")
  if b["ok"]:
    d = ad.step("Dump", {"kind": kind})
    ev("Dump", ok=True, json=d["json"])
    r = ad.step("Rebuild", {"kind": kind})
    ev("Rebuild", ok=r["ok"], why=r["why"], o=r["o"] if r["ok"] else "", same=r["same"])
    p = ad.step("Pack", {"kind": kind, "xid": xid})
    ev("Pack", ok=p["ok"], wire=p["wire"] if isinstance(p["wire"], list) else [-1])
  ad.step("Reset", {})
  ev("Reset")
  return tr
