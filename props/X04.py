"""X04 - echo keepalive and the recoco Timer.

specs/keepalive/Timers.tla (the Timer class) and Keepalive.tla (pox.openflow.keepalive on top of one recurring
Timer, real of_01 connections and real SoftwareSwitches) are model-checked; behaviours exported by TLC (one per
transition of the abstract state graph, plus deep random ones) are replayed on the real code with comparison
after every step; traces recorded from the real code under a seeded random driver are validated by TLC.
"""
import copy
import json
import random
import time as _time

from engine import tlc, core, tracecheck

AD_T = "harness.adapters_x04:TimersAdapter"
AD_K = "harness.adapters_x04:KeepaliveAdapter"
SPEC = "keepalive"
ACT_T = ["New", "Start", "Cancel", "Tick", "Run"]
ACT_K = ["Launch", "Accept", "Handshake", "Tick", "Answer", "Chatter", "SockBreak", "PeerClose", "Reap",
         "RunIdle", "KeepaliveTick", "TickAbortedBySendFailure"]
PROPS_T = ["TypeOK", "OneShotOnce", "NothingLost", "NewIsSilent", "FireOnlyWhenDue", "NeverAfterCancel",
           "OncePerExpiry", "Spaced", "RunServesDue", "DoneIsFinal"]
PROPS_K = ["TypeOK", "RegistryOK", "DetectionBound", "DownOnce", "OnlySilentDisconnected", "SilentDisconnected",
           "ResponsiveNeverDisconnected", "EchoOnlyIfUp", "TicksSpaced", "OrphanNeverProbed"]
SETS = ("echo", "down", "shut", "reg")


def prep(behs):
  for b in behs:
    for st in b:
      e = st["exp"]
      for k in SETS:
        if isinstance(e.get(k), list):
          e[k] = sorted(e[k])
  return behs


# short TLC runs (a few seconds) spend most of their CPU in JIT compilation and GC threads: keep them light
JVM_SHORT = {"JAVA_TOOL_OPTIONS": "-XX:ParallelGCThreads=2 -XX:TieredStopAtLevel=1"}


def mc_job(cfg, module, workers=4, short=False):
  return dict(spec_dir=SPEC, module=module, cfg=cfg, tag="X04", timeout=2400, workers=workers,
              env=JVM_SHORT if short else None)


def ex_job(cfg, module):
  return dict(spec_dir=SPEC, module=module, cfg=cfg, workers=1, coverage=False, tag="X04", timeout=2400, env=JVM_SHORT)


def sim_job(ctx, cfg, module, num, depth, off):
  return dict(spec_dir=SPEC, module=module, cfg=cfg, workers=1, coverage=False, simulate=dict(num=num),
              depth=depth + 1, seed=ctx.seed + 31 + off, tag="X04", timeout=2400, env=JVM_SHORT)


def negative_control(ctx, adapter, beh, params, corrupt):
  """corrupt one expectation of a conforming behaviour: the replay must report it"""
  bad = copy.deepcopy(beh)
  if not corrupt(bad):
    return False
  c2 = core.Context(ctx.pid, ctx.tier, ctx.seed, ctx.level, clear=False)
  c2.known = []
  core.replay(c2, adapter, [bad], params=params, procs=1)
  if not c2.violations:
    raise core.Machinery("negative control: a corrupted expectation was not reported by the replay (%s)" % adapter)
  return True


def corrupt_t(b):
  for st in reversed(b):
    if st["a"] == "Run" and st["exp"]["fired"]:
      st["exp"]["at"] += 1
      st["alts"] = []
      return True
  return False


def corrupt_k(b):
  for st in reversed(b):
    if st["a"] == "Run" and st["exp"]["fired"] and st["exp"]["echo"]:
      st["exp"]["echo"] = st["exp"]["echo"][1:]
      return True
  return False


def take(ctx, r, tag, cap):
  """behaviours printed by TLC under `tag`; sampled BEFORE decoding and the raw output dropped afterwards (an
  export of 10^5 behaviours is hundreds of MB as text and several GB as Python objects - and the replay forks)"""
  raw = r.tagged_raw(tag)
  nall = len(raw)
  if cap and nall > cap:
    raw = random.Random(ctx.seed * 7919 + nall).sample(raw, cap)
  behs = prep([json.loads(json.loads(x)) for x in raw])
  r.stdout, r.prints = "", []
  return nall, behs


def replay_set(ctx, name, adapter, nall, behs, params, chunk=200):
  if not behs:
    raise tlc.TLCError("no behaviours exported by " + name)
  t0 = _time.time()
  st = core.replay(ctx, adapter, behs, params=params, chunk=chunk, nontrivial=lambda b: len(b) > 1)
  ctx.notes["replay " + name] = dict(exported=nall, replayed=len(behs), params=params, wall_s=round(_time.time() - t0, 1), **st)
  return behs


def run(ctx):
  quick = ctx.tier == "quick"
  ctx.rule = ("behaviours exported by TLC from specs/keepalive/Timers.tla and Keepalive.tla (edge cover: the shortest "
              "path to every abstract state plus each outgoing transition; plus -simulate runs) replayed on the real "
              "recoco Timer / Scheduler / SelectHub under the virtual clock and on the real keepalive module with real "
              "of_01 connections (real OpenFlow_01_Task loop, scripted sockets) and one real SoftwareSwitch per "
              "connection; every observation (which callback ran and when, echo requests on each wire, ConnectionDown "
              "events, sockets shut down, registry, idle_time) compared after every step; plus traces of a seeded "
              "random driver validated by TLC; distinct = distinct action/argument sequences; non-trivial = more than "
              "one action")
  ctx.assumptions = [
      "time is virtual and integral (1 unit = 1 s): Timer delays 0..3, keepalive (interval, timeout) in {(2,1), (1,1), (1,2)}",
      "Timers: <=2 timers exhaustively (3 in simulation / traces); Keepalive: <=2 connections exhaustively "
      "(3 in the thorough model run and in simulation, 4 in traces)",
      "the scheduler is stepped by the harness (cycle(), SelectHub._select) at one instant at a time; which due timer is "
      "served first is left open by the spec (any order)",
      "the keepalive timer may be served late (Late units); 'a responsive switch is never disconnected' needs Late <= timeout",
      "the deviation TickAbortedBySendFailure (see notes/X04.md, Defects observed) is part of the spec with Strict = FALSE",
      "OpenFlow bytes are decoded by harness/rawbytes.py; the far end of every connection is a real SoftwareSwitch"]

  # ---- 1. TLC: model runs, exports, simulations - all independent, run concurrently
  mcs = [("MC_T1.cfg", "MCTimers", ACT_T), ("MC_T2.cfg", "MCTimers", ACT_T),
         ("MC_K2.cfg", "MCKeepalive", ACT_K), ("MC_K2d.cfg", "MCKeepalive", ACT_K), ("MC_K2b.cfg", "MCKeepalive", ACT_K)]
  if not quick:
    mcs += [("MC_T2x.cfg", "MCTimers", ACT_T), ("MC_K2L.cfg", "MCKeepalive", ACT_K), ("MC_K2x.cfg", "MCKeepalive", ACT_K),
            ("MC_K2Lx.cfg", "MCKeepalive", ACT_K), ("MC_K2bx.cfg", "MCKeepalive", ACT_K),
            ("MC_K3.cfg", "MCKeepalive", ACT_K)]
  p21, p11, p12 = dict(I=2, TO=1), dict(I=1, TO=1), dict(I=1, TO=2)
  DUP = {"3": 1}          # MCKeepalive!DpidDup: connection 3 is a reconnect of the switch behind connection 1
  # (cfg, module, adapter, params, cap in quick, cap in thorough)
  exs = [("EX_T1.cfg", "MCTimers", AD_T, dict(direct="mix"), 4500, None),
         ("EX_T2e.cfg", "MCTimers", AD_T, dict(direct="mix"), 4500, None),
         ("EX_K1.cfg", "MCKeepalive", AD_K, p21, None, None),
         ("EX_K2u.cfg", "MCKeepalive", AD_K, p11, 6000, None),
         ("EX_K2d.cfg", "MCKeepalive", AD_K, dict(p11, dup=DUP), 2500, None)]
  if not quick:
    exs += [("EX_K2c.cfg", "MCKeepalive", AD_K, p11, None, 15000),
            ("EX_T2q.cfg", "MCTimers", AD_T, dict(direct="st"), None, 15000),
            ("EX_T2.cfg", "MCTimers", AD_T, dict(direct="direct"), None, 15000),
            ("EX_K2q.cfg", "MCKeepalive", AD_K, p21, None, 15000),
            ("EX_K2.cfg", "MCKeepalive", AD_K, p21, None, 15000),
            ("EX_K2dx.cfg", "MCKeepalive", AD_K, dict(p11, dup=DUP), None, 15000),
            ("EX_K3u.cfg", "MCKeepalive", AD_K, p11, None, 20000)]
  n = 250 if quick else 1200
  sims = [("SIM_T.cfg", "MCTimers", AD_T, dict(direct="mix"), n, 40, 0),
          ("SIM_K.cfg", "MCKeepalive", AD_K, dict(p21, dup=DUP), n, 45, 1),
          ("SIM_Kb.cfg", "MCKeepalive", AD_K, dict(p12, dup=DUP), n, 45, 2)]
  if not quick:
    sims += [("SIM_T.cfg", "MCTimers", AD_T, dict(direct="direct"), n, 40, 3)]
  # exports first (single-threaded, longest), then simulations, then the model runs: the replays below start as
  # soon as their export is there, while the model runs still use the other cores
  import concurrent.futures
  pool = concurrent.futures.ThreadPoolExecutor(13 if quick else 6)
  t0 = _time.time()
  sub = lambda job: pool.submit(lambda j=job: tlc.run(j.pop("spec_dir"), j.pop("module"), j.pop("cfg"), **j))   # noqa
  # (exports are sampled/decoded and their raw text dropped in the worker thread, as soon as TLC is done)
  subx = lambda job, tag, cap: pool.submit(                                                                      # noqa
      lambda j=job: take(ctx, tlc.run(j.pop("spec_dir"), j.pop("module"), j.pop("cfg"), **j), tag, cap))
  f_ex = [subx(ex_job(c, m), "T", capq if quick else capt) for c, m, _, _, capq, capt in exs]
  f_sim = [subx(sim_job(ctx, c, m, num, d, off), "H", None) for c, m, _, _, num, d, off in sims]
  f_mc = [sub(mc_job(c, m, workers=4 if quick else 6, short=quick)) for c, m, _ in mcs]
  try:
    _stages(ctx, quick, mcs, exs, sims, f_mc, f_ex, f_sim, pool, t0)
  finally:
    pool.shutdown(wait=True, cancel_futures=True)


def _stages(ctx, quick, mcs, exs, sims, f_mc, f_ex, f_sim, pool, t0):
  # ---- 2. spec -> code: every transition of the abstract state graphs (sampled where capped)
  done_nc = set()
  for (c, m, ad, prm, capq, capt), f in zip(exs, f_ex):
    nall, behs = f.result()
    behs = replay_set(ctx, c, ad, nall, behs, prm)
    if ad not in done_nc:
      cor = corrupt_t if ad == AD_T else corrupt_k
      oks = [behs[i] for i in core.replay.last_ok]
      oks = [b for b in oks if cor(copy.deepcopy(b))]
      if oks and negative_control(ctx, ad, max(oks, key=len), prm, cor):
        done_nc.add(ad)
  if done_nc != {AD_T, AD_K}:
    raise core.Machinery("negative control of the replay could not be run for %s" % sorted({AD_T, AD_K} - done_nc))
  ctx.notes["replay_negative_controls"] = "corrupted expectation reported for both adapters"

  # ---- 3. deep random behaviours
  for (c, m, ad, prm, num, d, off), f in zip(sims, f_sim):
    nall, behs = f.result()
    if len(behs) < num // 2:
      raise tlc.TLCError("simulation %s exported only %d behaviours" % (c, len(behs)))
    replay_set(ctx, "%s seed+%d" % (c, off), ad, nall, behs, prm, chunk=20)

  # ---- 4. code -> spec: random drivers on the real code, traces validated by TLC
  ntr = 120 if quick else 1200
  sets = [("timers", "props.X04:drive_t", "TraceTimers", "TraceT.cfg", None),
          ("keepalive", "props.X04:drive_k", "TraceKeepalive", "TraceK.cfg", (2, 1)),
          ("keepalive", "props.X04:drive_k", "TraceKeepalive", "TraceKb.cfg", (1, 2))][:2 if quick else 3]
  work = []
  for name, drv, mod, cfg, ito in sets:
    items = [(ctx.seed * 100003 + i, 60, ito) for i in range(ntr)]
    traces = core.run_driver(drv, items)
    bad = copy.deepcopy(max(traces, key=lambda t: sum(1 for e in t if e["a"] == "Run" and e["obs"]["fired"])))
    for e in reversed(bad):                  # negative control: one corrupted observation
      if e["a"] == "Run" and e["obs"]["fired"]:
        if name == "timers":
          e["obs"]["n"] += 1
        else:
          e["obs"]["echo"] = (e["obs"]["echo"] + [4]) if 4 not in e["obs"]["echo"] else e["obs"]["echo"][:-1]
        break
    else:
      raise core.Machinery("no trace with a firing timer to corrupt (%s)" % name)
    work.append((name, mod, cfg, items, traces, bad))
  futs = [pool.submit(tracecheck.validate, SPEC, mod, cfg, traces + [bad], tag="X04", extra_env=JVM_SHORT)
          for name, mod, cfg, items, traces, bad in work]
  outs = [f.result() for f in futs]
  for (name, mod, cfg, items, traces, bad), (r, rej) in zip(work, outs):
    ctx.add_model("%s %s (validation of %d implementation traces)" % (mod, cfg, len(traces)), r)
    if len(traces) not in [t for t, _ in rej]:
      raise tlc.TLCError("negative control (corrupted observation) was accepted by %s" % mod)
    for t, matched in rej:
      if t == len(traces):
        continue
      ev = traces[t][matched]
      ctx.report(dict(action=ev["a"], via="trace", spec=mod, args=ev["args"], obs=ev["obs"] if not ev["wf"] else "wf"),
                 dict(trace=traces[t], failing_step=matched, cfg=cfg, seed=items[t][0],
                      note="TLC rejected the trace at this event"))
    ctx.traces += len(traces)
    for t in traces[:3000]:
      ctx.case(core.fp([[e["a"], e["args"]] for e in t]), sample=None)
    ctx.notes["trace_validation %s %s" % (name, cfg)] = dict(
        traces=len(traces), events=sum(len(t) for t in traces), rejected=len(rej) - 1,
        fires=sum(1 for t in traces for e in t if e["a"] == "Run" and e["obs"]["fired"]),
        negative_control_rejected=True)
  # ---- 1'. the model runs: the properties on the specs themselves, with the vacuity guard
  for (c, m, acts), f in zip(mcs, f_mc):
    r = f.result()
    if r.violated:
      raise tlc.TLCError("spec violates its own property %s in %s:\n%s" % (r.violated, c, r.error_trace[:3000]))
    tlc.require_coverage(r, acts, c)
    ctx.add_model("%s %s" % (m[2:], c), r, properties=PROPS_T if m == "MCTimers" else PROPS_K)
  ctx.notes["tlc_all_done_s"] = round(_time.time() - t0, 1)
  ctx.exhaustive = True


# ----------------------------------------------------------------------------
# random drivers (run in worker processes)

def drive_t(arg):
  """Random use of real recoco Timers; returns the recorded trace (fixed schema, uniform field types)."""
  seed, n, _ = arg
  from harness.adapters_x04 import TimersAdapter
  rnd = random.Random(seed)
  ad = TimersAdapter(direct=rnd.choice(["st", "direct", "mix"]), seed=seed % 97)
  made, tr = set(), []
  try:
    for _ in range(n):
      k = rnd.random()
      if k < 0.18 and len(made) < 3:
        i = rnd.choice([x for x in (1, 2, 3) if x not in made])
        ab = rnd.random() < 0.25
        c = dict(d=rnd.randint(0, 3) if ab else rnd.randint(1, 3), rec=(rnd.random() < 0.5), abs=ab,
                 started=(rnd.random() < 0.75), ss=(rnd.random() < 0.7))
        if ab and c["rec"] and rnd.random() < 0.7:
          c["rec"] = False
        if ab:
          c["d"] += ad.vs.now() - rnd.randint(0, 1) if rnd.random() < 0.7 else 0
          c["d"] = max(0, c["d"])
        a, args = "New", dict(i=i, c=c)
      elif k < 0.24 and made:
        a, args = "Start", dict(i=rnd.choice(sorted(made)))
      elif k < 0.32 and made:
        a, args = "Cancel", dict(i=rnd.choice(sorted(made)))
      elif k < 0.62:
        a, args = "Tick", dict(x=0)
      else:
        a, args = "Run", dict(rv=rnd.choice(["none", "none", "zero", "false", "raise"]),
                              e=rnd.choice([0, 0, 0, 1, 2, 3]))
      try:
        obs = ad.step(a, args)
        wf = True
      except Exception as e:       # noqa
        obs, wf = {"exc": type(e).__name__}, False
      if a == "New" and wf and obs.get("err") == "-":
        made.add(args["i"])
      if a in ("New", "Start"):
        wf = wf and set(obs) == {"err"}
        obs = obs if wf else dict(err="bad")
      elif a == "Tick":
        wf = wf and set(obs) == {"now"} and isinstance(obs["now"], int)
        obs = obs if wf else dict(now=-1)
      elif a == "Run":
        wf = wf and set(obs) == {"fired", "at", "n"} and all(isinstance(v, int) for v in obs.values())
        obs = obs if wf else dict(fired=-1, at=-1, n=-1)
      else:
        obs = dict(x=0)
      tr.append(dict(a=a, args=args, obs=obs, wf=wf))
  finally:
    ad.close()
  return tr


def drive_k(arg):
  """Random life of a controller with keepalive and up to 4 switches; returns the recorded trace.  Which action
  makes sense is decided from what can be seen of the real system (registry, select list, socket state, bytes
  on the wire), not from a model."""
  seed, n, ito = arg
  from harness.adapters_x04 import KeepaliveAdapter
  rnd = random.Random(seed)
  ad = KeepaliveAdapter(I=ito[0], TO=ito[1], direct="mix", seed=seed % 97, dup={3: 1})      # as MCKeepalive!DpidDup
  tr = []
  acc, hs, broken = set(), set(), set()
  ticks_since_run = 0
  talk = {c: rnd.choice([0.9, 0.9, 0.5, 0.0]) for c in (1, 2, 3, 4)}     # how eagerly each switch answers
  try:
    for step in range(n):
      env = ad.env
      reg = set(ad._reg())
      inloop = {c for c in acc if env.con_of(c) is not None}
      shut = {c for c in inloop if env.socks[c].shut}
      cand = []
      if step < 3 or rnd.random() < 0.1:
        cand.append(("Launch", dict(x=0)))
      for c in (1, 2, 3, 4):
        if c not in acc and rnd.random() < 0.5:
          cand.append(("Accept", dict(c=c)))
        if c in acc and c not in hs and c in inloop and c not in shut:
          cand.append(("Handshake", dict(c=c)))
        if c in reg and ad.wire.get(c) and rnd.random() < talk[c]:
          cand += [("Answer", dict(c=c))] * 3
        if c in reg and rnd.random() < 0.15:
          cand.append(("Chatter", dict(c=c)))
        if c in reg and c not in broken and rnd.random() < 0.08:
          cand.append(("SockBreak", dict(c=c)))
        if c in inloop and c not in shut and rnd.random() < (0.04 if c in reg or c not in hs else 0.15):
          cand.append(("PeerClose", dict(c=c)))
        if c in shut and rnd.random() < 0.5:
          cand.append(("Reap", dict(c=c)))
      if ticks_since_run < 3:
        cand += [("Tick", dict(x=0))] * 3
      cand += [("Run", dict(x=0))] * (2 + 3 * ticks_since_run)
      a, args = rnd.choice(cand)
      try:
        obs = ad.step(a, args)
        wf = True
      except Exception as e:       # noqa
        obs, wf = {"exc": type(e).__name__}, False
      c = args.get("c")
      if a == "Accept":
        acc.add(c)
      elif a == "Handshake":
        hs.add(c)
      elif a == "SockBreak":
        broken.add(c)
      elif a == "Tick":
        ticks_since_run += 1
      elif a == "Run":
        ticks_since_run = 0
      ints = lambda ks: all(isinstance(obs.get(x), int) for x in ks)            # noqa
      lists = lambda ks: all(isinstance(obs.get(x), list) and all(isinstance(y, int) for y in obs[x]) for x in ks)  # noqa
      if a == "Launch":
        wf = wf and set(obs) == {"timers"} and ints(["timers"])
        obs = obs if wf else dict(timers=-1)
      elif a == "Accept":
        wf = wf and set(obs) == {"wrote"}
        obs = obs if wf else dict(wrote=["bad"])
      elif a == "Handshake":
        wf = wf and set(obs) == {"up", "idle", "reg"} and ints(["up", "idle"]) and lists(["reg"])
        obs = obs if wf else dict(up=-1, idle=-1, reg=[])
      elif a == "Tick":
        wf = wf and set(obs) == {"now"} and ints(["now"])
        obs = obs if wf else dict(now=-1)
      elif a == "Run":
        wf = wf and set(obs) == {"fired", "echo", "down", "shut", "raised", "reg"} and ints(["fired"]) and \
            lists(["echo", "down", "shut", "reg"])
        obs = obs if wf else dict(fired=-1, echo=[], down=[], shut=[], raised="bad", reg=[])
      elif a == "Answer":
        wf = wf and set(obs) == {"replies", "idle"} and ints(["replies", "idle"])
        obs = obs if wf else dict(replies=-1, idle=-1)
      elif a == "Chatter":
        wf = wf and set(obs) == {"pktin", "idle"} and ints(["pktin", "idle"])
        obs = obs if wf else dict(pktin=-1, idle=-1)
      elif a in ("PeerClose", "Reap"):
        wf = wf and set(obs) == {"down", "reg"} and ints(["down"]) and lists(["reg"])
        obs = obs if wf else dict(down=-1, reg=[])
      else:
        obs = dict(x=0)
      tr.append(dict(a=a, args=args, obs=obs, wf=wf))
  finally:
    ad.close()
  return tr


def replay_one(ctx, rep):
  """./check X04 --replay FILE for findings that came from trace validation"""
  if "behaviour" in rep:
    core.replay(ctx, rep["adapter"], [rep["behaviour"]], params=rep.get("params"), procs=1)
    return
  drv = drive_t if "timers" in rep.get("cfg", "").lower() or rep.get("cfg") == "TraceT.cfg" else drive_k
  ito = None if drv is drive_t else ((1, 2) if rep["cfg"] == "TraceKb.cfg" else (2, 1))
  tr = drv((rep["seed"], len(rep["trace"]), ito))
  mod = "TraceTimers" if drv is drive_t else "TraceKeepalive"
  r, rej = tracecheck.validate(SPEC, mod, rep["cfg"], [tr], tag="X04")
  for t, matched in rej:
    ev = tr[matched]
    ctx.report(dict(action=ev["a"], via="trace", spec=mod, args=ev["args"], obs=ev["obs"] if not ev["wf"] else "wf"),
               dict(trace=tr, failing_step=matched, cfg=rep["cfg"], seed=rep["seed"]))
