"""X15 - command-line boot: component launch order and argument binding (pox/boot.py).

specs/boot/Boot.tla is model-checked (the intended design Dev = {} with every property; the as-built design
Dev = AsBuilt with the properties that survive), one behaviour per command line is exported by TLC (exhaustive over
focused token alphabets up to a length, plus long random command lines from -simulate) and replayed on the real
pox.boot._do_launch / pox.boot.boot over synthetic component modules generated from the spec's catalog
(harness/adapters_x15.py, harness/x15_env.py) with a comparison after every step, and seeded random command lines
are run through the real code and the recorded traces validated by TLC (TraceBoot.tla) - with corrupted traces /
expectations as negative controls.

`python -m props.X15 strict` = the strict demonstration of notes/X15.md; `python -m props.X15 bites` = the
properties the code as built does not have (neither is part of the check).
"""
import ast
import copy
import json
import random
import sys

from engine import tlc, core, tracecheck

ADAPTER = "harness.adapters_x15:Adapter"
BASE = ["TypeAny", "BeginAny", "ParseComponent", "ParseOption", "EndParse", "SetOption", "EndOptions", "InitCore",
        "PreStartup", "Import", "ImportSkip", "EndImport", "LaunchCall", "Finish"]
ARGS = ["LaunchBadArgs", "LaunchRefuseMultiple"]
FAIL = ["LaunchModuleOnly", "LaunchNoFunction", "LaunchNotFunction"]
BOOT = ["InsertPy", "GoUp"]

# model run -> (alphabet -> logged actions that must occur in the behaviours exported for it): vacuity guard per
# alphabet, on top of tlc.require_coverage for the run as a whole
LOGGED = ["ParseComponent", "ParseOption", "SetOption", "InitCore", "PreStartup", "Import", "ImportSkip",
          "LaunchCall", "Finish"]
QUICK = {"QuickA": {"orderQ_3": LOGGED + ARGS, "multiQ_3": LOGGED + ARGS, "evalQ_3": LOGGED + ARGS,
                    "eval2_2": LOGGED, "existQ_2": LOGGED + ARGS},
         "QuickB": {"import_2": LOGGED + ["LaunchModuleOnly", "LaunchRefuseMultiple"], "fail_2": LOGGED + ARGS + FAIL,
                    "failQ_3": LOGGED + ARGS + ["LaunchNotFunction"], "opts_2": LOGGED, "bootQ_3": LOGGED + ARGS + BOOT}}
QUICK_STRICT = ["QuickS"]
THOROUGH = {"ThorA": {"order_4": LOGGED + ARGS},
            "ThorB": {"multi_3": LOGGED + ARGS, "eval_3": LOGGED + ARGS, "eval2_3": LOGGED + ARGS},
            "ThorC": {"import_3": LOGGED + ["LaunchModuleOnly", "LaunchRefuseMultiple"],
                      "fail_3": LOGGED + ARGS + FAIL},
            "ThorD": {"opts_3": LOGGED, "opts_2": LOGGED, "boot_3": LOGGED + ARGS + BOOT, "exist_3": LOGGED + ARGS}}
THOROUGH_STRICT = ["ThorS1", "ThorS2"]
# model run -> actions that must have been taken in it (tlc.require_coverage)
RUNCOV = {"QuickA": BASE + ARGS, "QuickB": BASE + ARGS + FAIL + BOOT, "QuickS": BASE + ARGS + FAIL + BOOT,
          "ThorA": BASE + ARGS, "ThorB": BASE + ARGS, "ThorC": BASE + ARGS + FAIL, "ThorD": BASE + ARGS + BOOT,
          "ThorS1": BASE + ARGS, "ThorS2": BASE + ARGS + FAIL + BOOT}


def norm(b):
  """sets arrive as JSON arrays in TLC's order: sort like the adapter does"""
  for st in b:
    e = st["exp"]
    if isinstance(e, dict) and isinstance(e.get("call"), dict):
      e["call"]["extra"] = sorted(e["call"]["extra"])
  return b


def _job(cfg, **kw):
  d = dict(spec_dir="boot", module="MCBoot", cfg=cfg + ".cfg", tag="X15", timeout=3000, workers=1)
  d.update(kw)
  return d


def check_tables(lit):
  """The spec's table of value texts (which of them are Python literals, and of what value; which are true for
  str_to_bool's documented rule) is hand-written.  A wrong entry would be a wrong oracle, so the table is compared
  with the language itself before it is used; a disagreement is a machinery failure, never a verdict."""
  from harness.x15_env import enc
  for t, v in lit["lit"].items():
    try:
      got = enc(ast.literal_eval(t))
    except Exception:
      got = None
    if got != v:
      raise core.Machinery("MCLit[%r] = %r but Python reads it as %r" % (t, v, got))
  for t in lit["notlit"]:
    try:
      ast.literal_eval(t)
    except Exception:
      continue
    raise core.Machinery("MCNotLit lists %r, which is a Python literal" % t)
  words = ['true', 't', 'yes', 'y', 'on', 'enable', 'enabled', 'ok', 'okay', '1', 'allow', 'allowed']

  def truthy(t):          # the rule as pox.lib.util.str_to_bool documents it, restated
    s = t.lower()
    if s in words:
      return True
    try:
      return int(s[2:], 16) != 0 if s.startswith("0x") else int(s, 10) != 0
    except ValueError:
      return False
  for t in list(lit["lit"]) + list(lit["notlit"]) + list(lit["truthy"]):
    if truthy(t) != (t in lit["truthy"]):
      raise core.Machinery("MCTruthy is wrong about %r" % t)


def _constants():
  """the catalog and the value tables, as TLC prints them (ASSUME PrintT in MCBoot.tla).  They are a function of
  the text of the two modules, so the output of that (tiny) TLC run is kept under .work, keyed by a hash of the text."""
  import hashlib
  import os
  h = hashlib.sha1()
  for f in ("Boot.tla", "MCBoot.tla"):
    h.update(open(os.path.join(tlc.SPECS, "boot", f), "rb").read())
  d = os.path.join(tlc.WORK, "X15")
  os.makedirs(d, exist_ok=True)
  path = os.path.join(d, "constants-%s.json" % h.hexdigest()[:16])
  try:
    c = json.load(open(path))
    return c["cat"], c["lit"]
  except (OSError, ValueError, KeyError):
    pass
  r = tlc.run("boot", "MCBoot", "BITE_EvalAll.cfg", workers=1, coverage=False, tag="X15", expect_violation=True)
  cat, lit = r.tagged("CAT")[0], r.tagged("LIT")[0]
  tmp = path + ".%d" % os.getpid()
  with open(tmp, "w") as f:
    json.dump(dict(cat=cat, lit=lit), f)
  os.replace(tmp, path)
  return cat, lit


class _Probe(object):
  """stand-in context for negative controls on the replay side"""
  def __init__(self):
    self.traces = 0
    self.reports = []

  def case(self, *a, **kw):
    pass

  def report(self, sig, replay):
    self.reports.append(sig)
    return "violation"


def _corrupt_behaviour(beh):
  """exchange the expectations of the first two launch calls that differ (or change one argument value)"""
  bad = copy.deepcopy(beh)
  idx = [i for i, st in enumerate(bad) if st["a"] == "LaunchCall" and isinstance(st["exp"].get("call"), dict)]
  for i in idx:
    for j in idx:
      if i < j and bad[i]["exp"]["call"] != bad[j]["exp"]["call"]:
        bad[i]["exp"]["call"], bad[j]["exp"]["call"] = bad[j]["exp"]["call"], bad[i]["exp"]["call"]
        return bad
  if idx:
    c = bad[idx[0]]["exp"]["call"]
    if c["args"]:
      c["args"][0][2] += "x"
    else:
      c["fn"] += "x"
    return bad
  return None


def stats(behs):
  s = dict(behaviours=len(behs), with_launch=0, two_or_more_launches=0, failing=0, results={})
  for b in behs:
    n = sum(1 for st in b if st["a"] == "LaunchCall")
    s["with_launch"] += n > 0
    s["two_or_more_launches"] += n > 1
    res = b[-1]["exp"].get("res", "?")
    s["results"][res] = s["results"].get(res, 0) + 1
    s["failing"] += res not in ("true", "up")
  return s


def run(ctx):
  quick = ctx.tier == "quick"
  ctx.rule = ("one behaviour per command line exported by TLC from Boot.tla (every command line over focused token "
              "alphabets up to a length, plus long random ones from -simulate) replayed on the real pox.boot over "
              "synthetic component modules generated from the spec's catalog; distinct = distinct command lines "
              "(with entry point); non-trivial = at least one launch function is called")
  ctx.assumptions = [
      "components are synthetic modules generated from the constant Cat of specs/boot/MCBoot.tla and served through "
      "a sys.meta_path finder (real __import__, real inspect.getmembers, real function objects)",
      "tokens are abstract (component[:function][=value], --key[=value]); the spelling of an option (-/--, _ or - "
      "inside the key) is drawn by the harness, seeded",
      "pox.core.initialize is wrapped (records what boot passes, builds the real POXCore without threads / signal "
      "handlers); under boot(): os._exit / time.sleep are proxies, the idle loop ends at UpEvent",
      "the as-built model (Dev = AsBuilt) is what the real code is bound to; Dev = {} is the intended design "
      "(model-checked with every property; rejected by the real code - notes/X15.md)",
      "bounds: command lines of <= 3 (quick: some alphabets 2) / <= 4 tokens exhaustively, <= 9 tokens at random"]

  # ---- 1. code -> spec, first half: seeded random command lines through the real code (the traces are validated
  #         by TLC concurrently with the model runs below)
  import time
  t0 = time.time()
  timing = ctx.notes.setdefault("timing_s", {})
  rnd = random.Random(ctx.seed)
  ntr = 300 if quick else 4000
  cat, lit = _constants()
  check_tables(lit)
  params = dict(cat=cat, seed=ctx.seed)
  traces = core.run_driver("props.X15:drive", [(ctx.seed * 100003 + i, cat) for i in range(ntr)], procs=8)
  for t in traces:
    t.pop("strings", None)
  bads = _corrupt_traces(traces, rnd)
  timing["constants+driver"] = round(time.time() - t0, 1)
  # ---- 2. all TLC runs concurrently: the models (model + export in one run per as-built group), the simulation,
  #         and the validation of the recorded traces
  asb = QUICK if quick else THOROUGH
  strict = QUICK_STRICT if quick else THOROUGH_STRICT
  nsim = 150 if quick else 1500
  names = sorted(asb)
  jobs = [_job("MC_" + c, workers=2 if quick else 4) for c in names] + [_job("MC_" + c) for c in strict]
  jobs.append(_job("EX_sim", coverage=False, simulate=dict(num=nsim), depth=60, seed=ctx.seed + 1))
  import concurrent.futures
  with concurrent.futures.ThreadPoolExecutor(5) as ex:
    fv = ex.submit(tracecheck.validate, "boot", "TraceBoot", "Trace.cfg", traces + bads, tag="X15")
    fm = [ex.submit(lambda j: tlc.run(j.pop("spec_dir"), j.pop("module"), j.pop("cfg"), **j), dict(j)) for j in jobs]
    res = [f.result() for f in fm]
    tv = fv.result()
  timing["tlc (all runs, concurrent)"] = round(time.time() - t0 - timing["constants+driver"], 1)
  t1 = time.time()
  for c, r in zip(names + strict, res):
    if r.violated:
      raise tlc.TLCError("the spec violates its own property %s in %s:\n%s" % (r.violated, c, r.error_trace))
    tlc.require_coverage(r, RUNCOV[c], "Boot " + c)
    ctx.add_model("Boot " + c + (" (intended design)" if c in strict else " (as built)"), r)

  # ---- 3. spec -> code: every command line of every as-built alphabet
  pool = []
  for c, r in zip(names, res):
    allb = [norm(b) for b in r.tagged("H")]
    want = {a["name"]: a["v"] * a["e"] * sum(a["n"] ** k for k in range(a["max"] + 1)) for a in r.tagged("ALPHA")[0]}
    if sorted(want) != sorted(asb[c]):
      raise tlc.TLCError("alphabets of %s: %s" % (c, sorted(want)))
    for al in sorted(asb[c]):
      behs = [b for b in allb if b[0]["args"]["al"] == al]
      seen = set(s["a"] for b in behs for s in b)
      missing = [a for a in asb[c][al] if a not in seen]
      if len(behs) != want[al]:
        raise tlc.TLCError("export %s/%s: %d behaviours received, %d command lines" % (c, al, len(behs), want[al]))
      if missing or not behs:
        raise tlc.TLCError("vacuous export %s/%s: %d behaviours, actions never taken: %s" % (c, al, len(behs), missing))
      ctx.notes["exported_" + al] = stats(behs)
    if len(allb) != sum(want.values()):
      raise tlc.TLCError("behaviours of an unlisted alphabet in %s" % c)
    st = core.replay(ctx, ADAPTER, allb, params=params, chunk=100,
                     nontrivial=lambda b: any(s["a"] == "LaunchCall" for s in b))
    ctx.notes["replay_" + c] = dict(behaviours=len(allb), **st)
    ok = set(core.replay.last_ok)
    pool += [b for i, b in enumerate(allb) if i in ok]
  # ---- 3b. long random command lines, both entry points, with and without an existing core
  behs = [norm(b) for b in res[-1].tagged("H")]
  if len(behs) < nsim // 2:
    raise tlc.TLCError("simulation exported %d behaviours" % len(behs))
  st = core.replay(ctx, ADAPTER, behs, params=params, chunk=50,
                   nontrivial=lambda b: any(s["a"] == "LaunchCall" for s in b))
  ctx.notes["replay_sim"] = dict(stats(behs), **st)
  ok = set(core.replay.last_ok)
  pool += [b for i, b in enumerate(behs) if i in ok]
  # ---- 3c. negative control: a behaviour with exchanged expectations must be reported
  cands = [b for b in pool if sum(1 for s in b if s["a"] == "LaunchCall") >= 2]
  rnd.shuffle(cands)
  probes = [x for x in (_corrupt_behaviour(b) for b in cands[:3]) if x]
  if len(probes) < 1 and not ctx.violations:
    raise core.Machinery("no behaviour with two launches was replayed to the end")
  if probes:
    p = _Probe()
    core.replay(p, ADAPTER, probes, params=params, procs=1)
    if len(p.reports) != len(probes):
      raise core.Machinery("negative control: %d corrupted behaviours, %d reported" % (len(probes), len(p.reports)))
    ctx.notes["replay_negative_controls"] = len(probes)

  timing["replay"] = round(time.time() - t1, 1)
  # ---- 4. code -> spec, second half: TLC's verdict on the recorded traces
  r, rej = tv
  ctx.add_model("TraceBoot (validation of %d implementation traces)" % ntr, r)
  rejected = set(t for t, _ in rej)
  for k in range(len(bads)):
    if len(traces) + k not in rejected:
      raise tlc.TLCError("negative control %d (corrupted trace) was accepted by the trace spec" % k)
  nrej = 0
  for t, matched in rej:
    if t >= len(traces):
      continue
    nrej += 1
    tr = traces[t]
    ev = tr["ev"][matched] if matched < len(tr["ev"]) else {"k": "?"}
    sig = dict(action="trace", via=tr["via"], event=ev["k"])
    if ev["k"] == "End":
      sig["res"] = ev["end"]["res"]
      sig["msg"] = ev["end"]["msg"]
    ctx.report(sig, dict(trace=tr, failing_event=matched, note="TLC rejected the trace at this event"))
  ctx.traces += len(traces)
  for t in traces:
    ctx.case(core.fp([t["argv"], t["via"], t["existing"]]),
             nontrivial=any(e["k"] == "Call" for e in t["ev"]), sample=None)
  ctx.notes["trace_validation"] = dict(
      traces=len(traces), events=sum(len(t["ev"]) for t in traces), rejected=nrej,
      negative_controls_rejected=len(bads),
      with_launch=sum(1 for t in traces if any(e["k"] == "Call" for e in t["ev"])),
      results=_count(t["ev"][-1]["end"]["res"] for t in traces))
  ctx.exhaustive = True


def _count(xs):
  d = {}
  for x in xs:
    d[x] = d.get(x, 0) + 1
  return d


def _corrupt_traces(traces, rnd):
  """negative controls: (1) two different launch calls exchanged, (2) one argument value changed, (3) a call removed"""
  out = []
  cands = [t for t in traces if sum(1 for e in t["ev"] if e["k"] == "Call") >= 2]
  for t in cands:
    b = copy.deepcopy(t)
    ix = [i for i, e in enumerate(b["ev"]) if e["k"] == "Call"]
    if b["ev"][ix[0]]["call"] != b["ev"][ix[1]]["call"]:
      b["ev"][ix[0]], b["ev"][ix[1]] = b["ev"][ix[1]], b["ev"][ix[0]]
      out.append(b)
      break
  for t in traces:
    ix = [i for i, e in enumerate(t["ev"]) if e["k"] == "Call" and e["call"]["args"]]
    if ix:
      b = copy.deepcopy(t)
      b["ev"][ix[-1]]["call"]["args"][0][2] += "x"
      out.append(b)
      break
  for t in cands:
    b = copy.deepcopy(t)
    ix = [i for i, e in enumerate(b["ev"]) if e["k"] == "Call"]
    del b["ev"][ix[0]]
    out.append(b)
    break
  if len(out) < 3:
    raise core.Machinery("could not build the negative controls (%d)" % len(out))
  return out


# --------------------------------------------------------------------------
# code -> spec driver

LITS = ["0", "1", "2", "3", "5", "7", "True", "False", "None", "1.5", "[1, 2]", "0x10", "'q'", "-7"]
NOTLITS = ["abc", "", "a=b", "010", "true", "yes", "no"]
POXOPTS = [("verbose", None), ("verbose", "False"), ("verbose", "yes"), ("no_openflow", None), ("no_openflow", "0"),
           ("unthreaded_sh", None), ("epoll_sh", "1"), ("handle_signals", "False"), ("debug", None), ("debug", "0"),
           ("x15_tag", "abc"), ("x15_tag", None), ("enable_openflow", "no"), ("threaded_selecthub", "0"),
           ("epoll_selecthub", "true"), ("log_config", "okcfg"), ("log_config", "nofile"), ("log_config", None),
           ("bogus", None), ("set", "1"), ("_verbose", None), ("help", None), ("version", None)]
GOOD = ["a", "b", "c", "lg", "d", "h", "k", "kp", "s", "p", "pp"]
BAD = ["e", "f", "g", "m", "n", "nm", "u", "w"]


def _tok_c(n, f="", v=None):
  return {"t": "c", "n": n, "f": f, "hv": v is not None, "v": v or ""}


def _tok_o(k, v=None):
  return {"t": "o", "n": k, "f": "", "hv": v is not None, "v": v or ""}


def gen_tokens(rnd, cat):
  toks = []
  for _ in range(rnd.choice([0, 0, 0, 1, 1, 2, 3])):
    k, v = rnd.choice(POXOPTS[:16] if rnd.random() < 0.8 else POXOPTS)
    toks.append(_tok_o(k, v))
  used = set()
  ncomp = rnd.choice([1, 2, 2, 3, 3, 4, 5])
  for _ in range(ncomp):
    n = rnd.choice(GOOD if rnd.random() < 0.92 else BAD)
    if n in used and n not in ("c", "lg") and rnd.random() < 0.75:       # mostly avoid "does not accept multiple instances"
      n = rnd.choice([g for g in GOOD if g not in used] or GOOD)
    used.add(n)
    fns = cat[n]["fns"] if isinstance(cat[n]["fns"], dict) else {}
    f = ""
    x = rnd.random()
    if x < 0.25 and fns:
      f = rnd.choice(sorted(fns))
    elif x < 0.27:
      f = "nope"
    sig = fns.get(f or "launch")
    v = None
    if rnd.random() < (0.6 if sig and sig["nreq"] else 0.2):
      v = rnd.choice(LITS + NOTLITS)
    toks.append(_tok_c(n, f, v))
    keys = [p for p in (sig["pos"] if sig else []) if p != "__INSTANCE__"]
    for _ in range(rnd.choice([0, 0, 1, 1, 2, 3])):
      if keys and rnd.random() < 0.9:
        k = rnd.choice(keys)
      else:
        k = rnd.choice(["x", "y", "q", "r", "v", "w", "p", "zz", "no_openflow"])
      toks.append(_tok_o(k, rnd.choice(LITS + NOTLITS) if rnd.random() < 0.8 else None))
  return toks[:12]


def drive(arg):
  seed, cat = arg
  from harness.adapters_x15 import record
  rnd = random.Random(seed)
  toks = gen_tokens(rnd, cat)
  via = "boot" if rnd.random() < 0.25 else "launch"
  existing = via == "launch" and rnd.random() < 0.2
  return record(cat, toks, via=via, existing=existing, seed=seed)


# --------------------------------------------------------------------------
# demonstrations for notes/X15.md (not part of the check)

def _demo_ctx():
  return core.Context("X15", "demo", 0, "model_checking", clear=False)


def strict():
  """the intended design (Dev = {}) against the real code: behaviours exported from the strict model are replayed,
  and implementation traces are validated against the strict trace spec - every deviation is rejected"""
  from harness import x15_env as xe
  ctx = _demo_ctx()
  r = tlc.run("boot", "MCBoot", "MC_QuickSx.cfg", workers=1, tag="X15", timeout=3000)
  cat = r.tagged("CAT")[0]
  behs = [norm(b) for b in r.tagged("H")]
  st = core.replay(ctx, ADAPTER, behs, params=dict(cat=cat, seed=0), chunk=100)
  print("MC_QuickSx (Dev = {}): %d behaviours replayed on the real code: %s" % (len(behs), st))
  seen = {}
  for sig, rep in ctx.violations:
    k = core.canon(sig)
    seen[k] = seen.get(k, 0) + 1
    if seen[k] == 1 and rep:
      b = rep["behaviour"]
      print(" e.g.", " ".join(xe.render(b[0]["args"]["argv"], cat, 0, xe.setup_paths())))
      print("      step %d %s %s" % (rep["failing_step"], b[rep["failing_step"]]["a"], b[rep["failing_step"]]["args"]))
      print("      expected", json.dumps(rep["expected"])[:260])
      print("      observed", json.dumps(rep["observed"])[:260])
  for k, n in sorted(seen.items()):
    print(" %5d  %s" % (n, k))
  traces = core.run_driver("props.X15:drive", [(i, cat) for i in range(600)], procs=4)
  strings = [t.pop("strings") for t in traces]
  _, rej = tracecheck.validate("boot", "TraceBoot", "TraceStrict.cfg", traces, tag="X15")
  print("TraceStrict.cfg: %d of %d implementation traces rejected by the intended design, e.g." % (len(rej), len(traces)))
  for t, m in rej[:6]:
    print("   %-60s at event %d %s" % (" ".join(strings[t]), m, traces[t]["ev"][m]["k"]))
  _, rej = tracecheck.validate("boot", "TraceBoot", "Trace.cfg", traces, tag="X15")
  print("Trace.cfg (as built): %d rejected" % len(rej))


def bites():
  """each property that only the intended design has is violated by the as-built model"""
  import re
  for inv in ["OnceEach", "InstanceNumbers", "TopLevelFound", "InnerErrorsPropagate", "EvalAll"]:
    r = tlc.run("boot", "MCBoot", "BITE_%s.cfg" % inv, workers=1, coverage=False, tag="X15", expect_violation=True)
    print(inv, "violated by the as-built model:", r.violated == inv)
    if r.violated:
      tail = r.error_trace[r.error_trace.rindex("/\\ argv"):]
      tail = tail[:tail.index("\n/\\", 3)] if "\n/\\" in tail[3:] else tail[:600]
      toks = re.findall(r'\[f \|-> "([^"]*)", n \|-> "([^"]*)", t \|-> "(.)", v \|-> "([^"]*)", hv \|-> (\w+)\]', tail)
      print("   command line:", " ".join(
          (n + (":" + f if f else "") if t == "c" else "--" + n) + ("=" + v if hv == "TRUE" else "")
          for f, n, t, v, hv in toks))


if __name__ == "__main__":
  {"strict": strict, "bites": bites}[sys.argv[1]]()
