"""C06 - cooperative scheduler: Sched.tla model-checked (safety + liveness),
behaviours exported by TLC replayed on the real recoco Scheduler/SelectHub with a
virtual clock, in both select-hub modes."""
import copy

from engine import tlc, core

ADAPTER = "harness.adapters_c06:Adapter"
ENV_Q = ["Setup", "Cycle", "HubSelect", "QAdvance", "QFdSet", "QFdClear", "QWakeST", "QWakeST2",
         "QWakeDirect"]


def prep(behs):
  for b in behs:
    for st in b:
      e = st["exp"]
      if "reg" in e:
        e["reg"] = sorted(e["reg"])
        e["alive"] = sorted(e["alive"])
  return behs


def negative_control(ctx, beh, params):
  """corrupt one expectation of a conforming behaviour: replay must report it"""
  bad = copy.deepcopy(beh)
  for st in reversed(bad):
    if st["a"] == "Cycle" and st["exp"]["ran"]:
      st["exp"]["ran"][0][2] = "timeout" if st["exp"]["ran"][0][2] != "timeout" else "none"
      st["alts"] = []
      break
  else:
    return False
  c2 = core.Context(ctx.pid, ctx.tier, ctx.seed, ctx.level)
  c2.known = []
  core.replay(c2, ADAPTER, [bad], params=params, procs=1)
  if not c2.violations:
    raise core.Machinery("negative control: corrupted expectation was not reported")
  return True


def model_check(ctx, cfg, actions=None, timeout=1500, cov=True, res=None):
  r = res or tlc.run("recoco", "MCSched", cfg, tag=ctx.pid, timeout=timeout, coverage=cov)
  if r.violated:
    raise tlc.TLCError("Sched.tla violates %s in %s:\n%s" % (r.violated, cfg, r.error_trace[:3000]))
  if actions:
    tlc.require_coverage(r, actions, cfg)
  ctx.add_model("Sched " + cfg, r)
  return r


def export_edges(ctx, cfg, params, cap=None, res=None):
  r = res or tlc.run("recoco", "MCSched", cfg, workers=1, coverage=False, tag=ctx.pid, timeout=1500)
  behs = prep(r.tagged("T"))
  if not behs:
    raise tlc.TLCError("no behaviours exported by " + cfg)
  nall = len(behs)
  if cap and len(behs) > cap:
    import random
    rnd = random.Random(ctx.seed)
    behs = rnd.sample(behs, cap)
  st = core.replay(ctx, ADAPTER, behs, params=params, nontrivial=lambda b: len(b) > 1)
  ctx.notes["replay " + cfg + (" (epoll)" if params.get("epoll") else "")] = dict(
      behaviours=len(behs), exported=nall, tlc_s=round(r.wall, 1), **st)
  return behs


def simulate(ctx, cfg, num, depth, params, seed_off=0, res=None):
  r = res or tlc.run(**sim_job(ctx, cfg, num, depth, seed_off))
  behs = prep(r.tagged("H"))
  if len(behs) < num // 2:
    raise tlc.TLCError("simulation %s exported only %d behaviours" % (cfg, len(behs)))
  st = core.replay(ctx, ADAPTER, behs, params=params, chunk=25, nontrivial=lambda b: len(b) > 1)
  ctx.notes["replay " + cfg] = dict(behaviours=len(behs), depth=depth, **st)
  return behs


def sim_job(ctx, cfg, num, depth, seed_off=0):
  return dict(spec_dir="recoco", module="MCSched", cfg=cfg, workers=1, coverage=False, simulate=dict(num=num),
              depth=depth + 1, seed=ctx.seed + 11 + seed_off, tag=ctx.pid, timeout=1500)


def mc_job(ctx, cfg, cov=True):
  return dict(spec_dir="recoco", module="MCSched", cfg=cfg, tag=ctx.pid, timeout=2400, coverage=cov, workers=4)


def ex_job(ctx, cfg):
  return dict(spec_dir="recoco", module="MCSched", cfg=cfg, workers=1, coverage=False, tag=ctx.pid, timeout=2400)


def run(ctx):
  quick = ctx.tier == "quick"
  ctx.rule = ("behaviours exported by TLC from specs/recoco/Sched.tla (one per transition of the "
              "reduced-interleaving state graph, plus -simulate runs of the full next-state relation) "
              "replayed on the real Scheduler/SelectHub/Timer/Again/ScheduleTask with a virtual clock; "
              "after every action the ready deque, hub registrations, incoming queue, clock, pinger/event "
              "state, live tasks, timer firings and every executed task step (task, step, value received) "
              "are compared with the spec; distinct = distinct action/argument sequences; non-trivial = "
              "at least one action after Setup")
  ctx.assumptions = [
      "task programs: sequences of <=2 ops (<=3 over a smaller vocabulary) for 2-3 tasks; delays {0,1,2}; one fd",
      "both select implementations: select.select and pox.lib.epoll_select.EpollSelect (use_epoll)",
      "scheduler stepped by the harness (cycle(), SelectHub._select, idle()); select() replaced by a polling "
      "shim that advances the virtual clock; threaded hub mode is stepped, not run on a real thread (C07 covers threads)",
      "task priorities below 1: the scheduler's random draws are an input scripted by the spec (k consecutive "
      "heads sent to the back of the deque, then one resumed; 2-3 low-priority tasks, sub-functions inherit); "
      "CallBlocking is not modelled; Recv/Send are driven with scripted sockets (full / 1-byte / would-block writes)",
      "Timer objects (Timers.tla): delays 0..3 virtual seconds, <=1 timer exhaustively (2 in thorough, 3 in simulation)"]
  pi = dict(threaded=False, nlocks=1)
  pt = dict(threaded=True, nlocks=1)
  ENVT = ENV_Q + ["QIdle"]
  TIM = ["StartTimer", "CancelTimer", "Cycle", "HubSelect"]
  FULL = ["Cycle", "HubSelect", "WakeST", "WakeDirect", "FdSet", "Advance"]
  # (cfg, coverage actions or None for liveness runs)
  mcs = [("MCQ_Q1i.cfg", ENV_Q), ("MCQ_Q1t.cfg", ENVT), ("MC_Ti.cfg", TIM),
         ("MCQ_S2i.cfg", ["Setup", "Cycle", "HubSelect"]), ("MCQ_N2i.cfg", ["Setup", "Cycle", "HubSelect"]), ("MCQ_IO1i.cfg", ["Setup", "Cycle", "HubSelect", "QFdSet"]),
         ("MCQ_RW2i.cfg", ["Setup", "Cycle", "HubSelect", "QFdSet"]),
         # tasks with priority < 1 (Scheduler.cycle's head selection: k tasks sent to the back, then one resumed)
         ("MCQ_P3qi.cfg", ["Setup", "Cycle", "HubSelect", "QWakeST", "QWakeDirect"]),
         ("LIVE_i.cfg", None), ("LIVE_t.cfg", None)]
  if not quick:
    mcs += [("MCQ_P2i.cfg", ["Setup", "Cycle", "HubSelect"]), ("MCQ_P3i.cfg", ["Setup", "Cycle", "HubSelect"]),
            ("MC_Tt.cfg", TIM + ["Idle"]), ("MC_Q1i.cfg", FULL), ("MC_Q1t.cfg", FULL + ["Idle"])]
  # (cfg, adapter params, cap in quick)
  exs = [("EX_Q1i.cfg", pi, 1600), ("EX_Q1t.cfg", pt, 1300), ("EX_S2i.cfg", pi, 1800),
         ("EX_IO1i.cfg", pi, 1300), ("EX_IO2si.cfg", pi, 1000),
         # sub-functions that call sub-functions (nested Again): results and exceptions reach exactly the caller
         ("EX_N2i.cfg", pi, 1000),
         ("EX_Ti.cfg", pi, 1200), ("EX_Tt.cfg", pt, 1000),
         # the same hub with use_epoll=True: pox.lib.epoll_select.EpollSelect must behave like select()
         ("EX_IO1i.cfg", dict(pi, epoll=True), 1000),
         # read and write interest in the same socket (two tasks / one after the other), both select implementations
         ("EX_RW2i.cfg", pi, 900), ("EX_RW2i.cfg", dict(pi, epoll=True), 900), ("EX_RW2t.cfg", dict(pt, epoll=True), 600),
         # priorities below 1: 2 tasks (both low) and 3 tasks (all low); the random draws are scripted by the spec
         ("EX_P2qi.cfg", pi, 1000), ("EX_P3qi.cfg", pi, 1000)]
  if not quick:
    exs += [("EX_P2i.cfg", pi, 60000), ("EX_P2ai.cfg", pi, 60000), ("EX_P3i.cfg", pi, 60000), ("EX_P3ai.cfg", pi, 60000),
            ("EX_N2t.cfg", pt, 2000), ("EX_S2t.cfg", pt, 2000), ("EX_IO2st.cfg", pt, 1500), ("EX_Q1t.cfg", dict(pt, epoll=True), 1500)]
  # (two tasks x all 2-op programs is ~3k set-ups and millions of transitions: covered by simulation instead)
  n = 100 if quick else 2500
  sims = [("SIM_A2i.cfg", n, 14, pi, 0), ("SIM_A2t.cfg", n, 14, pt, 0), ("SIM_B3i.cfg", n, 14, pi, 0),
          ("SIM_B3t.cfg", n, 14, pt, 0)]
  if not quick:
    sims += [("SIM_A2i_deep.cfg", 1500, 40, pi, 5), ("SIM_B3t_deep.cfg", 1500, 40, pt, 6),
             ("SIM_A2i.cfg", 4000, 14, dict(pi, epoll=True), 7), ("SIM_A2t.cfg", 4000, 14, pt, 8)]
  # the Timer class in full (specs/keepalive/Timers.tla, shared with the keepalive extension X04): one-shot and
  # recurring, relative and absolute, created stopped and started later (started=False), cancel, a callback that
  # returns False or raises - its own model run, edge cover and simulation, replayed on the real Timer
  from props import X04
  tjobs = [dict(X04.mc_job("MC_T1.cfg", "MCTimers", short=True), tag=ctx.pid),
           dict(X04.ex_job("EX_T1.cfg", "MCTimers"), tag=ctx.pid),
           dict(X04.sim_job(ctx, "SIM_T.cfg", "MCTimers", 60 if quick else 1200, 40, 0), tag=ctx.pid)]
  if not quick:
    tjobs.append(dict(X04.ex_job("EX_T2e.cfg", "MCTimers"), tag=ctx.pid))
  # all TLC runs are independent: run them concurrently, then replay
  jobs = [mc_job(ctx, c, cov=a is not None) for c, a in mcs] + [ex_job(ctx, c) for c, _, _ in exs] + \
         [sim_job(ctx, c, num, d, so) for c, num, d, _, so in sims] + tjobs
  import time as _t
  _t0 = _t.time()
  res = tlc.run_many(jobs, parallel=8)
  ctx.notes["tlc_stage_s"] = round(_t.time() - _t0, 1)
  # the parsed TLC output is a large, static heap that every replay worker inherits by fork: collect once here and
  # keep it out of the collector's way, instead of letting each worker of each replay call walk it again
  import gc
  gc.collect()
  gc.freeze()
  k = 0
  for c, a in mcs:
    model_check(ctx, c, a, res=res[k])
    k += 1
  first = True
  for c, prm, cap in exs:
    b = export_edges(ctx, c, prm, cap=cap if quick else (cap if cap > 50000 else None), res=res[k])
    k += 1
    if "_P" in c:       # vacuity guard of the priority dimension: the head must really have been passed over
      ks = set(s["args"].get("k", 0) for x in b for s in x if s["a"] == "Cycle")
      need = {1} if "P2ai" in c else {1, 2}      # (with a single low-priority task there is never a second one to pass over)
      if not need <= ks:
        raise core.Machinery("%s: no behaviour sends a low-priority task to the back (k = %s)" % (c, sorted(ks)))
    if first:
      first = False
      okb = [b[i] for i in core.replay.last_ok if any(s["a"] == "Cycle" and s["exp"]["ran"] for s in b[i])]
      if okb:
        negative_control(ctx, max(okb, key=len), pi)
  for c, num, d, prm, so in sims:
    simulate(ctx, c, num, d, prm, so, res=res[k])
    k += 1
  # Timer stage
  r = res[k]
  if r.violated:
    raise tlc.TLCError("Timers.tla violates %s:\n%s" % (r.violated, r.error_trace[:3000]))
  tlc.require_coverage(r, X04.ACT_T, "MC_T1.cfg")
  ctx.add_model("Timers MC_T1.cfg", r)
  nall, behs = X04.take(ctx, res[k + 1], "T", 2500 if quick else None)
  behs = X04.replay_set(ctx, "Timers EX_T1.cfg", X04.AD_T, nall, behs, dict(direct="mix"))
  oks = [behs[i] for i in core.replay.last_ok]
  oks = [b for b in oks if X04.corrupt_t(copy.deepcopy(b))]
  if not (oks and X04.negative_control(ctx, X04.AD_T, max(oks, key=len), dict(direct="mix"), X04.corrupt_t)):
    raise core.Machinery("negative control of the Timer replay could not be run")
  nall, behs = X04.take(ctx, res[k + 2], "H", None)
  X04.replay_set(ctx, "Timers SIM_T.cfg", X04.AD_T, nall, behs, dict(direct="mix"), chunk=20)
  if not quick:
    nall, behs = X04.take(ctx, res[k + 3], "T", 20000)
    X04.replay_set(ctx, "Timers EX_T2e.cfg", X04.AD_T, nall, behs, dict(direct="mix"))
  ctx.exhaustive = False
