"""C06 - cooperative scheduler: Sched.tla model-checked (safety + liveness),
behaviours exported by TLC replayed on the real recoco Scheduler/SelectHub with a
virtual clock, in both select-hub modes."""
import copy

from engine import tlc, core

ADAPTER = "harness.adapters_c06:Adapter"
ENV_Q = ["Setup", "Cycle", "HubSelect", "QAdvance", "QFdSet", "QFdClear", "QWakeST", "QWakeST2",
         "QWakeDirect"]


def prep(behs):
  for b in behs:
    for st in b:
      e = st["exp"]
      if "reg" in e:
        e["reg"] = sorted(e["reg"])
        e["alive"] = sorted(e["alive"])
  return behs


def negative_control(ctx, beh, params):
  """corrupt one expectation of a conforming behaviour: replay must report it"""
  bad = copy.deepcopy(beh)
  for st in reversed(bad):
    if st["a"] == "Cycle" and st["exp"]["ran"]:
      st["exp"]["ran"][0][2] = "timeout" if st["exp"]["ran"][0][2] != "timeout" else "none"
      st["alts"] = []
      break
  else:
    return False
  c2 = core.Context(ctx.pid, ctx.tier, ctx.seed, ctx.level)
  c2.known = []
  core.replay(c2, ADAPTER, [bad], params=params, procs=1)
  if not c2.violations:
    raise core.Machinery("negative control: corrupted expectation was not reported")
  return True


def model_check(ctx, cfg, actions=None, timeout=1500, cov=True):
  r = tlc.run("recoco", "MCSched", cfg, tag=ctx.pid, timeout=timeout, coverage=cov)
  if r.violated:
    raise tlc.TLCError("Sched.tla violates %s in %s:\n%s" % (r.violated, cfg, r.error_trace[:3000]))
  if actions:
    tlc.require_coverage(r, actions, cfg)
  ctx.add_model("Sched " + cfg, r)
  return r


def export_edges(ctx, cfg, params, cap=None):
  r = tlc.run("recoco", "MCSched", cfg, workers=1, coverage=False, tag=ctx.pid, timeout=1500)
  behs = prep(r.tagged("T"))
  if not behs:
    raise tlc.TLCError("no behaviours exported by " + cfg)
  if cap and len(behs) > cap:
    import random
    rnd = random.Random(ctx.seed)
    behs = rnd.sample(behs, cap)
  st = core.replay(ctx, ADAPTER, behs, params=params, nontrivial=lambda b: len(b) > 1)
  ctx.notes["replay " + cfg] = dict(behaviours=len(behs), **st)
  return behs


def simulate(ctx, cfg, num, depth, params, seed_off=0):
  r = tlc.run("recoco", "MCSched", cfg, workers=1, coverage=False, simulate=dict(num=num),
              depth=depth + 1, seed=ctx.seed + 11 + seed_off, tag=ctx.pid, timeout=1500)
  behs = prep(r.tagged("H"))
  if len(behs) < num // 2:
    raise tlc.TLCError("simulation %s exported only %d behaviours" % (cfg, len(behs)))
  st = core.replay(ctx, ADAPTER, behs, params=params, chunk=25, nontrivial=lambda b: len(b) > 1)
  ctx.notes["replay " + cfg] = dict(behaviours=len(behs), depth=depth, **st)
  return behs


def run(ctx):
  quick = ctx.tier == "quick"
  ctx.rule = ("behaviours exported by TLC from specs/recoco/Sched.tla (one per transition of the "
              "reduced-interleaving state graph, plus -simulate runs of the full next-state relation) "
              "replayed on the real Scheduler/SelectHub/Timer/Again/ScheduleTask with a virtual clock; "
              "after every action the ready deque, hub registrations, incoming queue, clock, pinger/event "
              "state, live tasks, timer firings and every executed task step (task, step, value received) "
              "are compared with the spec; distinct = distinct action/argument sequences; non-trivial = "
              "at least one action after Setup")
  ctx.assumptions = [
      "task programs: sequences of <=2 ops (<=3 over a smaller vocabulary) for 2-3 tasks; delays {0,1,2}; one fd",
      "scheduler stepped by the harness (cycle(), SelectHub._select, idle()); select() replaced by a polling "
      "shim that advances the virtual clock; threaded hub mode is stepped, not run on a real thread (C07 covers threads)",
      "sub-unit task priorities (randomised by design) and CallBlocking are not modelled"]
  pi = dict(threaded=False, nlocks=1)
  pt = dict(threaded=True, nlocks=1)
  # 1. the property on the model
  model_check(ctx, "MCQ_Q1i.cfg", ENV_Q)
  model_check(ctx, "MCQ_Q1t.cfg", ENV_Q + ["QIdle"])
  model_check(ctx, "MC_Ti.cfg", ["StartTimer", "CancelTimer", "Cycle", "HubSelect"])
  model_check(ctx, "MCQ_S2i.cfg", ["Setup", "Cycle", "HubSelect"])
  if not quick:
    model_check(ctx, "MC_Tt.cfg", ["StartTimer", "CancelTimer", "Cycle", "HubSelect", "Idle"])
    model_check(ctx, "MC_Q1i.cfg", ["Cycle", "HubSelect", "WakeST", "WakeDirect", "FdSet", "Advance"])
    model_check(ctx, "MC_Q1t.cfg", ["Cycle", "HubSelect", "WakeST", "WakeDirect", "FdSet", "Advance", "Idle"])
  # liveness (no state constraint, weak fairness of Cycle and HubSelect only)
  model_check(ctx, "LIVE_i.cfg", cov=False)
  model_check(ctx, "LIVE_t.cfg", cov=False)
  # 2. spec -> code
  b = export_edges(ctx, "EX_Q1i.cfg", pi, cap=6000 if quick else None)
  okb = [b[i] for i in core.replay.last_ok if any(s["a"] == "Cycle" and s["exp"]["ran"] for s in b[i])]
  if okb:
    negative_control(ctx, max(okb, key=len), pi)
  export_edges(ctx, "EX_Q1t.cfg", pt, cap=6000 if quick else None)
  # every 2-op program of the full vocabulary on a single task (value/exception delivery at each resume)
  export_edges(ctx, "EX_S2i.cfg", pi, cap=8000 if quick else None)
  export_edges(ctx, "EX_S2t.cfg", pt, cap=4000 if quick else None)
  export_edges(ctx, "EX_Ti.cfg", pi, cap=3000 if quick else None)
  export_edges(ctx, "EX_Tt.cfg", pt, cap=3000 if quick else None)
  if not quick:
    export_edges(ctx, "EX_Q2i.cfg", pi, cap=60000)
  n = 150 if quick else 2500
  simulate(ctx, "SIM_A2i.cfg", n, 14, pi)
  simulate(ctx, "SIM_A2t.cfg", n, 14, pt)
  simulate(ctx, "SIM_B3i.cfg", n, 14, pi)
  simulate(ctx, "SIM_B3t.cfg", n, 14, pt)
  if not quick:
    simulate(ctx, "SIM_A2i_deep.cfg", 1500, 40, pi, 5)
    simulate(ctx, "SIM_B3t_deep.cfg", 1500, 40, pt, 6)
  ctx.exhaustive = False
