"""X16 - Nicira role requests on the software switch (pox/datapaths/nx_switch.py, NXSoftwareSwitch).

specs/nxrole/NxRole.tla is model-checked (intended design Dev = {} with every property; the as-built models -
HEAD, HEAD + decoder supplied, HEAD + decoder + ofp_vendor alias - with the properties that survive), behaviours
exported by TLC (edge cover of the abstract state graph + deep random walks) are replayed on a real
NXSoftwareSwitch with several real OFConnection objects over OpenFlow bytes (harness/adapters_x16.py) with the
messages seen on EVERY connection, the emitted frames and the projected state compared after every step, and
traces recorded from the real code by a seeded random driver are validated by TLC (TraceNxRole.tla), with
corrupted traces / expectations as negative controls.

`python -m props.X16 strict` = the strict demonstration of notes/X16.md (not part of the check).
"""
import copy
import json
import random

from engine import tlc, core, tracecheck

ADAPTER = "harness.adapters_x16:Adapter"
ACTIONS = ["AddConnection", "RoleRequest", "SetRole", "FlowAdd", "FlowDel", "PacketOut", "PortMod", "SetConfig",
           "Barrier", "Read", "BadStats", "Vendor", "Rx", "Expire", "Close"]
EXTRA = ["Hello", "PortEvent"]
HP_ACTIONS = ["AddConnection", "Hello", "PortEvent", "PortMod", "RoleRequest", "SetRole", "Read", "Rx", "Close"]
WORKERS = 4
MODES = {"asbuilt": 0, "shim1": 1, "shim2": 2}      # Dev constant of the cfg -> adapter shim level


def norm(beh):
  """sets arrive as JSON arrays in TLC's order: sort like the adapter does"""
  for st in beh:
    st["exp"]["emitted"] = sorted(st["exp"]["emitted"])
    st["exp"]["st"]["flows"] = sorted(st["exp"]["st"]["flows"])
  return beh


def has_role_request(beh):
  return any(st["a"] == "RoleRequest" for st in beh)


def _stratum(b):
  last = b[-1]
  pre = b[-2]["exp"]["st"] if len(b) > 1 else None
  c = last["args"]["c"]
  return (last["a"], last["args"]["s"], pre["roles"][c - 1] if pre and c else "-", bool(pre and pre["stuck"]))


def select(raws, mode, limit, seed):
  """decode exported behaviours; of the eligible ones keep all (limit None) or a seeded sample of `limit` in which
  every class of last step (action, argument, role of the sender, whether something is stale) is represented:
  classes are served round-robin until `limit` are taken.  Two passes, so that only the kept ones stay decoded."""
  groups = {}
  kept = []
  for i, raw in enumerate(raws):
    b = json.loads(json.loads(raw))
    if mode != "asbuilt" and not has_role_request(b):
      continue          # the shimmed models differ from HEAD only in what a role request does
    if limit is None:
      kept.append(norm(b))
    else:
      groups.setdefault(_stratum(b), []).append(i)
  if limit is None:
    return kept, len(kept)
  eligible = sum(len(g) for g in groups.values())
  rnd = random.Random(seed)
  keys = sorted(groups)
  for k in keys:
    rnd.shuffle(groups[k])
  idx = []
  while len(idx) < limit and keys:
    for k in list(keys):
      if groups[k]:
        idx.append(groups[k].pop())
        if len(idx) >= limit:
          break
      else:
        keys.remove(k)
  return [norm(json.loads(json.loads(raws[i]))) for i in sorted(idx)], eligible


class _Probe(object):
  """stand-in context for negative controls on the replay side"""
  def __init__(self):
    self.traces = 0
    self.reports = []

  def case(self, *a, **kw):
    pass

  def report(self, sig, replay):
    self.reports.append(sig)
    return "violation"


def _corrupt_behaviour(beh):
  """move the last message of the behaviour to another connection (or invent one if nothing was sent)"""
  bad = copy.deepcopy(beh)
  for st in reversed(bad):
    out = st["exp"]["out"]
    for i, o in enumerate(out):
      if o:
        out[(i + 1) % len(out)].append(o.pop())
        return bad
  bad[-1]["exp"]["out"][0].append({"m": "PACKET_IN", "x": "-", "v": "miss"})
  return bad


def _job(cfg, **kw):
  d = dict(spec_dir="nxrole", module="MCNxRole", cfg=cfg + ".cfg", tag="X16", timeout=3000)
  d.update(kw)
  return d


def run(ctx):
  quick = ctx.tier == "quick"
  ctx.rule = ("behaviours exported by TLC from NxRole.tla (edge cover: shortest path to every abstract state + each "
              "outgoing transition; plus -simulate walks) replayed on a real NXSoftwareSwitch with up to 3 real "
              "OFConnection objects over OpenFlow bytes; distinct = distinct action/argument sequences; "
              "non-trivial = at least one message from a connection or one dataplane event")
  ctx.assumptions = [
      "bounds: model runs with 2 connections (all features) and 3 connections (reduced constants); 2 flows, 2 miss lengths",
      "the as-built models (Dev = AsBuilt / Shim1 / Shim2) are what the real code is bound to; Dev = {} is the intended design "
      "(model-checked with every property; rejected by the real code - see notes/X16.md)",
      "shim 1/2: the harness supplies, in its own process, the decoder / the class name that _rx_vendor refers to and "
      "the library lacks; /repo is not touched",
      "OpenFlow bytes built/decoded by harness/rawbytes.py (struct only); request xids are drawn from 0x80000000.. so "
      "that they cannot coincide with xids the library generates"]
  rnd = random.Random(ctx.seed)

  # ---- 1. all TLC runs of the model / export stage, concurrently
  # edges: (cfg, model, connections, how many behaviours to replay (None = all))
  if quick:
    mc = [("MC_strict_N2q", ACTIONS), ("MC_asbuilt_N2q", ACTIONS), ("MC_asbuilt_N2h", HP_ACTIONS),
          ("MC_shim1_N2s", ACTIONS), ("MC_shim2_N2s", ACTIONS)]
    edges = [("EX_edges_asbuilt_N2s", "asbuilt", 2, 6000), ("EX_edges_shim1_N2s", "shim1", 2, 1500),
             ("EX_edges_shim2_N2s", "shim2", 2, 2500), ("EX_edges_asbuilt_N2h", "asbuilt", 2, 1500)]
    sims = [("EX_sim_asbuilt", "asbuilt", 60, 41), ("EX_sim_shim1", "shim1", 20, 41), ("EX_sim_shim2", "shim2", 30, 41)]
  else:
    mc = [("MC_strict_N2", ACTIONS + EXTRA), ("MC_strict_N3", ACTIONS), ("MC_asbuilt_N2", ACTIONS + EXTRA),
          ("MC_asbuilt_N3", ACTIONS), ("MC_asbuilt_N2h", HP_ACTIONS), ("MC_shim1_N2q", ACTIONS),
          ("MC_shim2_N2", ACTIONS + EXTRA), ("MC_shim2_N3s", ACTIONS)]
    edges = [("EX_edges_asbuilt_N2", "asbuilt", 2, 40000), ("EX_edges_shim1_N2s", "shim1", 2, None),
             ("EX_edges_shim2_N2s", "shim2", 2, None), ("EX_edges_asbuilt_N2h", "asbuilt", 2, None),
             ("EX_edges_asbuilt_N3a", "asbuilt", 3, 20000)]
    sims = [("EX_sim60_asbuilt", "asbuilt", 1500, 61), ("EX_sim60_shim1", "shim1", 300, 61),
            ("EX_sim60_shim2", "shim2", 700, 61)]
  jobs = [_job(c, workers=WORKERS) for c, _ in mc]
  jobs += [_job(c, workers=1, coverage=False) for c, _, _, _ in edges]
  jobs += [_job(c, workers=1, coverage=False, simulate=dict(num=n), depth=d, seed=ctx.seed + 1 + i)
           for i, (c, _, n, d) in enumerate(sims)]
  res = tlc.run_many(jobs, parallel=4 if quick else 5)
  k = 0
  for c, acts in mc:
    r = res[k]
    res[k] = None
    k += 1
    if r.violated:
      raise tlc.TLCError("spec violates its own property %s in %s:\n%s" % (r.violated, c, r.error_trace))
    tlc.require_coverage(r, acts, "NxRole " + c)
    ctx.add_model("NxRole " + c, r)

  # ---- 2. spec -> code: every transition of the abstract state graph (quick: a stratified seeded sample)
  first_ok = None
  for c, mode, nc, limit in edges:
    r = res[k]
    res[k] = None
    k += 1
    raws = r.tagged_raw("T")
    del r
    if not raws:
      raise tlc.TLCError("no behaviours exported by %s" % c)
    total = len(raws)
    behs, eligible = select(raws, mode, limit, ctx.seed)
    del raws
    st = core.replay(ctx, ADAPTER, behs, params=dict(NC=nc, shim=MODES[mode]), chunk=250,
                     nontrivial=lambda b: len(b) > 1)
    ctx.notes["replay_" + c] = dict(exported=total, eligible=eligible, replayed=len(behs), **st)
    if first_ok is None and core.replay.last_ok:
      cand = [behs[i] for i in core.replay.last_ok if len(behs[i]) >= 4]
      first_ok = (rnd.choice(cand), dict(NC=nc, shim=MODES[mode])) if cand else None
    del behs
  # negative control on the replay side
  if first_ok is None:
    raise tlc.TLCError("no behaviour replayed to the end: nothing to build the negative control from")
  p = _Probe()
  core.replay(p, ADAPTER, [_corrupt_behaviour(first_ok[0])], params=first_ok[1], procs=1)
  if not p.reports:
    raise tlc.TLCError("negative control: a behaviour with a misdirected message was accepted by the replay")
  ctx.notes["replay_negative_control_rejected"] = True

  # ---- 3. long random behaviours (3 connections, every feature)
  for c, mode, n, d in sims:
    r = res[k]
    k += 1
    behs = [norm(b) for b in r.tagged("H")]
    if len(behs) < n // 2:
      raise tlc.TLCError("simulation %s exported %d behaviours" % (c, len(behs)))
    st = core.replay(ctx, ADAPTER, behs, params=dict(NC=3, shim=MODES[mode]), chunk=10)
    ctx.notes["replay_" + c] = dict(behaviours=len(behs), depth=d - 1, **st)

  # ---- 4. code -> spec: random driver on the real switch, traces validated by TLC
  for mode, ntr in ([("asbuilt", 200), ("shim2", 100)] if quick else [("asbuilt", 3000), ("shim1", 600), ("shim2", 1500)]):
    items = [(ctx.seed * 100003 + i, 40 if quick else 60, MODES[mode]) for i in range(ntr)]
    traces = core.run_driver("props.X16:drive", items)
    bad = [corrupt_roles(traces[0]), corrupt_recipient(traces)]
    r, rej = tracecheck.validate("nxrole", "TraceNxRole", "Trace_%s.cfg" % mode, traces + bad, tag="X16")
    ctx.add_model("TraceNxRole %s (validation of %d implementation traces)" % (mode, ntr), r)
    rejected = set(t for t, _ in rej)
    for j in range(len(bad)):
      if len(traces) + j not in rejected:
        raise tlc.TLCError("negative control %d (%s) was accepted by the trace spec" % (j, mode))
    for t, matched in rej:
      if t >= len(traces):
        continue
      ev = traces[t][matched]
      ctx.report(dict(action=ev["a"], via="trace", mode=mode, arg=ev["args"]["s"], wf=ev["wf"]),
                 dict(trace=traces[t], failing_step=matched, mode=mode,
                      note="TLC rejected the trace at this event"))
    ctx.traces += len(traces)
    for t in traces[:2000]:
      ctx.case(core.fp([[e["a"], e["args"]] for e in t]), sample=None)
    ctx.notes["trace_validation_" + mode] = dict(traces=len(traces), events=sum(len(t) for t in traces),
                                                 rejected=len([t for t in rejected if t < len(traces)]),
                                                 negative_controls_rejected=len(bad))
  ctx.notes["constructor"] = ("NXSoftwareSwitch(dpid, ports=2) raises AttributeError at HEAD (send_port_status before "
                              "self.connections exists); the adapter falls back to ports=0 + add_port")
  ctx.exhaustive = True


# ---------------------------------------------------------------------------------------------------------------
# code -> spec driver

ROLES = ["other", "master", "slave"]
READS = ["echo", "features", "getconfig", "tablestats", "flowstats"]
NC = 3


def _wf(obs):
  try:
    if set(obs) != {"out", "emitted", "st"} or len(obs["out"]) != NC:
      return False
    for o in obs["out"]:
      for m in o:
        if set(m) != {"m", "x", "v"} or not all(isinstance(m[k], str) for k in m):
          return False
    st = obs["st"]
    return (set(st) == {"roles", "flows", "miss", "p2down", "port3", "stuck"} and len(st["roles"]) == NC and
            all(isinstance(x, str) for x in st["roles"]) and all(isinstance(x, str) for x in st["flows"]) and
            isinstance(st["miss"], int) and isinstance(st["p2down"], bool) and isinstance(st["port3"], bool) and
            isinstance(st["stuck"], int) and st["stuck"] >= 0 and all(isinstance(x, int) for x in obs["emitted"]))
  except Exception:
    return False


BLANK = dict(out=[[], [], []], emitted=[], st=dict(roles=["-", "-", "-"], flows=[], miss=0, p2down=False, port3=False, stuck=0))


def drive(arg):
  """Random operation sequence on the real switch; returns the recorded trace."""
  seed, n, shim = arg
  from harness.adapters_x16 import Adapter
  rnd = random.Random(seed)
  ad = Adapter(NC=NC, shim=shim)
  tr = []
  nconn, closed = 0, set()
  try:
    for _ in range(n):
      live = [c for c in range(1, nconn + 1) if c not in closed]
      k = rnd.random()
      a, c, s, v = None, 0, "-", 0
      if (k < 0.12 and nconn < NC) or not live and nconn < NC:
        a, c = "AddConnection", nconn + 1
      elif k < 0.30 or not live:
        a = rnd.choice(["Rx", "Rx", "Rx", "Expire", "PortEvent"])
        if a == "Rx":
          s = rnd.choice(["f1", "f2", "none", "none"])
      else:
        c = rnd.choice(live)
        a = rnd.choice(["RoleRequest", "SetRole", "SetRole", "FlowAdd", "FlowAdd", "FlowDel", "PacketOut", "PortMod",
                        "SetConfig", "Barrier", "Read", "Read", "BadStats", "Vendor", "Hello", "Close"])
        if a == "Close" and rnd.random() < 0.6:
          a = "Read"
        if a in ("RoleRequest", "SetRole"):
          s = rnd.choice(ROLES)
        elif a in ("FlowAdd", "FlowDel"):
          s = rnd.choice(["f1", "f2"])
        elif a == "PortMod":
          v = rnd.choice([0, 1])
        elif a == "SetConfig":
          v = rnd.choice([64, 128])
        elif a == "Read":
          s = rnd.choice(READS)
        elif a == "Vendor":
          s = rnd.choice(["foreign", "nxother"])
      args = dict(c=c, s=s, n=v)
      try:
        obs = ad.step(a, args)
        wf = _wf(obs)
      except Exception as e:      # an exception escaping the code under test is an observation no spec step yields
        obs, wf = None, False
      if not wf:
        obs = copy.deepcopy(BLANK)
      tr.append(dict(a=a, args=args, obs=obs, wf=wf))
      if not wf:
        break
      if a == "AddConnection":
        nconn += 1
      elif a == "Close":
        closed.add(c)
  finally:
    ad.close()
  return tr


def corrupt_roles(trace):
  """negative control: one projected role changed"""
  bad = copy.deepcopy(trace)
  for e in bad:
    if e["a"] != "AddConnection" and e["obs"]["st"]["roles"][0] != "-":
      r = e["obs"]["st"]["roles"]
      r[0] = "master" if r[0] != "master" else "slave"
      return bad
  raise tlc.TLCError("negative control: nothing to corrupt in trace 0")


def corrupt_recipient(traces):
  """negative control: one asynchronous message delivered to a different connection"""
  for t in traces:
    for i, e in enumerate(t):
      for ci, o in enumerate(e["obs"]["out"]):
        if any(m["m"] in ("PACKET_IN", "FLOW_REMOVED") for m in o) and e["obs"]["st"]["roles"].count("-") == 0:
          bad = copy.deepcopy(t)
          out = bad[i]["obs"]["out"]
          out[(ci + 1) % NC].append(out[ci].pop())
          return bad
  raise tlc.TLCError("negative control: no asynchronous message in any trace")


# ---------------------------------------------------------------------------------------------------------------
def strict_demo():
  """notes/X16.md: the intended design rejects every deviation, and the real code's traces."""
  print("== each deviation alone against the intended properties (3 connections)")
  for i in range(1, 11):
    r = tlc.run("nxrole", "MCNxRole", "MC_only%d.cfg" % i, workers=8, coverage=False, tag="X16", timeout=3000,
                expect_violation=True)
    print("  Only%d: %s" % (i, ("violates " + r.violated) if r.violated else "NOT REJECTED"))
  print("== traces of the real code (HEAD, no shim) against Dev = {}")
  traces = core.run_driver("props.X16:drive", [(7 * 100003 + i, 40, 0) for i in range(100)])
  r, rej = tracecheck.validate("nxrole", "TraceNxRole", "Trace_strict.cfg", traces, tag="X16")
  print("  %d of %d traces rejected; first unmatched events: %s" % (
      len(rej), len(traces), sorted(set(traces[t][m]["a"] for t, m in rej))))


if __name__ == "__main__":
  import sys
  sys.path.insert(0, core.VERIF)
  if sys.argv[1:] == ["strict"]:
    strict_demo()
