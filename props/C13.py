"""C13 - every switch request is answered once, with its xid, in order.

SwitchRPC.tla is model-checked (the property as action properties over every
transition), then bound to the real SoftwareSwitch in both directions:
spec -> code: behaviours exported by TLC (edge cover of the abstract state
graph, all paths to depth 2/3, long simulations) are replayed through
OFConnection bytes and every step's output stream is compared with the spec's;
code -> spec: random request histories delivered in multi-message, re-segmented
batches are recorded on the real switch and validated by TLC.

Pipelining is a dimension of the spec (Pipe / MaxBurst): a message may share the
switch's receive buffer with its successors (args.more), the spec then owes its
answer and states what the channel shows when the buffer is read (exp.see).
Malformed-length messages of every controller-to-switch type (BadLen) are part of
the alphabet, alone and inside bursts; every error names the message it quotes.
"""
import os
import copy
import random
import re

from engine import tlc, core, tracecheck

ADAPTER = "harness.adapters_c13:Adapter"
DIR, MOD = "switchrpc", "MCSwitchRPC"
ACTIONS = ["Hello", "EchoReq", "EchoReply", "FeaturesReq", "GetConfigReq", "SetConfig",
           "BarrierReq", "Vendor", "BadType", "BadLen", "Rx", "PacketOut", "FlowMod", "PortMod",
           "StatsDesc", "StatsFlow", "StatsAggr", "StatsTable", "StatsPort", "StatsQueue",
           "StatsVendor", "StatsUnknown", "QueueCfgReq"]
PROPS = ["AnsweredOnce", "NoReplyUnlessAsked", "NeverSilentWhenInvalid", "BarrierAfterEffects",
         "RepliesReflectState", "RequestsReadOnly", "ConfigSticks", "ErrorsRejectWhole",
         "Pipelined", "ErrorsQuoteRequest"]

# engine/tlc.py's coverage regex does not match TLC's line for an action whose
# definition starts with LET ("... of module M (261 3 305 56)>: n:m"); parse
# the per-action counts here (read-only use of the same TLC output).
_cov = re.compile(r"^<(\w+) line \d+, col \d+ to line \d+, col \d+ of module \w+(?: \([\d ]+\))?>: (\d+):(\d+)")


def require_coverage(res, what):
  cov = {}
  for ln in res.stdout.splitlines():
    m = _cov.match(ln)
    if m:
      a, b = int(m.group(2)), int(m.group(3))
      o = cov.get(m.group(1), (0, 0))
      cov[m.group(1)] = (o[0] + a, o[1] + b)
  missing = [a for a in ACTIONS if cov.get(a, (0, 0))[1] == 0]
  if missing:
    raise tlc.TLCError("vacuous model run %s: actions never taken: %s" % (what, missing))
  return cov


def model_check(ctx, runs):
  """runs: [(cfg, name)]; the TLC runs are independent and run side by side."""
  res = tlc.run_many([dict(spec_dir=DIR, module=MOD, cfg=cfg, tag="C13", timeout=1500) for cfg, _ in runs],
                     parallel=len(runs))
  for (cfg, name), r in zip(runs, res):
    if r.violated:
      raise tlc.TLCError("spec violates its own property %s (%s):\n%s" % (r.violated, cfg, r.error_trace[:3000]))
    require_coverage(r, name)
    ctx.add_model(name, r, properties=PROPS + ["TypeOK", "Ordered", "MatchedAccounted"])
  return res


def len_kinds():
  """the malformed-length kinds (k, cls) - read from the spec, the one source of truth."""
  src = open(os.path.join(tlc.SPECS, DIR, "SwitchRPC.tla")).read()
  ks = re.findall(r'LK\("([^"]+)",\s*"([^"]+)",\s*"[^"]+"\)', src)
  if len(ks) < 20:
    raise tlc.TLCError("cannot read the malformed-length kinds from SwitchRPC.tla")
  return ks


def tag_of(a, g):
  if a == "PacketOut":
    return "PacketOut-badbuf" if g["src"] in ("stale", "bogus") else "PacketOut-" + g["src"]
  if a == "FlowMod":
    if g["buf"] in ("stale", "bogus"):
      return "FlowMod-badbuf"
    return "FlowMod-addbad-" + g["buf"] if g["cmd"] == "addbad" else "FlowMod-" + g["cmd"]
  if a == "PortMod":
    return "PortMod-" + g["kind"]
  if a == "StatsReq":
    return "Stats-" + g["st"]
  if a == "BadLen":
    return "BadLen-" + g["cls"]
  return a


def stratified(behs, n, seed):
  """deterministic sample of ~n behaviours, spread over every (last action,
  arguments) class so that no transition kind is left out."""
  groups = {}
  for b in behs:
    g = dict(b[-1]["args"])
    g.pop("xid", None)
    groups.setdefault(core.canon([b[-1]["a"], g]), []).append(b)
  per = max(1, n // max(1, len(groups)))
  out = []
  for k in sorted(groups):
    bs = sorted(groups[k], key=lambda b: core.fp([[s["a"], s["args"]] for s in b]))
    step = max(1, len(bs) // per)
    out.extend(bs[(seed % step)::step])
  return out


def replay(ctx, name, behs, params, chunk=200):
  if not behs:
    raise tlc.TLCError("no behaviours exported for %s" % name)
  st = core.replay(ctx, ADAPTER, behs, params=params, chunk=chunk,
                   nontrivial=lambda b: any(s["a"] != "Hello" for s in b))
  ctx.notes["replay_" + name] = dict(behaviours=len(behs), steps=sum(len(b) for b in behs), **st)
  return st


SMALL = dict(NP=2, NB=1, MaxEntries=2, ResOut=65533)      # f3 outputs to OFPP_CONTROLLER


def run(ctx):
  quick = ctx.tier == "quick"
  sd = ctx.seed
  ctx.rule = ("behaviours exported by TLC from SwitchRPC.tla (one per transition of the abstract "
              "state graph = shortest path to the source state + the transition; every action "
              "sequence of length 2 (3 over a thinned alphabet in thorough); -simulate runs of "
              "length 40) are replayed on a real SoftwareSwitch behind a real OFConnection, bytes "
              "in / bytes out, and after EVERY step the decoded output stream (type, xid, payload "
              "essentials, error type/code/data) must equal one of the alternatives the spec "
              "allows; in the edge-cover runs the reported state is also read back through the "
              "wire after every step.  Pipelining is part of the spec: a step with args.more only "
              "writes the message into the switch's receive buffer, and the step that ends the burst "
              "hands the whole buffer to the switch in ONE read and compares the stream written with "
              "exp.see = the answers the spec owes to every message of the burst, in order (all pairs "
              "of messages, triples in thorough, random bursts of <= 3 in the simulations).  The alphabet "
              "includes messages whose length is wrong for their type (25 kinds over all request and "
              "command types); every ERROR is compared on type, code, xid and on WHICH message it quotes.  "
              "distinct = distinct action/argument sequences; "
              "non-trivial = contains an action other than HELLO")
  ctx.assumptions = [
      "bounds: 2 ports (3 in one thorough simulation), 1-2 packet buffers, flow table capacity 1-2, two fixed "
      "disjoint flows, one frame length (60); counters <= 1 (2) in the exhaustive runs, unbounded in simulation",
      "xids are symbols in the spec; each behaviour maps them injectively to boundary values "
      "(0, 1, 2^31-1, 2^31, 2^32-1, random) chosen from the seed",
      "replies are observed when the switch returns from reading a segment (the switch is synchronous); "
      "barrier replies are checked against a snapshot of the switch state taken at the moment the reply is written",
      "OpenFlow bytes built and decoded by harness/rawbytes.py (struct only, no POX code)",
      "where OpenFlow 1.0 leaves the answer open (port absent in port/queue statistics and queue config, "
      "several applicable error codes) the spec lists the alternatives; silence is never one of them",
      "PORT_STATUS / FLOW_REMOVED notifications are not replies and are ignored here (C04/C12)",
      "a message whose length field (>= 8) is wrong for its type must be answered by exactly one "
      "BAD_REQUEST/BAD_LEN error (BAD_ACTION/BAD_LEN also accepted for an embedded action length) with its "
      "xid, quoting it, and must have no effect; fixed-size messages with trailing bytes are counted as wrong "
      "(OFPBRC_BAD_LEN: 'wrong request length for type'); HELLO / ECHO bodies of any length are valid",
      "an error 'quotes' a message when its data starts with that message's 8-byte header (type, length, xid), "
      "holds at least min(64, length) bytes and no more than the message; bytes after the header are not compared",
      "frames arrive on the dataplane only between bursts (no order is defined between a frame and "
      "controller messages that are still unread in the receive buffer)",
  ]
  # 1. the property on the model ------------------------------------------------
  model_check(ctx, [("MC_smallq.cfg" if quick else "MC_small.cfg",
                     "SwitchRPC 2 ports, 1 buffer, table 2, counters<=1, 2 xids"),
                    ("MC_full1q.cfg" if quick else "MC_full1.cfg",
                     "SwitchRPC table capacity 1 (table-full answers)"),
                    ("MC_pipe.cfg", "SwitchRPC pipelined bursts of <= 3 messages in one receive buffer "
                                    "(2 xids, table 1, no dataplane traffic)")] +
              ([] if quick else [("MC_big.cfg", "SwitchRPC 2 buffers, counters<=2, 1 xid")]))
  # 2. spec -> code: every transition of the abstract graph (probe after each step)
  r = tlc.run(DIR, MOD, "EX_edges_cfg.cfg", workers=1, coverage=False, tag="C13")
  replay(ctx, "edges_config", r.tagged("T"), dict(seed=sd * 7 + 1, probe=True, **SMALL))
  # quick: TLC exports the transitions leaving a seed-chosen 1/8 of the states (every kind of
  # transition, from every slice of the state space), of which a stratified sample is replayed
  # (thorough: the transitions leaving a seed-chosen half of the states, all replayed;
  # EX_edges_tbl.cfg exports the whole graph, 124k behaviours, for runs without a time budget)
  r = tlc.run(DIR, MOD, "EX_edges_tblq.cfg" if quick else "EX_edges_tblh.cfg", workers=1, coverage=False,
              tag="C13", timeout=1500, env={"C13_SAMPLE_K": str(sd % 8 if quick else sd % 2)})
  behs = r.tagged("T")
  total = len(behs)
  if quick:
    behs = stratified(behs, 3500, sd)
  replay(ctx, "edges_table", behs, dict(seed=sd * 7 + 2, probe=True, **SMALL))
  ctx.notes["replay_edges_table"]["transitions_exported"] = total
  if not quick:
    r = tlc.run(DIR, MOD, "EX_edges_full1.cfg", workers=1, coverage=False, tag="C13", timeout=1500,
                env={"C13_SAMPLE_K": str(sd % 2)})      # half of the states of the capacity-1 graph
    replay(ctx, "edges_table_full1", r.tagged("T"),
           dict(seed=sd * 7 + 3, probe=True, NP=2, NB=1, MaxEntries=1, ResOut=65533))
  # 3. every action sequence of length 2 (3), without probes in between
  r = tlc.run(DIR, MOD, "EX_paths_D2.cfg", workers=1, coverage=False, tag="C13")
  replay(ctx, "all_paths_2", r.tagged("H"), dict(seed=sd * 7 + 4, **SMALL))
  if not quick:
    r = tlc.run(DIR, MOD, "EX_paths_D3.cfg", workers=1, coverage=False, tag="C13", timeout=1500)
    replay(ctx, "all_paths_3_thin", r.tagged("H"), dict(seed=sd * 7 + 5, **SMALL), chunk=500)
  # 3b. pipelining: every sequence of 2 (3) messages written into ONE receive buffer and read
  #     by the switch in one go (quick: over the thinned alphabet; thorough: full alphabet for
  #     pairs, a stratified sample of the thinned triples)
  r = tlc.run(DIR, MOD, "EX_burst_D2q.cfg" if quick else "EX_burst_D2.cfg", workers=1, coverage=False,
              tag="C13", timeout=1500)
  replay(ctx, "burst_2", r.tagged("H"), dict(seed=sd * 7 + 6, **SMALL))
  if not quick:
    r = tlc.run(DIR, MOD, "EX_burst_D3.cfg", workers=1, coverage=False, tag="C13", timeout=1500)
    behs = r.tagged("H")
    total = len(behs)
    replay(ctx, "burst_3_thin", stratified(behs, 30000, sd), dict(seed=sd * 7 + 7, **SMALL), chunk=500)
    ctx.notes["replay_burst_3_thin"]["paths_exported"] = total
  # 4. long random behaviours (full alphabet; and without the open-finding variants, so that
  #    histories really reach length 40 on a tree where those findings are open)
  num = 40 if quick else 1200
  for i, (cfg, params) in enumerate([("EX_sim.cfg", SMALL), ("EX_sim_deep.cfg", dict(SMALL, ResOut=65531))] +
                                    ([] if quick else [("EX_sim_big.cfg", dict(NP=3, NB=2, MaxEntries=1,
                                                                                ResOut=65534))])):
    r = tlc.run(DIR, MOD, cfg, workers=1, coverage=False, simulate=dict(num=num), depth=41,
                seed=sd + 1 + i, tag="C13", timeout=1500)
    behs = r.tagged("H")
    if len(behs) < num // 2:
      raise tlc.TLCError("simulation %s exported %d behaviours" % (cfg, len(behs)))
    replay(ctx, cfg[3:-4], behs, dict(seed=sd * 7 + 10 + i, **params), chunk=20)
  # 5. code -> spec: random histories in batches on the real switch, validated by TLC
  ntr = 150 if quick else 3000
  traces = core.run_driver("props.C13:drive", [(sd * 100003 + i, 40) for i in range(ntr)])
  bad, what = corrupt(traces)
  r, rej = tracecheck.validate(DIR, "TraceSwitchRPC", "Trace.cfg", traces + bad, tag="C13")
  ctx.add_model("TraceSwitchRPC (validation of %d implementation traces)" % ntr, r)
  rejected = dict(rej)
  for k in range(len(bad)):
    if len(traces) + k not in rejected:
      raise tlc.TLCError("negative control (%s) was accepted by the trace spec" % what[k])
  nrej = 0
  for t, matched in rej:
    if t >= len(traces):
      continue
    nrej += 1
    ev = traces[t][matched]
    sig = dict(action=ev["a"], tag=tag_of(ev["a"], ev["args"]), via="trace")
    for k in ("st", "cmd", "buf", "src", "kind"):
      if k in ev["args"]:
        sig[k] = ev["args"][k]
    if ev["first"] and ev["lastb"]:        # a batch of one: the stream is this event's output
      from harness.adapters_c13 import classify
      sig["observed"] = classify(ev["stream"], ev["a"], ev["args"]) if ev["wf"] else "not-well-formed:" + str(ev.get("bad"))
    ctx.report(sig, dict(trace=traces[t], failing_step=matched,
                         note="TLC rejected the trace at this event (the batch it belongs to "
                              "starts at the nearest earlier event with first=true)"))
  ctx.traces += len(traces)
  for t in traces[:2000]:
    ctx.case(core.fp([[e["a"], e["args"]] for e in t]), sample=None)
  ctx.notes["trace_validation"] = dict(traces=len(traces), events=sum(len(t) for t in traces),
                                       batches=sum(1 for t in traces for e in t if e["first"]),
                                       rejected=nrej, negative_controls=what,
                                       negative_controls_rejected=True)
  ctx.exhaustive = True


# ---------------------------------------------------------------------------
def corrupt(traces):
  """negative controls: a reply with another xid; two replies of a batch swapped."""
  bad, what = [], []
  for tr in traces:
    for i, e in enumerate(tr):
      if e["first"] and len(e["stream"]) >= 2 and "xid" in e["stream"][0] and "xid" in e["stream"][1] \
         and e["stream"][0] != e["stream"][1]:
        c = copy.deepcopy(tr)
        s = c[i]["stream"]
        s[0], s[1] = s[1], s[0]
        bad.append(c)
        what.append("two replies of one batch swapped")
        break
    if bad:
      break
  for tr in traces:
    for i, e in enumerate(tr):
      if e["first"] and e["stream"] and "xid" in e["stream"][0]:
        c = copy.deepcopy(tr)
        c[i]["stream"][0]["xid"] = "x9"
        bad.append(c)
        what.append("reply carries a foreign xid")
        break
    if len(bad) >= 2:
      break
  for tr in traces:
    for i, e in enumerate(tr):
      if e["first"] and e["stream"]:
        c = copy.deepcopy(tr)
        c[i]["stream"] = c[i]["stream"] + [c[i]["stream"][-1]]
        bad.append(c)
        what.append("last reply of a batch duplicated")
        break
    if len(bad) >= 3:
      break
  for tr in traces:
    for i, e in enumerate(tr):
      js = [j for j, m in enumerate(e["stream"]) if m.get("t") == "ERROR"] if e["first"] else []
      if js and not e["lastb"]:
        c = copy.deepcopy(tr)
        c[i]["stream"][js[0]]["data"] = "ECHO_REPLY"
        bad.append(c)
        what.append("error of a pipelined batch quotes a message of another type")
        break
    if len(bad) >= 4:
      break
  if len(bad) < 4:
    raise tlc.TLCError("could not build the negative controls from the recorded traces")
  return bad, what


XS = ["x1", "x2", "x3"]
LEN_KINDS = []          # filled from the spec on first use
RES_OUT, RES_OTHER = 65533, 65531          # as in Trace.cfg
FLOWARGS = ([(255, "all", o) for o in (65535, 1, 2, 9, RES_OUT, RES_OTHER)] +
            [(0, "all", 65535), (0, "all", RES_OUT), (0, "all", 2),
             (0, "f1", 65535), (255, "f1", 2), (255, "f1", RES_OUT), (255, "f1x", 65535),
             (255, "f2", 65535), (255, "f2", 2), (255, "f3", RES_OUT), (255, "f3", 2), (0, "f3", 65535),
             (5, "all", 65535), (5, "all", RES_OUT), (1, "all", 65535), (254, "all", 65535)])


def gen(rnd, st):
  """one random controller message (spec action, args); st = what the driver itself did
  (which ports it took down, which buffers it holds) - never read from the switch."""
  x = rnd.choice(XS)
  k = rnd.randrange(30)
  if k == 0:
    return "Hello", dict(xid=x)
  if k == 1:
    return "EchoReq", dict(xid=x, body=rnd.choice(["", "b1"]))
  if k == 2:
    return "EchoReply", dict(xid=x)
  if k == 3:
    return "FeaturesReq", dict(xid=x)
  if k in (4, 5):
    return "GetConfigReq", dict(xid=x)
  if k in (6, 7):
    return "SetConfig", dict(xid=x, flags=rnd.choice([0, 1]), ml=rnd.choice([0, 128, 65535]))
  if k in (8, 9):
    return "BarrierReq", dict(xid=x)
  if k == 10:
    return "Vendor", dict(xid=x)
  if k == 11:
    return "BadType", dict(xid=x)
  if k in (12, 13):
    occ = sorted(st["slots"])
    free = [s for s in range(1, st["NB"] + 1) if s not in st["slots"] and s not in st["limbo"]]
    c = rnd.random()
    if c < 0.55 or (c < 0.9 and not occ):
      return "PacketOut", dict(xid=x, src="data", slot=0, act=rnd.choice([1, 2, 9, 0, 65000]))
    if c < 0.9:
      st["slots"].discard(occ[0])
      act = rnd.choice([1, 2, 0, 65000, 65000, 9])
      if act in (65000, 9):
        st["limbo"].add(occ[0])  # the spec buffers nothing more after a refused action list
      return "PacketOut", dict(xid=x, src="live", slot=occ[0], act=act)
    if c < 0.95 and free:
      return "PacketOut", dict(xid=x, src="stale", slot=free[0], act=2)
    return "PacketOut", dict(xid=x, src="bogus", slot=st["NB"] + 5, act=2)
  if k in (14, 15, 16, 17):
    c = rnd.random()
    # st["maybe"]: flows the driver has asked for and not deleted = upper bound of the table
    # (the spec refuses to consider "addbad" on a full table: one thing wrong at a time)
    if c < 0.6:
      cmd, f = rnd.choice(["add", "addov", "mod", "del"]), rnd.choice(["f1", "f2", "f3"])
      if cmd == "del":
        st["maybe"].discard(f)
      else:
        st["maybe"].add(f)
      return "FlowMod", dict(xid=x, cmd=cmd, f=f, buf="none", slot=0)
    if c < 0.85:
      cmd = rnd.choice(["delall", "badcmd", "emerg", "emergto", "emergrem", "addbad"])
      if cmd == "delall":
        st["maybe"].clear()
      if cmd == "addbad" and len(st["maybe"]) >= 2:
        cmd = "badcmd"
      return "FlowMod", dict(xid=x, cmd=cmd, f="f1", buf="none", slot=0)
    if len(st["maybe"] - {"f1"}) >= 2:
      # the table may be full of other flows: the spec pairs a buffer only with an ADD that can succeed
      f = rnd.choice(sorted(st["maybe"]))
      st["maybe"].discard(f)
      return "FlowMod", dict(xid=x, cmd="del", f=f, buf="none", slot=0)
    occ = sorted(st["slots"])
    free = [s for s in range(1, st["NB"] + 1) if s not in st["slots"] and s not in st["limbo"]]
    if occ and c < 0.95:
      st["slots"].discard(occ[0])
      if rnd.random() < 0.5 and len(st["maybe"]) < 2:
        st["limbo"].add(occ[0])
        return "FlowMod", dict(xid=x, cmd="addbad", f="f1", buf="live", slot=occ[0])
      st["maybe"].add("f1")
      return "FlowMod", dict(xid=x, cmd="add", f="f1", buf="live", slot=occ[0])
    st["maybe"].add("f1")
    if free and c < 0.975:
      return "FlowMod", dict(xid=x, cmd="add", f="f1", buf="stale", slot=free[0])
    return "FlowMod", dict(xid=x, cmd="add", f="f1", buf="bogus", slot=st["NB"] + 5)
  if k in (18, 19):
    c = rnd.random()
    if c < 0.7:
      p, dn = rnd.choice([1, 2]), rnd.random() < 0.4
      st["down"][p] = dn
      return "PortMod", dict(xid=x, kind="set", p=p, dn=dn)
    if c < 0.85:
      return "PortMod", dict(xid=x, kind="badport", p=rnd.choice([9, 9, 65534, 65535, 65532, 65533, 65531]), dn=False)
    return "PortMod", dict(xid=x, kind="badhw", p=1, dn=True)
  if k in (20, 21, 22, 23, 24, 25, 26):
    s = rnd.choice(["DESC", "FLOW", "FLOW", "AGGREGATE", "AGGREGATE", "TABLE", "TABLE", "PORT",
                    "PORT", "QUEUE", "VENDOR", "UNKNOWN"])
    g = dict(xid=x, st=s)
    if s in ("FLOW", "AGGREGATE"):
      tb, m, outp = rnd.choice(FLOWARGS)
      g.update(tb=tb, m=m, outp=outp)
    elif s == "PORT":
      g.update(p=rnd.choice([1, 2, 65535, 9]))
    elif s == "QUEUE":
      g.update(p=rnd.choice([65532, 1, 9]), q=rnd.choice([0, 1]))
    else:
      g.update(k=0)
    return "StatsReq", g
  if k in (27, 28):
    if not LEN_KINDS:
      LEN_KINDS.extend(len_kinds())
    lk, cls = rnd.choice(LEN_KINDS)
    return "BadLen", dict(xid=x, k=lk, cls=cls)
  return "QueueCfgReq", dict(xid=x, p=rnd.choice([1, 9, 65532]))


def alone(a, args):
  t = tag_of(a, args)
  return t.endswith("-badbuf") or t == "FlowMod-addbad-none"


def drive(arg):
  """Random request history on the real switch, delivered in batches; returns the trace."""
  seed, n = arg
  from harness.adapters_c13 import Adapter, schema_ok
  rnd = random.Random(seed)
  ad = Adapter(NP=2, NB=1, MaxEntries=2, seed=seed, ResOut=RES_OUT)
  st = dict(NB=1, slots=set(), down={1: False, 2: False}, limbo=set(), maybe=set())
  tr = []
  while len(tr) < n:
    if rnd.random() < 0.25 and not st["limbo"]:   # (after a refused action list on a buffer
      up = [p for p in (1, 2) if not st["down"][p]]   #  the spec lets nothing more be buffered)
      if not up:
        continue
      args = dict(xid="-", p=rnd.choice(up), k=rnd.choice(["f1", "f2", "miss"]))
      try:
        out = ad.step("Rx", args)["out"]
      except Exception as e:
        out = [{"t": "ADAPTER", "exc": type(e).__name__}]
      for m in out:
        if m.get("t") == "PACKET_IN" and type(m.get("buf")) is int and m["buf"] > 0:
          st["slots"].add(m["buf"])
      evs = [dict(a="Rx", args=args)]
    else:
      evs, msgs = [], []
      for bi in range(rnd.choice([1, 1, 2, 3, 4, 6])):
        a, args = gen(rnd, st)
        if alone(a, args):
          # (variants that are or were open findings: kept in a batch of their own so
          # that a rejection can be classified by what was observed)
          if bi > 0:
            continue
        c = ad._concrete(args["slot"]) if args.get("slot") else None
        msgs.append(ad.encode(a, args))
        if c is not None:
          ad.bind.pop(c, None)
        evs.append(dict(a=a, args=args))
        if alone(a, args):
          break
      total = sum(len(m) for m in msgs)
      cuts = [rnd.randrange(1, total) for _ in range(rnd.choice([0, 0, 1, 2, 5]))] if total > 1 else []
      try:
        out = ad.send_batch(msgs, cuts)
      except Exception as e:
        out = [{"t": "ADAPTER", "exc": type(e).__name__}]
    if ad.snap_error:
      raise core.Machinery("C13 driver cannot snapshot the switch state: " + ad.snap_error)
    wf = all(schema_ok(m) for m in out)
    for i, e in enumerate(evs):
      e.update(first=(i == 0), lastb=(i == len(evs) - 1), wf=wf,
               stream=(out if (i == 0 and wf) else []))
      if i == 0 and not wf:
        e["bad"] = ",".join(str(m.get("t")) for m in out)
    tr.extend(evs)
  return tr
