"""X03 - hub, l2_pairs and l2_multi (+ discovery) behave like their ideal bridge.

1. TLC model-checks Forwarding.tla (the components as built, Strict = FALSE, and their documented intent,
   Strict = TRUE) for every world of harness/x03_gencfg.py: all states within D steps, every invariant and
   action property; the same run exports one behaviour per transition of the bounded state graph.
2. spec -> code: the exported behaviours (and -simulate walks) are replayed on the real component +
   of_01.Connection + SoftwareSwitch network over OpenFlow bytes (harness/x03_net.py); after EVERY step the
   hops of the frame, the flow tables (read through OFPST_FLOW), the occupied buffers and discovery's
   adjacency must equal what the spec action yields.
3. code -> spec: a seeded random driver runs the real code over a larger alphabet; TLC validates every
   recorded execution against the same actions (TraceForwarding.tla), corrupted executions as negative controls.
"""
import copy
import random
import time

from engine import tlc, core, tracecheck
from harness import x03_gencfg as gc

ADAPTER = "harness.adapters_x03:Adapter"
UNK, BCAST, MCAST = 90, 91, 92

QUICK_WORLDS = ["hubpro_T3_b2", "hubre_T2_b0", "pairs_T1_b2", "pairs_T2_b0", "pairs_T3_b2",
                "multi_T1_b0", "multi_T1s_b2", "multi_T2_b1", "multi_T2u_b1", "multi_T3_b2", "multi_Tri_b2",
                "multi_TriR_b2"]
STRICT_QUICK = ["multi_T2u_b1"]
COVER_QUICK = "multi_T2u_b1"        # the run that carries TLC's own per-action coverage (expensive: one small world)
SIM_QUICK = [("pairs_T2_b2", 4), ("multi_Tri_b2", 5)]
TRACE_QUICK = ["hubre_T2_b0", "pairs_T2_b2", "multi_T1_b0", "multi_T2_b1", "multi_TriR_b2"]
# spec cases (tags logged by the actions) that the exported behaviours of a tier must exercise
NEED_TAGS = ["flow", "flood", "pair", "path", "repath", "lldp-drop", "unreach", "flood-unbuffered", "unreach-leak",
             "holddown-flood"]
NEED_ACTIONS = {"hub_pro": ["Send"], "hub_re": ["Send", "Move"], "pairs": ["Send", "Move"],
                "multi": ["Send", "Tick", "Cut", "Restore", "Detect", "DetectBusy"]}


def split(name):
  w, nb = name.rsplit("_b", 1)
  return w, int(nb)


def _job(cfg, **kw):
  d = dict(spec_dir="forwarding", module="MCForwarding", cfg=cfg, tag="X03", timeout=1500)
  d.update(kw)
  return d


def run(ctx):
  quick = ctx.tier == "quick"
  rnd = random.Random(ctx.seed * 7919 + 3)
  ctx.rule = ("behaviours exported by TLC from Forwarding.tla (one per transition of the depth-bounded state graph "
              "of every world; -simulate walks) replayed on the real hub / l2_pairs / l2_multi+discovery over "
              "of_01.Connection + SoftwareSwitch connected by OpenFlow bytes, comparing hops, flow tables, buffers "
              "and adjacency after every step; executions of a seeded random driver validated by TLC against "
              "the same actions. distinct = distinct (world, action/argument sequence); non-trivial = at least "
              "one frame sent")
  ctx.assumptions = [
      "topologies: 1 switch, lines of 2 and 3, a triangle whose third cable is NO_FLOOD (static spanning tree); "
      "3 ports per switch, 2-3 hosts; one frame in flight at a time",
      "Strict = FALSE: the spec models the code as built; the three named deviations of l2_multi are listed in "
      "notes/X03.md (Strict = TRUE is model-checked too, and rejects the code)",
      "l2_multi: no Send while a cable is up that discovery has not found yet; topology changes are noticed in "
      "one 21 s Detect step; unique shortest paths; hosts do not move (they do for hub / l2_pairs)",
      "l2_nx / l2_nx_self_learning are not covered: SoftwareSwitch answers vendor messages with BAD_VENDOR",
      "OpenFlow bytes decoded with struct only (harness/rawbytes.py); frames built with struct only",
  ]
  allw = [n for _, n, _ in gc.all_names()]
  worlds = QUICK_WORLDS if quick else allw
  # ---- 0. code -> spec, first half: the seeded random driver on the real code (validated by TLC below)
  t0 = time.time()
  tw = TRACE_QUICK if quick else [n for n in allw]
  ntr = 14 if quick else 80
  length = 24 if quick else 40
  items = []
  for n in tw:
    w, nb = split(n)
    for i in range(ntr):
      items.append(dict(world=w, nbuf=nb, variant=(ctx.seed + i) % 24, seed=ctx.seed * 100003 + i * 31 + len(n), n=length))
  out = core.run_driver("props.X03:drive", items, chunk=4 if quick else 10)
  phases = {}
  phases["driver_s"] = round(time.time() - t0, 1)
  by = {}
  for it, tr in zip(items, out):
    by.setdefault("%s_b%d" % (it["world"], it["nbuf"]), []).append((it, tr))
  vres = {}

  def vjob(n):
    trs = [tr for _, tr in by[n]]
    negs = []
    for kind in ("out", "bufs", "tbl"):
      for tr in trs:
        if all(e["wf"] for e in tr):
          b = _corrupt(tr, kind)
          if b is not None:
            negs.append((kind, b))
            break
    r, rej = tracecheck.validate("forwarding", "TraceForwarding", "Trace_%s.cfg" % n, trs + [b for _, b in negs],
                                 tag="X03", timeout=1500)
    vres[n] = (r, dict(rej), negs, len(trs))
  # ---- 1. TLC: model check + export (one run per world), strict models, simulations, deeper models
  jobs, kinds = [], []
  for n in worlds:
    jobs.append(_job("MCX_%s.cfg" % n, workers=1, coverage=False))
    kinds.append(("mcx", n))
  for n in (STRICT_QUICK if quick else [x for x in allw if x.startswith("multi")]):
    jobs.append(_job("MCS_%s_q.cfg" % n, workers=2, coverage=False))
    kinds.append(("strict", n))
  jobs.append(_job("MC_%s_q.cfg" % COVER_QUICK, workers=2, coverage=True))
  kinds.append(("cover", COVER_QUICK))
  sims = SIM_QUICK if quick else [(n, 30) for n in allw if not n.startswith("hub") and split(n)[0] not in gc.BUSY]
  depth = 30 if quick else 80
  for k, (n, num) in enumerate(sims):
    jobs.append(_job("EX_sim%d_%s.cfg" % (depth, n), workers=1, coverage=False, simulate=dict(num=num),
                     depth=depth + 1, seed=ctx.seed + 1 + k))
    kinds.append(("sim", n))
  if not quick:
    for n in allw:
      jobs.append(_job("MC_%s_t.cfg" % n, workers=2, coverage=False, timeout=2400))
      kinds.append(("deep", n))
  t0 = time.time()
  import concurrent.futures
  errs = []

  def guarded(f, *a, **kw):
    try:
      return f(*a, **kw)
    except Exception as e:      # noqa: re-raised below, after all runs have finished
      errs.append(e)
  with concurrent.futures.ThreadPoolExecutor(12 if quick else 5) as ex:
    futs = []
    for j in jobs:
      j = dict(j)
      futs.append(ex.submit(guarded, tlc.run, j.pop("spec_dir"), j.pop("module"), j.pop("cfg"), **j))
    vf = [ex.submit(guarded, vjob, n) for n in sorted(by)]
    res = [f.result() for f in futs]
    [f.result() for f in vf]
  if errs:
    raise errs[0]
  phases["tlc_s"] = round(time.time() - t0, 1)
  behs = {}          # world name -> behaviours
  tags = {}
  acts_taken = {}
  for (kind, n), r in zip(kinds, res):
    if r.violated:
      raise tlc.TLCError("Forwarding.tla (%s %s) violates %s:\n%s" % (kind, n, r.violated, r.error_trace[:3000]))
    w, nb = split(n)
    if kind == "mcx":
      b = r.tagged("T")
      if not b:
        raise tlc.TLCError("no behaviours exported by MCX_%s" % n)
      comp = gc.WORLDS[w][0]
      taken = set(x[-1]["a"] for x in b)           # every exported behaviour ends with a transition TLC generated
      acts_taken.setdefault(comp, set()).update(taken)
      if "Send" not in taken:
        raise tlc.TLCError("vacuous model run MCX_%s: no Send transition" % n)
      behs.setdefault(n, []).extend(b)
      ctx.add_model("Forwarding %s: all states within %d steps, as built" % (n, gc.WORLDS[w][12]), r)
    elif kind == "cover":
      tlc.require_coverage(r, ["Send", "Cut", "Restore", "Detect"], "MC_%s_q" % n)
      ctx.add_model("Forwarding %s: all states within %d steps, as built (with TLC's action coverage)"
                    % (n, gc.WORLDS[w][13]), r)
    elif kind == "strict":
      ctx.add_model("Forwarding %s: documented intent (Strict = TRUE), %d steps" % (n, gc.WORLDS[w][13]), r)
    elif kind == "deep":
      ctx.add_model("Forwarding %s: all states within %d steps, as built" % (n, gc.WORLDS[w][14]), r)
    else:
      b = r.tagged("H")
      if len(b) < 1:
        raise tlc.TLCError("simulation of %s exported no behaviour" % n)
      behs.setdefault(n, []).extend(b)
      ctx.add_model("Forwarding %s: %d random behaviours of length %d (invariants and properties checked)"
                    % (n, len(b), depth), r)
  for n, bs in behs.items():
    for b in bs:
      for st in b:
        for t in st.get("tags", []):
          tags[t] = tags.get(t, 0) + 1
  for comp, need in NEED_ACTIONS.items():
    lack = [a for a in need if a not in acts_taken.get(comp, set())]
    if lack:
      raise tlc.TLCError("vacuous model runs for %s: actions never taken: %s" % (comp, lack))
  missing = [t for t in NEED_TAGS if not tags.get(t)]
  if missing:
    raise tlc.TLCError("vacuous: the exported behaviours never exercise the spec cases %s" % missing)
  ctx.notes["spec_cases_exercised"] = {t: tags[t] for t in sorted(tags) if t}

  # ---- 2. spec -> code
  from harness.adapters_x03 import norm_behaviour
  t0 = time.time()
  cap = 160 if quick else 1500
  nvar = 2 if quick else 6
  per = {}
  neg = None
  for n in sorted(behs):
    w, nb = split(n)
    bs = behs[n]
    total = len(bs)
    if cap is not None and len(bs) > cap:
      longs = [b for b in bs if len(b) > 8 or b[-1]["a"] == "DetectBusy"]     # always replayed
      shorts = [b for b in bs if not (len(b) > 8 or b[-1]["a"] == "DetectBusy")]
      bs = longs + rnd.sample(shorts, max(0, cap - len(longs)))
    bs = [norm_behaviour(b) for b in bs]
    st_all = dict(ok=0, diverted=0, mismatch=0)
    for v in range(nvar):
      part = bs[v::nvar]
      if not part:
        continue
      variant = (ctx.seed + v * 7 + len(n)) % 24
      st = core.replay(ctx, ADAPTER, part, params=dict(world=w, nbuf=nb, variant=variant),
                       nontrivial=lambda b: any(s["a"] == "Send" for s in b), chunk=12 if w.startswith("multi") else 40)
      for k in st_all:
        st_all[k] += st[k]
      if neg is None and w.startswith("multi") and core.replay.last_ok:
        cand = [part[i] for i in core.replay.last_ok if any(s["a"] == "Send" and s["exp"]["hops"] and
                                                          s["exp"]["hops"][0]["out"] for s in part[i])]
        if cand:
          neg = (w, nb, variant, cand[0])
    per[n] = dict(exported=total, replayed=len(bs), **st_all)
  ctx.notes["replay"] = per
  phases["replay_s"] = round(time.time() - t0, 1)
  # negative control of the replay: a falsified expectation must be reported as a mismatch
  if neg is None and not ctx.violations:
    raise core.Machinery("no behaviour available for the replay's negative control")
  if neg is not None:
    _replay_negative_control(ctx, neg)

  # ---- 3. code -> spec: verdicts of the trace validation (run together with the model runs above)
  nrej = 0
  nev = 0
  negok = {}
  for n in sorted(by):
    r, rej, negs, nt = vres[n]
    ctx.add_model("TraceForwarding %s (validation of %d implementation executions)" % (n, nt), r)
    if len(negs) < 2 and not ctx.violations and not any(k in rej for k in range(nt)):
      # (on a tree so broken that no execution of a world is well-formed there is nothing to corrupt; the
      #  rejections themselves are the verdict then)
      raise tlc.TLCError("only %d negative controls could be built for %s" % (len(negs), n))
    for j, (kind, _) in enumerate(negs):
      if nt + j not in rej:
        raise tlc.TLCError("negative control '%s' (%s) was accepted by the trace specification" % (kind, n))
      negok.setdefault(n, []).append(kind)
    for k, (it, tr) in enumerate(by[n]):
      nev += len(tr)
      ctx.traces += 1
      ctx.case(core.fp([n, it["variant"], [[e["a"], e["args"]] for e in tr]]),
               nontrivial=any(e["a"] == "Send" for e in tr))
      if k in rej:
        nrej += 1
        ev = tr[rej[k]]
        sig = dict(action=ev["a"], via="trace", comp=gc.WORLDS[it["world"]][0])
        if not ev["wf"]:
          sig["anomaly"] = ev.get("why", "malformed")
        if ev["a"] == "Send":
          d = ev["args"]["dst"]
          sig["dst"] = {UNK: "unknown-unicast", BCAST: "broadcast", MCAST: "multicast"}.get(d, "host")
          sig["shape"] = ev["args"]["sh"]
        ctx.report(sig, dict(item=it, trace=tr[:rej[k] + 1], failing_step=rej[k],
                             note="TLC rejected the recorded execution at this event (TraceForwarding.tla)"))
  ctx.notes["trace_validation"] = dict(executions=len(items), events=nev, rejected=nrej,
                                       negative_controls_rejected=negok)
  ctx.notes["phases"] = phases
  ctx.exhaustive = True


def _replay_negative_control(ctx, neg):
  """a falsified expectation must be reported as a mismatch"""
  w, nb, variant, beh = neg
  bad = copy.deepcopy(beh)
  for s in bad:
    if s["a"] == "Send" and s["exp"]["hops"] and s["exp"]["hops"][0]["out"]:
      s["exp"]["hops"][0]["out"] = s["exp"]["hops"][0]["out"][:-1]
      break
  c2 = core.Context("X03", ctx.tier, ctx.seed, ctx.level, clear=False)
  c2.known = []
  stn = core.replay(c2, ADAPTER, [bad], params=dict(world=w, nbuf=nb, variant=variant), procs=1)
  if stn["mismatch"] != 1:
    raise core.Machinery("negative control of the replay (one port removed from an expectation) was not rejected")
  ctx.notes["replay_negative_control_rejected"] = True



def replay_one(ctx, rep):
  """./check X03 --replay FILE"""
  if "behaviour" in rep:
    core.replay(ctx, rep["adapter"], [rep["behaviour"]], params=rep.get("params"), procs=1)
    return
  it = rep["item"]
  tr = drive(it)
  n = "%s_b%d" % (it["world"], it["nbuf"])
  r, rej = tracecheck.validate("forwarding", "TraceForwarding", "Trace_%s.cfg" % n, [tr], tag="X03")
  for t, matched in rej:
    ctx.report(dict(action=tr[matched]["a"], via="trace"), dict(item=it, trace=tr[:matched + 1], failing_step=matched))


def _corrupt(trace, kind):
  tr = copy.deepcopy(trace)
  for e in tr:
    if e["a"] != "Send":
      continue
    if kind == "out":
      for h in e["obs"]["hops"]:
        if h["out"]:
          h["out"] = h["out"][:-1]
          return tr
    if kind == "bufs":
      e["obs"]["bufs"][0] += 1
      return tr
    if kind == "tbl":
      for t in e["obs"]["tbls"]:
        if t:
          t.pop()
          return tr
  return None


HOP_KEYS = {"s", "i", "pktin", "out", "icmp"}
PAT_KEYS = {"inp", "src", "dst", "shs", "out", "ito", "hto"}


def _wellformed(a, obs):
  """fixed schema / uniform types for TLC"""
  def tbls_ok(t):
    return isinstance(t, list) and all(isinstance(x, list) and all(
        isinstance(p, dict) and set(p) == PAT_KEYS and all(isinstance(p[k], int) for k in PAT_KEYS - {"shs"})
        and all(isinstance(z, str) for z in p["shs"]) for p in x) for x in t)
  if not isinstance(obs, dict):
    return False
  if a == "Send":
    return (set(obs) == {"hops", "tbls", "bufs", "storm"} and tbls_ok(obs["tbls"]) and
            all(set(h) == HOP_KEYS for h in obs["hops"]) and all(isinstance(b, int) for b in obs["bufs"]))
  if a == "Tick":
    return set(obs) == {"tbls", "bufs"} and tbls_ok(obs["tbls"])
  if a == "Detect":
    return set(obs) == {"tbls", "bufs", "adj"} and tbls_ok(obs["tbls"])
  if a == "DetectBusy":
    return set(obs) == {"tbls", "bufs", "adj", "again", "lost"} and tbls_ok(obs["tbls"])
  return obs == {"x": 0}


def _blank(a, nsw):
  if a == "Send":
    return dict(hops=[], tbls=[[] for _ in range(nsw)], bufs=[0] * nsw, storm=0)
  if a == "Tick":
    return dict(tbls=[[] for _ in range(nsw)], bufs=[0] * nsw)
  if a == "Detect":
    return dict(tbls=[[] for _ in range(nsw)], bufs=[0] * nsw, adj=[])
  if a == "DetectBusy":
    return dict(tbls=[[] for _ in range(nsw)], bufs=[0] * nsw, adj=[], again=0, lost=0)
  return {"x": 0}


def _busy_pairs(t, at, up, adj, spoke):
  """(h, d) for which Forwarding!DetectBusy is enabled: a cut is pending, both hosts are known to the
  controller, and the unique shortest path between their switches (over the cables the controller knows) does
  not use a cut cable"""
  if adj == up or not (up <= adj):
    return []
  nb = {}
  for l in adj:
    nb.setdefault(l[0], set()).add(l[2])
    nb.setdefault(l[2], set()).add(l[0])
  out = []
  for h in sorted(spoke):
    for d in sorted(spoke):
      if h == d:
        continue
      a, b = at[h][0], at[d][0]
      paths = [[a]]
      found = []
      for _ in range(t["ns"]):
        found = [p for p in paths if p[-1] == b]
        if found or not paths:
          break
        paths = [p + [x] for p in paths for x in sorted(nb.get(p[-1], ())) if x not in p]
      if len(found) != 1:
        continue
      r = found[0]
      if all(any({l[0], l[2]} == {r[i], r[i + 1]} for l in up) for i in range(len(r) - 1)):
        out.append((h, d))
  return out


def drive(item):
  """seeded random action sequence on the real code; returns the recorded trace"""
  from harness.adapters_x03 import World
  rnd = random.Random(item["seed"])
  t = gc.world(item["world"])
  w = World(item["world"], item["nbuf"], item["variant"])
  multi = t["comp"] == "multi"
  links = sorted(sorted([a + b, b + a])[0] for a, b in t["links"].items())
  cuts = t["cuts"]
  cuts = [tuple(a + b) for a, b in cuts.items()] if isinstance(cuts, dict) else [tuple(c) for c in cuts]
  up = set(tuple(x) for x in links)
  adj = set(up)
  ends = set(t["links"].keys()) | set(t["links"].values())
  host_ports = [(s, p) for s in range(1, t["ns"] + 1) for p in (1, 2, 3) if (s, p) not in ends]
  hosts = t["hosts"]
  at = dict(t["at"])
  dsts = list(hosts) * 3 + [UNK, BCAST, BCAST, MCAST]
  shapes = ["a"] * 5 + ["b"] * 3 + ["r", "l"]
  tr = []
  busy = item["world"] in gc.BUSY
  spoke = set()
  for step in range(item["n"]):
    k = rnd.random()
    cand = _busy_pairs(t, at, up, adj, spoke) if busy and step >= 4 else []
    if cand and (k < 0.5 or step == item["n"] - 1):
      h, d = rnd.choice(cand)
      a, args = "DetectBusy", dict(h=h, d=d)
    elif multi and not (up <= adj):
      a, args = "Detect", dict(x=0)                       # a restored cable: the spec leaves Sends out until discovery found it
    elif k < 0.66:
      a, args = "Send", dict(h=rnd.choice(hosts), dst=rnd.choice(dsts), sh=rnd.choice(shapes))
    elif k < 0.78:
      if multi:
        if adj != up:
          a, args = "Detect", dict(x=0)
        else:
          a, args = "Tick", dict(d=rnd.choice([3, 6, 6, 11, 31]))
      else:
        h = rnd.choice(hosts)
        sp = rnd.choice([x for x in host_ports if x != at[h]])
        a, args = "Move", dict(h=h, s=sp[0], p=sp[1])
    elif k < 0.88:
      if multi and adj != up:
        a, args = "Detect", dict(x=0)
      else:
        a, args = "Tick", dict(d=rnd.choice([3, 6, 6, 11, 31]))
    else:
      if not (multi and cuts):
        a, args = "Send", dict(h=rnd.choice(hosts), dst=rnd.choice(dsts), sh=rnd.choice(shapes))
      else:
        c = rnd.choice(cuts)
        if c in up:
          a, args = "Cut", dict(s=c[0], p=c[1])
        else:
          a, args = "Restore", dict(s=c[0], p=c[1])
    why = ""
    try:
      obs = w.step(a, args)
      wf = True
    except core.Machinery:
      raise
    except Exception as e:            # escaped from the code under test
      obs, wf, why = None, False, "exception:" + type(e).__name__
    if wf and isinstance(obs, dict) and "anomaly" in obs:
      wf, why = False, "anomaly:" + ",".join(obs["anomaly"])
    if wf and isinstance(obs, dict) and "DIVERGED" in obs:
      wf, why = False, "diverged"
    if wf and not _wellformed(a, obs):
      wf, why = False, "malformed-observation"
    if not wf:
      obs = _blank(a, t["ns"])
    ev = dict(a=a, args=args, obs=obs, wf=wf)
    if why:
      ev["why"] = why
    tr.append(ev)
    if not wf:
      break
    if a == "DetectBusy":
      break                                                # ages unknown from here on: the behaviour ends
    if a == "Send" and args["sh"] != "l":
      spoke.add(args["h"])
    if a == "Move":
      at[args["h"]] = (args["s"], args["p"])
    elif a == "Cut":
      up = set(x for x in up if (x[0], x[1]) != (args["s"], args["p"]))
    elif a == "Restore":
      for x in links:
        if (x[0], x[1]) == (args["s"], args["p"]):
          up.add(tuple(x))
    elif a == "Detect":
      adj = set(up)
  return tr
