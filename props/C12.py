"""C12 - the datapath applies action lists and port rules as OpenFlow 1.0 prescribes.

specs/datapath/Datapath.tla (state machine: port flags, counters, the flow
entry, buffered frames) + Frames.tla (what each action does to a frame, and the
exact BYTES of a frame incl. lengths and checksums, all in TLA+).

1. TLC model-checks the property (action properties over every transition) on
   each configuration and, in the same run, exports one behaviour per transition
   of the abstract state graph (shortest path to the source + the transition).
2. TLC (EncTable.tla) computes the bytes of every frame record that occurs in
   the exported behaviours and checks the byte oracle's own properties.
3. spec -> code: every behaviour is replayed on a real SoftwareSwitch (frames as
   bytes through the real parser into rx_packet, OpenFlow bytes through the real
   OFConnection); after EVERY step the (port, bytes) of every DpPacketOut, every
   packet-in, all port counters read over the wire and the port configuration
   must equal the spec's.  Long behaviours come from TLC -simulate over seeded
   random action lists of length <= 6.  The configurations csum_rx / csum_po use
   frames SOLVED in the spec to sit on the special values of the Internet checksum
   (computed checksum 0, sums needing a second fold) after each kind of rewrite.
4. code -> spec: seeded random histories on the real switch are recorded and
   TLC decides whether each is a behaviour of the spec (bytes compared in TLC).
"""
import concurrent.futures
import copy
import json
import os
import random
import time

from engine import tlc, core, tracecheck
from harness import c12_frames as fr

DIR = "datapath"
ADAPTER = "harness.adapters_c12:Adapter"
PROPS = ["NoEmitBlocked", "IngressExcluded", "NoRecvRespected", "FloodRule", "AllRule", "InOrder",
         "TableInOrder", "MissRule", "CountersExact", "PortModExact", "BufferedAsSent"]
TRAFFIC = ("Rx", "PacketOut", "PacketOutBuf")
# Several small single-worker JVMs run side by side: keep each one light (startup dominates their run time).
JVM = {"JAVA_TOOL_OPTIONS": "-XX:ParallelGCThreads=2 -XX:CICompilerCount=2 -XX:TieredStopAtLevel=1"}

# config -> (actions that must be covered, adapter params)
CONFIGS = {
    "lists_q": (["Rx", "FlowMod", "FlowDel"], {}),
    "lists": (["Rx", "FlowMod", "FlowDel"], {}),
    "pktout_q": (["PacketOut"], {}),
    "pktout": (["PacketOut"], {}),
    "table": (["Rx", "PacketOut", "FlowMod", "FlowDel", "PortMod"], {}),
    # output:TABLE anywhere in a packet-out list x entries that rewrite the Ethernet header and the headers below it
    "tabmid": (["PacketOut", "FlowMod", "FlowDel"], {}),
    "ports_q": (["Rx", "PacketOut", "FlowMod", "FlowDel", "PortMod", "PortModBad"], {}),
    "ports": (["Rx", "PacketOut", "FlowMod", "FlowDel", "PortMod", "PortModBad"], {}),
    "buf_q": (["Rx", "PacketOutBuf", "FlowMod", "FlowDel"], dict(MaxHeld=2)),
    "buf": (["Rx", "PacketOutBuf", "FlowMod", "FlowDel"], dict(MaxHeld=2)),
    "frag": (["Rx", "FlowMod", "FlowDel", "PortMod", "SetFrag"], {}),
    # frames SOLVED (MCDatapath!Solve) to sit on the special values of the Internet checksum after each rewrite
    "csum_rx": (["Rx", "FlowMod", "FlowDel"], {}),
    "csum_po": (["PacketOut"], {}),
}
QUICK = ["lists_q", "pktout_q", "table", "tabmid", "ports_q", "buf_q", "frag", "csum_rx", "csum_po"]
THOROUGH = ["lists", "pktout", "table", "tabmid", "ports", "buf", "frag", "csum_rx", "csum_po"]
CSUM = ("csum_rx", "csum_po")
# every operation sequence of length D over a small alphabet (history the abstract state does not show)
PATHS = {"quick": "paths3", "thorough": "paths4"}
# ... and over packet-outs with output:TABLE in the middle of the list, flow-mods and releases of the buffered frames
TABPATHS = "tabpaths"


# ---------------------------------------------------------------------------
# the alphabet, for generating INPUT action lists only (simulation, driver)

def act(t, n=0, m=0, s="-"):
  return dict(t=t, n=n, m=m, s=s)


def out(p, ml=65535):
  return act("output", p, ml)


REWRITES = [act("set_vlan_vid", 7), act("set_vlan_vid", 0), act("set_vlan_vid", 4095), act("set_vlan_vid", 2048),
            act("set_vlan_pcp", 5), act("set_vlan_pcp", 0), act("set_vlan_pcp", 7), act("strip_vlan"),
            act("set_dl_src", s="mc"), act("set_dl_src", s="bc"), act("set_dl_dst", s="md"),
            act("set_dl_dst", s="stp"), act("set_nw_src", s="ic"), act("set_nw_src", s="id"),
            act("set_nw_dst", s="id"), act("set_nw_dst", s="ia"), act("set_nw_tos", 184), act("set_nw_tos", 0),
            act("set_nw_tos", 252), act("set_tp_src", 65535), act("set_tp_src", 0), act("set_tp_dst", 80),
            act("set_tp_dst", 65535)]
OUTPUTS = [out(1), out(2), out(3), out(9), out(0xfff8), out(0xfffb), out(0xfffc), out(0xfffd),
           out(0xfffd, 0), out(0xfffd, 64), out(0xfffd, 200), out(0xfffa), out(0xfffe), out(0xffff),
           act("enqueue", 2, 1), act("enqueue", 3, 0), act("enqueue", 0xfff8, 7)]
TABLE = out(0xfff9)


def table_pos(acts):
  """'' / 'last' / 'mid' (output:TABLE followed by further actions of the same list)."""
  ix = [i for i, x in enumerate(acts or []) if x["t"] == "output" and x["n"] == 0xfff9]
  if not ix:
    return ""
  return "mid" if ix[0] < len(acts) - 1 else "last"


def random_list(rnd, maxlen=6, minlen=1, controller=True):
  n = rnd.randint(minlen, maxlen)
  outs = [o for o in OUTPUTS if controller or o["n"] != 0xfffd]
  l = [rnd.choice(outs) if rnd.random() < 0.4 else rnd.choice(REWRITES) for _ in range(n)]
  if not any(a["t"] in ("output", "enqueue") for a in l):
    l[-1] = rnd.choice(outs)            # a list that emits nothing shows nothing
  return l


# ---------------------------------------------------------------------------
# exported behaviours: frame records -> bytes computed by TLC

def frames_of(behs, shapes):
  recs = {}
  for s in shapes.values():
    recs[core.canon(s)] = s
  for b in behs:
    for st in b:
      if st["a"] in TRAFFIC:
        for g in st["exp"]["em"]:
          recs.setdefault(core.canon(g["f"]), g["f"])
        for p in st["exp"]["pins"]:
          recs.setdefault(core.canon(p["f"]), p["f"])
  return recs


class Oracle(object):
  """Frame record -> hex, evaluated by TLC (EncTable.tla) and cached."""

  def __init__(self, ctx):
    self.ctx = ctx
    self.hexof = {}
    self.altof = {}                     # record -> the other byte string the property accepts (Frames!EncAlts)
    self.runs = 0

  def need(self, recs):
    todo = [r for k, r in sorted(recs.items()) if k not in self.hexof]
    if not todo:
      return
    d = os.path.join(tlc.WORK, "C12")
    os.makedirs(d, exist_ok=True)
    path = os.path.join(d, "recs-%d-%d.json" % (os.getpid(), self.runs))
    with open(path, "w") as f:
      json.dump(todo, f)
    try:
      r = tlc.run(DIR, "EncTable", "EncTable.cfg", workers=1, coverage=False, tag="C12",
                  env=dict(JVM, C12_RECS=path), timeout=900)
    finally:
      os.unlink(path)
    if r.violated:
      raise tlc.TLCError("byte oracle violates its own property %s:\n%s" % (r.violated, r.error_trace[:3000]))
    got = r.tagged("E")
    if len(got) != len(todo):
      raise tlc.TLCError("EncTable printed %d of %d frames" % (len(got), len(todo)))
    for e in got:
      rec = todo[e["i"] - 1]
      hx = bytes(e["b"]).hex()
      # second, independent derivation (struct, by hand): must agree
      if fr.enc(rec).hex() != hx:
        raise core.Machinery("byte oracle disagreement on %s:\n TLA+  %s\n struct %s"
                             % (core.canon(rec), hx, fr.enc(rec).hex()))
      self.hexof[core.canon(rec)] = hx
      if e["alt"]:
        ax = bytes(e["alt"]).hex()
        if not rec.get("nocs") or fr.enc(dict(rec, nocs=False)).hex() != ax or len(ax) != len(hx):
          raise core.Machinery("byte oracle disagreement on the alternative of %s:\n TLA+  %s" % (core.canon(rec), ax))
        self.altof[core.canon(rec)] = ax
      elif rec.get("nocs"):
        raise core.Machinery("no alternative printed for %s" % core.canon(rec))
    self.runs += 1
    self.ctx.add_model("EncTable (Frames!Enc of %d frame records; lengths and checksums verified)" % len(todo), r,
                       properties=["Canonical", "OracleOK", "AltsOK"])

  def hex(self, rec):
    return self.hexof[core.canon(rec)]

  def alt(self, rec):
    return self.altof.get(core.canon(rec))


def concretise(beh, orc, shapes, ztab=None):
  """spec behaviour (frame records) -> replayable behaviour (bytes by TLC)."""
  flow, out_b = None, []
  for st in beh:
    a, args, exp = st["a"], dict(st["args"]), st["exp"]
    info = {}
    if a in TRAFFIC:
      # a packet-out with output:TABLE in the middle of its list ran earlier in this behaviour
      info["after_table_mid"] = any(p["a"] in ("PacketOut", "PacketOutBuf") and table_pos(p["args"]["acts"]) == "mid"
                                    for p in out_b)
    if a in ("Rx", "PacketOut"):
      info["csum_shape"] = csum_shape(args["f"], ztab, shapes)
    if a == "FlowMod":
      flow = args["acts"]
    elif a == "FlowDel":
      flow = None
    if a in ("Rx", "PacketOut"):
      info["shape"] = args["f"]
      args["hex"] = orc.hex(shapes[args["f"]])
    for k in ("mask", "conf"):
      if k in args:
        args[k] = sorted(args[k])
    if a in TRAFFIC:
      info["flow"] = flow or []
      # latitude of the spec (Frames!EncAlts): other byte string -> the one logged, for the frames of this step
      alts = {}
      for g in exp["em"]:
        if orc.alt(g["f"]):
          alts[orc.alt(g["f"])] = orc.hex(g["f"])
      for p in exp["pins"]:
        if orc.alt(p["f"]):
          alts[orc.alt(p["f"])[:2 * p["dlen"]]] = orc.hex(p["f"])[:2 * p["dlen"]]
      exp = dict(
          em=[sorted([q, orc.hex(g["f"])] for q in g["ports"]) for g in exp["em"]],
          pins=[dict(inport=p["inport"], reason=p["reason"], total=p["total"],
                     data=orc.hex(p["f"])[:2 * p["dlen"]], opt=p["opt"]) for p in exp["pins"]],
          drop=exp["drop"], stats=exp["stats"])
      if alts:
        exp["alts"] = alts
    elif "config" in exp:
      exp = dict(config=[sorted(c) for c in exp["config"]])
    out_b.append(dict(a=a, args=args, exp=exp, info=info))
  return out_b


def csum_shape(shape, ztab, shapes):
  """'udp/zero' ... for a shape solved to sit on a special checksum value, 'udp/none' for no checksum, else ''."""
  z = (ztab or {}).get(shape)
  if z:
    return "%s/%s" % (z["site"], z["cls"])
  return "udp/none" if (shapes or {}).get(shape, {}).get("nocs") else ""


_BCLS = {}


def bcls(hx):
  if hx not in _BCLS:
    _BCLS[hx] = sorted(fr.boundary_classes(bytes.fromhex(hx)))
  return _BCLS[hx]


def describe_cover(behs):
  """what the exported behaviours exercise (vacuity notes for the evidence)."""
  c = dict(steps=0, traffic=0, emitting=0, multi_port_groups=0, ingress_drops=0, packet_ins=0,
           optional_packet_ins=0, truncated_packet_ins=0, lists_len3plus=0, either_way_frames=0)
  for b in behs:
    for st in b:
      c["steps"] += 1
      if st["a"] not in TRAFFIC:
        if st["a"] == "FlowMod" and len(st["args"]["acts"]) >= 3:
          c["lists_len3plus"] += 1
        continue
      e = st["exp"]
      c["traffic"] += 1
      c["emitting"] += 1 if e["em"] else 0
      c["either_way_frames"] += len(e.get("alts", ()))
      for g in e["em"]:                 # emitted frames that sit on a special value of the Internet checksum
        for k in bcls(g[0][1]):
          c["csum:" + k] = c.get("csum:" + k, 0) + 1
      c["multi_port_groups"] += sum(1 for g in e["em"] if len(g) > 1)
      c["ingress_drops"] += 1 if e["drop"] else 0
      c["packet_ins"] += len(e["pins"])
      c["optional_packet_ins"] += sum(1 for p in e["pins"] if p["opt"])
      c["truncated_packet_ins"] += sum(1 for p in e["pins"] if len(p["data"]) // 2 < p["total"])
  return c


def nontrivial(b):
  return any(st["a"] in TRAFFIC for st in b)


def replay(ctx, name, behs, params, chunk=250):
  if not behs:
    raise tlc.TLCError("no behaviours exported for %s" % name)
  st = core.replay(ctx, ADAPTER, behs, params=params, chunk=chunk, nontrivial=nontrivial)
  ctx.notes["replay_" + name] = dict(behaviours=len(behs), steps=sum(len(b) for b in behs),
                                     cover=describe_cover(behs), **st)
  return st


def negative_control(ctx, behs, params):
  """a corrupted expectation must be reported by the replay machinery."""
  ok = [i for i in core.replay.last_ok if any(st["a"] in TRAFFIC and st["exp"]["em"] for st in behs[i])]
  if not ok:
    raise core.Machinery("no fully replayed emitting behaviour to build the negative control from")
  bad = copy.deepcopy(behs[ok[len(ok) // 2]])
  for st in bad:
    if st["a"] in TRAFFIC and st["exp"]["em"]:
      hx = st["exp"]["em"][-1][-1][1]
      st["exp"]["em"][-1][-1][1] = hx[:-2] + ("00" if hx[-2:] != "00" else "01")   # last payload octet
      break
  probe = core.Context(ctx.pid, ctx.tier, ctx.seed, ctx.level)
  probe.known = []
  core.replay(probe, ADAPTER, [bad], params=params, procs=1)
  if not probe.violations:
    raise core.Machinery("negative control (one corrupted byte in an expected frame) was not reported")
  bad = copy.deepcopy(behs[ok[0]])
  for st in bad:
    if st["a"] in TRAFFIC and st["exp"]["em"]:
      st["exp"]["stats"][st["exp"]["em"][0][0][0] - 1][3] += 1                     # tx_bytes of that port
      break
  probe = core.Context(ctx.pid, ctx.tier, ctx.seed, ctx.level)
  probe.known = []
  core.replay(probe, ADAPTER, [bad], params=params, procs=1)
  if not probe.violations:
    raise core.Machinery("negative control (tx_bytes off by one) was not reported")


# ---------------------------------------------------------------------------

def run(ctx):
  quick = ctx.tier == "quick"
  ctx.rule = ("behaviours exported by TLC from Datapath.tla (one per transition of the abstract state graph "
              "of each configuration = shortest path to the source state + the transition; plus -simulate "
              "runs of depth 30 over seeded random action lists of length <= 6; plus every operation sequence of "
              "length 3 (4 in thorough) over a small traffic / port-mod alphabet and of length 3 over packet-outs with "
              "output:TABLE mid-list / flow-mods / buffer releases), frame records turned into "
              "bytes by TLC (Frames!Enc), are replayed on a real SoftwareSwitch; after EVERY step the "
              "(port, bytes) of every DpPacketOut, every packet-in, the counters of all ports and the port "
              "configuration read over the wire must equal the spec's.  Recorded random histories of the real "
              "switch are validated by TLC.  distinct = distinct action/argument sequences; non-trivial = "
              "contains at least one frame passing through the datapath")
  ctx.assumptions = [
      "bounds: 3 ports; 30 frame shapes (untagged/tagged x IPv4 TCP/UDP/ICMP/other, ARP, opaque ethertype, 802.1D "
      "BPDU, odd payloads, CFI set, ECN set, first/later fragments, 242-byte frame, IPv4 headers with options "
      "(Router Alert IHL 6, NOP+RA IHL 7, Timestamp IHL 8, full Record Route IHL 15) and TCP headers with options "
      "(data offset 6, 7 with EOL padding, 10)) + 28 shapes SOLVED in TLA+ (MCDatapath!Solve, with the block "
      "operators Frames!Enc uses; TLC verifies each: ASSUME Hits) so that as received or after set_tp_src / "
      "set_tp_dst / set_nw_src / set_nw_dst / set_nw_tos / a pair of them the UDP, TCP, ICMP or IPv4 header "
      "checksum is computed as 0 (UDP must send 0xffff, the others 0x0000) or the ones-complement sum needs a "
      "second end-around carry (big-endian and little-endian summation) + 2 UDP shapes without checksum; those "
      "30 shapes x 43 action lists (each rewrite alone, before/after an output, with a VLAN push / strip, to the "
      "controller) in flow entries and in packet-outs, and in the simulated / recorded histories; action lists: every list of length <= 2 over the "
      "alphabet (thorough 28 actions: 14 rewrites over the 10 rewrite types + 14 outputs/enqueues to ports 1-3, an "
      "absent port, IN_PORT, FLOOD, ALL, CONTROLLER with max_len 65535/0, NORMAL, LOCAL, NONE; quick 10 + 8; TABLE last in "
      "these packet-outs) + output-rewrite-output and rewrite-rewrite-output triples exhaustively, length <= 6 by seeded random lists; port "
      "flags: all 64 sets of the six settable bits on port 1 (x 8 sets on port 2 in thorough)",
      "the flow table holds at most one, match-everything entry (matching is C03/C04's subject); packet buffers "
      "are plentiful (C18 covers exhaustion); output:TABLE anywhere in a packet-out / buffer-release list (tabmid: 19 "
      "lists with TABLE first / in the middle / twice x 6 entries that rewrite the Ethernet header AND the headers below "
      "it + the empty table x tagged and untagged frames; tabpaths: every operation sequence of length 3 over such "
      "packet-outs, flow-mods and releases of the frames the table handed to the controller; random positions in the "
      "recorded histories), never in a flow entry (the code recurses without bound there)",
      "spec latitude for what the REST of a list works on after output:TABLE (the statement does not decide between the "
      "reference switch, which gives the table a copy, and resubmit-style switches): either the list's own frame "
      "(the code does this) or the frame with ALL rewrites of the matching entry applied - both are exported / tried "
      "by TLC, nothing in between is accepted; in both readings what the table emitted or handed to the controller is "
      "never touched by later actions of the list",
      "frames carry correct lengths and checksums (or, UDP, none) and no Ethernet padding; frames arriving on a port that is "
      "administratively down, and nw/tp rewrites of a first IPv4 fragment, are outside the model",
      "spec latitude: frames emitted by ONE flood/all action are a set per action (order between actions fixed); "
      "a frame refused at ingress may or may not count as received; output:CONTROLLER from a NO_PACKET_IN port "
      "may or may not send; a UDP datagram that arrived WITHOUT checksum (field 0) may leave with the field still 0 "
      "or with the correct checksum of the datagram as it leaves filled in (Frames!EncAlts; the code fills it in)",
      "OpenFlow bytes built/decoded by harness/rawbytes.py (struct only); frame bytes computed by TLC from "
      "Frames.tla and cross-checked against an independent struct encoder (harness/c12_frames.py)",
  ]
  orc = Oracle(ctx)
  core._get_adapter(ADAPTER)            # boot POX once, before the worker processes are forked
  names = QUICK if quick else THOROUGH
  timing = ctx.notes.setdefault("timing_s", {})
  t0 = time.time()

  def lap(k):
    nonlocal t0
    timing[k] = round(time.time() - t0, 1)
    t0 = time.time()

  exported = {}
  shapes = ztab = None
  # 1. the property on the model + one behaviour per transition; 2. long behaviours:
  #    TLC -simulate over seeded random action lists.  The TLC runs are independent
  #    single-worker JVMs: run them side by side.
  rnd = random.Random(ctx.seed * 7919 + 12)
  lists = [random_list(rnd) for _ in range(60 if quick else 300)]
  lpath = os.path.join(tlc.WORK, "C12", "lists-%d.json" % os.getpid())
  os.makedirs(os.path.dirname(lpath), exist_ok=True)
  with open(lpath, "w") as f:
    json.dump(lists, f)
  num = 40 if quick else 600

  def mx(n):
    return tlc.run(DIR, "MCDatapath", "MX_%s.cfg" % n, workers=1, tag="C12", timeout=3000, env=JVM)

  def simulate(_):
    return tlc.run(DIR, "MCDatapath", "EX_sim.cfg", workers=1, coverage=False, simulate=dict(num=num),
                   depth=31, seed=ctx.seed + 1, tag="C12", env=dict(JVM, C12_LISTS=lpath), timeout=1500)

  try:
    with concurrent.futures.ThreadPoolExecutor(max_workers=10) as pool:
      futs = {n: pool.submit(mx, n) for n in names}
      futs["sim"] = pool.submit(simulate, None)
      futs["paths"] = pool.submit(mx, PATHS[ctx.tier if ctx.tier in PATHS else "quick"])
      futs["tabpaths"] = pool.submit(mx, TABPATHS)
      results = {n: f.result() for n, f in futs.items()}
  finally:
    os.unlink(lpath)
  for n in names:
    r = results[n]
    if r.violated:
      raise tlc.TLCError("spec violates its own property %s (%s):\n%s" % (r.violated, n, r.error_trace[:3000]))
    tlc.require_coverage(r, CONFIGS[n][0], "Datapath %s" % n)
    ctx.add_model("Datapath %s" % n, r, properties=PROPS + ["TypeOK"])
    behs = r.tagged("T")
    if len(behs) != r.generated - 1:
      raise tlc.TLCError("%s: exported %d behaviours for %d transitions" % (n, len(behs), r.generated - 1))
    shapes = r.tagged("S")[0]
    ztab = r.tagged("Z")[0]             # shape -> which special checksum value it was solved for (TLC verified it)
    exported[n] = behs
  r = results["paths"]
  if r.violated:
    raise tlc.TLCError("spec violates its own property %s (paths):\n%s" % (r.violated, r.error_trace[:3000]))
  paths = r.tagged("H")
  seen = set(st["a"] for b in paths for st in b)
  stale = [b for b in paths if len(b) >= 3 and b[-3]["a"] in TRAFFIC and b[-2]["a"] == "PortMod" and b[-1]["a"] in TRAFFIC]
  if not {"Rx", "PacketOut", "PortMod", "FlowMod"} <= seen or not stale:
    raise tlc.TLCError("vacuous all-paths export: actions %s, traffic/port-mod/traffic paths %d" % (sorted(seen), len(stale)))
  ctx.add_model("Datapath all operation sequences of length %d (small alphabet)" % len(paths[0]), r,
                properties=PROPS + ["TypeOK"], paths=len(paths))
  exported["paths"] = paths
  r = results["tabpaths"]
  if r.violated:
    raise tlc.TLCError("spec violates its own property %s (tabpaths):\n%s" % (r.violated, r.error_trace[:3000]))
  tpaths = r.tagged("H")
  seen = set(st["a"] for b in tpaths for st in b)
  # vacuity guard: a frame handed over by a TABLE that sits in the MIDDLE of a list is released later
  later = [b for b in tpaths if any(b[i]["a"] == "PacketOut" and table_pos(b[i]["args"]["acts"]) == "mid" and b[i]["exp"]["pins"]
                                    and any(x["a"] == "PacketOutBuf" for x in b[i + 1:]) for i in range(len(b)))]
  if not {"PacketOut", "PacketOutBuf", "FlowMod", "FlowDel"} <= seen or not later:
    raise tlc.TLCError("vacuous all-paths export (tabpaths): actions %s, TABLE-mid/release paths %d" % (sorted(seen), len(later)))
  ctx.add_model("Datapath all operation sequences of length %d (packet-outs with output:TABLE mid-list, flow-mods, "
                "buffer releases)" % len(tpaths[0]), r, properties=PROPS + ["TypeOK"], paths=len(tpaths))
  exported["tabpaths"] = tpaths
  sim = results["sim"].tagged("H")
  if len(sim) < num // 2:
    raise tlc.TLCError("simulation exported %d behaviours" % len(sim))
  exported["sim"] = sim
  lap("tlc_model_check_export_simulate")
  # 3. bytes of every frame record, by TLC ------------------------------------------------
  recs = {}
  for n, behs in exported.items():
    recs.update(frames_of(behs, shapes))
  orc.need(recs)
  ctx.notes["frame_records"] = len(recs)
  lap("tlc_byte_oracle")
  # 4. spec -> code ------------------------------------------------------------------------
  for n in names:                       # literal samples for the evidence: one short emitting behaviour per config
    pick = [b for b in exported[n] if b[-1]["a"] in TRAFFIC and b[-1]["exp"]["em"] and len(b) <= 4]
    if pick and len(ctx.samples) < 5:
      ctx.samples.append(concretise(pick[(ctx.seed + len(pick) // 2) % len(pick)], orc, shapes, ztab))
  last = None
  total = dict()
  for n in names:
    behs = [concretise(b, orc, shapes, ztab) for b in exported[n]]
    cover = describe_cover(behs)
    for k, v in cover.items():
      total[k] = total.get(k, 0) + v
    if n in CSUM:
      # vacuity guard: every special value the shapes were solved for is on a frame the switch must emit,
      # and the frames without a UDP checksum are there
      need = sorted(set("%s/%s" % (z["site"], z["cls"]) for z in ztab.values()) | {"udp/none"})
      missing = [k for k in need if not cover.get("csum:" + k)]
      if missing or not cover.get("either_way_frames"):
        raise tlc.TLCError("vacuous export (%s): no emitted frame on %s" % (n, missing or "either-way frames"))
    if n == "tabmid":
      # vacuity guard: TABLE in the middle of a list, with an entry installed, in both readings the spec leaves open
      mid = [b for b in exported[n] if b[-1]["a"] == "PacketOut" and table_pos(b[-1]["args"]["acts"]) == "mid" and len(b) > 1]
      keys = {}
      for b in mid:
        keys.setdefault(core.canon([[st["a"], st["args"]] for st in b]), set()).add(core.canon(b[-1]["exp"]))
      if not mid or not any(len(v) > 1 for v in keys.values()):
        raise tlc.TLCError("vacuous export (tabmid): %d TABLE-mid behaviours, %d with two readings"
                           % (len(mid), sum(1 for v in keys.values() if len(v) > 1)))
      ctx.notes["tabmid_cover"] = dict(table_mid_behaviours=len(mid), distinct_inputs=len(keys),
                                       inputs_with_two_readings=sum(1 for v in keys.values() if len(v) > 1))
    params = dict(NP=3, MissLen=128, **CONFIGS[n][1])
    replay(ctx, n, behs, params)
    if last is None and core.replay.last_ok:
      negative_control(ctx, behs, params)
      last = n
  # vacuity guard on what was replayed: the clauses of the property must have been exercised
  empty = [k for k in ("emitting", "multi_port_groups", "ingress_drops", "packet_ins", "optional_packet_ins",
                       "truncated_packet_ins", "lists_len3plus") if not total.get(k)]
  if empty:
    raise tlc.TLCError("vacuous export: no behaviour exercises %s" % empty)
  behs = [concretise(b, orc, shapes, ztab) for b in exported["paths"]]
  replay(ctx, "paths", behs, dict(NP=3, MissLen=128))
  behs = [concretise(b, orc, shapes, ztab) for b in exported["tabpaths"]]
  replay(ctx, "tabpaths", behs, dict(NP=3, MissLen=128, MaxHeld=2))
  behs = [concretise(b, orc, shapes, ztab) for b in exported["sim"]]
  replay(ctx, "sim", behs, dict(NP=3, MissLen=128, MaxHeld=2), chunk=10)
  if last is None:
    ctx.notes["negative_control"] = "skipped: no behaviour replayed to its end"
  lap("replay")
  # 5. code -> spec --------------------------------------------------------------------------
  hexes = {s: orc.hex(rec) for s, rec in shapes.items()}
  jobs = []
  for kind, cfg, ntr in (("free", "Trace.cfg", 60 if quick else 1500), ("buf", "Trace_buf.cfg", 30 if quick else 600)):
    items = [dict(seed=ctx.seed * 100003 + i, n=25 if quick else 30, kind=kind, hexes=hexes) for i in range(ntr)]
    TRACE_ZTAB.update({k: csum_shape(k, ztab, shapes) for k in shapes})
    traces = core.run_driver("props.C12:drive", items)
    bad1, bad2 = corrupt(traces)
    jobs.append((kind, cfg, traces, [bad1, bad2]))
  with concurrent.futures.ThreadPoolExecutor(max_workers=2) as pool:
    futs = [pool.submit(tracecheck.validate, DIR, "TraceDatapath", cfg, traces + bad, tag="C12-" + kind, timeout=3000,
                        extra_env=JVM)
            for kind, cfg, traces, bad in jobs]
    outs = [f.result() for f in futs]
  for (kind, cfg, traces, bad), (r, rej) in zip(jobs, outs):
    ctx.add_model("TraceDatapath %s (validation of %d implementation traces)" % (kind, len(traces)), r)
    rejected = set(t for t, _ in rej)
    if len(traces) not in rejected or len(traces) + 1 not in rejected:
      raise tlc.TLCError("negative control (corrupted byte / counter in a recorded trace) was accepted")
    for t, matched in rej:
      if t >= len(traces):
        continue
      ctx.report(trace_signature(traces[t], matched),
                 dict(trace=traces[t][:matched + 1], failing_step=matched, kind=kind, hexes=hexes,
                      note="TLC rejected the recorded trace at this event (TraceDatapath.tla, %s)" % cfg))
    ctx.traces += len(traces)
    for t in traces:
      ctx.case(core.fp([[e["a"], e["args"]] for e in t]))
    mid = sum(1 for t in traces for e in t if e["wf"] and e["a"] != "Rx" and table_pos(e["args"].get("acts")) == "mid")
    ctx.notes["trace_validation_" + kind] = dict(
        traces=len(traces), events=sum(len(t) for t in traces), rejected=len([1 for t in rejected if t < len(traces)]),
        negative_controls_rejected=2, table_mid_events=mid)
    if not mid:
      raise tlc.TLCError("vacuous recorded histories (%s): no list with output:TABLE before further actions" % kind)
  lap("trace_validation")
  ctx.exhaustive = True


# ---------------------------------------------------------------------------
# code -> spec driver

def corrupt(traces):
  """two negative controls: one flipped frame byte, one counter off by one."""
  b1 = b2 = None
  for t in traces:
    for i, e in enumerate(t):
      if e["a"] in TRAFFIC and e["wf"] and e["obs"]["em"]:
        if b1 is None:
          b1 = copy.deepcopy(t)
          b1[i]["obs"]["em"][0]["b"][-1] ^= 1
        elif b2 is None:
          b2 = copy.deepcopy(t)
          b2[i]["obs"]["stats"][b2[i]["obs"]["em"][0]["port"] - 1][2] += 1
        break
    if b1 is not None and b2 is not None:
      return b1, b2
  raise core.Machinery("no emitting event in the recorded traces to corrupt")


def trace_signature(trace, i):
  ev = trace[i]
  flow = []
  for e in trace[:i + 1]:
    if e["a"] == "FlowMod":
      flow = e["args"]["acts"]
    elif e["a"] == "FlowDel":
      flow = []
  lists = [ev["args"].get("acts") or [], flow if ev["a"] != "PacketOutBuf" else []]
  types = set(x["t"] for l in lists for x in l)
  shape = ev["args"].get("f", "")
  mid_before = any(e["a"] in ("PacketOut", "PacketOutBuf") and table_pos(e["args"].get("acts")) == "mid" for e in trace[:i])
  return dict(action=ev["a"], via="trace", enqueue="enqueue" in types,
              table_pos=table_pos(ev["args"].get("acts")) if ev["a"] != "Rx" else "", after_table_mid=mid_before,
              table=any(x["t"] == "output" and x["n"] == 0xfff9 for l in lists for x in l),
              odd_l4=str(shape).endswith("_odd"), cfi=shape == "t_cfi", first_frag=shape in FIRST_FRAGS, options="opt" in str(shape),
              csum_shape=TRACE_ZTAB.get(shape, ""),
              ecn=str(shape).endswith("_ecn") and "set_nw_tos" in types,
              observed=("exception:" + ev["obs"].get("exc", "?")) if not ev["wf"] else "rejected")


TRACE_ZTAB = {}                         # shape -> 'udp/zero' ... (signatures of rejected traces)
SHAPES_FREE = ["u_tcp", "t_tcp", "u_udp", "t_udp", "u_udp_ecn", "u_udp0", "u_big", "u_icmp", "t_icmp", "u_ipx",
               "u_tcp_odd", "u_udp_odd", "u_icmp_odd", "t_cfi", "u_frag1", "t_frag1t", "u_frag2", "u_arp", "t_arp", "u_oth",
               "bpdu", "u_udp_ipopt", "t_tcp_opts", "u_tcp_tcpopt", "u_tcp_eolopt", "u_tcp_opts_odd", "u_icmp_ipopt",
               "t_ipx_ipopt", "u_frag2_ipopt", "u_frag1_ipopt"]
BITS = fr.MODEL_BITS
FIRST_FRAGS = ("u_frag1", "t_frag1t", "u_frag1_ipopt")


def nw_rewrite(acts):
  return any(a["t"] in ("set_nw_src", "set_nw_dst", "set_tp_src", "set_tp_dst") for a in acts)


class Recorder(object):
  """Performs operations on the real switch and records them in the trace schema
  TraceDatapath.tla reads; keeps the little bookkeeping the generator needs to
  stay inside the model (what it configured itself, how many frames are buffered)."""

  def __init__(self, kind, hexes):
    from harness.adapters_c12 import Adapter
    self.buf = kind == "buf"
    self.hexes = hexes
    self.ad = Adapter(NP=3, MissLen=128, MaxHeld=3 if self.buf else 0)
    self.cfg = {q: set() for q in (1, 2, 3)}
    self.has_flow, self.flow, self.held = False, [], 0
    self.heldff = []               # per buffered frame: is it a first fragment
    self.trace = []

  def perform(self, a, args):
    sargs = dict(args)
    if a in ("Rx", "PacketOut"):
      sargs["hex"] = self.hexes[args["f"]]
    try:
      obs = self.ad.step(a, sargs)
      wf = True
    except Exception as e:
      obs, wf = dict(exc=type(e).__name__), False
    # fixed schema per action
    if a in TRAFFIC:
      ok = wf and set(obs) == {"em", "pins", "stats"} and isinstance(obs["stats"], list) and \
          all(isinstance(x, list) for x in obs["stats"])
      if ok:
        obs = dict(em=[dict(port=p, b=list(bytes.fromhex(h))) for p, h in obs["em"]],
                   pins=[dict(inport=p["inport"], reason=p["reason"], total=p["total"],
                              data=list(bytes.fromhex(p["data"]))) for p in obs["pins"]],
                   stats=obs["stats"])
        if a == "PacketOutBuf":
          self.held -= 1
          ff = self.heldff.pop(args["k"] - 1) if args["k"] <= len(self.heldff) else False
        else:
          ff = args["f"] in FIRST_FRAGS
        if self.buf:
          self.held += len(obs["pins"])
          self.heldff.extend([ff] * len(obs["pins"]))
      else:
        obs = dict(em=[], pins=[], stats=[],
                   exc=obs.get("exc", "malformed-observation") if isinstance(obs, dict) else "?")
        wf = False
    elif a in ("PortMod", "PortModBad"):
      ok = wf and set(obs) == {"config"} and all(isinstance(c, list) for c in obs["config"])
      if ok and a == "PortMod":
        self.cfg[args["p"]] = (self.cfg[args["p"]] - set(args["mask"])) | (set(args["conf"]) & set(args["mask"]))
      if not ok:
        obs, wf = dict(config=[], exc=obs.get("exc", "malformed-observation")), False
    else:
      ok = wf and obs == {"x": 0}
      obs = dict(quiet=bool(ok))
      if ok and a == "FlowMod":
        self.has_flow, self.flow = True, args["acts"]
      elif ok and a == "FlowDel":
        self.has_flow, self.flow = False, []
      wf = wf and ok
    self.trace.append(dict(a=a, args=args, obs=obs, wf=bool(wf)))
    return bool(wf)


def with_table(rnd, acts):
  """output:TABLE somewhere in the list: last (half of the time), else at a random position, sometimes twice."""
  acts = list(acts)
  if rnd.random() < 0.5:
    return acts + [TABLE]
  acts.insert(rnd.randint(0, len(acts) - 1), TABLE)
  if rnd.random() < 0.15:
    acts.insert(rnd.randint(0, len(acts)), TABLE)
  return acts


def drive(item):
  """One seeded random history on the real switch; returns the recorded trace."""
  rnd = random.Random(item["seed"])
  rec = Recorder(item["kind"], item["hexes"])
  buf = rec.buf
  # every shape of the spec, the ones solved for the special checksum values included (MCDatapath!ZShape, NShape)
  shapes_free = SHAPES_FREE + sorted(set(item["hexes"]) - set(SHAPES_FREE))

  def pins_of(acts):          # upper bound of packet-ins a list can cause
    return sum(1 for a in acts if a["t"] == "output" and a["n"] == 0xfffd)

  for _ in range(item["n"]):
    k = rnd.random()
    a = args = None
    if k < 0.14:
      if rec.has_flow:
        a, args = "FlowDel", dict(x=0)
      else:
        a, args = "FlowMod", dict(acts=random_list(rnd, controller=not buf or rnd.random() < 0.5))
    elif k < 0.50:
      p = rnd.randint(1, 3)
      if "PORT_DOWN" in rec.cfg[p]:
        continue                             # outside the model
      a, args = "Rx", dict(p=p, f=rnd.choice(shapes_free))
      if buf and rec.held + (pins_of(rec.flow) if rec.has_flow else 1) > 3:
        continue
      if args["f"] in FIRST_FRAGS and nw_rewrite(rec.flow):
        continue                             # outside the model (Datapath!InModel)
    elif k < 0.74:
      acts = random_list(rnd, maxlen=5, controller=not buf or rnd.random() < 0.3)
      if rnd.random() < 0.3:
        acts = with_table(rnd, acts)
      a, args = "PacketOut", dict(ip=rnd.choice([1, 2, 3, 0xffff]), f=rnd.choice(shapes_free), acts=acts)
      worst = pins_of(acts) + acts.count(TABLE) * (pins_of(rec.flow) if rec.has_flow else 1)
      if buf and rec.held + worst > 3:
        continue
      if args["f"] in FIRST_FRAGS and (nw_rewrite(acts) or (TABLE in acts and nw_rewrite(rec.flow))):
        continue
    elif k < 0.82 and buf:
      if not rec.held:
        continue
      a, args = "PacketOutBuf", dict(k=rnd.randint(1, rec.held), acts=random_list(rnd, maxlen=4, controller=False))
      if rnd.random() < 0.2:
        args["acts"] = with_table(rnd, args["acts"])
      acts = args["acts"]
      if rec.held - 1 + acts.count(TABLE) * (pins_of(rec.flow) if rec.has_flow else 1) > 3:
        continue
      if rec.heldff[args["k"] - 1] and (nw_rewrite(acts) or (TABLE in acts and nw_rewrite(rec.flow))):
        continue
    elif k < 0.95:
      bits = [b for b in BITS if not (buf and b == "NO_PACKET_IN")]
      mask = rnd.sample(bits, rnd.choice([1, 1, 1, 2, len(bits)]))
      conf = [b for b in bits if rnd.random() < 0.5]
      if rnd.random() < 0.15:
        a, args = "PortModBad", dict(kind=rnd.choice(["badport", "badhw"]), p=rnd.randint(1, 3),
                                     mask=sorted(mask), conf=sorted(conf))
      else:
        a, args = "PortMod", dict(p=rnd.randint(1, 3), mask=sorted(mask), conf=sorted(conf))
    else:
      a, args = "SetFrag", dict(drop=rnd.random() < 0.5)
    if not rec.perform(a, args):
      break                                  # the switch can no longer be trusted
  return rec.trace


def redrive(item):
  """Perform a recorded operation sequence again on the current tree."""
  rec = Recorder(item["kind"], item["hexes"])
  for a, args in item["ops"]:
    if not rec.perform(a, args):
      break
  return rec.trace


def replay_one(ctx, rep):
  """./check C12 --replay FILE : re-run one recorded finding against the current tree."""
  if "behaviour" in rep:
    core.replay(ctx, rep["adapter"], [rep["behaviour"]], params=rep.get("params"), procs=1)
    return
  ops = [(e["a"], e["args"]) for e in rep["trace"]]
  trace = core.run_driver("props.C12:redrive", [dict(kind=rep["kind"], hexes=rep["hexes"], ops=ops)], procs=1)[0]
  good = [dict(a="SetFrag", args=dict(drop=False), obs=dict(quiet=True), wf=True)]
  bad = [dict(a="SetFrag", args=dict(drop=False), obs=dict(quiet=False), wf=True)]
  cfg = "Trace_buf.cfg" if rep["kind"] == "buf" else "Trace.cfg"
  r, rej = tracecheck.validate(DIR, "TraceDatapath", cfg, [trace, good, bad], tag="C12", timeout=600, extra_env=JVM)
  rejected = dict(rej)
  if 1 in rejected or 2 not in rejected:
    raise tlc.TLCError("trace validation controls failed during replay")
  if 0 in rejected:
    m = rejected[0]
    ctx.report(trace_signature(trace, m), dict(trace=trace[:m + 1], failing_step=m, kind=rep["kind"],
                                               hexes=rep["hexes"]))
