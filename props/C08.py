"""C08 - component rendezvous and lifecycle of POXCore.

specs/core/Rendezvous.tla is model-checked (exactly-once, never-early,
immediate, lifecycle order) and bound to the real pox.core.POXCore:
  * spec -> code: one behaviour per transition of the abstract state graph of
    several catalogs (+ TLC-simulated deeper behaviours over 5 components and
    5 waiters) replayed on a fresh POXCore each, compared after every call;
    a sample is also replayed through pox.boot.boot() (command line order);
  * code -> spec: seeded random operation sequences on a real POXCore recorded
    and validated by TLC against TraceRendezvous.tla, with negative controls.
How a declaration hands its component names over is a dimension of the spec
(args.f: a fresh collection / a one-shot iterator / a collection the caller
owns, changes afterwards (action Mutate) and re-uses): catalog I explores it
exhaustively, T / U (simulation, random traces) sample it.
So are the listen_args of listen_to_dependencies (args.la: per component - or
for all of them - a priority class and weak / strong) and the caller dropping
its reference to a sink (action Drop): catalog O exhaustively, T / U sampled.
"""
import copy
import random
from concurrent.futures import ThreadPoolExecutor

from engine import tlc, core, tracecheck
from harness import adapters_c08 as ac

ADAPTER = "harness.adapters_c08:Adapter"
BOOT_ADAPTER = "harness.c08_boot:BootAdapter"
REND = ["Register", "CallWhenReady", "ListenTo", "GoUp"]
# lifecycle actions that each catalog must exercise (vacuity guard)
LIFE = {"A": ["GetDeferral", "Release", "Quit"], "B": ["GetDeferral", "Release", "Quit"],
        "L2": ["Release", "Quit"], "L3": ["Release", "Quit"], "R": ["GetDeferral", "Release"], "RQ": ["GetDeferral", "Release"]}
# catalogs I / J have no lifecycle: the caller's collections instead
REQUIRED = {"I": ["Register", "CallWhenReady", "ListenTo", "Mutate"],
            "J": ["Register", "CallWhenReady", "ListenTo", "Mutate"],
            "O": ["Register", "CallWhenReady", "ListenTo", "Drop"]}
SPEC = "core"
MOD = "MCRendezvous"


def _mc(cfg):
  return tlc.run(SPEC, MOD, "MC_%s.cfg" % cfg, workers=4, tag="C08")


def _export(cfg):
  r = tlc.run(SPEC, MOD, "EX_edges_%s.cfg" % cfg, workers=1, coverage=False, tag="C08")
  cat = ac.canon_catalog(r.tagged("CAT")[0])
  behs = [ac.canon_behaviour(b) for b in r.tagged("T")]
  if not behs:
    raise tlc.TLCError("no behaviours exported for %s" % cfg)
  ac.merge_alternatives(behs)
  return cat, behs


def _sim(arg):
  cfg, num, seed = arg
  r = tlc.run(SPEC, MOD, "EX_sim_%s.cfg" % cfg, workers=1, coverage=False,
              simulate=dict(num=num), depth=15, seed=seed, tag="C08")
  cat = ac.canon_catalog(r.tagged("CAT")[0])
  behs = [ac.canon_behaviour(b) for b in r.tagged("H")]
  if len(behs) < num // 2:
    raise tlc.TLCError("simulation %s exported %d behaviours" % (cfg, len(behs)))
  return cat, behs


def nontrivial(beh):
  """at least one waiter fired or one lifecycle event raised"""
  return any(any(lg for lg in st["exp"].get("logs", [])) for st in beh)


CLASS_KEYS = ("action", "via", "observed", "callback", "container", "handlers", "observed_life",
              "expected_life", "fired_extra", "fired_missing", "fields", "life", "decl", "op", "wiring",
              "listen_args", "sink_dropped")


def _one_replay_per_class(ctx, keep=2):
  """The engine keeps replay files for the first 50 failures only; one defect can
  produce thousands of failing behaviours and hide the others.  Keep `keep`
  failures per failure class in ctx.violations and count the rest."""
  orig = ctx.report
  seen = {}

  def report(sig, replay):
    k = core.canon({x: sig[x] for x in CLASS_KEYS if x in sig})
    seen[k] = seen.get(k, 0) + 1
    if seen[k] > keep and not any(core.sig_matches(e["signature"], sig) for e in ctx.known):
      ctx.notes["failures_not_listed_individually"] = ctx.notes.get("failures_not_listed_individually", 0) + 1
      return "violation"
    return orig(sig, replay)
  ctx.report = report
  return seen


def run(ctx):
  quick = ctx.tier == "quick"
  classes = _one_replay_per_class(ctx)
  import time
  t0 = [time.time()]
  phases = ctx.notes.setdefault("phase_wall_s", {})

  def lap(name):
    phases[name] = round(time.time() - t0[0], 1)
    t0[0] = time.time()
  ctx.rule = ("behaviours exported by TLC from Rendezvous.tla (edge cover: shortest path to every "
              "abstract state + each outgoing transition, per catalog; plus -simulate runs over 5 "
              "components / 5 waiters) replayed on a fresh real POXCore each, callback log / registry / "
              "listener wiring / attributes compared after every public call; plus random operation "
              "sequences on a real POXCore validated by TLC; distinct = distinct action/argument "
              "sequences; non-trivial = at least one waiter fired or lifecycle event raised")
  ctx.assumptions = [
      "bounds: exhaustive catalogs have 2-3 (thorough: 4) components and 2-4 waiters with fixed callback "
      "scripts (none, register, fail, register-then-fail, declare another waiter), every dependency set "
      "(quick: 4-5 sets per catalog) and <= 2 (thorough: 3) GoingUp handlers; 5 components / 5 waiters are "
      "covered by simulation and random traces only",
      "single thread: quit() is driven after goUp() from the harness thread, the scheduler is stepped by the "
      "harness inside a virtual time.sleep; concurrent quit() calls and quit() during start-up (thread "
      "respawn loop) are not explored",
      "the order in which simultaneously ready waiters are invoked is latitude (spec exports every order)",
      "a waiter names the components its `components` argument holds when call_when_ready / "
      "listen_to_dependencies is called, however they are handed over (fresh collection of any iterable kind, "
      "one-shot iterator, a collection the caller keeps and changes or re-uses afterwards); exhaustive for "
      "2 components / 3 waiters / one caller-owned collection (catalog I; thorough also J: 3 components), "
      "sampled for 5 / 5 / 2; the args / kw arguments are not varied",
      "a sink's listeners on component c are subscribed with the options listen_args gives for c (missing keys "
      "from the None entry, then priority 0 / strong); observed as the place of the sink's handler relative to "
      "two reference listeners (priorities +5 / -5) on every event-raising component, and as what is still "
      "delivered after the harness dropped its only reference to the sink (a sink lives on while core holds "
      "its pending entry or one of its subscriptions is strong); exhaustive for one sink with two handled "
      "components x 13 listen_args + one with a single component (catalog O), sampled for T / U; every "
      "declaration gets a listen_args dict of its own (a dict re-used or changed by the caller is not explored)",
      "GoingUp deferrals are obtained through event.get_deferral(), by GoingUp handlers or later from the "
      "kept event; lifecycle events are expected synchronously inside goUp() / the deferral call / quit()",
      "what a sink gets when its rendezvous happens (listeners for its _handle_<component>_<Event> methods, "
      "attributes, _all_dependencies_met) is taken from listen_to_dependencies' documentation"]
  mc_cfgs = ["QA", "QB", "L2", "RQ", "I", "O"] if quick else ["A", "B", "C", "L3", "R", "I", "J", "O"]
  ex_cfgs = ["QA", "QB", "L2", "RQ", "I", "O"] if quick else ["QA", "QB", "L2", "R", "L3", "C", "I", "O"]
  nsim = 80 if quick else 2500
  with ThreadPoolExecutor(max_workers=4 if quick else 6) as pool:
    f_mc = [(c, pool.submit(_mc, c)) for c in mc_cfgs]
    f_ex = [(c, pool.submit(_export, c)) for c in ex_cfgs]
    f_sim = [(c, pool.submit(_sim, (c, nsim, ctx.seed + 1 + i))) for i, c in enumerate(["T", "U"])]
    # 1. the property on the model
    for c, f in f_mc:
      r = f.result()
      if r.violated:
        raise tlc.TLCError("spec violates its own property %s (%s):\n%s" % (r.violated, c, r.error_trace))
      tlc.require_coverage(r, REQUIRED.get(c) or REND + LIFE.get(c, []), "Rendezvous " + c)
      ctx.add_model("Rendezvous catalog %s" % c, r)
    exported = [(c, f.result()) for c, f in f_ex]
    sims = [(c, f.result()) for c, f in f_sim]
  # the exported behaviours are a large, static heap that every replay worker inherits by fork: keep it out of
  # the collector's way here, once, instead of letting each worker collect it (adapters_c08._freeze_once)
  import gc
  gc.collect()
  gc.freeze()
  lap("tlc_model_checking_and_export")
  # 2. spec -> code: every transition of the abstract graphs
  for c, (cat, behs) in exported:           # literal samples worth reading first
    best = max(behs, key=lambda b: (sum(len(lg) for st in b for lg in st["exp"]["logs"][:1]), -len(b)))
    ctx.samples.append([dict(a=st["a"], args=st["args"],
                             exp={k: v for k, v in st["exp"].items() if k != "alt"}) for st in best])
  cats = {}
  for i, (c, (cat, behs)) in enumerate(exported):
    cats[c] = cat
    if cat["colls"]:
      # A behaviour that ENDS in Mutate makes no call into core after its prefix (itself an exported
      # behaviour): nothing new can be observed.  Mutate steps inside behaviours are all kept.
      n0 = len(behs)
      behs = [b for b in behs if b[-1]["a"] != "Mutate"]
      ctx.notes["replay_%s_dropped_ending_in_Mutate" % c] = n0 - len(behs)
      # the concrete kinds of iterator (6) / caller-owned collection (5) are chosen per operation from the
      # operations made before it (`vary`): one replay run spreads all of them over the state graph
      for k in range(1 if quick else 3):
        style = (ctx.seed + 5 * i + 7 * k) % 24
        tr = time.time()
        st = core.replay(ctx, ADAPTER, behs, params=dict(catalog=cat, style=style, vary=True), nontrivial=nontrivial)
        ctx.notes["replay_%s_style%d" % (c, style)] = dict(behaviours=len(behs), wall_s=round(time.time() - tr, 1), **st)
      continue
    for k in range(1 if quick or len(behs) > 50000 else 2):
      style = (ctx.seed + 5 * i + 7 * k) % 24
      tr = time.time()
      st = core.replay(ctx, ADAPTER, behs, params=dict(catalog=cat, style=style),
                       nontrivial=nontrivial)
      ctx.notes["replay_%s_style%d" % (c, style)] = dict(behaviours=len(behs), wall_s=round(time.time() - tr, 1), **st)
  # a failing ComponentRegistered listener must not disturb the rendezvous
  cat, behs = exported[0][1]
  st = core.replay(ctx, ADAPTER, behs if not quick else behs[::4],
                   params=dict(catalog=cat, style=(ctx.seed + 3) % 24, noisy=True), nontrivial=nontrivial)
  ctx.notes["replay_%s_failing_listener" % exported[0][0]] = dict(**st)
  lap("replay_edges")
  # 3. deeper random behaviours over 5 components / 5 waiters
  for i, (c, (cat, behs)) in enumerate(sims):
    cats[c] = cat
    st = core.replay(ctx, ADAPTER, behs, params=dict(catalog=cat, style=(ctx.seed + 11 + i) % 24),
                     nontrivial=nontrivial, chunk=25)
    ctx.notes["replay_sim_%s" % c] = dict(behaviours=len(behs), depth=14, **st)
  lap("replay_simulated")
  # 4. through pox.boot.boot(): start-up order given by the command line
  nboot = 150 if quick else 1500
  rnd = random.Random(ctx.seed + 77)
  for c in (["L2", "RQ"] if quick else ["L2", "R", "QB", "QA"]):
    cat, behs = dict(exported)[c]
    sample = rnd.sample(behs, min(nboot, len(behs)))
    st = core.replay(ctx, BOOT_ADAPTER, sample, params=dict(catalog=cat, style=(ctx.seed + 2) % 24),
                     nontrivial=nontrivial, chunk=25)
    ctx.notes["replay_boot_%s" % c] = dict(behaviours=len(sample), **st)
  lap("replay_through_boot")
  # 5. code -> spec
  ntr = 150 if quick else 2500
  for i, c in enumerate(["T", "U"]):
    items = [(ctx.seed * 100003 + 1000 * i + j, 16, cats[c], (ctx.seed + j) % 24) for j in range(ntr)]
    traces = core.run_driver("props.C08:drive", items)
    controls = negative_controls(traces)
    r, rej = tracecheck.validate(SPEC, "TraceRendezvous", "Trace_%s.cfg" % c,
                                 traces + [t for _, _, t in controls], tag="C08")
    ctx.add_model("TraceRendezvous %s (validation of %d implementation traces)" % (c, len(traces)), r)
    rejected = dict(rej)
    # a control is meaningful only if the trace it was derived from is itself accepted
    valid = [(k, what) for k, (what, src, _) in enumerate(controls) if src not in rejected]
    for k, what in valid:
      if len(traces) + k not in rejected:
        raise tlc.TLCError("negative control (%s) was accepted by the trace spec" % what)
    if len(valid) < 2 and not any(t < len(traces) for t in rejected):
      raise tlc.TLCError("could not build negative controls for catalog " + c)
    nrej = 0
    for t, matched in rej:
      if t >= len(traces):
        continue
      nrej += 1
      ev = traces[t][matched]
      sig = dict(action=ev["a"], via="trace", observed=ev.get("exc") or "not-a-spec-behaviour",
                 life=[e["n"] for e in ev["obs"]["log"] if e["k"] == "life"])
      if ev["a"] in ("CallWhenReady", "ListenTo"):
        sig["deps"] = len(ev["args"]["deps"])
      if pending_forms(traces[t], matched):
        sig["decl"] = pending_forms(traces[t], matched)
      las = sorted(set(ac.la_class(e["args"]["la"]) for e in traces[t][:matched + 1] if e["a"] == "ListenTo"))
      if las and las != ["none"]:
        sig["listen_args"] = las
        sig["sink_dropped"] = any(e["a"] == "Drop" for e in traces[t][:matched + 1])
      if ev["a"] == "GoUp":
        sig["handlers"] = "+".join(".".join(op["k"] for op in p) or "none" for p in ev["args"]["hs"]) or "-"
        sig["up"] = ".".join(op["k"] for op in ev["args"]["up"]) or "none"
      ctx.report(sig, dict(trace=traces[t], failing_step=matched, catalog=c,
                           note="TLC rejected the trace at this event"))
    ctx.traces += len(traces)
    for t in traces[:3000]:
      ctx.case(core.fp([[e["a"], e["args"]] for e in t]),
               nontrivial=any(e["obs"]["log"] for e in t))
    ctx.notes["trace_validation_%s" % c] = dict(
        traces=len(traces), events=sum(len(t) for t in traces), rejected=nrej,
        negative_controls_rejected=[w for _, w in valid])
  lap("trace_validation")
  ctx.exhaustive = True
  if classes:
    ctx.notes["failure_classes"] = [dict(n=n, cls=core.json.loads(k)) for k, n in
                                    sorted(classes.items(), key=lambda kv: -kv[1])[:40]]


# --------------------------------------------------------------------------
# code -> spec driver

KINDS = ["none", "hold", "sync", "relprev"]


def _args(**kw):
  a = dict(c="-", w="-", deps=[], hs=[], up=[], o="-", re=False, f="-", la=[])
  a.update(kw)
  return a


def _op(k, c="-", w="-", d=()):
  return dict(k=k, c=c, w=w, d=sorted(d))


def _prog(rnd, comps, cbs, going_up):
  """a random handler program: at most one kept deferral, "raise" only last and
  only in the Up handler, "relprev" only in GoingUp handlers"""
  p = []
  acq = False
  for _ in range(rnd.choice([0, 1, 1, 2, 3])):
    k = rnd.choice(["acq", "sync", "reg", "cwr"] + (["relprev"] if going_up else []))
    if k == "acq":
      if acq:
        continue
      acq = True
      p.append(_op("acq"))
    elif k == "reg":
      p.append(_op("reg", c=rnd.choice(comps)))
    elif k == "cwr":
      p.append(_op("cwr", w=rnd.choice(cbs), d=[c for c in comps if rnd.random() < 0.3]))
    else:
      p.append(_op(k))
  if not going_up and rnd.random() < 0.15:
    p.append(_op("raise"))
  return p


def drive(arg):
  """Random operation sequence on a real POXCore; returns the recorded trace."""
  seed, n, cat, style = arg
  rnd = random.Random(seed)
  ad = ac.Adapter(catalog=cat, style=style)
  comps = cat["comps"]
  waiters = sorted(cat["kind"])
  tr = []
  goneup = False
  for _ in range(n):
    ops = [("Register", 4)]
    new = [w for w in waiters if w not in ad.declared]
    if new:
      ops.append(("Declare", 5))
    if not goneup:
      ops.append(("GoUp", 1))
    else:
      ops.append(("Quit", 1))
      if len([o for o in ad.held if o.startswith("l")]) < 4:
        ops.append(("GetDeferral", 1))
    if ad.held:
      ops.append(("Release", 3))
    if ad.colls:
      ops.append(("Mutate", 3))
    live = sorted(ad.sinks)
    if cat.get("drop") and live:
      ops.append(("Drop", 2))
    k = rnd.choices([o for o, _ in ops], [w for _, w in ops])[0]
    if k == "Register":
      a, args = "Register", _args(c=rnd.choice(comps))
    elif k == "Declare":
      w = rnd.choice(new)
      deps = [c for c in comps if rnd.random() < rnd.choice([0.0, 0.2, 0.4, 0.7])]
      a = "CallWhenReady" if cat["kind"][w] == "cb" else "ListenTo"
      # how the names are handed over: through a collection of the caller's
      # they are whatever the caller has put into it so far
      f = rnd.choice(list(cat["forms"]) * 2 + sorted(ad.colls) * 3)
      if f in ad.colls:
        deps = ad.coll_syms(f)
      args = _args(w=w, deps=deps, f=f)
      if a == "ListenTo" and rnd.random() < 0.6:
        # listen_args: options for some components (and / or for all of them: "*")
        keys = rnd.sample(comps + ["*"], rnd.choice([1, 1, 2, 2, 3]))
        args["la"] = [dict(c=c, p=rnd.choice(["hi", "mid", "lo", "-", "-"]), w=rnd.choice(["y", "n", "-"]))
                      for c in sorted(keys)]
    elif k == "Mutate":
      f = rnd.choice(sorted(ad.colls))
      c = rnd.choice(comps)
      a, args = "Mutate", _args(f=f, c=c, o="del" if c in ad.coll_syms(f) else "add")
    elif k == "Drop":
      a, args = "Drop", _args(w=rnd.choice(live))
    elif k == "GoUp":
      goneup = True
      a = "GoUp"
      cbs = [w for w in waiters if cat["kind"][w] == "cb"]
      args = _args(hs=[_prog(rnd, comps, cbs, True) for _ in range(rnd.randint(0, 3))],
                   up=_prog(rnd, comps, cbs, False))
    elif k == "Release":
      a, args = "Release", _args(o=rnd.choice(sorted(ad.held)))
    elif k == "GetDeferral":
      a, args = "GetDeferral", _args()
    else:
      a, args = "Quit", _args(re=rnd.random() < 0.3)
    ev = dict(a=a, args=args, wf=True, exc="")
    try:
      o = ad.step(a, args)
      if "DIVERGED" in o:
        ev["exc"] = "diverged"
        raise ValueError("diverged")
      obs = dict(log=o["logs"][0], comps=o["comps"], wired=o["wired"], attrs=o["attrs"])
      bad = [p for p in obs["wired"] if len(p) != 3] + [p for p in obs["attrs"] if len(p) != 2]
      if bad:
        ev["exc"] = "anomalous-wiring:" + repr(bad)[:80]
        raise ValueError("anomaly")
    except Exception as e:
      ev["exc"] = ev["exc"] or "exception:" + type(e).__name__
      ev["wf"] = False
      obs = dict(log=[], comps=[], wired=[], attrs=[])
    ev["obs"] = obs
    tr.append(ev)
    if not ev["wf"]:
      break
  ad.close()
  return tr


def pending_forms(trace, upto):
  """how the waiters still pending before event `upto` (and the one declared
  by it) had their names handed over: fresh / once / own / own+add / own+del"""
  form = {}
  for e in trace[:upto + 1]:
    a = e["args"]
    if e["a"] in ("CallWhenReady", "ListenTo"):
      form[a["w"]] = [a["f"], "own" if a["f"].startswith("k") else a["f"]]
    elif e["a"] == "Mutate":
      for w, v in form.items():
        if v[0] == a["f"] and not v[1].endswith("+" + a["o"]):
          v[1] += "+" + a["o"]
    if e is not trace[upto]:
      for x in e["obs"]["log"]:
        if x["k"] == "fire":
          form.pop(x["n"], None)
  return sorted(set(v[1] for v in form.values()))


def negative_controls(traces):
  """Corrupted copies of recorded traces that the trace spec must reject."""
  out = []

  def find(pred):
    for t in traces:
      for i, e in enumerate(t):
        if pred(e):
          return copy.deepcopy(t), i, traces.index(t)
    return None, None, None

  t, i, src = find(lambda e: any(x["k"] == "fire" for x in e["obs"]["log"]))
  if t:
    lg = t[i]["obs"]["log"]
    j = [x["k"] for x in lg].index("fire")
    lg.insert(j, copy.deepcopy(lg[j]))
    out.append(("a waiter invoked twice", src, t[:i + 1]))
  t, i, src = find(lambda e: any(x["k"] == "fire" for x in e["obs"]["log"]))
  if t:
    lg = t[i]["obs"]["log"]
    del lg[[x["k"] for x in lg].index("fire")]
    out.append(("a ready waiter not invoked", src, t[:i + 1]))
  t, i, src = find(lambda e: any(x["k"] == "fire" and x["s"] for x in e["obs"]["log"]))
  if t:
    lg = t[i]["obs"]["log"]
    x = [x for x in lg if x["k"] == "fire" and x["s"]][0]
    x["s"] = []
    out.append(("a waiter invoked before its components were registered", src, t[:i + 1]))
  t, i, src = find(lambda e: any(x["n"] == "Up" for x in e["obs"]["log"]))
  if t:
    lg = t[i]["obs"]["log"]
    j = [x["n"] for x in lg].index("Up")
    lg.insert(j, copy.deepcopy(lg[j]))
    out.append(("Up raised twice", src, t[:i + 1]))
  t, i, src = find(lambda e: e["a"] == "ListenTo" and e["obs"]["wired"])
  if t:
    t[i]["obs"]["wired"] = t[i]["obs"]["wired"][1:]
    out.append(("a sink's listener missing after its rendezvous", src, t[:i + 1]))
  # a listener delivered at another place than the priority given for its component puts it
  t, i, src = find(lambda e: e["obs"]["wired"])
  if t:
    x = t[i]["obs"]["wired"][0]
    x[2] = "hi" if x[2] != "hi" else "mid"
    out.append(("a sink's listener delivered with another priority than the one given for its component",
                src, t[:i + 1]))
  # a strongly subscribed sink that disappears once the caller dropped it
  t, i, src = find(lambda e: e["a"] == "Drop" and any(p[0] == e["args"]["w"] for p in e["obs"]["wired"]))
  if t:
    w = t[i]["args"]["w"]
    t[i]["obs"]["wired"] = [p for p in t[i]["obs"]["wired"] if p[0] != w]
    out.append(("a strongly subscribed sink no longer delivered to after the caller dropped it", src, t[:i + 1]))
  # a waiter declared through a collection of the caller's which the caller
  # then changed: it still waits for what the collection held when it was declared
  for t0 in traces:
    via = {}
    hit = None
    for i, e in enumerate(t0):
      a = e["args"]
      if e["a"] in ("CallWhenReady", "ListenTo") and a["f"].startswith("k") and \
         not any(x["k"] == "fire" and x["n"] == a["w"] for x in e["obs"]["log"]):
        via[a["w"]] = [a["f"], False]
      elif e["a"] == "Mutate":
        for v in via.values():
          if v[0] == a["f"]:
            v[1] = True
      fired = [x["n"] for x in e["obs"]["log"] if x["k"] == "fire"]
      for w in fired:
        if w in via and via[w][1] and e["a"] == "Register" and len(fired) == 1:
          hit = (i, w)
        via.pop(w, None)
      if hit:
        break
    if hit:
      i, w = hit
      t = copy.deepcopy(t0)
      t[i]["obs"]["log"] = [x for x in t[i]["obs"]["log"] if not (x["k"] == "fire" and x["n"] == w)]
      out.append(("a waiter declared through a list that was changed afterwards not invoked when the "
                  "components it named were registered", traces.index(t0), t[:i + 1]))
      break
  return out
