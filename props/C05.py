"""C05 - revent: delivery order, halting, unsubscription (specs/revent/Revent.tla).

1. TLC model-checks Revent.tla (invariants + action properties) on five
   configurations (priorities/re-entrancy, removal/one-shot, weak owners /
   autoBind, errors/undeclared types, bulk removal = removeListeners(list) in
   all element forms / clearHandlers()), with the vacuity guard.
2. spec -> code: the same runs export one behaviour per transition of the
   state graph; each is replayed command by command on a real EventMixin
   source (harness/adapters_c05.py stops inside every real handler
   invocation).  A run that leaves the exported alternatives is decided by
   TLC (TraceRevent), never by Python.
3. code -> spec: seeded random command sequences (deeper nesting, several
   commands per handler, two event types) recorded on the real code and
   validated by TLC against TraceRevent, with a corrupted trace as negative
   control.
"""
import concurrent.futures
import copy

from engine import tlc, core, tracecheck
from harness import c05_lib

# config -> (types of the source, actions that must be covered, adapter variants)
FAMILY = {
  "quick": [("order", ["A"]), ("remove", ["A"]), ("weak", ["A"]), ("err", ["A"]),
            ("bulk", ["A"])],
  "thorough": [("orderM", ["A"]), ("removeM", ["A", "B"]), ("weakM", ["A"]), ("errM", ["A"]),
               ("bulkM", ["A", "B"]), ("weakP", ["A"]), ("err", ["A"])],
}
BIG_MC = ["orderL", "removeL", "bulkL"] # thorough: property only, no export
COVER = {
  "order": ["Subscribe", "RaiseBegin", "Return", "RaiseSimple"],
  "remove": ["Subscribe", "Unsubscribe", "RaiseBegin", "Return", "RaiseSimple"],
  "weak": ["Subscribe", "AutoBind", "Unsubscribe", "DropOwner", "RaiseBegin", "Return", "RaiseSimple"],
  "err": ["Subscribe", "Unsubscribe", "RaiseBegin", "Return", "RaiseSimple"],
  # (the thorough-size error configuration keeps its earlier alphabet: unsubscribing by an undeclared type is explored
  # in the quick-size one)
  "errM": ["Subscribe", "RaiseBegin", "Return", "RaiseSimple"],
  # thorough: the quick-size weak configuration with autoBindEvents(prefix=...)
  "weakP": ["Subscribe", "AutoBind", "Unsubscribe", "DropOwner", "RaiseBegin", "Return", "RaiseSimple"],
  # removeListeners(list) / clearHandlers(); UnsubscribeManyAny is the named
  # wrapper of \E items : UnsubscribeMany(items) (TLC names coverage by it)
  "bulk": ["Subscribe", "UnsubscribeManyAny", "ClearAll", "RaiseBegin", "Return", "RaiseSimple"],
}
VARIANTS = [dict(hook="none", prios="std", decl="class"),
            dict(hook="core", prios="unit", decl="dyn"),
            dict(hook="default", prios="big", decl="class")]


def _tlc(args):
  cfg, kw = args
  return c05_lib.fix_coverage(tlc.run("revent", "MCRevent", cfg, tag="C05", **kw))


def _check(name, r):
  if r.violated:
    raise tlc.TLCError("Revent.tla violates its own property %s in %s:\n%s"
                       % (r.violated, name, r.error_trace))
  base = name.rstrip("LM")
  tlc.require_coverage(r, COVER.get(name, COVER[base]), "Revent %s" % name)


def run(ctx):
  quick = ctx.tier == "quick"
  fam = FAMILY[ctx.tier if ctx.tier in FAMILY else "quick"]
  ctx.rule = ("one behaviour per transition of the Revent.tla state graph (shortest path to the "
              "source state + the transition), exported by TLC and replayed command by command on "
              "a real pox.lib.revent EventMixin source, stopping inside every real handler "
              "invocation; plus seeded random command traces recorded on the real code and "
              "validated by TLC (TraceRevent).  distinct = distinct command/argument sequences; "
              "non-trivial = contains at least one handler invocation or removal")
  ctx.assumptions = [
    "bounds of the exhaustive part: <=3 subscriptions (<=2 in the removal/error configs), <=2 "
    "raises (+1 probe delivery), delivery nesting <=2, one re-entrant command per handler "
    "invocation, 2-3 owners, priorities {-3,0,5} (also {-1,0,1}, {-2^40,0,2^40}), 1-2 event types",
    "random traces go beyond: nesting 3, unbounded commands per handler, ~50 commands",
    "handlers are bound methods of harness objects; which of two subscriptions of the SAME "
    "handler ran is not observable and is resolved by TLC over all consistent spec states",
    "owner death is CPython reference counting: DropOwner is only issued when no strong "
    "reference can exist (spec CanDie)",
    "removeListeners(list) is explored exhaustively for lists of 2 elements (every mix of "
    "handler / eid / (type, eid), live, stale, never-issued and duplicate entries, idle and "
    "from inside a handler); longer lists (0..4) only in the random traces",
    "event.halt set by a handler that returns None, arbitrary non-Event values and "
    "_eventMixin_events = True sources are not modelled",
  ]
  # ---- 1. the property on the model (+ export in the same run)
  jobs = [("MX_%s.cfg" % n if quick else "EX_%s.cfg" % n,
           dict(workers=1, coverage=quick, timeout=1500)) for n, _ in fam]
  if not quick:
    jobs += [("MC_%s.cfg" % n, dict(workers=3, timeout=1500)) for n, _ in fam]
    jobs += [("MC_%s.cfg" % n, dict(workers=4, timeout=2400)) for n in BIG_MC]
    jobs += [("PATHS_depth7.cfg", dict(workers=1, coverage=False, timeout=1500))]
  with concurrent.futures.ThreadPoolExecutor(max_workers=5 if quick else 4) as ex:
    results = list(ex.map(_tlc, jobs))
  res = dict(zip([j[0] for j in jobs], results))
  exports = {}
  for n, types in fam:
    if quick:
      r = res["MX_%s.cfg" % n]
      _check(n, r)
      ctx.add_model("Revent %s (model check + export)" % n, r)
      exports[n] = r
    else:
      r = res["MC_%s.cfg" % n]
      _check(n, r)
      ctx.add_model("Revent %s" % n, r)
      exports[n] = res["EX_%s.cfg" % n]
  if not quick:
    for n in BIG_MC:
      r = res["MC_%s.cfg" % n]
      _check(n, r)
      ctx.add_model("Revent %s" % n, r)
  # ---- 2. spec -> code
  for k, (n, types) in enumerate(fam):
    behs = exports[n].tagged("T")
    if len(behs) < 1000:
      raise tlc.TLCError("only %d behaviours exported for %s" % (len(behs), n))
    params = dict(types=types, **VARIANTS[(k + ctx.seed) % len(VARIANTS)])
    st = c05_lib.replay(ctx, behs, params, "Trace_A.cfg" if types == ["A"] else "Trace.cfg")
    ctx.notes["replay_%s" % n] = dict(behaviours=len(behs), adapter=params, **st)
  if not quick:
    # every command sequence of length 7 over a small alphabet (the code may
    # carry history that the abstract state does not distinguish)
    r = res["PATHS_depth7.cfg"]
    behs = r.tagged("H")
    if len(behs) < 10000:
      raise tlc.TLCError("only %d all-path behaviours exported" % len(behs))
    ctx.add_model("Revent all paths to depth 7 (export)", r)
    params = dict(types=["A"], **VARIANTS[(1 + ctx.seed) % len(VARIANTS)])
    st = c05_lib.replay(ctx, behs, params, "Trace_A.cfg")
    ctx.notes["replay_allpaths_depth7"] = dict(behaviours=len(behs), adapter=params, **st)
  # ---- 3. code -> spec
  ntr, length = (600, 50) if quick else (12000, 60)
  items = []
  for i in range(ntr):
    v = VARIANTS[i % 3]
    items.append((ctx.seed * 1000003 + i * 7919 + 1, length, ["A", "B"], v["hook"], v["prios"], v["decl"]))
  traces = core.run_driver("harness.c05_lib:drive", items)
  bad = None
  for t in traces:
    if all(e["wf"] for e in t):
      bad = c05_lib.corrupt(t)
      if bad:
        break
  batches = [traces[i:i + 3000] for i in range(0, len(traces), 3000)]
  rejected = 0
  for bi, batch in enumerate(batches):
    extra = [bad] if bad is not None else []
    r, rej = tracecheck.validate("revent", "TraceRevent", "Trace.cfg", batch + extra, tag="C05")
    ctx.add_model("TraceRevent (validation of %d implementation traces)" % len(batch), r)
    rejd = dict(rej)
    if bad is not None and len(batch) not in rejd:
      raise tlc.TLCError("negative control (corrupted observation) was accepted by TraceRevent")
    for t, matched in rej:
      if t >= len(batch):
        continue
      rejected += 1
      ev = batch[t][matched]
      it = items[bi * 3000 + t]
      # replayable form: the recorded commands with the recorded observations
      # as expectation; the rejected event expects a marker, so that
      # `--replay` re-runs the commands and lets TLC judge the run as observed
      beh = [dict(a=e["a"], args=e["args"], exp=e["obs"]) for e in batch[t][:matched]]
      beh.append(dict(a=ev["a"], args=ev["args"], exp=dict(ev["obs"], k="REJECTED-BY-TLC")))
      c05_lib.report(ctx, c05_lib.trace_signature(ev),
                     dict(adapter=c05_lib.ADAPTER,
                          params=dict(types=it[2], hook=it[3], prios=it[4], decl=it[5],
                                      arbiter="Trace.cfg"),
                          behaviour=beh, failing_step=matched, observed=ev["obs"],
                          expected="TLC (TraceRevent) rejected the recorded trace at this event",
                          driver=list(it)))
  if bad is None and not any(not e["wf"] for t in traces for e in t):
    raise tlc.TLCError("no negative control could be built")
  ctx.traces += len(traces)
  for t in traces[:3000]:
    ctx.case(core.fp([[e["a"], e["args"]] for e in t]),
             nontrivial=any(e["obs"]["k"] in ("inv", "simple") for e in t))
  ctx.notes["trace_validation"] = dict(
      traces=len(traces), events=sum(len(t) for t in traces), rejected=rejected,
      negative_control_rejected=bad is not None,
      nesting3=sum(1 for t in traces if _depth(t) >= 3))
  ctx.exhaustive = True


def _depth(t):
  d = m = 0
  for e in t:
    k = e["obs"]["k"]
    if e["a"] == "RaiseBegin" and k == "inv":
      d += 1
    elif e["a"] == "Return" and k == "end":
      d -= 1
    m = max(m, d)
  return m
