"""C14 - packet headers survive build -> bytes -> parse with valid lengths and checksums.

PktWire.tla (layout tables + RFC 1071 in TLA+) is model-checked by TLC on a
corpus of header stacks; every case is exported and replayed on the real
pox.lib.packet classes (build + pack, parse of the oracle's own bytes, re-pack),
and randomised packets recorded from the library are validated by TLC.
"""
import collections
import copy
import random
import threading

from engine import tlc, core, tracecheck
from harness import c14_wire as W

ADAPTER = "harness.adapters_c14:Adapter"
ACTIONS = ["Build", "Feed", "Pack", "Parse", "Edit", "Repack", "Change", "PackAgain", "RepackAgain"]
OPTIONAL = ("Edit", "Change", "PackAgain", "RepackAgain")      # need a payload / a container: required over all corpora together
CORPORA = {"quick": ["quick", "ext", "tail", "dns"], "thorough": ["thorough", "ext", "tail", "dns", "sweep"]}


def _parallel(jobs, limit):
  """run callables in threads (each one blocks in a TLC subprocess)"""
  out = [None] * len(jobs)
  sem = threading.Semaphore(limit)

  def work(i):
    with sem:
      try:
        out[i] = ("ok", jobs[i]())
      except BaseException as e:      # re-raised in the caller
        out[i] = ("err", e)
  ts = [threading.Thread(target=work, args=(i,)) for i in range(len(jobs))]
  for t in ts:
    t.start()
  for t in ts:
    t.join()
  for kind, v in out:
    if kind == "err":
      raise v
  return [v for _, v in out]


def _mx(name):
  def job():
    # One TLC run per corpus: every invariant / action property of PktWire.tla is
    # checked on every reachable state and, in the same run, INVARIANT Export
    # prints each completed behaviour (PrintT writes whole lines, so several
    # workers are fine).  No -coverage: it switches off TLC's memoisation of LET
    # definitions and the recursive assembly runs out of memory; the vacuity
    # guard is computed from the exported behaviours instead (see _vacuity).
    r = tlc.run("packet", "PktWireMC", "PktWire_MX_%s.cfg" % name, coverage=False, tag="C14", timeout=2400, workers=5)
    if r.violated:
      raise tlc.TLCError("PktWire.tla violates its own property %s (PktWire_MX_%s.cfg):\n%s"
                         % (r.violated, name, r.error_trace))
    behs = r.tagged("H")
    if not behs:
      raise tlc.TLCError("no behaviours exported by PktWire_MX_%s.cfg" % name)
    # TLC's workers print in no particular order: make the replay order (and with it the
    # choice of samples / replay files) independent of scheduling
    behs.sort(key=lambda b: (core.canon(b[0]["args"]["d"]), core.canon([[st["a"], st["exp"]] for st in b[:3]])))
    return r, behs
  return job


def _one_report_per_signature(ctx):
  """one defect shows up on hundreds of inputs: pass on the first report of each
  signature (with its replay data), count the rest"""
  orig = ctx.report
  seen = collections.Counter()

  def report(sig, rep):
    key = core.canon(sig)
    seen[key] += 1
    if seen[key] > 1 and not any(core.sig_matches(e["signature"], sig) for e in ctx.known):
      return "violation"
    return orig(sig, rep)
  ctx.report = report
  return seen


def _strip_eol(opts):
  out = []
  for x in opts:
    if x["k"] == 0:
      break
    out.append(x)
  return out


def _check_mirror(behs, structured=None):
  """harness/c14_wire.py (the Python byte builder other checks use) against TLC's EncStack; its reading of the
  structured TCP options (mp_fields, which tells the adapter what to build) against TLC's OptView"""
  for b in behs:
    stack = b[0]["args"]["pkt"]
    built = b[0]["a"] == "Build"
    for st in b:
      if st["a"] == "Parse":
        for L, V in zip(b[0]["args"]["pkt"], st["exp"]["view"]):
          if L["p"] == "tcp" and V["p"] == "tcp":
            if [W.opt_view(x) for x in _strip_eol(L["opts"])] != V["opts"]:
              raise core.Machinery("harness/c14_wire.py:mp_fields disagrees with MpFields of PktWireLayers.tla on %s"
                                   % (b[0]["args"]["d"],))
            if structured is not None:
              for x in V["opts"]:
                if x["f"]:
                  structured[(b[0]["a"], x["f"][0]["v"][0], tuple(sorted((e["n"], len(e["v"])) for e in x["f"])),
                              tuple(bool(any(e["v"][:4])) for e in x["f"] if e["n"] in ("ack", "dsn")))] += 1
                elif x["k"] == 30:
                  structured[(b[0]["a"], "opaque", x["d"][0] >> 4)] += 1
      if st["a"] == "Change" and built and len(b) == 4:
        stack = W.apply_edit(stack, st["args"])           # Build, Pack, Change, PackAgain: the edited stack
      w = (st["exp"] if st["a"] == "Pack" or (st["a"] == "PackAgain" and built)
           else st["args"]["wire"] if st["a"] == "Feed" else None)
      if w is None:
        continue
      pay = W.raw_bytes(stack[-1]) if stack and stack[-1]["p"] in ("raw", "rawb") else b""
      if bytes(w["hdr"]) + pay not in [W.encode(x) for x in W.pad_variants(stack)] or w["pay"] != len(pay):
        raise core.Machinery("harness/c14_wire.py disagrees with PktWireLayers.tla on %s" % (b[0]["args"]["d"],))


def _vacuity(behs, mc, name):
  cnt = collections.Counter(st["a"] for b in behs for st in b)
  fake = tlc.TLCResult()
  fake.coverage = {a: (0, n) for a, n in cnt.items()}
  # (Edit needs an opaque payload: required over all corpora together, see _run)
  tlc.require_coverage(fake, [a for a in ACTIONS if a not in OPTIONAL], "PktWire %s" % name)
  cases = len({core.canon(b[0]["args"]["d"]) for b in behs})
  # init + built + packed + parsed + done per case (and the Feed path), all reached
  if mc.distinct < 5 * cases:
    raise tlc.TLCError("PktWire_MX_%s.cfg explored %d states for %d cases: invariants not evaluated on every phase"
                       % (name, mc.distinct, cases))
  return cnt, cases


def _vacuity_options(ctx, structured):
  """the structured-option dimension was really explored: through both entries (Build ; Pack and Feed) every
  Multipath TCP layout with named fields - MP_CAPABLE with one and two keys, the three MP_JOIN forms, DSS with every
  combination of Data ACK width (none, 4, 8 octets) and data sequence number width - and opaque subtypes; 64-bit
  numbers with and without significant upper halves"""
  for entry in ("Build", "Feed"):
    lay = {(k[1], tuple(n for n, _ in k[2])) for k in structured if k[0] == entry and k[1] != "opaque"}
    want = {(0, ("flags", "skey", "subtype", "version")), (0, ("flags", "rkey", "skey", "subtype", "version")),
            (1, ("addr", "flags", "rtoken", "srand", "subtype")), (1, ("addr", "flags", "shmac", "srand", "subtype")),
            (1, ("addr", "flags", "shmac", "subtype")), (2, ("ack", "flags", "subtype")),
            (2, ("csum", "dsn", "flags", "length", "seq", "subtype")),
            (2, ("ack", "csum", "dsn", "flags", "length", "seq", "subtype"))}
    if want - lay:
      raise tlc.TLCError("Multipath TCP option layouts never reached Parse after %s: %s" % (entry, sorted(want - lay)))
    # Data ACK / DSN width combinations, seen as which of the two has a significant upper half
    widths = {k[3] for k in structured if k[0] == entry and k[1] == 2}
    need = {(True,), (False,), (True, True), (True, False), (False, True), (False, False)}
    if need - widths:
      raise tlc.TLCError("DSS width combinations (Data ACK, DSN upper half used) never explored after %s: %s"
                         % (entry, sorted(need - widths)))
    if not any(k[0] == entry and k[1] == "opaque" for k in structured):
      raise tlc.TLCError("no Multipath TCP option with an opaque subtype reached Parse after %s" % entry)
  ctx.notes["structured_tcp_options"] = {str(k): structured[k] for k in sorted(structured, key=str)}


def run(ctx):
  ctx.level = "exploration"
  seen = _one_report_per_signature(ctx)
  try:
    _run(ctx, ctx.tier == "quick")
  finally:
    if seen:
      ctx.notes["mismatches_per_signature"] = dict(seen)


def _run(ctx, quick):
  ctx.rule = ("cases = descriptors (stack family x value class Z/M/S/P of every free field x payload length x "
              "option/TLV/extension-header variant, plus every free field of every table-driven layer deviating alone "
              "to all-zero and all-ones); for each case TLC computes the frame bytes (layout tables + RFC 1071 in TLA+) "
              "and two behaviours are replayed on pox.lib.packet: Build,Pack,Parse,Repack (library assembles and "
              "serialises) and Feed,Parse,Repack (TLC's own bytes go into ethernet(raw=...)); bytes and parsed header "
              "fields compared after every step.  Then random packets (random field values and payloads on the same "
              "shapes) recorded from the library are validated by TLC.  distinct = distinct case descriptors / random "
              "packets; non-trivial = has at least one header below Ethernet or a payload (all but the bare "
              "Ethernet frames with empty payload)")
  ctx.assumptions = [
      "expected bytes come only from specs/packet/PktWireLayers.tla: header layouts transcribed from the standards as "
      "field tables, bit packing, RFC 1071 checksum (two definitions cross-checked by TLC), bottom-up assembly",
      "fields wider than 24 bits cross the TLC boundary as byte lists; payloads are pattern bytes (a + b*i mod 256)",
      "structural fields are consistent with the stack (ethertype / IP protocol / ports select the next header, "
      "IHL matches the options, 802.3 length matches, MPLS S bit marks the bottom); IPv4 id is set explicitly",
      "Multipath TCP options (kind 30) with a field layout in RFC 6824 (MP_CAPABLE, MP_JOIN, DSS with a checksum) are "
      "compared field by field (MpFields / OptView; the adapter reads the option objects' attributes, None = absent "
      "field; 32/64-bit numbers as eight octets); reserved bits are zero; other subtypes are opaque data",
      "TCP option lists are compared up to the end-of-list option; DHCP pad options and whether repeated DNS names "
      "are compressed carry no information (either serialisation is accepted); ports that select a UDP payload "
      "parser (53, 67, 68, 520, 4789, 5353) are excluded from the free values of plain UDP stacks",
      "DNS messages whose names share a suffix are free-form (RFC 1035 4.1.4 leaves compression to the sender): the "
      "spec predicts no bytes for them; TLC feeds its own four styles to the parser (replay) and judges the bytes the "
      "library packs / re-packs with the relation Encodes / DnsValid (trace validation, PackAs / RepackAs)",
      "harness/c14_wire.py (Python byte builder fed by the TLA+ layout tables) is cross-checked against TLC's "
      "EncStack on every exported case, and by TLC itself on every random packet (Feed event)"]
  import time
  t0 = time.time()
  tm = ctx.notes.setdefault("phase_wall_s", {})
  lay = W.load_layouts()
  names = CORPORA[ctx.tier]
  tm["layout_tables"] = round(time.time() - t0, 1)
  res = _parallel([_mx(n) for n in names], 5)
  tm["tlc_model_check_and_export"] = round(time.time() - t0, 1)
  exs = dict(zip(names, res))
  mcs = {n: exs[n][0] for n in names}
  templates = {}
  free = []              # free-form stacks (the spec exports only Feed, Parse for them): the sender's half goes to TLC
  agg = collections.Counter()
  structured = collections.Counter()      # Multipath TCP option layouts that reached Parse, per entry (Build / Feed)
  for n in names:
    r, behs = exs[n]
    cnt, cases = _vacuity(behs, mcs[n], n)
    agg.update(cnt)
    ctx.add_model("PktWire %s corpus: %d cases, all invariants + ObservationsOK" % (n, cases), mcs[n])
    _check_mirror(behs, structured)
    st = core.replay(ctx, ADAPTER, behs, params=dict(layouts=lay), chunk=60,
                     nontrivial=lambda b: len(b[0]["args"]["pkt"]) > 1)
    ctx.notes["replay_" + n] = dict(behaviours=len(behs), cases=cases, **st)
    for b in behs:
      d = b[0]["args"]["d"]
      if d["vc"] == "P" and d["dl"] == 0:
        k = (d["fam"], d["var"])
        if k not in templates or d["n"] < templates[k][0]:
          templates[k] = (d["n"], b[0]["args"]["pkt"])
      if b[0]["a"] == "Feed" and b[0]["args"].get("free") == 1:
        free.append(b[0]["args"]["pkt"])
    del behs
  tm["replay"] = round(time.time() - t0, 1)
  fake = tlc.TLCResult()
  fake.coverage = {a: (0, n) for a, n in agg.items()}
  tlc.require_coverage(fake, ACTIONS, "PktWire (all corpora)")
  ctx.notes["steps_per_action"] = dict(agg)
  _vacuity_options(ctx, structured)
  ctx.notes["mirror_cross_check"] = "harness/c14_wire.py == EncStack on every exported case"
  # code -> spec: random values on every shape, TLC decides
  tpl = [templates[k][1] for k in sorted(templates)]
  ntr = max(300, len(tpl)) if quick else 10000       # (every shape at least once)
  ctx.notes["random_templates"] = len(tpl)
  items = [(ctx.seed * 1000003 + i, tpl[i % len(tpl)], i % 3 == 2) for i in range(ntr)]
  # free-form stacks exactly as TLC exported them: once built and packed by the library, and fed to its parser
  # (uncompressed / suffix-compressed) and re-packed; what the library emits is judged by TLC (PackAs / RepackAs)
  free.sort(key=core.canon)
  built = set()
  for st in free:
    k = core.canon(W.with_style(st, 0))
    if k not in built:
      built.add(k)
      items.append((0, W.with_style(st, 0), False, True))
    if st[-1]["cmp"] in (0, 2):      # (the parser sees all four styles in the replay above; re-packing what it parsed: two)
      items.append((0, st, True, True))
  if not built:
    raise core.Machinery("no free-form case (DNS names sharing a suffix) was exported: PackAs / RepackAs would go unexercised")
  traces = core.run_driver("props.C14:drive", items)
  tm["random_driver"] = round(time.time() - t0, 1)
  _validate(ctx, traces, lay)
  tm["trace_validation"] = round(time.time() - t0, 1)
  ctx.exhaustive = False


def _corrupt(traces):
  """negative control: one byte of one serialisation changed in a copy of a trace"""
  for t in traces:
    if all(e["wf"] for e in t) and len(t) == 4 and len(t[1]["obs"]["hdr"]) > 20 and not W.free_form(t[0]["args"]["pkt"]):
      bad = copy.deepcopy(t)
      bad[1]["obs"]["hdr"][17] ^= 1
      return bad
  raise core.Machinery("no well-formed Build/Pack/Parse/Repack trace to corrupt for the negative control")


def _wrong_names(traces):
  """negative controls for the relation that judges free-form serialisations: in a copy of a Build/Pack trace the
  bytes are those of another message - (a) one label dropped from the last name that has three or more (what a
  pointer to the wrong label decodes to), every length and checksum around it consistent; (b) the right message
  with its last pointer aimed one byte off, checksums again consistent"""
  out = []
  for t in traces:
    stack = t[0]["args"]["pkt"]
    if not (t[0]["a"] == "Build" and len(t) == 4 and all(e["wf"] for e in t) and W.free_form(stack)):
      continue
    other = copy.deepcopy(stack)
    recs = other[-1]["ans"] + other[-1]["auth"] + other[-1]["add"]
    long_ = [r for r in recs if len(r["name"]) >= 3]
    if not long_:
      continue
    del long_[-1]["name"][1]
    a = copy.deepcopy(t)
    b = W.encode(W.with_style(other, 2))
    a[1]["obs"] = {"hdr": list(b), "pay": 0}
    out.append(a[:2])
    body = bytearray(W.dns_bytes(dict(stack[-1], cmp=2)))
    ptrs = [i for i in W.dns_pointer_offsets(bytes(body))]
    if ptrs:
      body[ptrs[-1] + 1] ^= 1
      c = copy.deepcopy(t)
      c[1]["obs"] = {"hdr": list(W.encode(stack[:-1] + [{"p": "rawb", "data": list(body)}])), "pay": 0}
      out.append(c[:2])
    return out
  raise core.Machinery("no free-form Build/Pack trace to derive the negative controls from")


def _validate(ctx, traces, lay):
  bads = [_corrupt(traces)] + _wrong_names(traces)
  slim = [[{k: e[k] for k in ("a", "args", "obs", "wf")} for e in t] for t in traces + bads]
  r, rej = tracecheck.validate("packet", "PktWireTrace", "PktWire_Trace.cfg", slim, tag="C14")
  ctx.add_model("PktWireTrace (validation of %d library traces, invariants on every recorded packet)" % len(traces), r)
  rejected = [t for t, _ in rej]
  for i in range(len(bads)):
    if len(traces) + i not in rejected:
      raise tlc.TLCError("negative control %d (%s) was accepted by PktWireTrace"
                         % (i, "one corrupted byte" if i == 0 else "free-form message with other names / a pointer one byte off"))
  from harness.adapters_c14 import Adapter
  ad = Adapter(layouts=lay)
  nrej = 0
  for t, matched in rej:
    if t >= len(traces):
      continue
    ev = traces[t][matched]
    if ev["a"] == "Feed":
      raise core.Machinery("TLC rejected a frame built by harness/c14_wire.py (mirror out of date?): %s"
                           % core.canon(ev["args"]["pkt"])[:400])
    nrej += 1
    # TLC gave the verdict; the mirror is used only to name the layer / field for the signature
    ad.stack = traces[t][0]["args"]["pkt"]
    if ev["a"] in ("Pack", "Repack") and W.free_form(ad.stack) and ev["wf"]:
      sig = {"action": ev["a"], "observed": "not_a_serialisation_of_the_message", "layer": "dns", "free_form": True,
             "what": W.dns_diagnose(ad.stack, bytes(ev["obs"]["hdr"]))}
    else:
      prev = traces[t][matched - 1] if matched else None
      sent = None                   # the bytes the parser was given, when the stack does not determine them
      if prev is not None and W.free_form(ad.stack):
        sent = prev["obs"]["hdr"] if prev["a"] == "Pack" else prev["args"]["wire"]["hdr"] if prev["a"] == "Feed" else None
      sig = ad.signature(dict(a=ev["a"], exp=_mirror_exp(ev["a"], ad.stack, sent)), ev.get("raw", ev["obs"]))
    sig["via"] = "trace"
    ctx.report(sig, dict(trace=slim[t][:matched + 1], failing_step=matched, raw_observation=ev.get("raw"),
                         note="TLC rejected the trace at this event"))
  # vacuity: the relational actions are exercised only here - some free-form trace of either kind must have
  # been accepted to its end (acceptance of its Pack / Repack event is only possible through PackAs / RepackAs)
  okfree = collections.Counter()
  for i, t in enumerate(traces):
    if i not in rejected and W.free_form(t[0]["args"]["pkt"]) and t[-1]["a"] == "Repack":
      okfree[t[0]["a"]] += 1
  free_rej = any(t < len(traces) and W.free_form(traces[t][0]["args"]["pkt"]) for t in rejected)
  if not free_rej and (okfree["Build"] == 0 or okfree["Feed"] == 0):
    raise tlc.TLCError("no free-form trace was validated to its end (Build: %d, Feed: %d): PackAs / RepackAs unexercised"
                       % (okfree["Build"], okfree["Feed"]))
  ctx.traces += len(traces)
  for t in traces:
    ctx.case(core.fp(t[0]["args"]["pkt"]), nontrivial=len(t[0]["args"]["pkt"]) > 1)
  if traces and len(ctx.samples) < 5:
    ctx.samples.append(slim[0])
  ctx.notes["trace_validation"] = dict(traces=len(traces), events=sum(len(t) for t in traces), rejected=nrej,
                                       negative_controls_rejected=len(bads),
                                       free_form_accepted=dict(okfree))


def _mirror_exp(a, stack, sent=None):
  try:
    if sent is not None:            # FillAs in PktWireLayers.tla: the enclosing headers around the bytes actually sent
      n = len(W.encode(stack[:-1]))
      b, filled, _ = W.assemble(stack[:-1] + [{"p": "rawb", "data": list(sent[n:])}])
      filled[-1] = W.fill(stack[-1], b"", None)
    else:
      b, filled, _ = W.assemble(stack)
  except Exception:
    return {"hdr": [], "pay": 0, "view": []}
  n = W.pay_len(stack)
  if a in ("Pack", "Repack"):
    return {"hdr": list(b[:len(b) - n]), "pay": n}
  from harness.adapters_c14 import norm_tcp
  return {"view": [norm_tcp(dict(L)) for L in filled]}


# ---------------------------------------------------------------------------
# random driver (runs in worker processes)

SPECIAL_PORTS = (53, 67, 68, 520, 4789, 5353)
LENS = [0, 1, 2, 3, 4, 5, 7, 8, 9, 15, 16, 17, 31, 32, 33, 63, 64, 65, 127, 128, 255, 256, 511, 512, 1023, 1024,
        1471, 1472, 1473, 1499, 1500]


def _rand_value(rnd, e):
  if e["k"] == "u":
    top = (1 << e["w"]) - 1
    x = rnd.random()
    return rnd.choice([0, 1, top, top - 1, (top + 1) >> 1, ((top + 1) >> 1) - 1]) if x < 0.3 else rnd.randint(0, top)
  n = e["w"] // 8
  x = rnd.random()
  if x < 0.1:
    return [0] * n
  if x < 0.2:
    return [255] * n
  return [rnd.randint(0, 255) for _ in range(n)]


def randomise(rnd, tpl):
  """the template's shape with random values in every free field, random option data, random payload"""
  lay = W.layouts()
  stack = copy.deepcopy(tpl)
  for i, L in enumerate(stack):
    p = L["p"]
    if p in ("raw", "rawb"):
      continue
    if p in lay:
      for e in lay[p]:
        if e["r"] != "free":
          continue
        if p == "udp" and e["n"] in ("srcport", "dstport") and L[e["n"]] in SPECIAL_PORTS:
          continue                                  # the port selects the payload parser of this shape
        v = _rand_value(rnd, e)
        while p == "udp" and e["n"] in ("srcport", "dstport") and v in SPECIAL_PORTS:
          v = _rand_value(rnd, e)
        L[e["n"]] = v
    if p == "tcp":
      for o in L["opts"]:
        if o["k"] == 30 and o["d"]:
          # Multipath TCP: the subtype (and the DSS flags, which fix the layout) belong to the shape
          keep = 2 if o["d"][0] >> 4 == 2 else 1
          o["d"] = ([o["d"][0] if keep == 2 else (o["d"][0] & 0xf0) | rnd.randint(0, 15)] + o["d"][1:keep]
                    + [rnd.choice([0, 255, rnd.randint(0, 255)]) if rnd.random() < 0.2 else rnd.randint(0, 255)
                       for _ in o["d"][keep:]])
        else:
          o["d"] = [rnd.randint(0, 255) for _ in o["d"]]
    elif p == "dhcp" and L["hlen"] == 6:
      L["chaddr"] = L["chaddr"][:6] + [0] * 10        # unused hardware address bytes are zero
    elif p == "vxlan" and L["flags"] == 0:
      L["vni"] = 0                                    # no VNI without the I flag
    elif p == "rip":
      for ent in L["entries"]:
        for e in lay["ripentry"]:
          ent[e["n"]] = _rand_value(rnd, e)
    elif p == "gre":
      L["recur"] = rnd.randint(0, 7)
      for f in ("key", "seq"):
        L[f] = [rnd.randint(0, 255) for _ in L[f]]
  last = stack[-1] if stack else None
  if last is not None and last["p"] == "dns":
    last["cmp"] = rnd.choice(W.styles_of(stack)) if W.free_form(stack) else 0     # the style of the oracle's bytes (Feed)
  if last is not None and last["p"] == "raw":
    n = rnd.choice(LENS) if rnd.random() < 0.5 else rnd.randint(0, 1500)
    if stack[0].get("type", 9999) < 1536:
      n = last["n"]                                 # 802.3 length field is part of the shape
    if n == 0:
      stack.pop()
    else:
      last.update(n=n, a=rnd.randint(0, 255), b=rnd.randint(0, 255))
  return stack


def _sane(x):
  if isinstance(x, bool):
    return False
  if isinstance(x, (int, str)):
    return True
  if isinstance(x, list):
    return all(_sane(y) for y in x)
  if isinstance(x, dict):
    return all(isinstance(k, str) and _sane(v) for k, v in x.items())
  return False


def _wf_bytes(o):
  return (isinstance(o, dict) and set(o) == {"hdr", "pay"} and isinstance(o["pay"], int) and not isinstance(o["pay"], bool)
          and isinstance(o["hdr"], list) and all(isinstance(b, int) and 0 <= b <= 255 for b in o["hdr"]))


def drive(arg):
  """one random packet through the real library; returns the recorded trace"""
  seed, tpl, feed = arg[:3]
  from harness.adapters_c14 import Adapter
  rnd = random.Random(seed)
  ad = Adapter()
  stack = copy.deepcopy(tpl) if len(arg) > 3 and arg[3] else randomise(rnd, tpl)
  tr = []

  def emit(a, args, largs=None):
    try:
      obs = ad.step(a, args)
    except Exception as e:
      import traceback
      obs = {"EXC": type(e).__name__, "msg": str(e)[:200], "tb": traceback.format_exc()[-1500:]}
    if a in ("Pack", "Repack"):
      ok, dflt = _wf_bytes(obs), {"hdr": [], "pay": -1}
    elif a == "Parse":
      ok = isinstance(obs, dict) and set(obs) == {"view"} and isinstance(obs["view"], list) and _sane(obs["view"])
      dflt = {"view": []}
    else:
      ok, dflt = obs == {"ok": True}, {"ok": False}
    ev = dict(a=a, args=largs if largs is not None else args, obs=obs if ok else dflt, wf=ok)
    if not ok:
      ev["raw"] = obs
    tr.append(ev)
    return ok

  if feed:
    b = W.encode(stack)
    n = W.pay_len(stack)
    wire = {"hdr": list(b[:len(b) - n]), "pay": n}
    ok = emit("Feed", {"pkt": stack, "wire": wire})
  else:
    ok = emit("Build", {"pkt": stack}) and emit("Pack", {"x": 0})
  ok = ok and emit("Parse", {"x": 0}) and emit("Repack", {"x": 0})
  return tr
