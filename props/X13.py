"""X13 - IOWorker receive path, worker life cycle, accept path, reconnecting workers (pox/lib/ioworker).

specs/iorx/IoRx.tla   : RecocoIOLoop + RecocoIOWorker / RecocoServerWorker: receive buffer, rx / close / connect handlers,
                        the worker set and the pending commands, the three select lists, accept -> child worker.
specs/iorx/Reconn.tla : PersistentIOWorker / BackoffWorker: reopen after close, delays, back-off, stop.
Both are model-checked (as built, and IoRx also with Strict = TRUE = the intended design incl. "no data after close");
behaviours exported by TLC (a seeded sample of: shortest path to every abstract state + each outgoing transition; plus
-simulate runs) are replayed on the real code with comparison after every step; traces of a seeded random driver on the
real loop are validated by TLC against IoRx.tla (TraceIoRx.tla) with all state invariants evaluated at every step.
"""
import copy
import json
import random
import time as _time

from engine import tlc, core, tracecheck

SPEC = "iorx"
AD = "harness.adapters_x13:Adapter"
AD_P = "harness.adapters_x13:ReconnAdapter"
JVM_SHORT = {"JAVA_TOOL_OPTIONS": "-XX:ParallelGCThreads=2 -XX:TieredStopAtLevel=1"}

# actions that must have been taken in a model run (vacuity guard), per family of configurations
ACT_LOOP = ["NewWorker", "Arrive", "PeerClose", "Close", "Stop", "SelectReturns", "Wake", "SelectTimeout", "ServeExc",
            "ServeRecv", "LoopTop", "LoopExit"]
ACT = {
    "R1": ACT_LOOP + ["SockErr", "Send", "Consume", "Read", "Peek", "ServeSend"],
    "S2": ACT_LOOP,
    "V2": [a for a in ACT_LOOP if a not in ("NewWorker",)] + ["NewServer", "Incoming", "SockErr"],
}
ACT_P = ["Begin", "SetNext", "Connected", "Refused", "Eof", "Data", "ClientClose", "StopReconnecting", "Tick"]
DEV_P = ["CloseFailedInstance"]


def inject_plans(b):
  """IoRx.tla lets the environment choose what an rx handler does / what send() does when the call happens
  (arguments of ServeRecv / ServeSend).  The real loop serves a whole round in one slice, so the replay adapter
  is told the choices of the round at its SelectReturn step."""
  for i, st in enumerate(b):
    if st["a"] != "SelectReturn":
      continue
    plan = {}
    for s2 in b[i + 1:]:
      if s2["a"] == "ServeRecv":
        plan.setdefault(str(s2["args"]["w"]), {}).update(h=s2["args"]["h"], t=s2["args"]["t"])
      elif s2["a"] == "ServeSend":
        plan.setdefault(str(s2["args"]["w"]), {}).update(o=s2["args"]["o"])
      elif s2["a"] != "ServeExc":
        break
    st["args"]["plan"] = plan
  return b


def take(ctx, r, tag, cap, prep):
  raw = r.tagged_raw(tag)
  nall = len(raw)
  if cap and nall > cap:
    raw = random.Random(ctx.seed * 7919 + nall).sample(raw, cap)
  behs = [prep(json.loads(json.loads(x))) for x in raw]
  r.stdout, r.prints = "", []
  return nall, behs


def negative_control(ctx, adapter, beh, params, corrupt):
  """corrupt one expectation of a conforming behaviour: the replay must report it"""
  bad = copy.deepcopy(beh)
  if not corrupt(bad):
    return False
  c2 = core.Context(ctx.pid, ctx.tier, ctx.seed, ctx.level, clear=False)
  c2.known = []
  core.replay(c2, adapter, [bad], params=params, procs=1)
  if not c2.violations:
    raise core.Machinery("negative control: a corrupted expectation was not reported by the replay (%s)" % adapter)
  return True


def corrupt_rx(b):
  for st in reversed(b):
    if st["a"] == "ServeRecv" and st["exp"]["ret"]["res"] == "data":
      st["exp"]["ws"][st["args"]["w"] - 1]["nrx"] += 1
      return True
  return False


def corrupt_timer(b):
  for st in reversed(b):
    if st["exp"]["timers"]:
      st["exp"]["timers"][0] += 1
      return True
  return False


def run(ctx):
  quick = ctx.tier == "quick"
  ctx.rule = ("behaviours exported by TLC from specs/iorx/IoRx.tla and Reconn.tla (seeded sample of the edge cover: "
              "shortest path to every abstract state + each outgoing transition; plus -simulate runs) replayed on the "
              "real RecocoIOLoop task (run by a real recoco Scheduler/SelectHub that the harness steps, virtual clock) "
              "with real RecocoIOWorker / RecocoServerWorker / PersistentIOWorker / BackoffWorker objects on scripted "
              "sockets; the full observation (per worker: receive buffer, send-buffer length, closed, #close-handler, "
              "#rx-handler, #connect-handler calls, socket shutdown/close counts, set membership; pending commands; "
              "pinger; the three select lists; per serve call what the handler saw) is compared after EVERY spec step, "
              "the steps inside one slice of the loop from snapshots taken at the corresponding calls; plus traces of "
              "a seeded random driver validated by TLC (TraceIoRx.tla); distinct = distinct action/argument sequences; "
              "non-trivial = more than two actions")
  ctx.assumptions = [
      "IoRx exhaustive: 1 worker x 3 bytes (chunks 1,3; _BUF_SIZE 2; all handler ops, socket errors, send outcomes, "
      "connecting workers); 2 workers x 1 byte (close / close-other / raise; set bookkeeping); listening worker + "
      "accepted children in 2 slots (3 in thorough); 4 slots / 4-6 bytes in simulation and traces",
      "Reconn exhaustive: 3 instances (quick) / 4 (thorough) of one reconnecting lineage, max_retry_delay 4 s, "
      "reconnect_delay 1 s; 8 instances in simulation (max 4 s, default 2 s); time unit 0.5 s",
      "sockets are scripted objects (recv after shutdown(SHUT_RD) returns queued bytes, then b'' - Linux behaviour); "
      "select() is a stand-in installed as SelectHub._select_func; the loop's wake-up by its pinger may be delayed",
      "what rx handlers do in a round is chosen by the spec per serve step and handed to the adapter at SelectReturn",
      "the send path is only a byte count here (C20 / specs/sendpath/Worker.tla has the bytes)",
      "as built (Strict = FALSE) the specs contain the deviations RecvAfterClose, AskPortBroken (IoRx) and "
      "CloseFailedInstance (Reconn) - notes/X13.md, Defects observed"]

  def mc(cfg, module="MCIoRx", workers=3):
    return dict(spec_dir=SPEC, module=module, cfg=cfg, tag="X13", timeout=2400, workers=workers, env=JVM_SHORT)

  def ex(cfg, module="MCIoRx", off=0):
    return dict(spec_dir=SPEC, module=module, cfg=cfg, workers=1, coverage=False, tag="X13", timeout=2400,
                seed=ctx.seed + 11 + off, env=JVM_SHORT)

  def sim(cfg, module, num, depth, off):
    return dict(spec_dir=SPEC, module=module, cfg=cfg, workers=1, coverage=False, simulate=dict(num=num),
                depth=depth + 1, seed=ctx.seed + 31 + off, tag="X13", timeout=2400, env=JVM_SHORT)

  if quick:
    mcs = [("MC_R1q.cfg", "MCIoRx", ACT["R1"]), ("MC_S2q.cfg", "MCIoRx", ACT["S2"] + ["RecvAfterClose"]),
           ("MC_S2qs.cfg", "MCIoRx", ACT["S2"] + ["SkipClosed"]), ("MC_V2.cfg", "MCIoRx", ACT["V2"] + ["AskPortBroken"]),
           ("MC_P3.cfg", "MCReconn", ACT_P + DEV_P), ("MC_P3s.cfg", "MCReconn", ACT_P + ["CloseFailedStrict"])]
    exs = [("EXS_R1q.cfg", "MCIoRx", AD, dict(N=1, bufsize=2), 1500),
           ("EXS_S2q.cfg", "MCIoRx", AD, dict(N=2, bufsize=1), 1800),
           ("EXS_V2.cfg", "MCIoRx", AD, dict(N=2, bufsize=1), 1500),
           ("EXS_P3.cfg", "MCReconn", AD_P, dict(N=3, maxd=8, pdelay=2), 1500)]
    sims = [("SIM_A4.cfg", "MCIoRx", AD, dict(N=4, bufsize=2), 60, 40), ("SIM_P8.cfg", "MCReconn", AD_P, dict(N=8, maxd=8, pdelay=4), 40, 60)]
    ntr, tlen = 150, 30
  else:
    mcs = [("MC_R1.cfg", "MCIoRx", ACT["R1"]), ("MC_R1s.cfg", "MCIoRx", ACT["R1"] + ["SkipClosed"]),
           ("MC_S2.cfg", "MCIoRx", ACT["S2"] + ["SockErr", "RecvAfterClose"]),
           ("MC_S2s.cfg", "MCIoRx", ACT["S2"] + ["SockErr", "SkipClosed"]),
           ("MC_V2.cfg", "MCIoRx", ACT["V2"] + ["AskPortBroken"]), ("MC_V2s.cfg", "MCIoRx", ACT["V2"] + ["AskPort"]),
           # MC_V3.cfg (listening worker + 2 children, 943,119 states) takes 3 min on 8 workers: run by hand, see notes
           ("MC_P4.cfg", "MCReconn", ACT_P + DEV_P), ("MC_P4s.cfg", "MCReconn", ACT_P + ["CloseFailedStrict"])]
    exs = [("EXT_R1.cfg", "MCIoRx", AD, dict(N=1, bufsize=2), 12000),
           ("EXT_S2.cfg", "MCIoRx", AD, dict(N=2, bufsize=1), 12000),
           ("EX_V2.cfg", "MCIoRx", AD, dict(N=2, bufsize=1), 12000),
           ("EXT_P4.cfg", "MCReconn", AD_P, dict(N=4, maxd=8, pdelay=2), 12000)]
    sims = [("SIM_A4.cfg", "MCIoRx", AD, dict(N=4, bufsize=2), 1500, 40), ("SIM_P8.cfg", "MCReconn", AD_P, dict(N=8, maxd=8, pdelay=4), 500, 60)]
    ntr, tlen = 2000, 40

  # ---- 1. TLC: model runs, exports, simulations - independent, run concurrently
  big = {"MC_V3.cfg": 6, "MC_R1q.cfg": 5, "MC_R1.cfg": 4, "MC_R1s.cfg": 4, "MC_P4.cfg": 4}
  jobs = [mc(c, m, workers=big.get(c, 2)) for c, m, _ in mcs]
  jobs += [ex(c, m, off=i) for i, (c, m, _, _, _) in enumerate(exs)]
  jobs += [sim(c, m, num, depth, i) for i, (c, m, _, _, num, depth) in enumerate(sims)]
  t0 = _time.time()
  res = tlc.run_many(jobs, parallel=6)
  ctx.notes["tlc_wall_s"] = round(_time.time() - t0, 1)
  k = 0
  for (c, m, acts) in mcs:
    r = res[k]
    k += 1
    if r.violated:
      raise tlc.TLCError("spec %s/%s violates its own property %s:\n%s" % (m, c, r.violated, r.error_trace))
    tlc.require_coverage(r, acts, "%s %s" % (m, c))
    ctx.add_model("%s %s" % (m, c), r)

  # ---- 2. spec -> code
  pools = {}
  for (c, m, ad, params, cap) in exs:
    r = res[k]
    k += 1
    nall, behs = take(ctx, r, "T", cap, inject_plans if m == "MCIoRx" else (lambda b: b))
    if nall < 200:
      raise tlc.TLCError("export %s produced only %d behaviours" % (c, nall))
    t1 = _time.time()
    st = core.replay(ctx, ad, behs, params=params, chunk=100, nontrivial=lambda b: len(b) > 2)
    ctx.notes["replay " + c] = dict(exported=nall, replayed=len(behs), params=params, wall_s=round(_time.time() - t1, 1), **st)
    pools.setdefault(ad, (params, [behs[i] for i in core.replay.last_ok[:400]]))
  for (c, m, ad, params, num, depth) in sims:
    r = res[k]
    k += 1
    # (TLC's simulator evaluates the invariant on every candidate successor: more than `num` behaviours come out)
    nall, behs = take(ctx, r, "H", num, inject_plans if m == "MCIoRx" else (lambda b: b))
    if nall < num // 2:
      raise tlc.TLCError("simulation %s exported %d behaviours" % (c, nall))
    t1 = _time.time()
    st = core.replay(ctx, ad, behs, params=params, chunk=10, nontrivial=lambda b: len(b) > 2)
    ctx.notes["replay " + c] = dict(exported=nall, depth=depth, params=params, wall_s=round(_time.time() - t1, 1), **st)
  # negative controls for the replay
  for ad, corrupt in ((AD, corrupt_rx), (AD_P, corrupt_timer)):
    params, pool = pools[ad]
    if not any(negative_control(ctx, ad, b, params, corrupt) for b in pool):
      if ctx.violations:        # nothing conforms any more: the verdict is the violations, not the control
        ctx.notes["replay_negative_control_skipped"] = ad
        continue
      raise core.Machinery("negative control: no conforming behaviour to corrupt for " + ad)
  ctx.notes["replay_negative_controls_reported"] = True

  # ---- 3. code -> spec: seeded random driver on the real loop, traces validated by TLC
  t1 = _time.time()
  traces = core.run_driver("props.X13:drive", [(ctx.seed * 100003 + i, tlen) for i in range(ntr)])
  bad = None
  for t in traces:
    for j, e in enumerate(t):
      if e["a"] == "ServeRecv" and e["wf"] and e["obs"]["ret"]["res"] == "data":
        bad = copy.deepcopy(t[:j + 1])
        bad[j]["obs"]["ws"][e["args"]["w"] - 1]["nrx"] += 1     # the rx handler was called twice for one arrival
        break
    if bad:
      break
  if bad is None:
    raise core.Machinery("no trace with a delivery to corrupt")
  r, rej = tracecheck.validate(SPEC, "TraceIoRx", "Trace.cfg", traces + [bad], tag="X13")
  ctx.add_model("TraceIoRx (validation of %d implementation traces)" % ntr, r)
  if len(traces) not in [t for t, _ in rej]:
    raise tlc.TLCError("negative control (a delivery counted twice) was accepted by the trace spec")
  for t, matched in rej:
    if t == len(traces):
      continue
    ev = traces[t][matched]
    ctx.report(dict(action=ev["a"], via="trace", res=(ev["obs"].get("ret") or {}).get("res") if ev["wf"] else "malformed",
                    args={k2: v for k2, v in ev["args"].items() if not isinstance(v, (list, dict))}),
               dict(trace=traces[t][:matched + 1], failing_step=matched, note="TLC rejected the trace at this event"))
  ctx.traces += len(traces)
  for t in traces[:3000]:
    ctx.case(core.fp([[e["a"], e["args"]] for e in t]), sample=None)
  ctx.notes["trace_validation"] = dict(traces=len(traces), events=sum(len(t) for t in traces), rejected=len(rej) - 1,
                                       negative_control_rejected=True, wall_s=round(_time.time() - t1, 1))
  ctx.exhaustive = False


# -------------------------------------------------------------------------------------------------------------------
OPS = ["keep", "keep", "c1", "call", "close", "co", "reply", "raise"]
OUTS = ["full", "full", "part", "eagain", "fatal"]
KEYS = {"ws", "npend", "pinged", "ret"}
TN, TMAXB, TMAXS = 4, 6, 2      # Trace.cfg: N, MaxBytes, MaxSend


def drive(arg):
  """Random environment on the real loop; returns the recorded trace (events {a, args, obs, wf})."""
  seed, n = arg
  from harness.adapters_x13 import Adapter
  rnd = random.Random(seed)
  ad = Adapter(N=TN, bufsize=2, hr=rnd.choice(["even", "all", "none"]))
  env = ad.env
  tr = []
  st = dict(dead=False, running=True, rd=[], wr=[], ex=[], pinged=False)

  def log(a, args, obs):
    wf = isinstance(obs, dict) and set(obs) == KEYS
    tr.append(dict(a=a, args=args, obs=obs if wf else {"bad": 1}, wf=wf))
    if wf:
      st["pinged"] = obs["pinged"]
    return wf

  class Broken(Exception):
    pass

  def step(a, args):
    """an exception escaping from the code under test is an observation no spec action has (the trace ends there)"""
    try:
      return ad.step(a, args)
    except core.Machinery:
      raise
    except Exception as e:      # noqa
      tr.append(dict(a=a, args={k: v for k, v in args.items() if k != "plan"}, obs={"exc": type(e).__name__}, wf=False))
      raise Broken()

  def do(a, args):
    return log(a, args, step(a, dict(args)))

  def looptop():
    obs = step("LoopTop", {})
    if log("LoopTop", {}, obs):
      r = obs["ret"]
      st["dead"] = not r["alive"]
      st["rd"], st["wr"], st["ex"] = r["rd"], r["wr"], r["ex"]

  def serve_all(plan):
    for rec in list(env.calls):
      a = {"x": "ServeExc", "r": "ServeRecv", "w": "ServeSend"}[rec["kind"]]
      obs = step(a, {"w": rec["w"]})
      args = {"w": rec["w"]}
      res = (obs.get("ret") or {}).get("res") if isinstance(obs, dict) else None
      if a == "ServeRecv":
        op = plan.get(str(rec["w"]), {})
        used = res in ("data", "raised")
        args.update(h=op.get("h", "keep") if used else "keep", t=op.get("t", 0) if used else 0)
      elif a == "ServeSend":
        op = plan.get(str(rec["w"]), {})
        args.update(o=op.get("o", "full") if res not in ("idle", "connfail") else "full")
      log(a, args, obs)
    looptop()

  def facts():
    f = {}
    for s, w in env.workers.items():
      sk = env.socks[s]
      f[s] = dict(kind="server" if sk.kind == "listen" else "plain", eof=sk.eof, serr=sk.serr, inq=len(sk.inq),
                  sclosed=sk.nclose, shutrd=sk.nshutrd, closed=bool(w.closed), sbuf=len(w.send_buf),
                  rbuf=len(w.receive_buf), acceptq=len(getattr(sk, "acceptq", [])), narr=ad.narr.get(s, 0))
    return f

  try:
    looptop()
    _drive_body(n, rnd, ad, env, st, do, step, log, looptop, serve_all, facts)
  except Broken:
    pass
  ad.close()
  return tr


def _drive_body(n, rnd, ad, env, st, do, step, log, looptop, serve_all, facts):
  for _ in range(n):
    f = facts()
    free = TN - len(f)
    backlog = sum(x["acceptq"] for x in f.values())
    plain = [s for s in f if f[s]["kind"] == "plain"]
    servers = [s for s in f if f[s]["kind"] == "server"]
    k = rnd.random()
    if not st["dead"] and k < 0.42:
      # ---- the loop wakes up
      readable = [s for s in st["rd"] if s in f and (f[s]["inq"] or f[s]["eof"] or f[s]["serr"] or f[s]["acceptq"]
                                                     or f[s]["shutrd"])]
      rs = [s for s in readable if rnd.random() < 0.7]
      ws = [s for s in st["wr"] if rnd.random() < 0.6]
      xs = [s for s in st["ex"] if rnd.random() < 0.08]
      rnd.shuffle(rs)
      rnd.shuffle(ws)
      rnd.shuffle(xs)
      if not (rs or ws or xs):
        if st["pinged"]:
          do("Wake", {})
          serve_all({})
        elif rnd.random() < 0.3:
          do("SelectTimeout", {})
          serve_all({})
        continue
      plan = {}
      for s in rs:
        if f[s]["kind"] != "plain":
          continue
        h = rnd.choice(OPS)
        t = 0
        if h == "co":
          others = [x for x in f if x != s]
          if not others:
            h = "keep"
          else:
            t = rnd.choice(others)
        if h == "reply" and f[s]["sbuf"] >= TMAXS:
          h = "keep"
        plan[str(s)] = dict(h=h, t=t)
      for s in ws:
        plan.setdefault(str(s), {})["o"] = rnd.choice(OUTS)
      args = dict(x=xs, r=rs, w=ws)
      obs = step("SelectReturn", dict(args, plan=plan))
      log("SelectReturn", args, obs)
      serve_all(plan)
      continue
    # ---- clients and the network
    c = rnd.random()
    if c < 0.13 and free > backlog:
      do("NewWorker", {"conn": rnd.random() < 0.3})
    elif c < 0.17 and free > backlog and not servers:
      do("NewServer", {})
    elif c < 0.25 and servers and free > backlog:
      s = rnd.choice(servers)
      if f[s]["sclosed"] == 0 and f[s]["shutrd"] == 0:
        do("Incoming", {"w": s})
    elif c < 0.50 and plain:
      s = rnd.choice(plain)
      m = rnd.choice([1, 2, 3])
      if not f[s]["eof"] and f[s]["sclosed"] == 0 and f[s]["narr"] + m <= TMAXB:
        do("Arrive", {"w": s, "n": m})
    elif c < 0.56 and plain:
      s = rnd.choice(plain)
      if not f[s]["eof"] and f[s]["sclosed"] == 0:
        do("PeerClose", {"w": s})
    elif c < 0.62 and f:
      s = rnd.choice(sorted(f))
      if not f[s]["serr"] and f[s]["sclosed"] == 0:
        do("SockErr", {"w": s, "e": rnd.choice(["reset", "enoent", "again"])})
    elif c < 0.72 and plain:
      s = rnd.choice(plain)
      if f[s]["sbuf"] < TMAXS:
        do("Send", {"w": s})
    elif c < 0.78 and f:
      do("Close", {"w": rnd.choice(sorted(f))})
    elif c < 0.86 and plain:
      s = rnd.choice(plain)
      do("Consume", {"w": s, "n": rnd.choice([0, 1, f[s]["rbuf"], f[s]["rbuf"] + 1])})
    elif c < 0.90 and plain:
      s = rnd.choice(plain)
      if f[s]["rbuf"]:
        do(rnd.choice(["Read", "Peek"]), {"w": s, "n": rnd.choice([1, f[s]["rbuf"] + 1])})
    elif c < 0.92 and servers:
      do("AskPort", {"w": rnd.choice(servers)})
    elif c < 0.935 and not st["dead"] and st["running"]:
      st["running"] = False
      do("Stop", {})


def strict_demo(ntr=60, tlen=30, seed=0):
  """Not part of run(ctx): shows that the intended design (Strict = TRUE) rejects what the code does.
  /venv/bin/python -c "import sys; sys.path.insert(0,'/verif'); from props import X13; X13.strict_demo()" """
  traces = core.run_driver("props.X13:drive", [(seed * 100003 + i, tlen) for i in range(ntr)])
  r, rej = tracecheck.validate(SPEC, "TraceIoRx", "TraceStrict.cfg", traces, tag="X13")
  out = {}
  for t, matched in rej:
    ev = traces[t][matched]
    k = (ev["a"], (ev["obs"].get("ret") or {}).get("res") or (ev["obs"].get("ret") or {}).get("r"))
    out[k] = out.get(k, 0) + 1
  print("traces", len(traces), "rejected under Strict = TRUE:", len(rej), "first unmatched event by kind:", out)
  return rej
