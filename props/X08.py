"""X08 - host_tracker: host table, ARP pinging and join / move / leave events.

specs/hosttracker/HostTracker.tla is model-checked (as built and Strict), its behaviours are replayed on the
real host_tracker + real openflow.discovery behind real of_01.Connections and real SoftwareSwitches
(comparison after every step: HostEvents, ARP pings leaving switch ports, warnings, halting, the timer's next
deadline, the projected tables), and traces recorded from the real component by a seeded random driver are
validated by TLC against the same spec (with a corrupted trace as negative control).
"""
import copy
import json
import random
import re

from engine import tlc, core, tracecheck

ADAPTER = "harness.adapters_x08:Adapter"
SPEC = "hosttracker"

PKT = ["PktIgnored", "PktJoin", "PktSame", "PktMove", "PktMoveKeepsPort"]
CT = ["CtQuiet", "CtPing", "CtIpGone", "CtLeave", "CtLeaveWithIPs"]
ENV = ["Advance", "LinkUp"]
FLAP = ["ConnDown", "ConnUp", "CtStale"]

SCALED = dict(arpAware=60, arpSilent=180, arpReply=30, timerInterval=60, entryMove=60, pingLim=2, MacLife=120)
TESTV = dict(arpAware=15, arpSilent=45, arpReply=1, timerInterval=5, entryMove=4, pingLim=3, MacLife=120)
REAL = dict(arpAware=120, arpSilent=1200, arpReply=4, timerInterval=5, entryMove=60, pingLim=3, MacLife=120)
STRICT = dict(SCALED, arpAware=120)

# what the adapter needs to know about each configuration (mirrors the .cfg files)
CFG = {
    "a60": dict(consts=SCALED, macs=["m1"], ips=["i1", "i2"]),
    "a": dict(consts=SCALED, macs=["m1"], ips=["i1", "i2"]),
    "b": dict(consts=SCALED, macs=["m1"], ips=["i1"]),
    "c": dict(consts=SCALED, macs=["m1", "m2"], ips=["i1"]),
    "small": dict(consts=SCALED, macs=["m1"], ips=["i1", "i2"]),
    "sim_scaled": dict(consts=SCALED, macs=["m1", "m2"], ips=["i1", "i2"]),
    "sim_test": dict(consts=TESTV, macs=["m1", "m2"], ips=["i1", "i2"]),
    "sim_real": dict(consts=REAL, macs=["m1", "m2"], ips=["i1", "i2"]),
}


def canon(x):
  return json.dumps(x, sort_keys=True, separators=(",", ":"))


def sort_exp(beh):
  """canonical order for the set-valued fields of exported expectations (the adapter sorts the same way)"""
  for st in beh:
    e = st["exp"]
    if "ev" in e:
      e["ev"] = sorted(e["ev"], key=canon)
    for k in ("pings", "nonedge"):
      if k in e:
        e[k] = sorted(e[k])
  return beh


_VIA = re.compile(r'via\\":\s*\\"([A-Za-z/-]+)')


def last_via(raw):
  m = _VIA.findall(raw)
  return m[-1] if m else "?"


def sample(raws, n, seed, need):
  """decode a seeded sample of n exported behaviours (all if fewer) that ends in every spec action named in
  `need` at least a few times; raws = undecoded PrintT payloads"""
  idx = list(range(len(raws)))
  if len(raws) > n:
    rnd = random.Random(seed)
    rnd.shuffle(idx)
    pick = set(idx[:n])
    have = {}
    for i in pick:
      v = last_via(raws[i])
      have[v] = have.get(v, 0) + 1
    for v in need:
      if have.get(v, 0) < 20:
        for i in idx[n:]:
          if last_via(raws[i]) == v:
            pick.add(i)
            have[v] = have.get(v, 0) + 1
            if have[v] >= 20:
              break
    idx = sorted(pick)
  return [sort_exp(json.loads(json.loads(raws[i]))) for i in idx]


def vias(behs, acc):
  for b in behs:
    for st in b:
      acc[st.get("via", "?")] = acc.get(st.get("via", "?"), 0) + 1


def run(ctx):
  import time
  t0 = time.time()
  quick = ctx.tier == "quick"
  ctx.notes["phase_wall_s"] = {}

  def lap(name):
    ctx.notes["phase_wall_s"][name] = round(time.time() - t0, 1)
  ctx.rule = ("behaviours exported by TLC from HostTracker.tla (edge cover: shortest path to every abstract state + each "
              "outgoing transition; -simulate walks with scaled / test / real timeouts) replayed on the real host_tracker "
              "(+ real openflow.discovery) behind real of_01.Connections and real SoftwareSwitches, every step compared "
              "(HostEvents, ARP pings leaving the switch ports, warnings, halting, timer deadline, projected tables); traces "
              "of a seeded random driver validated by TLC; distinct = distinct action/argument sequences")
  ctx.assumptions = [
      "two switches x three ports, one cable (1.3 - 2.3) that discovery may learn from an injected LLDP probe; 1-2 MACs, 1-2 IPs",
      "exhaustive parts scale the timeouts through host_tracker.launch() (unit 30/60 s); simulation and traces also use the "
      "docstring's test values and the module's real defaults",
      "virtual time in whole seconds; the component's own recurring Timer fires at its exact virtual instants; at an instant "
      "where the timer is due it runs before anything else",
      "Strict = FALSE: the named deviations D1..D7 model what the code does (notes/X08.md, Defects observed); the "
      "Strict = TRUE configs (documented intent) are model-checked only",
      "MAC / IP / dpid symbols are concretised injectively (3 families chosen by seed)"]

  # ---- 1. the properties on the models (+ the edge-cover exports, same TLC runs)
  jobs = [("MCX_a60.cfg", PKT + CT + ENV, "as built: 1 MAC, 2 IPs", True),
          ("MCX_b.cfg", PKT + CT + ENV + FLAP, "as built: 1 MAC, 1 IP, all frame kinds, flapping switches", True),
          ("MCX_c.cfg", PKT + CT + ENV, "as built: 2 MACs, 1 IP", True),
          ("MCS_a.cfg", [a for a in PKT + CT + ENV if a not in ("PktMoveKeepsPort", "CtLeaveWithIPs")],
           "Strict (documented intent): 1 MAC, 2 IPs, arpReply > timerInterval", False)]
  if not quick:
    jobs += [("MCS_b.cfg", [a for a in PKT + CT + ENV + FLAP if a not in ("PktMoveKeepsPort", "CtLeaveWithIPs")],
              "Strict: 1 MAC, 1 IP, all kinds, flapping", False),
             ("MC_a.cfg", PKT + CT + ENV, "as built: 1 MAC, 2 IPs, finer time", False),
             ("MC_small.cfg", PKT + CT + ENV + FLAP, "as built: 1 MAC, 2 IPs, all kinds, flapping, finer time", False),
             ("LIVE_asbuilt.cfg", [], "as built, liveness (EventuallyForgotten under WF of time)", False),
             ("LIVE_strict.cfg", [], "Strict, liveness", False)]
  nsim = 40 if quick else 300
  sims = [("EX_sim_scaled.cfg", "sim_scaled", 61, 1), ("EX_sim_test.cfg", "sim_test", 101, 2)]
  if not quick:
    sims.append(("EX_sim_real.cfg", "sim_real", 101, 3))
  spec = [dict(spec_dir=SPEC, module="MCHostTracker", cfg=j[0], tag="X08", timeout=3000,
               **(dict(workers=1) if j[3] else dict(workers=4))) for j in jobs]
  spec += [dict(spec_dir=SPEC, module="MCHostTracker", cfg=c, workers=1, coverage=False, tag="X08", timeout=1200,
                simulate=dict(num=nsim), depth=d, seed=ctx.seed + k) for (c, _, d, k) in sims]
  res = tlc.run_many(spec, parallel=4 if quick else 5)
  for r in res:
    r.stdout = ""
  for j, r in zip(jobs, res):
    if r.violated:
      raise tlc.TLCError("%s: the spec violates its own property %s:\n%s" % (j[0], r.violated, r.error_trace))
    if j[1]:
      tlc.require_coverage(r, j[1], j[2])
    ctx.add_model(j[2] + " (" + j[0] + ")", r)
  lap("TLC: model checking + export")

  # ---- 2. spec -> code
  exercised = {}
  variant = ctx.seed % 3
  negdone = False
  for j, r in zip(jobs, res):
    if not j[3]:
      continue
    key = j[0][4:-4]
    raws = r.tagged_raw("T")
    r.prints = []
    if not raws:
      raise tlc.TLCError("%s exported no behaviours" % j[0])
    behs = sample(raws, 1500 if quick else 6000, ctx.seed, j[1])
    total = len(raws)
    del raws
    params = dict(CFG[key], variant=variant)
    st = core.replay(ctx, ADAPTER, behs, params=params, chunk=50)
    vias(behs, exercised)
    ctx.notes["replay " + j[0]] = dict(exported=total, replayed=len(behs), **st)
    lap("replay " + j[0])
    if st["ok"] and not negdone:
      # negative control of the replay itself: a corrupted expectation must be reported
      cand = [i for i in core.replay.last_ok if behs[i][-1]["a"] in ("PacketIn", "CheckTimeouts")]
      if cand:
        bad = copy.deepcopy(behs[cand[-1]])
        row = bad[-1]["exp"]["tab"]["m1"]
        row[2] += 1
        nctx = core.Context("X08", ctx.tier, ctx.seed, ctx.level, clear=False)
        core.replay(nctx, ADAPTER, [bad, copy.deepcopy(bad)], params=params, chunk=1)
        if not nctx.violations:
          raise core.Machinery("negative control: a corrupted expectation was not reported by the replay")
        negdone = True
        ctx.notes["negctl_replay"] = "corrupted expectation reported by the replay"
  if not negdone:
    raise core.Machinery("no behaviour available for the replay's negative control")
  for (c, key, d, k), r in zip(sims, res[len(jobs):]):
    behs = [sort_exp(b) for b in r.tagged("H")]
    r.prints = []
    if len(behs) < nsim // 2:
      raise tlc.TLCError("simulation %s exported %d behaviours" % (c, len(behs)))
    st = core.replay(ctx, ADAPTER, behs, params=dict(CFG[key], variant=(variant + 1) % 3), chunk=5)
    vias(behs, exercised)
    ctx.notes["replay " + c] = dict(behaviours=len(behs), depth=d - 1, **st)
    lap("replay " + c)
  missing = [a for a in PKT + CT + ENV + FLAP if not exercised.get(a)]
  if missing:
    raise core.Machinery("replayed behaviours never took the spec actions %s" % missing)
  ctx.notes["spec_actions_replayed"] = exercised

  # ---- 3. code -> spec
  plans = [("test", "Trace_test.cfg", 40 if quick else 400, 140), ("scaled", "Trace_scaled.cfg", 40 if quick else 400, 100),
           ("real", "Trace_real.cfg", 10 if quick else 60, 700)]
  for which, cfg, ntr, n in plans:
    traces = core.run_driver("props.X08:drive", [(ctx.seed * 100003 + i, n, which) for i in range(ntr)])
    bad = corrupt(traces)
    r, rej = tracecheck.validate(SPEC, "TraceHostTracker", cfg, traces + [bad], tag="X08")
    ctx.add_model("TraceHostTracker %s (validation of %d implementation traces)" % (cfg, ntr), r)
    if len(traces) not in [t for t, _ in rej]:
      raise tlc.TLCError("negative control (corrupted observation) was accepted by TraceHostTracker " + cfg)
    for t, matched in rej:
      if t == len(traces):
        continue
      ev = traces[t][matched]
      ctx.report(dict(action=ev["a"], via="trace", consts=which, wf=ev["wf"], kind=ev["args"].get("kind", "-"),
                      diag=sorted(ev.get("diag", {}).keys())),
                 dict(trace=traces[t], failing_step=matched, consts=which, note="TLC rejected the trace at this event"))
    ctx.traces += len(traces)
    for t in traces[:2000]:
      ctx.case(core.fp([[e["a"], e["args"]] for e in t]), sample=None)
    lap("traces " + which)
    cnt = {}
    for t in traces:
      for e in t:
        cnt[e["a"]] = cnt.get(e["a"], 0) + 1
    ctx.notes["trace_validation_" + which] = dict(traces=len(traces), events=sum(len(t) for t in traces), by_action=cnt,
                                                  leaves=sum(1 for t in traces for e in t for x in e["obs"].get("ev", []) if x["k"] == "leave"),
                                                  pings=sum(len(e["obs"].get("pings", [])) for t in traces for e in t),
                                                  rejected=len(rej) - 1, negative_control_rejected=True)
  ctx.exhaustive = True


def replay_one(ctx, rep):
  """./check X08 --replay FILE"""
  if "behaviour" in rep:
    core.replay(ctx, rep["adapter"], [rep["behaviour"]], params=rep.get("params"), procs=1)
    return
  which = rep.get("consts", "test")
  cfg = {"test": "Trace_test.cfg", "scaled": "Trace_scaled.cfg", "real": "Trace_real.cfg"}[which]
  args = [[e["a"], e["args"]] for e in rep["trace"]]
  tr = core.run_driver("props.X08:redrive", [(args, which)], procs=1)[0]
  r, rej = tracecheck.validate(SPEC, "TraceHostTracker", cfg, [tr], tag="X08")
  for t, matched in rej:
    ev = tr[matched]
    ctx.report(dict(action=ev["a"], via="trace", consts=which, wf=ev["wf"], kind=ev["args"].get("kind", "-"),
                    diag=sorted(ev.get("diag", {}).keys())), dict(trace=tr, failing_step=matched, consts=which))


def corrupt(traces):
  """negative control: one trace with one projected age / one ping changed"""
  for t in traces:
    for k, e in enumerate(t):
      if e["a"] == "CheckTimeouts" and e["wf"] and e["obs"]["pings"]:
        bad = copy.deepcopy(t)
        bad[k]["obs"]["pings"] = bad[k]["obs"]["pings"][1:]
        return bad
  for t in traces:
    for k, e in enumerate(t):
      if e["a"] == "PacketIn" and e["wf"]:
        bad = copy.deepcopy(t)
        bad[k]["obs"]["tab"]["m1"][2] += 1
        return bad
  raise core.Machinery("no event to corrupt for the negative control")


# --------------------------------------------------------------------------
# driver (worker processes)

CONSTS = {"test": TESTV, "scaled": SCALED, "real": REAL}
KINDS = ["arpq", "arpq", "arpr", "ip", "ip", "ipp", "arp0", "raw", "lldp"]
LOCS = [(1, 1), (1, 2), (1, 3), (2, 1), (2, 2), (2, 3)]
CABLE = ((1, 3), (2, 3))
EVT = {"k": "", "mac": "", "dpid": 0, "port": 0, "nd": 0, "np": 0}
TAB = {m: (0, 0, 0, {i: (0, 0, 0, 0, 0) for i in ("i1", "i2")}) for m in ("m1", "m2")}
TEMPLATES = {
    "PacketIn": {"ev": [EVT], "dup": False, "halted": False, "msgs": 0, "tab": TAB},
    "CheckTimeouts": {"pings": [(0, 0, "", "")], "ev": [EVT], "warn": 0, "due": 0, "tab": TAB},
    "Advance": {"due": 0},
    "LinkUp": {"nonedge": [(0, 0)]},
    "ConnDown": {"nonedge": [(0, 0)], "ev": [EVT]},
    "ConnUp": {"flow": 0, "nonedge": [(0, 0)], "ev": [EVT]},
}


def conform(x, t):
  if isinstance(t, bool):
    return isinstance(x, bool)
  if isinstance(t, int):
    return isinstance(x, int) and not isinstance(x, bool) and -2 ** 31 < x < 2 ** 31
  if isinstance(t, str):
    return isinstance(x, str)
  if isinstance(t, tuple):
    return isinstance(x, list) and len(x) == len(t) and all(conform(a, b) for a, b in zip(x, t))
  if isinstance(t, list):
    return isinstance(x, list) and all(conform(a, t[0]) for a in x)
  if isinstance(t, dict):
    return isinstance(x, dict) and set(x) == set(t) and all(conform(x[k], t[k]) for k in t)
  return False


def _dummy(t):
  if isinstance(t, tuple):
    return [_dummy(x) for x in t]
  if isinstance(t, list):
    return []
  if isinstance(t, dict):
    return {k: _dummy(v) for k, v in t.items()}
  return t


def _record(tr, ad, a, args):
  template = TEMPLATES[a]
  try:
    obs = json.loads(canon(ad.step(a, args)))
    diag = {}
  except Exception as e:      # the code under test raised: not a behaviour of the spec
    obs, diag = None, {"exception": type(e).__name__ + ": " + str(e)[:200]}
  wf = obs is not None and conform(obs, template)
  if not wf:
    if obs is not None:
      diag = {"malformed": obs}
    obs = _dummy(template)
  ev = dict(a=a, args=args, obs=obs, wf=wf)
  if diag:
    ev["diag"] = diag
  tr.append(ev)
  return wf


def drive(arg):
  """seeded random run of the real host_tracker: bursts of traffic, moves, quiet spells long enough for pings,
  address expiry and MAC expiry, ARP replies to pings, links learned, switches flapping"""
  seed, n, which = arg
  from harness.adapters_x08 import Adapter
  rnd = random.Random(seed)
  c = CONSTS[which]
  ti = c["timerInterval"]
  ad = Adapter(consts=c, variant=seed % 3)
  tr = []
  tph = 0
  up = {1: True, 2: True}
  linked = False
  home = {"m1": rnd.choice(LOCS), "m2": rnd.choice(LOCS)}
  quiet = 0                   # remaining timer periods of a quiet spell
  longest = max(c["MacLife"], c["arpSilent"] if which != "real" else c["arpAware"]) // ti + 6
  try:
    while len(tr) < n:
      if tph == ti:
        if not _record(tr, ad, "CheckTimeouts", dict(x=0)):
          break
        tph = 0
        # a host answers the ping it was just sent (sometimes)
        for (s, p, m, i) in tr[-1]["obs"]["pings"]:
          if rnd.random() < 0.3 and up[home[m][0]] and len(tr) < n:
            if not _record(tr, ad, "PacketIn", dict(mac=m, sw=home[m][0], port=home[m][1], kind="arpr", ip=i)):
              return tr
        continue
      k = rnd.random()
      if quiet > 0 or k < 0.30:
        if quiet > 0:
          d = ti - tph
          quiet -= 1
        else:
          d = rnd.randint(1, ti - tph)
          if rnd.random() < 0.5:
            d = ti - tph
        if not _record(tr, ad, "Advance", dict(d=d)):
          break
        tph += d
      elif k < 0.36:
        quiet = rnd.choice([2, 3, 4, 6, longest // 2, longest, longest])
      elif k < 0.86:
        m = rnd.choice(["m1", "m1", "m2"])
        if rnd.random() < 0.15:
          home[m] = rnd.choice(LOCS)
        s, p = home[m] if rnd.random() < 0.85 else rnd.choice(LOCS)
        if not up[s]:
          continue
        kind = rnd.choice(KINDS)
        ip = rnd.choice(["i1", "i1", "i2"]) if kind in ("arpq", "arpr", "ip", "ipp") else "-"
        if not _record(tr, ad, "PacketIn", dict(mac=m, sw=s, port=p, kind=kind, ip=ip)):
          break
      elif k < 0.90:
        if linked or not (up[1] and up[2]):
          continue
        if not _record(tr, ad, "LinkUp", dict(a=list(CABLE[0]), b=list(CABLE[1]))):
          break
        linked = True
      else:
        s = rnd.choice([1, 2])
        if up[s] and rnd.random() < 0.5:
          continue
        if not _record(tr, ad, "ConnDown" if up[s] else "ConnUp", dict(sw=s)):
          break
        up[s] = not up[s]
        if not up[s]:
          linked = False
  finally:
    ad.close()
  return tr


def redrive(arg):
  """perform a recorded sequence of actions again (replay of a trace finding)"""
  seq, which = arg
  from harness.adapters_x08 import Adapter
  ad = Adapter(consts=CONSTS[which], variant=0)
  tr = []
  try:
    for a, args in seq:
      if not _record(tr, ad, a, args):
        break
  finally:
    ad.close()
  return tr


def strict_demo():
  """NOT part of run(ctx).  Replays the behaviours of the Strict = TRUE spec (documented intent, deviations
  switched off) on the unchanged code and prints what is rejected - the evidence behind "Defects observed" in
  notes/X08.md.   cd /verif && /venv/bin/python -c "import props.X08 as p; p.strict_demo()" """
  for cfg, key in (("EXS_edges_a.cfg", "a60"), ("EXS_edges_b.cfg", "b")):
    r = tlc.run(SPEC, "MCHostTracker", cfg, workers=1, coverage=False, tag="X08", timeout=2400)
    behs = sample(r.tagged_raw("T"), 6000, 0, [])
    ctx = core.Context("X08", "strict-demo", 0, "demo", clear=False)
    st = core.replay(ctx, ADAPTER, behs, params=dict(CFG[key], consts=STRICT, variant=0))
    by = {}
    first = {}
    for sig, rep in ctx.violations:
      key2 = "%s %s %s" % (sig.get("via"), sig.get("fields"), sig.get("tab"))
      by[key2] = by.get(key2, 0) + 1
      if rep is not None:
        first.setdefault(key2, rep)
    print("%s: %d behaviours, %s" % (cfg, len(behs), st))
    for k2, v in sorted(by.items()):
      print("  rejected %5d x at %s" % (v, k2))
    for k2, rep in sorted(first.items()):
      print("  --- first rejection at %s" % k2)
      for s in rep["behaviour"][:rep["failing_step"] + 1]:
        print("     %s %s" % (s["a"], canon(s["args"])))
      print("     expected %s" % canon(rep["expected"]))
      print("     observed %s" % canon(rep["observed"]))
