"""X11 - DHCP client state machine (pox/proto/dhcp_client.py: DHCPClientBase + OFDHCPClient).

1. TLC model-checks specs/dhcpclient/DhcpClient.tla: the design as documented in the code (Strict = TRUE) satisfies
   every property (only the current xid and the own hardware address are accepted, and only in the state that waits
   for that reply; DISCOVER on start and every DT seconds while in INIT; exactly one REQUEST per accepted offer, none
   for rejected ones; ACK in REQUESTING -> BOUND + exactly one DHCPLeased for the requested offer; NAK / request
   timeout -> back to discovery; total timeout -> exactly one error transition; no timer of an old state armed;
   liveness: the client ends up BOUND or <ERROR>); the model with the code's NAMED deviations (Strict = FALSE)
   satisfies all properties that do not contradict a deviation.  Every named action must be taken (vacuity guard),
   and no deviation action may be enabled in the strict model.
2. spec -> code: one behaviour per transition of the state graph of the model of the code as built (several constant
   sets, incl. the two "raw" ones without the harness shims), and -simulate walks, replayed on the real OFDHCPClient
   behind a real of_01.Connection and a real SoftwareSwitch (harness/x11_net.py, harness/adapters_x11.py): server
   frames built with struct, client frames decoded with struct, every controller->switch message classified, virtual
   clock, one timer callback per "Run" step; comparison after every step.
3. code -> spec: a seeded random environment (scripted DHCP servers, handlers that accept / reject / defer) drives the
   real client; TLC validates every recorded trace against the as-built model, all invariants at every step; two
   corrupted traces are negative controls.

`python -m props.X11 strict` (not part of the check): the intended design rejects the code as built.
"""
import copy
import json
import random
import sys
import time

from engine import tlc, core, tracecheck

ADAPTER = "harness.adapters_x11:Adapter"
SPEC = "dhcpclient"
MOD = "MCDhcpClient"

COMMON = ["Create", "SwitchUp", "Tick", "FireDiscover", "FireOfferRequests", "FireOfferIdle", "FireTotal",
          "RxOfferFirst", "RxOfferMore", "RxOfferIgnored", "RxAck", "RxAckIgnored", "RxNakIgnored", "RxJunk"]
STRICT_ONLY = ["FireRequest", "RxNak", "RxOfferWrongChaddr", "RxAckWrongChaddrOrAddr", "RxNakWrongChaddr"]
DEVIATIONS = ["CreateFaults", "CreateSendFaults", "CreateIntPortFaults", "SwitchUpSendFaults", "SwitchUpIntPortFaults",
              "RequestTimeoutFaults", "NakFaults", "ForeignChaddrOffer", "ForeignChaddrAck", "AckAddrNotChecked",
              "AckBeforeRequestFaults", "NakBeforeRequestFaults", "IntPortRxFaults", "IntPortRxFaultsA",
              "IntPortRxFaultsN"]
DEV_SHIMMED = ["RequestTimeoutFaults", "NakFaults", "ForeignChaddrOffer", "ForeignChaddrAck", "AckAddrNotChecked",
               "AckBeforeRequestFaults", "NakBeforeRequestFaults"]
DEV_INTPORT = ["CreateIntPortFaults", "SwitchUpIntPortFaults", "IntPortRxFaults", "IntPortRxFaultsA", "IntPortRxFaultsN"]
BADPORT = ["CreateBadPort", "SwitchUpBadPort"]

# (cfg, label, actions that must be covered, is the intended design)
MODELS = {
    "quick": [
        ("MC_strict_q.cfg", "intended design, timeouts 1/2/1/4, 2 offers", COMMON + STRICT_ONLY + BADPORT, True),
        ("MC_asbuilt_q.cfg", "with the code's deviations, timeouts 1/2/1/4, 2 offers, all port kinds",
         COMMON + DEV_SHIMMED + DEV_INTPORT + BADPORT, False),
        ("MC_raw_K4.cfg", "as built without the clock shim (float secs: nothing can be sent)",
         ["Create", "CreateSendFaults", "SwitchUpSendFaults", "FireTotal", "AckBeforeRequestFaults", "Tick"], False),
        ("MC_raw0_K4.cfg", "as built without any shim (constructor raises NameError)", ["CreateFaults", "SwitchUp", "Tick"],
         False),
        ("LIVE_strict_q.cfg", "intended design, liveness (Settles under WF(Tick), WF(timers))",
         ["FireDiscover", "FireRequest", "FireTotal", "RxAck", "RxNak", "Tick"], True),
        ("LIVE_asbuilt_q.cfg", "with deviations, liveness (Settles)", ["RequestTimeoutFaults", "FireTotal", "NakFaults"],
         False),
    ],
    "thorough": [
        ("MC_strict_q.cfg", "intended design, timeouts 1/2/1/4, 2 offers", COMMON + STRICT_ONLY + BADPORT, True),
        ("MC_strict_K4.cfg", "intended design, timeouts 1/2/1/4, 3 offers, all port kinds, install_flows on/off",
         COMMON + STRICT_ONLY + BADPORT, True),
        ("MC_strict_K8.cfg", "intended design, default timeouts 2/2/2/8, 2 offers", COMMON + STRICT_ONLY + BADPORT, True),
        ("MC_asbuilt_q.cfg", "with the code's deviations, timeouts 1/2/1/4, 2 offers, all port kinds",
         COMMON + DEV_SHIMMED + DEV_INTPORT + BADPORT, False),
        ("MC_asbuilt_K4.cfg", "with the code's deviations, timeouts 1/2/1/4, 3 offers", COMMON + DEV_SHIMMED + DEV_INTPORT + BADPORT,
         False),
        ("MC_asbuilt_K8.cfg", "with the code's deviations, default timeouts 2/2/2/8", COMMON + DEV_SHIMMED + DEV_INTPORT + BADPORT,
         False),
        ("MC_asbuilt_M3.cfg", "with the code's deviations, windows of up to 3 offers, timeouts 2/1/1/5", COMMON + DEV_SHIMMED,
         False),
        ("MC_raw_K4.cfg", "as built without the clock shim (float secs: nothing can be sent)",
         ["Create", "CreateSendFaults", "SwitchUpSendFaults", "FireTotal", "AckBeforeRequestFaults", "Tick"], False),
        ("MC_raw0_K4.cfg", "as built without any shim (constructor raises NameError)", ["CreateFaults", "SwitchUp", "Tick"],
         False),
        ("LIVE_strict_K4.cfg", "intended design, liveness (Settles under WF(Tick), WF(timers))",
         ["FireDiscover", "FireRequest", "FireTotal", "RxAck", "RxNak", "Tick"], True),
        ("LIVE_asbuilt_K4.cfg", "with deviations, liveness (Settles)", ["RequestTimeoutFaults", "FireTotal", "NakFaults"],
         False),
    ],
}

K4 = dict(DT=1, OT=2, RT=1, TT=4)
K5 = dict(DT=2, OT=2, RT=1, TT=5)
K3 = dict(DT=1, OT=1, RT=1, TT=3)
K412 = dict(DT=1, OT=1, RT=2, TT=4)
K8 = dict(DT=2, OT=2, RT=2, TT=8)
KT5 = dict(DT=1, OT=2, RT=1, TT=5)
# (cfg, adapter params, keep every k-th behaviour)
EDGES = {
    "quick": [("EX_edges_q1.cfg", K4, 3), ("EX_edges_ports.cfg", K3, 5), ("EX_edges_raw.cfg", dict(K3, int_clock=False), 3),
              ("EX_edges_raw0.cfg", dict(K3, int_clock=False, alias=False), 1),
              ("EX_edges_q4.cfg", K3, 50)],          # windows of two offers, sampled
    "thorough": [("EX_edges_q1.cfg", K4, 1), ("EX_edges_ports.cfg", K3, 1), ("EX_edges_raw.cfg", dict(K3, int_clock=False), 1),
                 ("EX_edges_raw0.cfg", dict(K3, int_clock=False, alias=False), 1),
                 ("EX_edges_K4.cfg", K4, 6), ("EX_edges_q2.cfg", K5, 8), ("EX_edges_q3.cfg", K412, 4),
                 ("EX_edges_q4.cfg", K3, 4)],
}
# (cfg, adapter params, walks, depth)
SIMS = {
    "quick": [("EX_sim_K8.cfg", K8, 60, 30), ("EX_sim_K5.cfg", KT5, 60, 30)],
    "thorough": [("EX_sim_K8_50.cfg", K8, 1500, 50), ("EX_sim_K5_50.cfg", KT5, 1500, 50)],
}
NVARIANTS = 15


def _nontrivial(b):
  return any(s["exp"].get("tx") or s["exp"].get("evs") for s in b)


def _canon(b):
  for s in b:
    if "alts" in s["args"]:
      s["args"]["alts"] = sorted(s["args"]["alts"])
  return b


def _decode(r, tag, keep=1, offset=0):
  raw = r.tagged_raw(tag)
  r.stdout, r.prints = "", []
  total = len(raw)
  if keep > 1:
    raw = raw[offset % keep::keep]
  return [_canon(json.loads(json.loads(x))) for x in raw], total


def _replay(ctx, behs, params, label):
  """Behaviours are replayed under NVARIANTS concretisations (network, MACs, port_eth mode, dpid), named in the
  first step's arguments (not compared)."""
  for i, b in enumerate(behs):
    if b:
      b[0]["args"]["variant"] = i % NVARIANTS
  st = core.replay(ctx, ADAPTER, behs, params=dict(params, seed=ctx.seed), nontrivial=_nontrivial, chunk=60)
  ctx.notes["replay_" + label] = dict(behaviours=len(behs), **st)
  return st


def run(ctx):
  quick = ctx.tier == "quick"
  ctx.rule = ("behaviours exported by TLC from DhcpClient.tla (model of the client as built: one behaviour per transition "
              "of its state graph = shortest path to every state + each outgoing transition; plus -simulate walks) replayed "
              "on the real OFDHCPClient behind a real of_01.Connection and SoftwareSwitch, comparison of state / listener / "
              "flows / OpenFlow messages / emitted DHCP frames / events / swallowed exceptions / fired timer after every "
              "step; traces of a seeded random environment validated by TLC against the as-built model; distinct = "
              "distinct action/argument sequences; non-trivial = the client sent a frame or raised an event")
  ctx.assumptions = [
      "bounds: one client on one port of one switch; <= 3 offers (2 servers, 2 addresses, 3 option sets), windows of <= 3 "
      "(traces: 4) offers; timeouts (discover/offer/request/total) 2/2/2/8 (the defaults), 1/2/1/4, 2/2/1/5, 1/1/2/4, 1/1/1/3, "
      "1/2/1/5; time advances in whole seconds",
      "harness shims, each the one-line repair of a named defect (notes/X11.md): module global OpenFlowDHCPClient "
      "(alias), integral virtual clock inside dhcp_client (secs); the raw configs run without them",
      "dhcp_client.recoco.Timer is a recording subclass of the real recoco.Timer on a real Scheduler/SelectHub that the "
      "harness steps; which timer fired is read from the client's *_timer attributes at the call",
      "nexus.miss_send_len = 65535 (whole frames on a table miss)",
      "the code deviates from its documented intent in the named ways listed in notes/X11.md (Defects observed); the "
      "check accepts exactly those deviations (Strict = FALSE models), nothing else",
  ]
  phase = ctx.notes.setdefault("phase_wall_s", {})
  t0 = time.time()
  jobs = [dict(spec_dir=SPEC, module=MOD, cfg=cfg, tag="X11", timeout=1500, workers=2 if quick else 4)
          for cfg, _, _, _ in MODELS[ctx.tier]]
  jobs += [dict(spec_dir=SPEC, module=MOD, cfg=cfg, tag="X11", timeout=1500, workers=1, coverage=False)
           for cfg, _, _ in EDGES[ctx.tier]]
  jobs += [dict(spec_dir=SPEC, module=MOD, cfg=cfg, tag="X11", timeout=1500, workers=1, coverage=False,
                simulate=dict(num=num), depth=depth + 1, seed=ctx.seed + 1)
           for cfg, _, num, depth in SIMS[ctx.tier]]
  results = tlc.run_many(jobs, parallel=8 if quick else 4)
  phase["tlc_models_and_exports"] = round(time.time() - t0, 1)
  t0 = time.time()
  nm, ne = len(MODELS[ctx.tier]), len(EDGES[ctx.tier])
  # ---- 1. the properties on the model
  for (cfg, label, acts, strict), r in zip(MODELS[ctx.tier], results[:nm]):
    if r.violated:
      raise tlc.TLCError("spec violates its own property %s (%s):\n%s" % (r.violated, cfg, r.error_trace))
    tlc.require_coverage(r, acts, cfg)
    if strict:
      on = [a for a in DEVIATIONS if r.coverage.get(a, (0, 0))[1] != 0]
      if on:
        raise tlc.TLCError("deviation actions enabled in the intended design %s: %s" % (cfg, on))
    ctx.add_model("DhcpClient %s (%s)" % (label, cfg), r)
  # ---- 2. spec -> code
  neg = None
  for k, (cfg, params, keep) in enumerate(EDGES[ctx.tier]):
    r, results[nm + k] = results[nm + k], None
    behs, total = _decode(r, "T", keep=keep, offset=ctx.seed)
    del r
    if not behs:
      raise tlc.TLCError("no behaviours exported by %s" % cfg)
    _replay(ctx, behs, params, cfg[:-4])
    ctx.notes["replay_" + cfg[:-4]]["exported"] = total
    if neg is None:
      neg = (behs, params)
    del behs
  for (cfg, params, num, depth), r in zip(SIMS[ctx.tier], results[nm + ne:]):
    behs, total = _decode(r, "H")
    if len(behs) < num // 2:
      raise tlc.TLCError("simulation %s exported %d behaviours" % (cfg, len(behs)))
    _replay(ctx, behs, params, cfg[:-4])
  _replay_negative_control(ctx, *neg)
  phase["replay"] = round(time.time() - t0, 1)
  t0 = time.time()
  # ---- 3. code -> spec
  ntr = 90 if quick else 1500
  nev = 40 if quick else 60
  batches = []
  for kname, cfg in (("K8", "Trace_K8.cfg"), ("K5", "Trace_K5.cfg")):
    items = [(ctx.seed * 100003 + i, nev, kname) for i in range(ntr)]
    if kname == "K8":       # second scenario: the real DHCPD is the server (default timeouts)
      items += [(ctx.seed * 100003 + 500000 + i, nev, "E2E") for i in range(ntr // 3)]
    traces = core.run_driver("props.X11:drive", items)
    bads = _corrupt(traces)
    if len(bads) < 2 and not ctx.violations:
      raise tlc.TLCError("no trace suitable for the negative controls")
    batches.append((kname, cfg, traces, bads, items))
  phase["trace_drivers"] = round(time.time() - t0, 1)
  t0 = time.time()
  from concurrent.futures import ThreadPoolExecutor
  with ThreadPoolExecutor(2) as ex:
    vals = list(ex.map(lambda b: tracecheck.validate(SPEC, "TraceDhcpClient", b[1], b[2] + b[3], tag="X11"), batches))
  for (kname, cfg, traces, bads, items), (r, rej) in zip(batches, vals):
    n = len(traces)
    ctx.add_model("TraceDhcpClient %s (validation of %d implementation traces)" % (kname, n), r)
    rejected = {t for t, _ in rej}
    if any(n + i not in rejected for i in range(len(bads))):
      raise tlc.TLCError("negative control (corrupted secs / corrupted state) was accepted by the trace spec")
    nrej = 0
    for t, matched in rej:
      if t >= n:
        continue
      nrej += 1
      ev = traces[t][matched]
      ctx.report(dict(action=ev["a"], via="trace", timeouts=kname, obs_st=str(ev["obs"].get("st")),
                      obs_fault=str(ev["obs"].get("fault")), obs_fired=str(ev["obs"].get("fired")), wf=ev["wf"]),
                 dict(trace=traces[t], failing_step=matched, config=cfg, driver_arg=list(items[t]),
                      note="TLC rejected the trace at this event"))
    ctx.traces += n
    for t in traces[:2000]:
      ctx.case(core.fp([[e["a"], e["args"]] for e in t]), sample=None)
    ends = {}
    for t in traces:
      ends[t[-1]["obs"]["st"]] = ends.get(t[-1]["obs"]["st"], 0) + 1
    ctx.notes["trace_validation_" + kname] = dict(
        traces=n, events=sum(len(t) for t in traces), rejected=nrej, negative_controls_rejected=len(bads),
        with_real_dhcpd=sum(1 for it in items if it[2] == "E2E"), final_states=ends, leased=sum(1 for t in traces for e in t for v in e["obs"]["evs"] if v["e"] == "Leased"),
        faults=sum(1 for t in traces for e in t if e["obs"]["fault"] != "-"))
  phase["trace_validation"] = round(time.time() - t0, 1)
  ctx.exhaustive = True


def _replay_negative_control(ctx, behs, params):
  """Corrupt one expectation (the secs field of a DISCOVER) of a behaviour that replays cleanly: must mismatch."""
  scratch = core.Context(ctx.pid, ctx.tier, ctx.seed, ctx.level, clear=False)
  tried = 0
  p = dict(params, seed=ctx.seed)
  for b in behs[:200]:
    idx = [i for i, s in enumerate(b) if s["exp"].get("tx")]
    if not idx:
      continue
    tried += 1
    if tried > 12:
      break
    good = core.replay(scratch, ADAPTER, [b], params=p, procs=1)
    if good["ok"] != 1:
      continue
    bad = copy.deepcopy(b)
    bad[idx[-1]]["exp"]["tx"][0]["secs"] += 1
    res = core.replay(scratch, ADAPTER, [bad], params=p, procs=1)
    if res["mismatch"] != 1:
      raise core.Machinery("negative control: a corrupted expectation replayed without mismatch")
    ctx.notes["replay_negative_control"] = "corrupted secs of a sent frame rejected"
    return
  if ctx.violations and tried:
    ctx.notes["replay_negative_control"] = "skipped: no behaviour replays cleanly on this tree (violations reported)"
    return
  raise core.Machinery("negative control: no cleanly replaying behaviour with a sent frame found")


def _corrupt(traces):
  bad1 = bad2 = None
  for tr in traces:
    if bad1 is None:
      for i, e in enumerate(tr):
        if e["wf"] and e["obs"]["tx"]:
          bad1 = copy.deepcopy(tr)
          bad1[i]["obs"]["tx"][0]["secs"] += 1            # a frame with the wrong secs
          break
    if bad2 is None:
      for i, e in enumerate(tr):
        if e["wf"] and e["a"] == "RxOffer" and e["obs"]["st"] == "SELECTING" and i > 0 and tr[i - 1]["obs"]["st"] == "INIT":
          bad2 = copy.deepcopy(tr)
          bad2[i]["obs"]["st"] = "INIT"                   # the first offer did not switch states
          break
    if bad1 is not None and bad2 is not None:
      break
  return [b for b in (bad1, bad2) if b is not None]


# --------------------------------------------------------------------------
# code -> spec driver

TIMEOUTS = {"K8": K8, "K5": KT5}
OBS_KEYS = {"st", "lst", "nfl", "of", "tx", "evs", "fault", "fired"}
DUMMY = dict(st="bad", lst=False, nfl=-1, of=[], tx=[], evs=[], fault="bad", fired="bad")
JUNK = ["op", "notype", "sport", "dport", "unicast", "inport", "discover", "request", "arp", "short"]
MAX_OFFERS = 4          # Trace_*.cfg


def _wf(obs):
  if not isinstance(obs, dict) or set(obs) != OBS_KEYS:
    return False
  if not (isinstance(obs["st"], str) and isinstance(obs["lst"], bool) and isinstance(obs["fault"], str) and
          isinstance(obs["fired"], str) and isinstance(obs["nfl"], int)):
    return False
  if not (isinstance(obs["of"], list) and all(isinstance(x, str) for x in obs["of"])):
    return False
  for m in obs["tx"]:
    if not (isinstance(m, dict) and set(m) == {"t", "secs", "o"} and isinstance(m["t"], str) and
            isinstance(m["secs"], int) and isinstance(m["o"], str)):
      return False
  for v in obs["evs"]:
    if not (isinstance(v, dict) and set(v) == {"e", "o", "n", "acc", "os"} and isinstance(v["e"], str) and
            isinstance(v["o"], str) and isinstance(v["n"], int) and isinstance(v["acc"], int) and
            isinstance(v["os"], list) and all(isinstance(x, str) for x in v["os"])):
      return False
  return True


def drive(arg):
  """Random environment against the real client; returns the recorded trace.  The environment decides from what
  is visible of the real system (xids seen on the wire, pending timers of the real scheduler, client.state,
  len(client.offers)), not from a model."""
  seed, n, kname = arg
  if kname == "E2E":
    return drive_e2e(arg)
  from harness.adapters_x11 import Adapter
  rnd = random.Random(seed)
  ad = Adapter(variant=seed % 30, seed=0, **TIMEOUTS[kname])
  tr = []

  def do(a, args):
    try:
      obs = ad.step(a, args)
      wf = _wf(obs)
    except core.Machinery:
      raise
    except Exception as e:          # noqa - adapter crash: recorded, rejected by the trace spec (wf = FALSE)
      obs, wf = {"exc": "%s: %s" % (type(e).__name__, e)}, False
    if not wf:
      obs = dict(DUMMY, raw=json.dumps(obs, default=str)[:600])
    tr.append(dict(a=a, args=args, obs=obs, wf=wf))
    return wf

  try:
    auto = rnd.random() < 0.5
    port = rnd.choice(["name"] * 17 + ["bad", "int", "int"])
    fl = rnd.random() < 0.75
    create = ("Create", dict(auto=auto, port=port, fl=fl))
    pro = [create, ("SwitchUp", dict(x=0))] if rnd.random() < 0.4 else [("SwitchUp", dict(x=0)), create]
    ticks = rnd.choice([0, 0, 1, 2])
    for _ in range(ticks):
      pro.insert(rnd.randint(0, 1), ("Tick", dict(x=0)))
    for a, args in pro:
      if not do(a, args):
        return tr
    while len(tr) < n:
      c = ad.client
      st = c.state if c is not None else "GONE"
      due = [k for k, d in ad.net.pending() if d <= 0]
      r = rnd.random()
      if due and r < 0.7:
        ok = do("Run", dict(pick=rnd.choice([0, 0, 0, 1, 2, 3]), alts=[]))
      elif not due and r < 0.3:
        ok = do("Tick", dict(x=0))
      else:
        xs = ["bogus"] + (["D"] if ad.disc_xids else []) + (["oldD"] if len(ad.disc_xids) > 1 else []) + \
            (["R"] if ad.req_xids else []) + (["oldR"] if len(ad.req_xids) > 1 else [])
        ch = "me" if rnd.random() < 0.85 else "other"
        q = rnd.random()
        room = c is None or len(c.offers) < MAX_OFFERS
        if q < 0.08:
          ok = do("RxJunk", dict(k=rnd.choice(JUNK)))
        elif st in ("INIT", "SELECTING") and q < 0.7 and room:
          x = "D" if (ad.disc_xids and rnd.random() < 0.8) else rnd.choice(xs)
          ok = do("RxOffer", dict(x=x, o=rnd.choice(["o1", "o2", "o3"]), ch=ch,
                                  dec=rnd.choice(["accept", "reject", "defer", "defer"]), pick=rnd.choice([0, 0, 1, 2, 3])))
        elif st == "REQUESTING" and q < 0.75:
          x = "R" if (ad.req_xids and rnd.random() < 0.8) else rnd.choice(xs)
          if rnd.random() < 0.7:
            ok = do("RxAck", dict(x=x, ch=ch, ya="req" if rnd.random() < 0.85 else "other"))
          else:
            ok = do("RxNak", dict(x=x, ch=ch))
        else:
          t = rnd.choice(["RxOffer", "RxAck", "RxNak"])
          x = rnd.choice(xs)
          if t == "RxOffer" and room:
            ok = do("RxOffer", dict(x=x, o=rnd.choice(["o1", "o2", "o3"]), ch=ch,
                                    dec=rnd.choice(["accept", "reject", "defer"]), pick=rnd.choice([0, 1, 2, 3])))
          elif t == "RxAck" or t == "RxOffer":
            ok = do("RxAck", dict(x=x, ch=ch, ya=rnd.choice(["req", "req", "other"])))
          else:
            ok = do("RxNak", dict(x=x, ch=ch))
      if not ok:
        break
    return tr
  finally:
    ad.close()


def drive_e2e(arg):
  """Second scenario: the real DHCPD (pox/proto/dhcpd.py, behind a second real switch) is the server.  Its frames
  reach the client unmodified, in order, possibly late or never; each delivery is recorded as the spec action it
  is (RxOffer / RxAck / RxNak with the xid class, offer, chaddr read from the frame)."""
  seed, n, kname = arg
  from harness.adapters_x11 import Adapter
  rnd = random.Random(seed)
  ad = Adapter(variant=seed % 30, seed=0, **TIMEOUTS["K8"])
  ad.enable_e2e()
  tr = []

  def rec(a, args, f):
    try:
      obs = f()
      wf = _wf(obs)
    except core.Machinery:
      raise
    except Exception as e:          # noqa
      obs, wf = {"exc": "%s: %s" % (type(e).__name__, e)}, False
    if not wf:
      obs = dict(DUMMY, raw=json.dumps(obs, default=str)[:600])
    tr.append(dict(a=a, args=args, obs=obs, wf=wf))
    if wf:
      ad.e2e_forward()
    return wf

  try:
    create = ("Create", dict(auto=rnd.random() < 0.5, port="name", fl=rnd.random() < 0.75))
    pro = [create, ("SwitchUp", dict(x=0))] if rnd.random() < 0.4 else [("SwitchUp", dict(x=0)), create]
    for a, args in pro:
      if not rec(a, args, lambda: ad.step(a, args)):
        return tr
    lossy = rnd.random() < 0.5
    idle = 0
    while len(tr) < n and idle < 3:
      c = ad.client
      idle = idle + 1 if (c is not None and c.state in (c.BOUND, c.ERROR)) else 0
      due = [k for k, d in ad.net.pending() if d <= 0]
      r = rnd.random()
      if ad.inflight and r < (0.5 if lossy else 0.8):
        frame = ad.inflight.pop(0)
        if lossy and rnd.random() < 0.25:
          continue                                           # lost on the wire
        a, args = ad.e2e_classify(frame)
        if a == "RxOffer":
          if len(c.offers) >= MAX_OFFERS:
            continue
          args.update(dec=rnd.choice(["accept", "reject", "defer", "defer"]), pick=rnd.choice([0, 0, 0, 1, 2]))
        ok = rec(a, args, lambda: ad.e2e_deliver(frame, args.get("dec", "defer"), args.get("pick", 0)))
      elif due:
        args = dict(pick=rnd.choice([0, 0, 0, 1, 2]), alts=[])
        ok = rec("Run", args, lambda: ad.step("Run", args))
      else:
        ok = rec("Tick", dict(x=0), lambda: ad.step("Tick", dict(x=0)))
      if not ok:
        break
    return tr
  finally:
    ad.close()


def replay_one(ctx, rep):
  """`./check X11 --replay FILE`: re-run one recorded failure against the current tree."""
  if "behaviour" in rep:
    core.replay(ctx, rep["adapter"], [rep["behaviour"]], params=rep.get("params"), procs=1)
    return
  arg = tuple(rep["driver_arg"])
  tr = drive_e2e(arg) if arg[2] == "E2E" else drive(arg)
  r, rej = tracecheck.validate(SPEC, "TraceDhcpClient", rep["config"], [tr], tag="X11")
  for t, matched in rej:
    ev = tr[matched]
    ctx.report(dict(action=ev["a"], via="trace", timeouts=arg[2], obs_st=str(ev["obs"].get("st")),
                    obs_fault=str(ev["obs"].get("fault")), obs_fired=str(ev["obs"].get("fired")), wf=ev["wf"]),
               dict(trace=tr, failing_step=matched, config=rep["config"], driver_arg=list(arg)))


# --------------------------------------------------------------------------
# not part of the check: the intended design rejects the code as built

def strict_demo(n=200):
  traces = core.run_driver("props.X11:drive", [(777000 + i, 40, "K8") for i in range(n)])
  r, rej = tracecheck.validate(SPEC, "TraceDhcpClient", "Trace_strict_K8.cfg", traces, tag="X11demo")
  print("traces: %d   rejected by the intended design: %d" % (len(traces), len(rej)))
  kinds = {}
  for t, matched in rej:
    ev = traces[t][matched]
    k = (ev["a"], json.dumps(ev["args"], sort_keys=True), ev["obs"]["st"], ev["obs"]["fault"])
    kk = (ev["a"], ev["obs"]["fault"], ev["args"].get("ch", ""), ev["args"].get("ya", ""))
    kinds[kk] = kinds.get(kk, 0) + 1
  for k, v in sorted(kinds.items(), key=lambda kv: -kv[1]):
    print("  first rejected event (action, fault, chaddr, yiaddr) %-50s x %d" % (k, v))
  if rej:
    t, matched = min(rej, key=lambda x: x[1])
    print("shortest rejected prefix (trace %d, event %d):" % (t, matched))
    for e in traces[t][:matched + 1]:
      print("  ", e["a"], e["args"], "->", e["obs"]["st"], "tx", e["obs"]["tx"], "evs", [v["e"] for v in e["obs"]["evs"]],
            "fault", e["obs"]["fault"], "fired", e["obs"]["fired"])
  return len(rej)


if __name__ == "__main__":
  if len(sys.argv) > 1 and sys.argv[1] == "strict":
    strict_demo()
