"""C18 - packet buffers: Buffers.tla model-checked, every transition replayed."""
from engine import tlc, core

ACTIONS = ["Miss", "CtrlAction", "Use", "PacketOutData", "SetConfig"]
ADAPTER = "harness.adapters_c18:Adapter"


def sort_sets(b):
  for st in b:
    if "emitted" in st["exp"]:
      st["exp"]["emitted"] = sorted(st["exp"]["emitted"])
  return b


def run(ctx):
  quick = ctx.tier == "quick"
  ctx.rule = ("behaviours exported by TLC from Buffers.tla (edge cover: shortest path to "
              "every abstract state + each outgoing transition; plus -simulate runs) "
              "replayed on a real SoftwareSwitch over OpenFlow bytes; distinct = distinct "
              "action/argument sequences; non-trivial = contains at least one buffer use or "
              "controller-bound frame")
  ctx.assumptions = ["bounds: pools N<=%d, 2 frame lengths (60,200), 3 ports" % (3 if quick else 4),
                     "buffer ids are bound dynamically to spec slots",
                     "OpenFlow bytes built/decoded by harness/rawbytes.py (struct only)"]
  # 1. the property on the model
  for n in ([0, 1, 2] if quick else [0, 1, 2, 3]):
    r = tlc.run("buffers", "MCBuffers", "MC_N%d.cfg" % n, tag="C18")
    if r.violated:
      raise tlc.TLCError("spec violates its own property %s:\n%s" % (r.violated, r.error_trace))
    if n >= 1:
      tlc.require_coverage(r, ACTIONS, "Buffers N=%d" % n)
    ctx.add_model("Buffers N=%d" % n, r)
  # 2. spec -> code: every transition of the abstract graph
  for n in ([0, 1, 2] if quick else [0, 1, 2, 3]):
    r = tlc.run("buffers", "MCBuffers", "EX_edges_N%d.cfg" % n, workers=1, coverage=False, tag="C18")
    behs = [sort_sets(b) for b in r.tagged("T")]
    if not behs:
      raise tlc.TLCError("no behaviours exported for N=%d" % n)
    st = core.replay(ctx, ADAPTER, behs, params=dict(N=n))
    ctx.notes["replay_N%d" % n] = dict(behaviours=len(behs), **st)
  # 3. long random behaviours
  num = 60 if quick else 1500
  r = tlc.run("buffers", "MCBuffers", "EX_sim.cfg", workers=1, coverage=False,
              simulate=dict(num=num), depth=41, seed=ctx.seed + 1, tag="C18")
  behs = [sort_sets(b) for b in r.tagged("H")]
  if len(behs) < num // 2:
    raise tlc.TLCError("simulation exported %d behaviours" % len(behs))
  st = core.replay(ctx, ADAPTER, behs, params=dict(N=3), chunk=20)
  ctx.notes["replay_sim"] = dict(behaviours=len(behs), depth=40, **st)
  ctx.exhaustive = True
