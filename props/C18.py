"""C18 - packet buffers: Buffers.tla model-checked, every transition replayed."""
import copy
import random

from engine import tlc, core, tracecheck

ACTIONS = ["Miss", "CtrlAction", "Use", "PacketOutData", "MissViaTable", "SetConfig", "Features"]
ADAPTER = "harness.adapters_c18:Adapter"


def sort_sets(b):
  for st in b:
    if "emitted" in st["exp"]:
      st["exp"]["emitted"] = sorted(st["exp"]["emitted"])
  return b


def run(ctx):
  quick = ctx.tier == "quick"
  ctx.rule = ("behaviours exported by TLC from Buffers.tla (edge cover: shortest path to "
              "every abstract state + each outgoing transition; plus -simulate runs) "
              "replayed on a real SoftwareSwitch over OpenFlow bytes; distinct = distinct "
              "action/argument sequences; non-trivial = contains at least one buffer use or "
              "controller-bound frame")
  ctx.assumptions = ["bounds: pools N<=2 with 2 frame lengths (60,200), 3 ports, 3 miss lengths; N<=3 with action lists over 1 frame, 2 ports",
                     "buffer ids are bound dynamically to spec slots",
                     "OpenFlow bytes built/decoded by harness/rawbytes.py (struct only)"]
  # 1. the property on the model
  for n in [0, 1, 2]:        # N=3 (and the lists) with reduced constants below
    r = tlc.run("buffers", "MCBuffers", "MC_N%d.cfg" % n, tag="C18", timeout=3000)
    if r.violated:
      raise tlc.TLCError("spec violates its own property %s:\n%s" % (r.violated, r.error_trace))
    if n >= 1:
      tlc.require_coverage(r, ACTIONS, "Buffers N=%d" % n)
    ctx.add_model("Buffers N=%d" % n, r)
  for c in (["MCL_N1", "MCL_N2p"] if quick else ["MCL_N1", "MCL_N2", "MCL_N3p"]):
    r = tlc.run("buffers", "MCBuffers", c + ".cfg", tag="C18", timeout=3000)
    if r.violated:
      raise tlc.TLCError("spec violates its own property %s:\n%s" % (r.violated, r.error_trace))
    tlc.require_coverage(r, ACTIONS + ["UseL", "PacketOutDataL", "RxL"], "Buffers with action lists " + c)
    ctx.add_model("Buffers with action lists " + c, r)
  # 2. spec -> code: every transition of the abstract graph
  hows = set()
  for n in [0, 1, 2]:
    r = tlc.run("buffers", "MCBuffers", "EX_edges_N%d.cfg" % n, workers=1, coverage=False, tag="C18")
    behs = [sort_sets(b) for b in r.tagged("T")]
    if not behs:
      raise tlc.TLCError("no behaviours exported for N=%d" % n)
    st = core.replay(ctx, ADAPTER, behs, params=dict(N=n))
    ctx.notes["replay_N%d" % n] = dict(behaviours=len(behs), **st)
    hows |= set((s["a"], s["args"]["how"]) for b in behs for s in b[-1:] if s["a"] in ("FlowMod", "FlowModL"))
  # 2b. the same with action lists (one frame, two ports; the list steps are the point)
  for n in ([1, 2] if quick else [1, 2, 3]):
    r = tlc.run("buffers", "MCBuffers", "EX_lists_N%d.cfg" % n, workers=1, coverage=False, tag="C18", timeout=3000)
    behs = [sort_sets(b) for b in r.tagged("T")]
    if not behs:
      raise tlc.TLCError("no list behaviours exported for N=%d" % n)
    st = core.replay(ctx, ADAPTER, behs, params=dict(N=n, ports=2))
    ctx.notes["replay_lists_N%d" % n] = dict(behaviours=len(behs), **st)
    hows |= set((s["a"], s["args"]["how"]) for b in behs for s in b[-1:] if s["a"] in ("FlowMod", "FlowModL"))
  # vacuity guard of the flow-mod form dimension: every form carried a buffer, with a single action and a list
  missing = [(a, h) for a in ("FlowMod", "FlowModL") for h in FM_HOWS if (a, h) not in hows]
  if missing:
    raise core.Machinery("flow-mod forms never exported: %s" % missing)
  ctx.notes["flow_mod_forms"] = sorted("%s/%s" % x for x in hows)
  # 3. long random behaviours
  num = 60 if quick else 1500
  r = tlc.run("buffers", "MCBuffers", "EX_sim.cfg" if quick else "EX_sim60.cfg", workers=1, coverage=False,
              simulate=dict(num=num), depth=41 if quick else 61, seed=ctx.seed + 1, tag="C18")
  behs = [sort_sets(b) for b in r.tagged("H")]
  if len(behs) < num // 2:
    raise tlc.TLCError("simulation exported %d behaviours" % len(behs))
  st = core.replay(ctx, ADAPTER, behs, params=dict(N=3 if quick else 4), chunk=20)
  ctx.notes["replay_sim"] = dict(behaviours=len(behs), depth=40 if quick else 60, **st)
  # 4. code -> spec: random driver on the real switch, traces validated by TLC
  ntr = 200 if quick else 3000
  traces = core.run_driver("props.C18:drive", [(ctx.seed * 100003 + i, 40) for i in range(ntr)])
  bad = copy.deepcopy(traces[0])          # negative control: corrupt one observation
  for e in bad:
    if e["a"] == "ToController":
      e["obs"]["total"] += 1
      break
  r, rej = tracecheck.validate("buffers", "TraceBuffers", "Trace.cfg", traces + [bad], tag="C18")
  ctx.add_model("TraceBuffers (validation of %d implementation traces)" % ntr, r)
  if (len(traces), ) not in [(t,) for t, _ in rej]:
    raise tlc.TLCError("negative control (corrupted total_len) was accepted by the trace spec")
  for t, matched in rej:
    if t == len(traces):
      continue
    ev = traces[t][matched]
    st = dict(a=ev["a"], args=ev["args"], exp={})
    ctx.report(dict(action=ev["a"], via="trace", args=ev["args"]),
               dict(trace=traces[t], failing_step=matched, note="TLC rejected the trace at this event"))
  ctx.traces += len(traces)
  for t in traces[:2000]:
    ctx.case(core.fp([[e["a"], e["args"]] for e in t]), sample=None)
  ctx.notes["trace_validation"] = dict(traces=len(traces), events=sum(len(t) for t in traces),
                                       rejected=len(rej) - 1, negative_control_rejected=True)
  ctx.exhaustive = True


ACTS = ["none", "out2", "flood", "inport", "all"]
LISTS_FM = [["ctl"], ["ctl", "rw", "out2"], ["rw", "ctl", "flood"], ["ctl", "ctl"], ["out2", "rw", "all"],
            ["inport", "ctl"]]
LISTS_PO = [["ctl"], ["table"], ["ctl", "rw", "out2"], ["rw", "ctl", "flood"], ["table", "rw", "inport"],
            ["rw", "table"], ["ctl", "ctl"], ["out2", "rw", "out2"], ["ctl", "table"]]
PIN_KEYS = {"buf", "total", "dataLen", "inport", "reason", "tag", "k"}


FM_HOWS = ["add", "addsame", "mod", "modnew", "modstrict", "modstrictnew"]


def drive(arg):
  """Random operation sequence on the real switch; returns the recorded trace."""
  seed, n = arg
  from harness.adapters_c18 import Adapter
  rnd = random.Random(seed)
  ad = Adapter(N=3)
  tr = []
  for _ in range(n):
    k = rnd.random()
    if k < 0.3:
      a = rnd.choice(["PacketOutL", "FlowModL", "PacketOutDataL", "RxL"])
      if a in ("PacketOutL", "FlowModL"):
        args = dict(buf=rnd.choice([0, 1, 2, 3, 4, 10]), acts=rnd.choice(LISTS_PO if a == "PacketOutL" else LISTS_FM),
                    how="-" if a == "PacketOutL" else rnd.choice(FM_HOWS))
        nbuf = sum(1 for x in args["acts"] if x in ("ctl", "table"))
        if args["buf"] in ad.bind.values() and nbuf > ad.N - len(ad.bind):
          continue          # the spec leaves this step out (see Buffers!UseL)
      else:
        args = dict(f=rnd.choice("ab"), p=rnd.randint(1, 3), acts=rnd.choice(LISTS_PO if a == "PacketOutDataL" else LISTS_FM))
    elif k < 0.5:
      a = "ToController"
      args = dict(f=rnd.choice("ab"), p=rnd.randint(1, 3), reason=rnd.choice(["miss", "action"]),
                  maxLen=rnd.choice([64, 65535]))
    elif k < 0.75:
      a = rnd.choice(["PacketOut", "FlowMod"])
      args = dict(buf=rnd.choice([0, 1, 2, 3, 4, 10]), act=rnd.choice(ACTS),
                  how="-" if a == "PacketOut" else rnd.choice(FM_HOWS))
    elif k < 0.8:
      a = "MissViaTable"
      args = dict(f=rnd.choice("ab"), p=rnd.randint(1, 3))
    elif k < 0.9:
      a = "PacketOutData"
      args = dict(f=rnd.choice("ab"), p=rnd.randint(1, 3), act=rnd.choice(ACTS))
    elif k < 0.95:
      a = "Features"
      args = dict(x=0)
    else:
      a = "SetConfig"
      args = dict(missLen=rnd.choice([0, 128, 65535]))
    try:
      obs = ad.step(a, args)
      wf = True
    except Exception as e:
      obs, wf = {"exc": type(e).__name__}, False
    if a == "ToController":
      wf = wf and set(obs) == {"buf", "total", "dataLen", "inport", "reason"} and isinstance(obs["buf"], int)
      if not wf:
        obs = dict(buf=-1, total=-1, dataLen=-1, inport=-1, reason="bad")
    elif a == "MissViaTable":
      wf = wf and set(obs) == {"buf", "total", "dataLen", "inport", "reason", "emitted"} and isinstance(obs["buf"], int)
      if not wf:
        obs = dict(buf=-1, total=-1, dataLen=-1, inport=-1, reason="bad", emitted=[])
    elif a.endswith("L"):
      wf = wf and set(obs) == {"emitted", "pins"} and all(set(x) == PIN_KEYS and isinstance(x["buf"], int)
                                                         and isinstance(x["reason"], str) for x in obs["pins"])
      if not wf:
        obs = dict(emitted=[], pins=[])
    elif a == "Features":
      wf = wf and set(obs) == {"nbuf"} and isinstance(obs["nbuf"], int)
      if not wf:
        obs = dict(nbuf=-1)
    elif a != "SetConfig":
      wf = wf and set(obs) == {"emitted"}
      if not wf:
        obs = dict(emitted=[])
    tr.append(dict(a=a, args=args, obs=obs, wf=wf))
  return tr
