"""X02 - controller-side flow-table mirror (openflow.topology.OFSyncFlowTable on flow_table.FlowTable).

specs/flowsync/FlowSync.tla states the design of the mirror (pending list, barrier bookkeeping, installed
table, the switch's real table, the two directions of the OpenFlow channel) with one action per linearization
point, and - as NAMED deviations (constant Dev) - the places where the code under test departs from it.

* TLC checks the properties of the intended design (Dev = {}) exhaustively on small constants, and the
  properties that survive in the code as it is (Dev = AllDev) on the model the code is bound to.
* spec -> code: behaviours exported from the Dev = AllDev model (edge cover of the abstract state graph;
  balanced -simulate runs, with and without the nexus' clear_flows_on_connect) are replayed on the real
  OFSyncFlowTable / OpenFlowSwitch / OpenFlowTopology / of_01.Connection against a real SoftwareSwitch over
  OpenFlow bytes; the whole visible state is compared after every step.
* code -> spec: a seeded random driver runs the real code and TLC decides whether each recorded trace is a
  behaviour of the spec (invariants evaluated at every step); one corrupted trace is the negative control.
"""
import copy
import random

from engine import tlc, core, tracecheck

ADAPTER = "harness.adapters_x02:Adapter"
DIR, MOD = "flowsync", "MCFlowSync"
ACTIONS = ["Install", "RemoveStrict", "RemoveWild", "SwRx", "CtlRx", "Tick", "Down", "Up", "Expire", "Join"]
STRICT_PROPS = ["TypeOK", "PendingCovered", "BarriersInFlight", "DrainedAgree", "DrainedAgreeKeys", "NoOrphan",
                "SyncAtBarrier", "SyncAtBarrierKeys", "InstalledOnlyAfterBarrier", "RemovedOnlyWhenConfirmed",
                "WritesEndWithBarrier", "NoExceptions"]
ACTUAL_PROPS = ["TypeOK", "BarriersInFlight", "InstalledOnlyAfterBarrier", "RemovedOnlyWhenConfirmed",
                "WritesEndWithBarrier"]
K = 5
OBS_KEYS = {"mir", "npend", "wr", "added", "removed", "nev", "exc", "sw", "rep"}


def dedupe(behs):
  seen, out = set(), []
  for b in behs:
    k = core.fp(b)
    if k not in seen:
      seen.add(k)
      out.append(b)
  return out


def sample(behs, n, seed):
  """deterministic sample of n behaviours, spread over the kind of the last step (the transition exported)"""
  if len(behs) <= n:
    return behs
  groups = {}
  for b in behs:
    e = b[-1]["exp"]
    kind = (b[-1]["a"], bool(e.get("exc")), len(e.get("wr", [])) > 2, e.get("nev", 0) > 0,
            max(e.get("mir", [0])) > 1, bool(e.get("rep")))
    groups.setdefault(repr(kind), []).append(b)
  rnd = random.Random(seed)
  per = max(1, n // len(groups))
  out = []
  for k in sorted(groups):
    g = groups[k]
    out.extend(g if len(g) <= per else rnd.sample(g, per))
  return out


def nontrivial(b):
  return any(s["a"] == "CtlRx" and s["exp"].get("nev", 0) > 0 for s in b)


def run(ctx):
  quick = ctx.tier == "quick"
  ctx.rule = ("FlowSync.tla model-checked (intended design Dev={} with all properties; Dev=AllDev = the code as it is, "
              "with the properties that survive); behaviours exported by TLC from the Dev=AllDev model (edge cover + "
              "balanced simulation, clear_flows_on_connect on and off) replayed on the real OFSyncFlowTable / "
              "OpenFlowSwitch / OpenFlowTopology / of_01.Connection against a real SoftwareSwitch over OpenFlow bytes, "
              "whole visible state compared after every step; traces of a seeded random driver on the real code "
              "validated by TLC; distinct = distinct action/argument sequences; non-trivial = at least one "
              "FlowTableModification raised by a barrier reply or FLOW_REMOVED")
  ctx.assumptions = [
      "5 entry objects over 2 match fields (in_port, dl_type) and 2 priorities: two objects share (match, priority), "
      "one pattern covers all, one entry is hit non-strictly but not strictly, one differs from another in priority only",
      "the channel is a pair of FIFO message queues owned by the harness; a batch of FLOW_REMOVED produced by one "
      "flow-mod is delivered to the controller in one step",
      "barrier xids are bound to canonical ids (lowest id not in flight) when first seen on the wire",
      "virtual time (poxenv.clock inside pox.openflow.topology); the reconnect Timer is fired by the harness",
      "openflow_discovery is a stand-in EventMixin (dependency of OpenFlowTopology outside this area)",
      "deviations of the code from the design are named in the spec (Dev) and listed in notes/X02.md"]

  # 1. the properties on the model
  jobs = [dict(spec_dir=DIR, module=MOD, cfg="MC_strict.cfg" if quick else "MC_strict_T.cfg", tag="X02", timeout=2400,
               workers=6),
          dict(spec_dir=DIR, module=MOD, cfg="MC_actual.cfg" if quick else "MC_actual_T.cfg", tag="X02", timeout=2400,
               workers=6),
          # reachability witnesses (vacuity guard for the antecedents of the properties): each must be VIOLATED
          dict(spec_dir=DIR, module=MOD, cfg="MC_witness.cfg", tag="X02", timeout=600, workers=2, coverage=False,
               expect_violation=True),
          dict(spec_dir=DIR, module=MOD, cfg="MC_witness2.cfg", tag="X02", timeout=600, workers=2, coverage=False,
               expect_violation=True)]
  # 2. exports (independent of the above: run concurrently)
  jobs += [dict(spec_dir=DIR, module=MOD, cfg="EX_edges_small.cfg", workers=1, coverage=False, tag="X02", timeout=1800),
           dict(spec_dir=DIR, module=MOD, cfg="EX_edges_small_nc.cfg", workers=1, coverage=False, tag="X02",
                timeout=1800)]
  nsim = 200 if quick else 1500
  depth = 40 if quick else 60
  for cfg in ("EX_sim.cfg", "EX_sim_nc.cfg") if quick else ("EX_sim60.cfg", "EX_sim60_nc.cfg"):
    jobs.append(dict(spec_dir=DIR, module=MOD, cfg=cfg, workers=1, coverage=False, tag="X02", timeout=1800,
                     simulate=dict(num=nsim), depth=depth + 1, seed=ctx.seed + 1))
  if not quick:
    jobs.append(dict(spec_dir=DIR, module=MOD, cfg="EX_edges_k3.cfg", workers=1, coverage=False, tag="X02",
                     timeout=2400))
    jobs.append(dict(spec_dir=DIR, module=MOD, cfg="MC_strict_nc_T.cfg", tag="X02", timeout=2400, workers=4))
    jobs.append(dict(spec_dir=DIR, module=MOD, cfg="MC_actual_nc_T.cfg", tag="X02", timeout=2400, workers=4))
  import time
  t0 = time.time()
  res = tlc.run_many(jobs, parallel=5 if quick else 6)
  ctx.notes["phase_wall_s"] = dict(tlc_models_and_exports=round(time.time() - t0, 1))
  t0 = time.time()
  r_strict, r_actual, r_w1, r_w2, r_e, r_enc, r_s, r_snc = res[:8]
  checked = [(r_strict, "FlowSync intended design (Dev={})", STRICT_PROPS),
             (r_actual, "FlowSync code as it is (Dev=AllDev)", ACTUAL_PROPS)]
  if not quick:
    checked += [(res[9], "FlowSync intended design (Dev={}), nexus keeps flows on connect", STRICT_PROPS),
                (res[10], "FlowSync code as it is (Dev=AllDev), nexus keeps flows on connect, K=3", ACTUAL_PROPS)]
  for r, what, props in checked:
    if r.violated:
      raise tlc.TLCError("spec violates its own property %s [%s]:\n%s" % (r.violated, what, r.error_trace[:3000]))
    # quick: the intended-design model runs without Tick (time only matters to the "Resend" deviation; Tick is
    # exercised by the Dev=AllDev model and, in the thorough tier, by both)
    tlc.require_coverage(r, [a for a in ACTIONS if not (quick and r is r_strict and a == "Tick")], what)
    ctx.add_model(what, r, properties=props)
  for r, inv in ((r_w1, "WitnessSync"), (r_w2, "WitnessDrained")):
    if r.violated != inv:
      raise tlc.TLCError("vacuity guard: TLC did not reach a state refuting %s (got %r)" % (inv, r.violated))
  ctx.notes["vacuity_witnesses"] = ["tracked barrier reply with a non-empty switch table is reachable",
                                    "drained, non-empty, after a reconnect is reachable"]

  # 2. spec -> code
  total = 0
  cands = []          # (behaviour that replayed to its end, adapter parameters) - for the negative control
  for r, name, clears, cap in ((r_e, "edges", True, 4000 if quick else 10 ** 9),
                               (r_enc, "edges_nc", False, 2000 if quick else 20000)):
    behs = r.tagged("T")
    if not behs:
      raise tlc.TLCError("no behaviours exported (%s)" % name)
    sel = sample(behs, cap, ctx.seed)
    st = core.replay(ctx, ADAPTER, sel, params=dict(K=2, clears=clears, variant=ctx.seed), nontrivial=nontrivial,
                     chunk=100)
    if core.replay.last_ok:
      cands.append((max((sel[i] for i in core.replay.last_ok), key=len), dict(K=2, clears=clears, variant=ctx.seed)))
    ctx.notes["replay_" + name] = dict(exported=len(behs), replayed=len(sel), **st)
    total += len(sel)
  if not quick:
    behs = res[8].tagged("T")
    sel = sample(behs, 24000, ctx.seed)
    st = core.replay(ctx, ADAPTER, sel, params=dict(K=3, clears=True, variant=ctx.seed), nontrivial=nontrivial,
                     chunk=400)
    ctx.notes["replay_edges_k3"] = dict(exported=len(behs), replayed=len(sel), **st)
  for r, name, clears in ((r_s, "sim", True), (r_snc, "sim_nc", False)):
    behs = dedupe(r.tagged("H"))
    if len(behs) < nsim // 2:
      raise tlc.TLCError("simulation exported %d behaviours (%s)" % (len(behs), name))
    st = core.replay(ctx, ADAPTER, behs, params=dict(K=K, clears=clears, variant=ctx.seed), nontrivial=nontrivial,
                     chunk=25)
    if core.replay.last_ok:
      cands.append((max((behs[i] for i in core.replay.last_ok), key=len), dict(K=K, clears=clears, variant=ctx.seed)))
    ctx.notes["replay_" + name] = dict(behaviours=len(behs), depth=depth, **st)
  # negative control of the replay: one expectation of a behaviour that replays is corrupted
  if cands:
    ok_beh, ok_params = cands[-1]
    ok_beh = copy.deepcopy(ok_beh)
    for stp in ok_beh:
      if stp["a"] == "CtlRx" and stp["exp"]["nev"] > 0:
        stp["exp"]["mir"][0] += 1
        break
    else:
      ok_beh[-1]["exp"]["npend"] += 1
    scratch = core.Context("X02", ctx.tier, ctx.seed, ctx.level, clear=False)
    core.replay(scratch, ADAPTER, [ok_beh], params=ok_params, procs=1)
    if not scratch.violations:
      raise core.Machinery("negative control: a corrupted expectation was not noticed by the replay")
  elif not ctx.violations:
    raise core.Machinery("no exported behaviour replayed to its end")
  # (if nothing replayed to its end AND mismatches were reported, the replay evidently notices differences)

  ctx.notes["phase_wall_s"]["replay"] = round(time.time() - t0, 1)
  t0 = time.time()
  # 3. code -> spec
  ntr = 120 if quick else 1200
  length = 60 if quick else 90
  for clears, cfg in ((True, "Trace.cfg"), (False, "Trace_nc.cfg")):
    traces = core.run_driver("props.X02:drive", [(ctx.seed * 100003 + i, length, clears) for i in range(ntr)])
    bad = copy.deepcopy(traces[0])                   # negative control: corrupt one observation
    for e in bad:
      if e["a"] == "CtlRx":
        e["obs"]["npend"] += 1
        break
    else:
      bad[0]["obs"]["npend"] += 1
    r, rej = tracecheck.validate(DIR, "TraceFlowSync", cfg, traces + [bad], tag="X02")
    ctx.add_model("TraceFlowSync %s (validation of %d implementation traces)" % (cfg, ntr), r)
    if len(traces) not in [t for t, _ in rej]:
      raise tlc.TLCError("negative control (corrupted num_pending) was accepted by the trace spec")
    for t, matched in rej:
      if t == len(traces):
        continue
      ev = traces[t][matched]
      ctx.report(dict(action=ev["a"], via="trace", wf=ev["wf"],
                      o=ev["args"].get("o", 0)),
                 dict(trace=traces[t], failing_step=matched, clears=clears,
                      note="TLC rejected the trace at this event"))
    ctx.traces += len(traces)
    for t in traces:
      ctx.case(core.fp([[e["a"], e["args"]] for e in t]), nontrivial=any(e["a"] == "CtlRx" and e["obs"]["nev"] > 0
                                                                          for e in t))
    ctx.notes["trace_validation_" + ("clears" if clears else "keeps")] = dict(
        traces=len(traces), events=sum(len(t) for t in traces), rejected=len(rej) - 1,
        negative_control_rejected=True)
  ctx.notes["phase_wall_s"]["trace_validation"] = round(time.time() - t0, 1)
  ctx.exhaustive = True


# --------------------------------------------------------------------------
# code -> spec driver

def _ints(x, n=None):
  return isinstance(x, list) and (n is None or len(x) == n) and all(isinstance(v, int) and not isinstance(v, bool)
                                                                    and v >= 0 for v in x)


def well_formed(obs):
  if not isinstance(obs, dict) or set(obs) != OBS_KEYS:
    return False
  if not (_ints(obs["mir"], K) and _ints(obs["added"], K) and _ints(obs["removed"], K) and _ints(obs["sw"], K)):
    return False
  if not (isinstance(obs["npend"], int) and obs["npend"] >= 0 and isinstance(obs["nev"], int)):
    return False
  if not (isinstance(obs["exc"], list) and all(isinstance(s, str) for s in obs["exc"])):
    return False
  for m in obs["wr"]:
    if set(m) != {"t", "c", "o", "b"} or not isinstance(m["t"], str) or not isinstance(m["c"], str) \
        or not _ints([m["o"], m["b"]]):
      return False
  for m in obs["rep"]:
    if set(m) != {"t", "b", "fl"} or not isinstance(m["t"], str) or not _ints([m["b"]]) or not _ints(m["fl"], K):
      return False
  return True


DUMMY = dict(mir=[0] * K, npend=0, wr=[], added=[0] * K, removed=[0] * K, nev=0, exc=[], sw=[0] * K, rep=[])


def drive(arg):
  """Random operation sequence on the real code; returns the recorded trace."""
  seed, n, clears = arg
  from harness.adapters_x02 import Adapter
  rnd = random.Random(seed)
  ad = Adapter(K=K, clears=clears, variant=seed)
  conn = "up"
  tr = []
  for _ in range(n):
    opts = []
    if conn in ("up", "down"):
      busy = len(ad.env.c2s) + len(ad.batches)
      opts += [("op", 1.0 if busy >= 6 else 4.0)]
    if conn == "up":
      if ad.env.c2s:
        opts.append(("SwRx", 5.0))
      if ad.batches:
        opts.append(("CtlRx", 4.0))
      opts.append(("Down", 0.4))
    if conn == "down":
      opts += [("Up", 3.0), ("Expire", 0.25)]
    if conn == "gone":
      opts.append(("Join", 1.0))
    if conn == "orphan":
      break
    opts.append(("Tick", 1.0))
    x = rnd.random() * sum(w for _, w in opts)
    for a, w in opts:
      x -= w
      if x < 0:
        break
    if a == "op":
      a = rnd.choice(["Install", "Install", "RemoveStrict", "RemoveWild"])
      args = dict(o=rnd.randint(1, K))
    elif a == "Tick":
      args = dict(d=rnd.choice([1, 1, 3]))
    else:
      args = dict(x=0)
    try:
      obs = ad.step(a, args)
      wf = well_formed(obs)
    except Exception as e:       # noqa
      obs, wf = {"exc": type(e).__name__}, False
    if not wf:
      obs = copy.deepcopy(DUMMY)
    tr.append(dict(a=a, args=args, obs=obs, wf=wf))
    if not wf:
      break
    if a == "Down":
      conn = "down"
    elif a == "Up":
      conn = "up"
    elif a == "Expire":
      conn = "gone"
    elif a == "Join":
      conn = "up" if not obs["exc"] else "orphan"
  return tr
