"""C19 - discovered topology is the physical one; flooding is pruned to a tree.

specs/topo/Topo.tla is model-checked (dynamic nets with every response the
property permits; static part: every sub-multigraph x every permitted forest
=> a flooded frame reaches every switch exactly once).  The real discovery +
spanning_tree components run on a network simulator (real switches, real
OpenFlow bytes, virtual clock) through environment histories that are
enumerated (all multigraphs), exported from TLC (simulation of the spec under
a reference controller) or drawn at random; TLC validates every recorded
history against Topo.tla (TraceTopo.tla) and names the violated clause.
specs/topo/Probe.tla enumerates datapath ids / port numbers for the probe
encoding; its behaviours are replayed on the real LLDP sender and receiver.

Round 6: the CONFIGURATION of the two components (Topo.tla `cfg`: discovery's
--link_timeout, from which the probe cycle / detection / expiry times derive,
--no_flow / --explicit_drop / --eat_early_packets, spanning_tree's --no-flood
/ --hold-down) is a dimension of the spec; TLC draws it in Init, the histories
carry it in their header, the components are launched with it through their
public launchers, and the same clauses judge every configuration.

Round 8: probes in flight (Topo.tla `flight`, actions Delay / Late): a probe
that travelled over a wire reaches the controller later - after the wire was
cut, after its sender or receiver disconnected or reconnected.  The simulator
re-injects the last LLDP frame the wire carried into the receiving switch; TLC
judges the response (no link of a disconnected switch comes back, only the
probe's own wire may re-appear, nothing live is dropped).
"""
import collections
import concurrent.futures
import copy
import multiprocessing
import re

from engine import tlc, core, tracecheck
from harness import c19_gen as gen

SPEC = "topo"
# TLC names a disjunct of Next after the innermost named operator it unfolds to
DYN_ACTIONS = [("UpAny", "UpNext"), ("DownAny", "DownNext"), ("AdvanceAny", "AdvanceNext"),
               ("CutNext",), ("RestoreNext",), ("FloodNext",)]
# (round 8) models with MaxFlight > 0: a probe is delayed / a delayed probe reaches the controller
FLIGHT_ACTIONS = DYN_ACTIONS + [("DelayNext",), ("LateNext", "LateOne")]
CFG_ACTIONS = [(c + a,) for c in ("Plain", "Hold", "Nofl", "Both")
               for a in ("Up", "Down", "Advance", "Cut", "Restore", "Flood", "Held", "Late")]
# quick: a probe in flight under two of the four classes only (MCTopo.tla NextCfgsQ)
CFG_ACTIONS_Q = [x for x in CFG_ACTIONS if x[0] not in ("HoldHeld", "HoldLate", "NoflHeld", "NoflLate")]
DRIVER = "harness.adapters_c19:run_scenario"
PROBE_ADAPTER = "harness.adapters_c19:ProbeAdapter"

_bad = re.compile(r'^<<"BAD", (\d+), (\d+), "([^"]+)">>')


# --------------------------------------------------------------------------
def model_check_start(ctx, quick):
  """start the TLC runs of Topo.tla in background threads (they are separate
  JVMs); model_check_finish() collects them.  The conformance phases run
  meanwhile."""
  jobs = [("Topo dynamic: 2 switches, cable + one-way wire", "MC_one.cfg", DYN_ACTIONS),
          ("Topo static: all sub-multigraphs x all permitted forests (parallel / triangle / self-loop nets)",
           "MC_static_small.cfg", [("FloodNext",)]),
          # configurations: Next is split per class of configuration (MCTopo.tla NextCfgs), so that the
          # vacuity guard holds per class: every action taken under each of them
          ("Topo dynamic under 4 configurations (2 switches, one cable): link timeout 3 (odd, short) with "
           "--no_flow / no explicit drop / eat early packets; timeout 4 with --hold-down, --no-flood, both",
           "MC_min_cfgs.cfg", CFG_ACTIONS_Q)]
  if not quick:
    jobs += [("Topo dynamic under the 4 configurations, one delayed probe in flight under each", "MC_min_cfgs_flight.cfg",
              CFG_ACTIONS)]
    jobs += [("Topo dynamic with one delayed probe in flight (cable + one-way wire)", "MC_one_flight.cfg", FLIGHT_ACTIONS)]
    jobs += [("Topo dynamic, link timeout 3, discovery flags flipped (cable + one-way wire)", "MC_one_short.cfg",
              FLIGHT_ACTIONS),
             ("Topo dynamic, link timeout 30 (cable + one-way wire)", "MC_one_long.cfg", DYN_ACTIONS),
             ("Topo dynamic, --hold-down, durations Detect / Expire (young switches' bits free for 1 s)",
              "MC_min_hold.cfg", DYN_ACTIONS),
             ("Topo dynamic, --no-flood, durations Detect / Expire", "MC_min_nofl.cfg", DYN_ACTIONS),
             ("Topo dynamic, --no-flood --hold-down, durations Detect / Expire", "MC_min_both.cfg", DYN_ACTIONS)]
    # (MC_chain.cfg / MC_tri16.cfg: larger dynamic nets, 5-10 min each, run by hand; see notes/C19.md)
    jobs += [("Topo dynamic: 2 switches, 2 parallel cables", "MC_par.cfg", DYN_ACTIONS),
             ("Topo dynamic: self-loop cable + neighbour", "MC_loop.cfg", DYN_ACTIONS),
             ("Topo static: 3 switches, 2 cables per pair (4096 wirings)", "MC_static_k3x2.cfg", [("FloodNext",)]),
             ("Topo static: 4 switches, 1 cable per pair (4096 wirings)", "MC_static_k4.cfg", [("FloodNext",)])]

  # A child process runs the JVMs (one thread each) so that this process stays
  # single-threaded while the engine forks its replay / driver workers.
  mp = multiprocessing.get_context("fork")
  rx, tx = mp.Pipe(duplex=False)
  p = mp.Process(target=_mc_child, args=(jobs, quick, tx))
  p.start()
  tx.close()
  return p, rx, jobs


def _mc_workers(cfg, quick):
  # the small models gain nothing from many workers; several JVMs run side by side
  if cfg == "MC_min_cfgs.cfg" and quick:
    return 8                      # (the largest model of the quick tier since round 8)
  return 2 if quick and "static" in cfg else 4


def _mc_child(jobs, quick, tx):
  def one(job):
    name, cfg, acts = job
    try:
      return ("ok", tlc.run(SPEC, "MCTopo", cfg, tag="C19", workers=_mc_workers(cfg, quick), timeout=1500))
    except Exception as e:
      return ("err", "%s: %s" % (cfg, e))
  with concurrent.futures.ThreadPoolExecutor(max_workers=len(jobs)) as ex:
    res = list(ex.map(one, jobs))
  for k, r in res:
    if k == "ok":
      r.stdout = r.stdout[-4000:]
  tx.send(res)
  tx.close()


def model_check_finish(ctx, started):
  p, rx, jobs = started
  try:
    res = rx.recv()
  except EOFError:
    raise tlc.TLCError("model checking child died")
  finally:
    p.join(30)
  for (name, cfg, acts), (k, r) in zip(jobs, res):
    if k != "ok":
      raise tlc.TLCError(r)
    if r.violated:
      raise tlc.TLCError("spec violates its own property %s (%s):\n%s" % (r.violated, cfg, r.error_trace))
    for alts in acts:
      if sum(r.coverage.get(a, (0, 0))[1] for a in alts) == 0:
        raise tlc.TLCError("vacuous model run %s: action never taken: %s (coverage: %s)"
                           % (cfg, alts[0], sorted(r.coverage)))
    ctx.add_model(name, r)


# --------------------------------------------------------------------------
def tlc_scenarios(ctx, num, seed, cfg="EX_sim.cfg", limit=None):
  """Environment histories simulated by TLC from Topo.tla under the reference
  controller.  Returns (scenarios for the real code, the same behaviours as
  traces whose observations are the SPEC's own responses)."""
  from harness.adapters_c19 import rec, header
  r = tlc.run(SPEC, "MCTopo", cfg, workers=1, coverage=False, simulate=dict(num=num),
              depth=25, seed=seed, tag="C19")
  out, spec_traces = [], []
  for i, b in enumerate(r.tagged("H")[:limit]):
    # wires up at the start = final phys with the Cut/Restore steps undone
    ph = set(map(tuple, b["phys"]))
    for st in reversed(b["h"]):
      if st["a"] == "Cut":
        ph.add(tuple(st["args"]["l"]))
      elif st["a"] == "Restore":
        ph.discard(tuple(st["args"]["l"]))
    b["phys0"] = [list(x) for x in ph]
    sc = gen.from_tlc(b, b["net"], seed * 1000 + i)
    if cfg != "EX_sim.cfg":
      sc["kind"] = "tlcflight"
    out.append(sc)
    tr = [header(sc)]
    for st, h in zip(sc["steps"], b["h"]):
      e = h["exp"]
      if st["a"] == "Flood":
        prev = tr[-1]
        tr.append(rec(a="Flood", s=st["s"], p=st["p"], rx=list(e["rx"]), storm=e["storm"],
                      adj=prev["adj"], nf=prev["nf"]))
      else:
        tr.append(rec(a=st["a"], s=st.get("s", 0), d=st.get("d", 0), lk=list(st.get("lk", [0, 0, 0, 0])),
                      adj=sorted(e["adj"]), evs=[list(x) for x in e["evs"]], nf=sorted(e["nf"])))
    spec_traces.append(tr)
  if len(out) < min(num, limit or num) // 2:
    raise tlc.TLCError("scenario export produced %d behaviours" % len(out))
  return out, spec_traces


def strip(tr):
  return [{k: v for k, v in e.items() if k not in ("exc", "opts")} for e in tr]


def validate(ctx, traces, shards, cfg="Trace.cfg"):
  """TLC validates the traces (sharded over several JVMs).  Returns
  {trace index: [(event index, violated clause), ...]}, rejected-without-reason list, totals."""
  if not traces:
    return {}, [], tlc.TLCResult()
  idx = list(range(len(traces)))
  # balance shards by size
  order = sorted(idx, key=lambda i: -len(traces[i]))
  nev = sum(len(t) for t in traces)
  parts = [[] for _ in range(max(1, min(shards, len(traces), 1 + nev // 2500)))]
  for k, i in enumerate(order):
    parts[k % len(parts)].append(i)

  def one(part):
    # several single-worker JVMs run side by side: keep their GC thread pools small
    r, rej = tracecheck.validate(SPEC, "TraceTopo", cfg, [strip(traces[i]) for i in part],
                                 tag="C19", timeout=(300 if ctx.tier == "quick" else 1500),
                                 extra_env={"JAVA_TOOL_OPTIONS": "-XX:ParallelGCThreads=2"})
    return part, r, rej
  bad, silent = {}, []
  tot = tlc.TLCResult()
  with concurrent.futures.ThreadPoolExecutor(max_workers=len(parts)) as ex:
    for part, r, rej in ex.map(one, parts):
      tot.distinct += r.distinct
      tot.generated += r.generated
      tot.depth = max(tot.depth, r.depth)
      tot.wall = max(tot.wall, r.wall)
      for ln in r.prints:
        m = _bad.match(ln)
        if m:
          bad.setdefault(part[int(m.group(1)) - 1], []).append((int(m.group(2)) - 1, m.group(3)))
      for t, matched in rej:
        # validation goes on after a violated step; it only stops (REJECT) at an
        # observation it cannot interpret, which has been named as well
        if not any(k == matched for k, _ in bad.get(part[t], [])):
          silent.append((part[t], matched))
  for t in bad:
    bad[t].sort()
  return bad, silent, tot


def classify(sc, tr, k, why):
  """signature of a violated step: clause + what the environment did"""
  ev = tr[k]
  sig = dict(clause=why, action=ev["a"], via="trace")
  # the configuration the components were launched with (Topo.tla cfg)
  c = tr[0]
  sig["link_timeout"] = "default" if c["to"] == 10 else ("short" if c["to"] < 10 else "long")
  sig["no_flood"], sig["hold_down"] = c["nofl"], c["hold"]
  sig["discovery_flags_default"] = bool(c["flow"] and c["drop"] and not c["eat"])
  hist = [e["a"] for e in tr[1:k + 1]]
  sig["after_switch_down"] = "SwitchDown" in hist
  sig["after_wire_cut"] = "Cut" in hist
  sig["removal_in_step"] = any(e[0] == 0 for e in ev["evs"])
  sig["selfloop_in_adj"] = any(l[0] == l[2] for l in ev["adj"])
  both = set(map(tuple, ev["adj"]))
  sig["oneway_in_adj"] = any((l[2], l[3], l[0], l[1]) not in both for l in both)
  # (round 8) probes in flight
  sig["after_delayed_probe"] = "Late" in hist
  if ev["a"] == "Late":
    ph, cn = _env(tr, k)
    lk = ev["lk"]
    sig["late_probe"] = dict(sender_connected=lk[0] in cn, wire_up=tuple(lk) in ph,
                             link_in_adj_after=lk in ev["adj"], link_known_before=lk in tr[k - 1]["adj"])
  if ev["a"] == "SwitchUp":
    sig["reconnect"] = hist[:-1].count("SwitchUp") > 0 and \
        any(e["a"] == "SwitchDown" and e["s"] == ev["s"] for e in tr[1:k])
  return sig


def run_and_validate(ctx, label, scs, shards, procs=16):
  traces = core.run_driver(DRIVER, scs, procs=procs)
  # thorough: the spec's invariants are evaluated again on every matched state (Trace_inv.cfg)
  bad, silent, tot = validate(ctx, traces, shards, "Trace.cfg" if ctx.tier == "quick" else "Trace_inv.cfg")
  if silent:
    t, m = silent[0]
    raise tlc.TLCError("%s: trace %d rejected at event %d without a violated clause (harness/spec "
                       "disagree about the environment): %s" % (label, t, m, traces[t][m] if m < len(traces[t]) else None))
  ctx.add_model("TraceTopo: validation of %d %s histories" % (len(traces), label), tot)
  per = collections.defaultdict(lambda: dict(histories=0, events=0, rejected=0, clauses=collections.Counter()))
  for i, tr in enumerate(traces):
    p = per[scs[i].get("kind", label)]
    p["histories"] += 1
    p["events"] += len(tr) - 1
    ctx.traces += 1
    ctx.case(core.fp([scs[i]["n"], scs[i]["np"], scs[i]["phys"], scs[i]["steps"]]),
             nontrivial=any(e["adj"] for e in tr),
             sample=dict(net=[scs[i]["n"], scs[i]["np"]], phys=scs[i]["phys"],
                         trace=[[e["a"], e["s"], e["d"], e["adj"], e["nf"]] for e in tr[1:7]]))
  found = []
  for t, lst in sorted(bad.items()):
    p = per[scs[t].get("kind", label)]
    p["rejected"] += 1
    seen = set()
    for k, why in lst:
      if why in seen:
        continue                      # one report per violated clause and history (its first step)
      seen.add(why)
      p["clauses"][why] += 1
      if why == "malformed-observation" and "exc" not in traces[t][k]:
        raise core.Machinery("malformed observation without exception: %r" % traces[t][k])
      sig = classify(scs[t], traces[t], k, why)
      found.append((sig, dict(kind="trace", scenario=scs[t], trace=traces[t][:k + 1], failing_step=k, clause=why,
                              earlier_violations=[[j, w] for j, w in lst if j < k],
                              note="TLC: the step is not permitted by Topo.tla (clause named)")))
  # the engine keeps replay data for the first 50 reports only: one report per distinct
  # signature first, so that every kind of failure gets its replay file
  first, rest, sigs = [], [], set()
  for sig, rep in found:
    c = core.canon(sig)
    (rest if c in sigs else first).append((sig, rep))
    sigs.add(c)
  for sig, rep in first[:45] + rest + first[45:]:
    ctx.report(sig, rep)
  for k, p in per.items():
    p["clauses"] = dict(p["clauses"])
    ctx.notes["validation_" + k] = p
  # vacuity guard on the implementation side: every action of the spec was exercised
  acts = collections.Counter(e["a"] for tr in traces for e in tr[1:])
  ctx.notes["implementation_steps_" + label] = dict(acts)
  if label == "implementation":
    for a in ("SwitchUp", "SwitchDown", "Advance", "Cut", "Restore", "Flood"):
      if acts[a] == 0:
        raise core.Machinery("no %s step was run on the implementation" % a)
    if not any(e["a"] == "Flood" and sum(e["rx"]) > 0 for tr in traces for e in tr[1:]):
      raise core.Machinery("no flood probe crossed a link")
    # (round 8) delayed probes reached the controller in every kind of environment
    late = collections.Counter()
    for tr in traces:
      for k in range(1, len(tr)):
        if tr[k]["a"] == "Delay":
          late["Delay"] += 1
        if tr[k]["a"] != "Late":
          continue
        ph, cn = _env(tr, k)
        lk = tr[k]["lk"]
        late["Late"] += 1
        late["sender %sconnected, wire %s" % ("" if lk[0] in cn else "dis", "up" if tuple(lk) in ph else "cut")] += 1
        if any(e["a"] == "SwitchUp" and e["s"] == lk[0] for e in tr[k - 2:k]):
          late["sender reconnected just before"] += 1
        if lk in tr[k]["adj"] and lk not in tr[k - 1]["adj"]:
          late["link (re)appeared"] += 1
        if tr[0]["nofl"] or tr[0]["hold"]:
          late["under a spanning_tree option"] += 1
        if tr[0]["to"] != 10:
          late["non-default link timeout"] += 1
    ctx.notes["implementation_late_probe_steps"] = dict(late)
    for nm in ("Delay", "Late", "sender connected, wire up", "sender connected, wire cut", "sender disconnected, wire up",
               "sender disconnected, wire cut", "sender reconnected just before", "link (re)appeared",
               "under a spanning_tree option", "non-default link timeout"):
      if late[nm] == 0:
        raise core.Machinery("no delayed-probe step of kind '%s' was run on the implementation" % nm)
    # ... under every class of configuration
    cls = collections.defaultdict(collections.Counter)
    for tr in traces:
      h = tr[0]
      names = ["timeout<10" if h["to"] < 10 else ("timeout>10" if h["to"] > 10 else "timeout=10"),
               "st:%s%s" % ("no-flood" if h["nofl"] else "", "+hold-down" if h["hold"] else "")]
      if not (h["flow"] and h["drop"] and not h["eat"]):
        names.append("discovery flags")
      for e in tr[1:]:
        for nm in names:
          cls[nm][e["a"]] += 1
          if e["a"] == "Flood" and sum(e["rx"]) > 0:
            cls[nm]["Flood crossing a link"] += 1
          if e["a"] == "Advance" and e["adj"]:
            cls[nm]["Advance with known links"] += 1
    ctx.notes["implementation_steps_by_configuration"] = {k: dict(v) for k, v in cls.items()}
    for nm in ("timeout<10", "timeout>10", "timeout=10", "st:", "st:no-flood", "st:+hold-down", "st:no-flood+hold-down",
               "discovery flags"):
      for a in ("SwitchUp", "SwitchDown", "Advance", "Cut", "Restore", "Flood crossing a link",
                "Advance with known links"):
        if cls[nm][a] == 0:
          raise core.Machinery("no %s step was run on the implementation under configuration class %s" % (a, nm))
  return traces, bad


# Controls of the trace validator, independent of the code under test: the
# behaviours TLC simulated from Topo.tla (observations = the spec's own
# responses) must all be accepted, and each corruption below must be rejected
# with exactly the clause it violates.
def _env(tr, k):
  """environment after event k of a trace: (wires up, connected switches)"""
  ph = set(map(tuple, tr[0]["phys"]))
  cn = set()
  for e in tr[1:k + 1]:
    if e["a"] == "Cut":
      ph.discard(tuple(e["lk"]))
    elif e["a"] == "Restore":
      ph.add(tuple(e["lk"]))
    elif e["a"] == "SwitchUp":
      cn.add(e["s"])
    elif e["a"] == "SwitchDown":
      cn.discard(e["s"])
  return ph, cn


def validator_controls(ctx, spec_traces):
  ctl = []

  def modal(tr):
    return tr[0]["nofl"] or tr[0]["hold"]

  def find(pred, which=lambda tr: not modal(tr)):
    # (the corruptions of the forest clauses are built in behaviours without a spanning_tree option: with one,
    # a young switch may legitimately look like the corruption)
    for i, tr in enumerate(spec_traces):
      if not which(tr):
        continue
      for k in range(1, len(tr)):
        if pred(tr, k):
          return i, k
    return None

  def since(tr, k):
    """switch -> seconds since its last connect, after event k"""
    t, up = 0, {}
    for e in tr[1:k + 1]:
      if e["a"] == "Advance":
        t += e["d"]
      elif e["a"] == "SwitchUp":
        up[e["s"]] = t
      elif e["a"] == "SwitchDown":
        up.pop(e["s"], None)
    return {s_: t - t0 for s_, t0 in up.items()}

  def mature(tr, k):
    """after Advance step k every connected switch has been connected for longer than Hold + Slack"""
    if tr[k]["a"] != "Advance":
      return False
    sn = since(tr, k)
    return bool(sn) and all(v >= (tr[0]["to"] + 1) // 2 + 3 for v in sn.values())
  # 1 NO_FLOOD on a host-facing port of a connected switch
  x = find(lambda tr, k: tr[k]["a"] == "Advance" and _env(tr, k)[1])
  if x:
    tr = copy.deepcopy(spec_traces[x[0]])
    s = sorted(_env(tr, x[1])[1])[0]
    tr[x[1]]["nf"] = sorted(tr[x[1]]["nf"] + [[s, tr[0]["np"]]])
    ctl.append(("flood-host-port-blocked", tr[:x[1] + 1]))

  # 2 a known live link vanishes from the adjacency (announced properly) in an undisturbed network
  def live_kept(tr, k):
    if not (tr[k]["a"] == "Advance" and tr[k - 1]["a"] == "Advance" and tr[k]["d"] >= 6 and tr[k - 1]["d"] >= 6):
      return False
    ph, cn = _env(tr, k)
    return any(tuple(l) in ph and l[0] in cn and l[2] in cn and l in tr[k - 1]["adj"] for l in tr[k]["adj"])
  x = find(live_kept)
  if x:
    tr = copy.deepcopy(spec_traces[x[0]])
    ph, cn = _env(tr, x[1])
    l = [l for l in tr[x[1]]["adj"] if tuple(l) in ph and l[0] in cn and l[2] in cn and l in tr[x[1] - 1]["adj"]][0]
    tr[x[1]]["adj"].remove(l)
    tr[x[1]]["evs"] = tr[x[1]]["evs"] + [[0] + l]
    # removing it may also change what the forest has to look like: judge the adjacency clause only
    ctl.append(("adj-live-link-dropped", tr[:x[1] + 1]))
  # 3 the same link announced twice in a row
  x = find(lambda tr, k: any(e[0] == 1 for e in tr[k]["evs"]))
  if x:
    tr = copy.deepcopy(spec_traces[x[0]])
    e = [e for e in tr[x[1]]["evs"] if e[0] == 1][0]
    tr[x[1]]["evs"].append(list(e))
    ctl.append(("events-not-alternating", tr[:x[1] + 1]))

  # 4 both ends of a blocked redundant link flood again: a cycle
  def redundant(tr, k):
    if tr[k]["a"] == "Flood":
      return None
    adjset = set(map(tuple, tr[k]["adj"]))
    for l in tr[k]["adj"]:
      if l[0] != l[2] and (l[2], l[3], l[0], l[1]) in adjset and [l[0], l[1]] in tr[k]["nf"] and [l[2], l[3]] in tr[k]["nf"]:
        return l
    return None
  x = find(lambda tr, k: redundant(tr, k) is not None and (not modal(tr) or mature(tr, k)), lambda tr: True)
  if x:
    tr = copy.deepcopy(spec_traces[x[0]])
    l = redundant(tr, x[1])
    tr[x[1]]["nf"] = [p for p in tr[x[1]]["nf"] if p not in ([l[0], l[1]], [l[2], l[3]])]
    ctl.append(("flood-cycle", tr[:x[1] + 1]))
  # 5 a flooded frame is delivered twice
  x = find(lambda tr, k: tr[k]["a"] == "Flood" and sum(tr[k]["rx"]) > 0, lambda tr: True)
  if x:
    tr = copy.deepcopy(spec_traces[x[0]])
    j = [i for i, c in enumerate(tr[x[1]]["rx"]) if c][0]
    tr[x[1]]["rx"][j] += 1
    ctl.append(("flood-delivery-mismatch", tr[:x[1] + 1]))
  # 6 a link nobody ever wired
  x = find(lambda tr, k: tr[k]["a"] == "Advance" and len(_env(tr, k)[1]) >= 2)
  if x:
    tr = copy.deepcopy(spec_traces[x[0]])
    cn = sorted(_env(tr, x[1])[1])
    l = [cn[0], tr[0]["np"], cn[1], tr[0]["np"]]
    tr[x[1]]["adj"] = sorted(tr[x[1]]["adj"] + [l])
    tr[x[1]]["evs"] = tr[x[1]]["evs"] + [[1] + l]
    ctl.append(("adj-phantom-link", tr[:x[1] + 1]))
  n_old = len(ctl)
  # 7 a known, live, long undisturbed link is withdrawn and announced again inside one step
  #   (the adjacency reached is the same: only the announcements show it) - any link timeout
  def steady(tr, k):
    """a link that is known and live when Advance step k begins, its liveness and the set of connected
    switches unchanged for a full probe cycle + slack by then (Topo.tla: age, quiet >= Detect)"""
    if tr[k]["a"] != "Advance" or k < 2:
      return None
    det = (tr[0]["to"] + 1) // 2 + 1
    t, member = 0, -99
    changed = {}
    live0 = set()
    for j in range(1, k):
      e = tr[j]
      if e["a"] == "Advance":
        t += e["d"]
      elif e["a"] in ("SwitchUp", "SwitchDown"):
        member = t
      ph, cn = _env(tr, j)
      live = set(l for l in ph if l[0] in cn and l[2] in cn)
      for l in live ^ live0:
        changed[l] = t
      live0 = live
    if t - member < det:
      return None
    for l in tr[k - 1]["adj"]:
      if tuple(l) in live0 and t - changed.get(tuple(l), -99) >= det and l in tr[k]["adj"]:
        return l
    return None
  for name, which in (("default", lambda tr: tr[0]["to"] == 10 and not modal(tr)),
                      ("short", lambda tr: tr[0]["to"] < 10 and not modal(tr))):
    x = find(lambda tr, k: steady(tr, k) is not None, which)
    if x:
      tr = copy.deepcopy(spec_traces[x[0]])
      l = steady(tr, x[1])
      tr[x[1]]["evs"] = [[0] + l, [1] + l] + tr[x[1]]["evs"]
      ctl.append(("adj-live-link-dropped", tr[:x[1] + 1]))
  n_churn = len(ctl) - n_old
  # 8 --no-flood --hold-down: a port of a switch that has just connected floods
  x = find(lambda tr, k: tr[k]["a"] == "SwitchUp", lambda tr: tr[0]["nofl"] and tr[0]["hold"])
  if x:
    tr = copy.deepcopy(spec_traces[x[0]])
    tr[x[1]]["nf"] = [p for p in tr[x[1]]["nf"] if p != [tr[x[1]]["s"], tr[0]["np"]]]
    ctl.append(("flood-enabled-during-hold-down", tr[:x[1] + 1]))
  # 9 --hold-down alone: a port of a switch that has just connected is touched
  x = find(lambda tr, k: tr[k]["a"] == "SwitchUp", lambda tr: tr[0]["hold"] and not tr[0]["nofl"])
  if x:
    tr = copy.deepcopy(spec_traces[x[0]])
    p = [tr[x[1]]["s"], tr[0]["np"]]
    tr[x[1]]["nf"] = sorted(tr[x[1]]["nf"] + [p]) if p not in tr[x[1]]["nf"] else [q for q in tr[x[1]]["nf"] if q != p]
    ctl.append(("flood-changed-during-hold-down", tr[:x[1] + 1]))

  # 10 a spanning_tree option is set and the hold time is over: a host-facing port is still blocked
  for which in (lambda tr: tr[0]["nofl"] and not tr[0]["hold"], lambda tr: tr[0]["hold"]):
    x = find(mature, which)
    if x:
      tr = copy.deepcopy(spec_traces[x[0]])
      s_ = sorted(_env(tr, x[1])[1])[0]
      if [s_, tr[0]["np"]] not in tr[x[1]]["nf"]:
        tr[x[1]]["nf"] = sorted(tr[x[1]]["nf"] + [[s_, tr[0]["np"]]])
        ctl.append(("flood-host-port-blocked", tr[:x[1] + 1]))
  n_modal = len(ctl) - n_old - n_churn
  # 11 (round 8) a delayed probe of a switch that has disconnected meanwhile brings its link back
  def late_of_gone(tr, k):
    return tr[k]["a"] == "Late" and tr[k]["lk"][0] not in _env(tr, k)[1] and tr[k]["lk"] not in tr[k]["adj"]
  x = find(late_of_gone, lambda tr: True)
  if x:
    tr = copy.deepcopy(spec_traces[x[0]])
    l = list(tr[x[1]]["lk"])
    tr[x[1]]["adj"] = sorted(tr[x[1]]["adj"] + [l])
    tr[x[1]]["evs"] = tr[x[1]]["evs"] + [[1] + l]
    ctl.append(("adj-link-of-disconnected-switch", tr[:x[1] + 1]))
  # 12 a delayed probe makes ANOTHER wire appear (its reverse direction, which is down)
  def late_oneway(tr, k):
    if tr[k]["a"] != "Late":
      return False
    l = tr[k]["lk"]
    f = [l[2], l[3], l[0], l[1]]
    ph, cn = _env(tr, k)
    return f in tr[0]["wires"] and tuple(f) not in ph and f not in tr[k]["adj"] and l[0] in cn and l[2] in cn
  x = find(late_oneway, lambda tr: True)
  if x:
    tr = copy.deepcopy(spec_traces[x[0]])
    l = tr[x[1]]["lk"]
    f = [l[2], l[3], l[0], l[1]]
    tr[x[1]]["adj"] = sorted(tr[x[1]]["adj"] + [f])
    tr[x[1]]["evs"] = tr[x[1]]["evs"] + [[1] + f]
    ctl.append(("adj-dead-link-added", tr[:x[1] + 1]))
  # 13 a delayed probe makes a known live link vanish
  def late_drop(tr, k):
    if tr[k]["a"] != "Late":
      return None
    ph, cn = _env(tr, k)
    for l in tr[k]["adj"]:
      if l in tr[k - 1]["adj"] and tuple(l) in ph and l[0] in cn and l[2] in cn:
        return l
    return None
  x = find(lambda tr, k: late_drop(tr, k) is not None, lambda tr: True)
  if x:
    tr = copy.deepcopy(spec_traces[x[0]])
    l = late_drop(tr, x[1])
    tr[x[1]]["adj"].remove(l)
    tr[x[1]]["evs"] = tr[x[1]]["evs"] + [[0] + l]
    ctl.append(("adj-live-link-dropped", tr[:x[1] + 1]))
  # 14 something changes when a probe is merely delayed
  x = find(lambda tr, k: tr[k]["a"] == "Delay" and tr[k]["adj"], lambda tr: True)
  if x:
    tr = copy.deepcopy(spec_traces[x[0]])
    l = tr[x[1]]["adj"].pop()
    tr[x[1]]["evs"] = [[0] + l]
    ctl.append(("changed-without-cause", tr[:x[1] + 1]))
  n_flight = len(ctl) - n_old - n_churn - n_modal
  if n_flight < 3 or not any(w == "adj-link-of-disconnected-switch" for w, _ in ctl):
    raise tlc.TLCError("could not build the validator's delayed-probe controls: %s" % [w for w, _ in ctl])
  if n_old < 4 or n_churn < 1 or n_modal < 2:
    raise tlc.TLCError("could not build the validator's negative controls (%d + %d + %d): %s"
                       % (n_old, n_churn, n_modal, [w for w, _ in ctl]))
  batch = spec_traces + [t for _, t in ctl]
  r, rej = tracecheck.validate(SPEC, "TraceTopo", "Trace_inv.cfg", [strip(t) for t in batch], tag="C19")
  why = {}
  for ln in r.prints:
    m = _bad.match(ln)
    if m:
      why.setdefault(int(m.group(1)) - 1, []).append(m.group(3))
  rejected = dict(rej)
  for i in range(len(spec_traces)):
    if i in rejected or i in why:
      raise tlc.TLCError("positive control: a behaviour simulated from Topo.tla is not accepted by TraceTopo.tla "
                         "(%s, %s)" % (rejected.get(i), why.get(i)))
  for j, (want, tr) in enumerate(ctl):
    i = len(spec_traces) + j
    if why.get(i) != [want]:
      raise tlc.TLCError("negative control %d: expected TLC to name exactly %s, got %s" % (j, want, why.get(i)))
  ctx.add_model("TraceTopo: %d spec-simulated behaviours accepted, %d corrupted ones rejected"
                % (len(spec_traces), len(ctl)), r)
  ctx.notes["validator_controls"] = dict(accepted_spec_behaviours=len(spec_traces),
                                         rejected_corruptions=[w for w, _ in ctl])


# --------------------------------------------------------------------------
def probe_part(ctx, quick):
  cfgs = ["MC_probe_q.cfg"] if quick else ["MC_probe_q.cfg", "MC_probe_t.cfg"]
  for cfg in cfgs:
    r = tlc.run(SPEC, "MCProbe", cfg, tag="C19")
    if r.violated:
      raise tlc.TLCError("Probe.tla violates %s:\n%s" % (r.violated, r.error_trace))
    tlc.require_coverage(r, ["ProbeAny"], cfg)
    ctx.add_model("Probe encoding (%s)" % cfg, r)
    ex = cfg.replace("MC_", "EX_")
    r = tlc.run(SPEC, "MCProbe", ex, workers=1, coverage=False, tag="C19")
    behs = r.tagged("T")
    if len(behs) < 100:
      raise tlc.TLCError("probe export produced %d behaviours" % len(behs))
    for b in behs:
      for st in b:
        st["exp"]["adj"] = sorted(st["exp"]["adj"])
    st = core.replay(ctx, PROBE_ADAPTER, behs, chunk=50)
    ctx.notes["probe_replay_" + cfg] = dict(behaviours=len(behs), **st)
    # negative control: behaviours whose expectation names another datapath id / port must fail.
    # (two chunks, so that the engine replays them in worker processes: POX must never be
    # booted in this process, forked workers would share its scheduler's wake-up pipe)
    # (chosen independently of how the code under test behaved)
    ok = [i for i in range(len(behs)) if behs[i][-1]["exp"]["adj"]]
    if len(ok) < 2:
      raise tlc.TLCError("no probe behaviour to build the negative controls from")
    nb1 = copy.deepcopy(behs[ok[0]])
    nb1[-1]["exp"]["adj"][0][0][7] ^= 1
    nb2 = copy.deepcopy(behs[ok[-1]])
    nb2[-1]["exp"]["adj"][0][1][1] ^= 1
    sub = core.Context(ctx.pid, ctx.tier, ctx.seed, ctx.level)
    sub.known = []
    core.replay(sub, PROBE_ADAPTER, [nb1, nb2], procs=2, chunk=1)
    if len(sub.violations) != 2:
      raise tlc.TLCError("negative controls (wrong dpid / port expected) were accepted by the probe replay")


# --------------------------------------------------------------------------
def run(ctx):
  quick = ctx.tier == "quick"
  ctx.rule = ("environment histories (all multigraphs on 2-3 switches with 2 cables per pair and independent "
              "directions; sampled 4/5-switch multigraphs; TLC-simulated and seeded random connect/disconnect/"
              "cut/restore/time histories on nets of up to 12 switches incl. one-way, parallel and self-loop "
              "wires) run on the real Discovery + LLDPSender + spanning_tree over real switches and OpenFlow "
              "bytes under a virtual clock; after every step adjacency, LinkEvents and the switches' NO_FLOOD "
              "bits are recorded and TLC decides whether the history is a behaviour of Topo.tla; the components "
              "are launched through their public launchers with the configuration of the history (Topo.tla cfg: "
              "link timeouts 1..30 s, --no_flow / --explicit_drop / --eat_early_packets, spanning_tree --no-flood "
              "/ --hold-down; all 16 two-switch multigraphs under 12 configurations, sampled three-switch ones, "
              "random and TLC-simulated histories under random configurations); distinct = "
              "distinct (net, wiring, history); non-trivial = some link was discovered")
  ctx.assumptions = [
      "time in whole seconds; with link timeout T a link must be known after ceil(T/2)+1 s of undisturbed "
      "liveness (default 6 s) and gone T+5+1 s (default 16 s: timeout + check period + 1) after its last probe; "
      "inside these windows either is accepted",
      "environment assumption (in the spec): connects/disconnects come in batches at least ceil(T/2)+1 s apart "
      "(each restarts the LLDP send timer)",
      "environment assumption (in the spec, CfgFits): one probe per port and cycle stays within the sender's "
      "15 timer runs per second (2 * switches * ports <= 15 * T); beyond that the sender batches at random",
      "spanning_tree --hold-down / --no-flood: while a switch is young (connected < ceil(T/2)+1 s, +1 s slack) only "
      "this is demanded: young switches are left alone (all ports NO_FLOOD with --no-flood), host-facing ports of "
      "the other switches flood, the flooding links among the other switches are acyclic; once no switch is young "
      "every clause is in force.  --no-flood alone: a young switch without known links may have all ports blocked",
      "--no_flow: the harness (as the operator would) installs the LLDP-to-controller entry itself",
      "a disconnected switch keeps forwarding with its last port configuration; exactly-once delivery is "
      "claimed for converged states with every switch connected",
      "datapath ids / port numbers are concretised from boundary pools (64-bit, 16-bit < OFPP_MAX), injective, "
      "not order preserving; port numbers 0xff00..0xffff are not used as physical ports",
      "silent wire changes only (no PORT_STATUS)",
      "delayed probes (Delay / Late): a late COPY of a probe that was also delivered in time reaches the controller; "
      "if its wire was cut meanwhile and both ends are connected the link may re-appear and must then be gone "
      "timeout + check period + 1 s after the late delivery"]
  import time
  import resource

  class _T(object):
    def __init__(self):
      self.mark()

    def mark(self):
      self.t = time.time()
      r = resource.getrusage(resource.RUSAGE_CHILDREN)
      self.c = r.ru_utime + r.ru_stime

    def take(self):
      r = resource.getrusage(resource.RUSAGE_CHILDREN)
      v = [round(time.time() - self.t, 1), round(r.ru_utime + r.ru_stime - self.c, 1)]
      self.mark()
      return v
  tm = _T()
  phase = ctx.notes.setdefault("phase_wall_cpu_s", {})
  mc = model_check_start(ctx, quick)
  try:
    _conformance(ctx, quick, phase, tm)
  except BaseException:
    # the first error is what counts; let the JVMs finish (they end on their own), do not wait
    raise
  model_check_finish(ctx, mc)
  phase["model_check_wait"] = tm.take()
  ctx.exhaustive = False


def _conformance(ctx, quick, phase, tm):
  probe_part(ctx, quick)
  phase["probe"] = tm.take()

  seed = ctx.seed
  shards = 8
  # all multigraphs on 2 and 3 switches (3 ways of bringing the network up), samples on 4 and 5
  static = []
  for v in (0, 1, 2):
    static += gen.all_static(2, seed=seed, variants=(v,))
  if quick:
    static += gen.all_static(3, seed=seed, variants=(0,), canonical=True, floods="one")     # 1000 classes
    static += gen.all_static(3, seed=seed + 1, limit=400, variants=(0, 1, 2))
    static += gen.all_static(4, seed=seed, limit=100) + gen.all_static(5, seed=seed, limit=30)
  else:
    for v in (0, 1, 2):
      static += gen.all_static(3, seed=seed, variants=(v,))
    static += gen.all_static(4, seed=seed, limit=4000) + gen.all_static(5, seed=seed, limit=600)
  nh = 80 if quick else 1000
  hist = [gen.random_history(seed * 100003 + i, steps=30, selfloops=(i % 3 == 0)) for i in range(nh)]
  nb = 16 if quick else 150
  hist += [gen.random_history(seed * 100003 + 50000 + i, steps=24, maxn=12, selfloops=(i % 4 == 0))
           for i in range(nb)]
  hist += [gen.random_history(seed * 100003 + 90000 + i, n=12, np=5, steps=16) for i in range(3 if quick else 20)]
  # --- configurations other than the default one (Topo.tla cfg): link timeouts from 1 s to 30 s, the
  # spanning_tree options, the discovery flags; times of the histories are those of the configuration
  import random
  crnd = random.Random(seed * 7177 + 3)
  conf = []
  np2 = gen.full_universe(2)[0]
  grid = [dict(to=t, nofl=a, hold=b) for t in (1, 2, 3, 4, 5, 30) for a, b in ((False, False),)] + \
         [dict(to=t, nofl=a, hold=b) for t in (4, 10) for a, b in ((True, True), (False, True), (True, False))]
  for gi, g in enumerate(grid):
    c = dict(gen.DEFAULT_CFG, **g)
    if gi % 3 == 1:
      c.update(flow=False, drop=(gi % 2 == 0), eat=True)
    assert gen.fits(c, 2, np2)
    for i in range(16):                    # the 16 multigraphs on 2 switches (quick: 8 per configuration)
      if quick and (i + gi) % 2:
        continue
      conf.append(gen.static_scenario(2, [(i >> k) & 1 for k in range(4)], i, variant=(i + gi) % 3, seed=seed + gi,
                                      cfg=c))
  np3 = gen.full_universe(3)[0]
  for i in sorted(crnd.sample(range(4096), 100 if quick else 1200)):
    conf.append(gen.static_scenario(3, [(i >> k) & 1 for k in range(12)], i, variant=i % 3, seed=seed,
                                    floods="one", cfg=gen.random_cfg(crnd, 3, np3)))
  conf += [gen.random_history(seed * 100003 + 200000 + i, steps=30, selfloops=(i % 5 == 0), cfg="random")
           for i in range(50 if quick else 600)]
  conf += [gen.random_history(seed * 100003 + 250000 + i, steps=24, maxn=12, cfg="random")
           for i in range(6 if quick else 100)]
  # --- (round 8) probes in flight: a probe that travelled over a wire reaches the controller later, after the
  # wire was cut / its sender or receiver disconnected or reconnected (Topo.tla Delay / Late)
  fl = []
  for i in range(16):                      # the two-switch multigraphs with at least one wire, 8 environments each
    for v in range(9):                     # (quick: 3 of the 9 environments per wiring)
      bits = [(i >> k) & 1 for k in range(4)]
      if any(bits) and (not quick or (v + i) % 3 == seed % 3):
        fl.append(gen.flight_scenario(2, bits, i + 16 * v, seed=seed, variant=v,
                                      cfg=(None if (v + i) % 2 == 0 else gen.random_cfg(crnd, 2, np2))))
  for i in sorted(crnd.sample(range(1, 4096), 48 if quick else 1200)):
    fl.append(gen.flight_scenario(3, [(i >> k) & 1 for k in range(12)], i, seed=seed,
                                  cfg=(None if i % 3 else gen.random_cfg(crnd, 3, np3))))
  fl += [gen.random_history(seed * 100003 + 300000 + i, steps=36, selfloops=(i % 5 == 0), flight=0.35,
                            cfg=(None if i % 2 else "random")) for i in range(30 if quick else 600)]
  fl += [gen.random_history(seed * 100003 + 350000 + i, steps=30, maxn=12, flight=0.35) for i in range(4 if quick else 60)]
  # histories TLC simulates from the spec: under the reference controller, and under an environment biased
  # towards probes in flight (MCTopo.tla NextRefFlight); the two JVMs run side by side
  with concurrent.futures.ThreadPoolExecutor(max_workers=2) as ex:
    f1 = ex.submit(tlc_scenarios, ctx, 40 if quick else 600, seed + 1)
    f2 = ex.submit(tlc_scenarios, ctx, 16 if quick else 200, seed + 2, "EX_flight.cfg", None if quick else 1500)
    tsc, spec_traces = f1.result()
    tsc2, spec_traces2 = f2.result()
  tsc += (tsc2[:40] if quick else tsc2) + fl
  # (the validator's controls need a delayed probe of a switch that has gone meanwhile: those behaviours first)

  def gone(tr):
    return any(tr[k]["a"] == "Late" and tr[k]["lk"][0] not in _env(tr, k)[1] for k in range(1, len(tr)))
  spec_traces2.sort(key=lambda tr: not gone(tr))
  validator_controls(ctx, (spec_traces[:50] + spec_traces2[:40]) if quick else (spec_traces[:140] + spec_traces2[:60]))
  phase["scenarios_and_validator_controls"] = tm.take()
  run_and_validate(ctx, "implementation", static + hist + conf + tsc, shards)
  phase["run_and_validate"] = tm.take()
  ctx.notes["bounds"] = dict(static=("all 16 multigraphs on 2 switches x 3 bring-up orders; 3 switches: " +
                                     ("all 1000 classes modulo swapping parallel cables (flood probe from one switch) + 400 sampled labelled ones"
                                      if quick else "all 4096 labelled multigraphs x 3 bring-up orders") +
                                     "; %d / %d sampled on 4 / 5 switches" % ((100, 30) if quick else (4000, 600))),
                             dynamic="%d random histories (<=5 switches) + %d (<=12 switches) + TLC-simulated ones"
                             % (nh, nb),
                             configurations="%d histories under non-default configurations: 2-switch multigraphs x 12 "
                             "configurations, sampled 3-switch multigraphs and random histories under random legal "
                             "configurations; + the TLC-simulated ones (12 configurations)" % len(conf))


def replay_one(ctx, rep):
  """./check C19 --replay FILE: run the recorded scenario again and let TLC judge it"""
  if rep.get("kind") != "trace":
    core.replay(ctx, rep["adapter"], [rep["behaviour"]], params=rep.get("params"), procs=1)
    return
  run_and_validate(ctx, "replay", [rep["scenario"]], 1, procs=1)
