"""C19 - discovered topology is the physical one; flooding is pruned to a tree.

specs/topo/Topo.tla is model-checked (dynamic nets with every response the
property permits; static part: every sub-multigraph x every permitted forest
=> a flooded frame reaches every switch exactly once).  The real discovery +
spanning_tree components run on a network simulator (real switches, real
OpenFlow bytes, virtual clock) through environment histories that are
enumerated (all multigraphs), exported from TLC (simulation of the spec under
a reference controller) or drawn at random; TLC validates every recorded
history against Topo.tla (TraceTopo.tla) and names the violated clause.
specs/topo/Probe.tla enumerates datapath ids / port numbers for the probe
encoding; its behaviours are replayed on the real LLDP sender and receiver.
"""
import collections
import concurrent.futures
import copy
import re

from engine import tlc, core, tracecheck
from harness import c19_gen as gen

SPEC = "topo"
# TLC names a disjunct of Next after the innermost named operator it unfolds to
DYN_ACTIONS = [("UpAny", "UpNext"), ("DownAny", "DownNext"), ("AdvanceAny", "AdvanceNext"),
               ("CutNext",), ("RestoreNext",), ("FloodNext",)]
DRIVER = "harness.adapters_c19:run_scenario"
PROBE_ADAPTER = "harness.adapters_c19:ProbeAdapter"

_bad = re.compile(r'^<<"BAD", (\d+), (\d+), "([^"]+)">>')


# --------------------------------------------------------------------------
def model_check(ctx, quick):
  jobs = [("Topo dynamic: 2 switches, cable + one-way wire", "MC_one.cfg", DYN_ACTIONS),
          ("Topo static: all sub-multigraphs x all permitted forests (parallel / triangle / self-loop nets)",
           "MC_static_small.cfg", ["FloodNext"])]
  if not quick:
    jobs += [("Topo dynamic: 2 switches, 2 parallel cables", "MC_par.cfg", DYN_ACTIONS),
             ("Topo dynamic: chain of 3 switches", "MC_chain.cfg", DYN_ACTIONS),
             ("Topo dynamic: self-loop cable + neighbour", "MC_loop.cfg", DYN_ACTIONS),
             ("Topo static: 3 switches, 2 cables per pair (4096 wirings)", "MC_static_k3x2.cfg", ["FloodNext"]),
             ("Topo static: 4 switches, 1 cable per pair (4096 wirings)", "MC_static_k4.cfg", ["FloodNext"])]

  def one(job):
    name, cfg, acts = job
    r = tlc.run(SPEC, "MCTopo", cfg, tag="C19", workers=(None if quick else 4), timeout=1500)
    return job, r
  with concurrent.futures.ThreadPoolExecutor(max_workers=len(jobs)) as ex:
    results = list(ex.map(one, jobs))
  for (name, cfg, acts), r in results:
    if r.violated:
      raise tlc.TLCError("spec violates its own property %s (%s):\n%s" % (r.violated, cfg, r.error_trace))
    for alts in acts:
      alts = (alts,) if isinstance(alts, str) else alts
      if sum(r.coverage.get(a, (0, 0))[1] for a in alts) == 0:
        raise tlc.TLCError("vacuous model run %s: action never taken: %s (coverage: %s)"
                           % (cfg, alts[0], sorted(r.coverage)))
    ctx.add_model(name, r)


# --------------------------------------------------------------------------
def tlc_scenarios(ctx, num, seed):
  r = tlc.run(SPEC, "MCTopo", "EX_sim.cfg", workers=1, coverage=False, simulate=dict(num=num),
              depth=25, seed=seed, tag="C19")
  out = []
  for i, b in enumerate(r.tagged("H")):
    # wires up at the start = final phys with the Cut/Restore steps undone
    ph = set(map(tuple, b["phys"]))
    for st in reversed(b["h"]):
      if st["a"] == "Cut":
        ph.add(tuple(st["args"]["l"]))
      elif st["a"] == "Restore":
        ph.discard(tuple(st["args"]["l"]))
    b["phys0"] = [list(x) for x in ph]
    out.append(gen.from_tlc(b, b["net"], seed * 1000 + i))
  if len(out) < num // 2:
    raise tlc.TLCError("scenario export produced %d behaviours" % len(out))
  return out


def strip(tr):
  return [{k: v for k, v in e.items() if k != "exc"} for e in tr]


def validate(ctx, traces, shards, cfg="Trace.cfg"):
  """TLC validates the traces (sharded over several JVMs).  Returns
  {trace index: (failing event index, violated clause)}, rejected-without-reason list."""
  if not traces:
    return {}, [], tlc.TLCResult()
  idx = list(range(len(traces)))
  # balance shards by size
  order = sorted(idx, key=lambda i: -len(traces[i]))
  nev = sum(len(t) for t in traces)
  parts = [[] for _ in range(max(1, min(shards, len(traces), 1 + nev // 2500)))]
  for k, i in enumerate(order):
    parts[k % len(parts)].append(i)

  def one(part):
    r, rej = tracecheck.validate(SPEC, "TraceTopo", cfg, [strip(traces[i]) for i in part],
                                 tag="C19", timeout=1500)
    return part, r, rej
  bad, silent = {}, []
  tot = tlc.TLCResult()
  with concurrent.futures.ThreadPoolExecutor(max_workers=len(parts)) as ex:
    for part, r, rej in ex.map(one, parts):
      tot.distinct += r.distinct
      tot.generated += r.generated
      tot.depth = max(tot.depth, r.depth)
      tot.wall = max(tot.wall, r.wall)
      why = {}
      for ln in r.prints:
        m = _bad.match(ln)
        if m:
          why[int(m.group(1)) - 1] = (int(m.group(2)) - 1, m.group(3))
      for t, matched in rej:
        if t in why:
          bad[part[t]] = why[t]
        else:
          silent.append((part[t], matched))
  return bad, silent, tot


def classify(sc, tr, k, why):
  """signature of a rejected step: violated clause + what the environment did"""
  ev = tr[k]
  sig = dict(clause=why, action=ev["a"], via="trace")
  hist = [e["a"] for e in tr[1:k + 1]]
  sig["after_switch_down"] = "SwitchDown" in hist
  sig["after_wire_cut"] = "Cut" in hist
  sig["removal_in_step"] = any(e[0] == 0 for e in ev["evs"])
  sig["selfloop_in_adj"] = any(l[0] == l[2] for l in ev["adj"])
  both = set(map(tuple, ev["adj"]))
  sig["oneway_in_adj"] = any((l[2], l[3], l[0], l[1]) not in both for l in both)
  if ev["a"] == "SwitchUp":
    sig["reconnect"] = hist[:-1].count("SwitchUp") > 0 and \
        any(e["a"] == "SwitchDown" and e["s"] == ev["s"] for e in tr[1:k])
  return sig


def run_and_validate(ctx, label, scs, shards, procs=16):
  traces = core.run_driver(DRIVER, scs, procs=procs)
  # thorough: the spec's invariants are evaluated again on every matched state (Trace_inv.cfg)
  bad, silent, tot = validate(ctx, traces, shards, "Trace.cfg" if ctx.tier == "quick" else "Trace_inv.cfg")
  if silent:
    t, m = silent[0]
    raise tlc.TLCError("%s: trace %d rejected at event %d without a violated clause (harness/spec "
                       "disagree about the environment): %s" % (label, t, m, traces[t][m] if m < len(traces[t]) else None))
  ctx.add_model("TraceTopo: validation of %d %s histories" % (len(traces), label), tot)
  nev = 0
  for i, tr in enumerate(traces):
    nev += len(tr) - 1
    ctx.traces += 1
    ctx.case(core.fp([scs[i]["n"], scs[i]["np"], scs[i]["phys"], scs[i]["steps"]]),
             nontrivial=any(e["adj"] for e in tr),
             sample=dict(net=[scs[i]["n"], scs[i]["np"]], phys=scs[i]["phys"],
                         trace=[[e["a"], e["s"], e["d"], e["adj"], e["nf"]] for e in tr[1:7]]))
  clauses = collections.Counter()
  for t, (k, why) in sorted(bad.items()):
    clauses[why] += 1
    if why == "malformed-observation" and "exc" not in traces[t][k]:
      raise core.Machinery("malformed observation without exception: %r" % traces[t][k])
    sig = classify(scs[t], traces[t], k, why)
    ctx.report(sig, dict(kind="trace", scenario=scs[t], trace=traces[t], failing_step=k, clause=why,
                         note="TLC: the step is not permitted by Topo.tla (clause named)"))
  ctx.notes["validation_" + label] = dict(histories=len(traces), events=nev, rejected=len(bad),
                                          clauses=dict(clauses))
  return traces, bad


# negative controls: corrupt an accepted trace; TLC must reject it with that clause
def negative_controls(ctx, scs, traces, bad):
  good = [i for i in range(len(traces)) if i not in bad]
  ctl = []

  def find(pred):
    for i in good:
      for k in range(1, len(traces[i])):
        if pred(traces[i], k):
          return i, k
    return None
  # 1 NO_FLOOD on a host-facing port
  x = find(lambda tr, k: tr[k]["a"] == "Advance" and tr[k]["adj"])
  if x:
    tr = copy.deepcopy(traces[x[0]])
    hp = [tr[0]["n"] and 1, tr[0]["np"]]
    tr[x[1]]["nf"] = sorted(tr[x[1]]["nf"] + [hp]) if hp not in tr[x[1]]["nf"] else tr[x[1]]["nf"]
    ctl.append(("flood-host-port-blocked", tr[:x[1] + 1]))
  # 2 a discovered live link vanishes from the adjacency (with its event)
  x = find(lambda tr, k: tr[k]["a"] == "Advance" and tr[k]["d"] >= 6 and tr[k]["adj"] and tr[k]["adj"] == tr[k - 1]["adj"]
           and tr[k - 1]["a"] == "Advance" and tr[k - 1]["d"] >= 6)
  if x:
    tr = copy.deepcopy(traces[x[0]])
    l = tr[x[1]]["adj"].pop(0)
    tr[x[1]]["evs"] = [[0] + l]
    ctl.append(("adj-live-link-dropped", tr[:x[1] + 1]))
  # 3 the same link announced twice in a row
  x = find(lambda tr, k: any(e[0] == 1 for e in tr[k]["evs"]))
  if x:
    tr = copy.deepcopy(traces[x[0]])
    e = [e for e in tr[x[1]]["evs"] if e[0] == 1][0]
    tr[x[1]]["evs"].append(list(e))
    ctl.append(("events-not-alternating", tr[:x[1] + 1]))
  # 4 both ends of a blocked redundant link flood again: a cycle
  x = find(lambda tr, k: tr[k]["a"] == "Flood" and tr[k]["nf"])
  if x:
    tr = copy.deepcopy(traces[x[0]])
    k = x[1] - 1
    while k > 0 and tr[k]["a"] == "Flood":
      k -= 1
    if k > 0 and tr[k]["nf"]:
      adjset = set(map(tuple, tr[k]["adj"]))
      for l in tr[k]["adj"]:
        if (l[2], l[3], l[0], l[1]) in adjset and [l[0], l[1]] in tr[k]["nf"] and [l[2], l[3]] in tr[k]["nf"]:
          tr[k]["nf"] = [p for p in tr[k]["nf"] if p not in ([l[0], l[1]], [l[2], l[3]])]
          ctl.append(("flood-cycle", tr[:k + 1]))
          break
  # 5 a flooded frame is delivered twice
  x = find(lambda tr, k: tr[k]["a"] == "Flood" and sum(tr[k]["rx"]) > 0)
  if x:
    tr = copy.deepcopy(traces[x[0]])
    j = [i for i, c in enumerate(tr[x[1]]["rx"]) if c][0]
    tr[x[1]]["rx"][j] += 1
    ctl.append(("flood-delivery-mismatch", tr[:x[1] + 1]))
  if len(ctl) < 4:
    raise tlc.TLCError("could not build the negative controls (%d)" % len(ctl))
  r, rej = tracecheck.validate(SPEC, "TraceTopo", "Trace.cfg", [strip(t) for _, t in ctl], tag="C19")
  why = {}
  for ln in r.prints:
    m = _bad.match(ln)
    if m:
      why[int(m.group(1)) - 1] = m.group(3)
  for i, (want, tr) in enumerate(ctl):
    if why.get(i) != want:
      raise tlc.TLCError("negative control %d: expected TLC to reject with %s, got %s" % (i, want, why.get(i)))
  ctx.notes["negative_controls"] = dict(rejected=[w for w, _ in ctl])


# --------------------------------------------------------------------------
def probe_part(ctx, quick):
  cfgs = ["MC_probe_q.cfg"] if quick else ["MC_probe_q.cfg", "MC_probe_t.cfg"]
  for cfg in cfgs:
    r = tlc.run(SPEC, "MCProbe", cfg, tag="C19")
    if r.violated:
      raise tlc.TLCError("Probe.tla violates %s:\n%s" % (r.violated, r.error_trace))
    tlc.require_coverage(r, ["ProbeAny"], cfg)
    ctx.add_model("Probe encoding (%s)" % cfg, r)
    ex = cfg.replace("MC_", "EX_")
    r = tlc.run(SPEC, "MCProbe", ex, workers=1, coverage=False, tag="C19")
    behs = r.tagged("T")
    if len(behs) < 100:
      raise tlc.TLCError("probe export produced %d behaviours" % len(behs))
    for b in behs:
      for st in b:
        st["exp"]["adj"] = sorted(st["exp"]["adj"])
    st = core.replay(ctx, PROBE_ADAPTER, behs, chunk=50)
    ctx.notes["probe_replay_" + cfg] = dict(behaviours=len(behs), **st)
    # negative control: behaviours whose expectation names another datapath id / port must fail.
    # (two chunks, so that the engine replays them in worker processes: POX must never be
    # booted in this process, forked workers would share its scheduler's wake-up pipe)
    ok = [i for i in core.replay.last_ok if behs[i][-1]["exp"]["adj"]]
    if len(ok) < 2:
      raise tlc.TLCError("no probe behaviour to build the negative controls from")
    nb1 = copy.deepcopy(behs[ok[0]])
    nb1[-1]["exp"]["adj"][0][0][7] ^= 1
    nb2 = copy.deepcopy(behs[ok[-1]])
    nb2[-1]["exp"]["adj"][0][1][1] ^= 1
    sub = core.Context(ctx.pid, ctx.tier, ctx.seed, ctx.level)
    sub.known = []
    core.replay(sub, PROBE_ADAPTER, [nb1, nb2], procs=2, chunk=1)
    if len(sub.violations) != 2:
      raise tlc.TLCError("negative controls (wrong dpid / port expected) were accepted by the probe replay")


# --------------------------------------------------------------------------
def run(ctx):
  quick = ctx.tier == "quick"
  ctx.rule = ("environment histories (all multigraphs on 2-3 switches with 2 cables per pair and independent "
              "directions; sampled 4/5-switch multigraphs; TLC-simulated and seeded random connect/disconnect/"
              "cut/restore/time histories on nets of up to 12 switches incl. one-way, parallel and self-loop "
              "wires) run on the real Discovery + LLDPSender + spanning_tree over real switches and OpenFlow "
              "bytes under a virtual clock; after every step adjacency, LinkEvents and the switches' NO_FLOOD "
              "bits are recorded and TLC decides whether the history is a behaviour of Topo.tla; distinct = "
              "distinct (net, wiring, history); non-trivial = some link was discovered")
  ctx.assumptions = [
      "time in whole seconds; a link must be known after Cycle+1 = 6 s of undisturbed liveness and gone 16 s "
      "(timeout 10 + check period 5 + 1) after its last probe; inside these windows either is accepted",
      "environment assumption (in the spec): connects/disconnects come in batches at least 6 s apart "
      "(each restarts the LLDP send timer)",
      "a disconnected switch keeps forwarding with its last port configuration; exactly-once delivery is "
      "claimed for converged states with every switch connected",
      "datapath ids / port numbers are concretised from boundary pools (64-bit, 16-bit < OFPP_MAX), injective, "
      "not order preserving; port numbers 0xff00..0xffff are not used as physical ports",
      "silent wire changes only (no PORT_STATUS); default options of both components (no hold-down, "
      "no no-flood-by-default)"]
  import time
  import resource

  class _T(object):
    def __init__(self):
      self.mark()

    def mark(self):
      self.t = time.time()
      r = resource.getrusage(resource.RUSAGE_CHILDREN)
      self.c = r.ru_utime + r.ru_stime

    def take(self):
      r = resource.getrusage(resource.RUSAGE_CHILDREN)
      v = [round(time.time() - self.t, 1), round(r.ru_utime + r.ru_stime - self.c, 1)]
      self.mark()
      return v
  tm = _T()
  phase = ctx.notes.setdefault("phase_wall_cpu_s", {})
  model_check(ctx, quick)
  phase["model_check"] = tm.take()
  probe_part(ctx, quick)
  phase["probe"] = tm.take()

  seed = ctx.seed
  shards = 8
  # all multigraphs on 2 and 3 switches (3 ways of bringing the network up), samples on 4 and 5
  static = []
  for v in (0, 1, 2):
    static += gen.all_static(2, seed=seed, variants=(v,))
  if quick:
    static += gen.all_static(3, seed=seed, variants=(0,), canonical=True)     # 1000 classes
    static += gen.all_static(3, seed=seed + 1, limit=500, variants=(0, 1, 2))
    static += gen.all_static(4, seed=seed, limit=100) + gen.all_static(5, seed=seed, limit=30)
  else:
    for v in (0, 1, 2):
      static += gen.all_static(3, seed=seed, variants=(v,))
    static += gen.all_static(4, seed=seed, limit=20000) + gen.all_static(5, seed=seed, limit=3000)
  tr_s, bad_s = run_and_validate(ctx, "static", static, shards)
  phase["static"] = tm.take()
  nh = 80 if quick else 3000
  hist = [gen.random_history(seed * 100003 + i, steps=30, selfloops=(i % 3 == 0)) for i in range(nh)]
  nb = 16 if quick else 400
  hist += [gen.random_history(seed * 100003 + 50000 + i, steps=24, maxn=12, selfloops=(i % 4 == 0))
           for i in range(nb)]
  hist += [gen.random_history(seed * 100003 + 90000 + i, n=12, np=5, steps=16) for i in range(3 if quick else 60)]
  hist += tlc_scenarios(ctx, 30 if quick else 1500, seed + 1)
  tr_h, bad_h = run_and_validate(ctx, "dynamic", hist, shards)
  phase["dynamic"] = tm.take()
  negative_controls(ctx, static + hist, tr_s + tr_h,
                    dict(list(bad_s.items()) + [(k + len(tr_s), v) for k, v in bad_h.items()]))
  phase["negative_controls"] = tm.take()
  ctx.notes["bounds"] = dict(static=("all 16 multigraphs on 2 switches x 3 bring-up orders; 3 switches: " +
                                     ("all 1000 classes modulo swapping parallel cables + 500 sampled labelled ones"
                                      if quick else "all 4096 labelled multigraphs x 3 bring-up orders") +
                                     "; %d / %d sampled on 4 / 5 switches" % ((100, 30) if quick else (20000, 3000))),
                             dynamic="%d random histories (<=5 switches) + %d (<=12 switches) + TLC-simulated ones"
                             % (nh, nb))
  ctx.exhaustive = False


def replay_one(ctx, rep):
  """./check C19 --replay FILE: run the recorded scenario again and let TLC judge it"""
  if rep.get("kind") != "trace":
    core.replay(ctx, rep["adapter"], [rep["behaviour"]], params=rep.get("params"), procs=1)
    return
  run_and_validate(ctx, "replay", [rep["scenario"]], 1, procs=1)
