"""X05 - l3_learning / arp_responder: ARP tables, expiry, buffers waiting for ARP.

specs/l3/L3Learn.tla and specs/l3/ArpResp.tla are model-checked, their behaviours are
replayed on the real components behind a real of_01.Connection and a real SoftwareSwitch
(comparison after every step), and traces recorded from the real components by a seeded
random driver are validated by TLC against the same specs (with a corrupted trace as
negative control).
"""
import copy
import json
import random
import re

from engine import tlc, core, tracecheck

L3_ADAPTER = "harness.adapters_x05:L3Adapter"
ARP_ADAPTER = "harness.adapters_x05:ArpAdapter"

L3_ACTIONS = ["IpForward", "IpSamePort", "IpWait", "ArpAnswer", "ArpFlood", "OtherIn", "Advance", "TimerFires"]
ARP_ACTIONS = ["ConnUp", "ArpInPlain", "OtherIn", "Advance", "TimerFires"]


def canon(x):
  return json.dumps(x, sort_keys=True, separators=(",", ":"))


def sort_exp(beh):
  """canonical order for the set-valued fields of exported expectations (the adapter sorts the same way)"""
  for st in beh:
    e = st["exp"]
    if "out" in e:
      e["out"] = sorted(e["out"], key=canon)
    if st["a"] == "Tick" and "msgs" in e:
      e["msgs"] = sorted(e["msgs"], key=canon)
    if isinstance(e.get("st"), dict) and "fq" in e["st"]:
      e["st"]["fq"] = sorted(e["st"]["fq"])
  return beh


def vias(behs):
  c = {}
  for b in behs:
    for st in b:
      c[st.get("via", "?")] = c.get(st.get("via", "?"), 0) + 1
  return c


_VIA = re.compile(r'via\\":\s*\\"([A-Za-z/-]+)')


def last_via(raw):
  """name of the spec action of the LAST step of an exported behaviour, read off the undecoded JSON text"""
  m = _VIA.findall(raw)
  return m[-1] if m else "?"


def sample(raws, n, seed, need):
  """decode a seeded sample of n exported behaviours (all of them if there are fewer) that still ends in every
  spec action named in `need` at least once; raws = undecoded PrintT payloads"""
  idx = list(range(len(raws)))
  if len(raws) > n:
    rnd = random.Random(seed)
    rnd.shuffle(idx)
    pick = set(idx[:n])
    have = set(last_via(raws[i]) for i in pick)
    for v in need:
      if v not in have:
        for i in idx[n:]:
          if last_via(raws[i]) == v:
            pick.add(i)
            have.add(v)
            break
    idx = sorted(pick)
  return [sort_exp(json.loads(json.loads(raws[i]))) for i in idx]


# what the adapters need to know about each configuration (mirrors the .cfg files)
L3_SMALL = dict(nbuf=2, ports=2, ips=["a", "b", "g"], consts=dict(MAX_BUFFERED_PER_IP=1))
L3_CFG = {
    "EX_edges_t5.cfg": dict(L3_SMALL, consts=dict(MAX_BUFFERED_PER_IP=1, ARP_TIMEOUT=10)),
    "EX_edges_t45.cfg": dict(L3_SMALL, consts=dict(MAX_BUFFERED_PER_IP=1, ARP_TIMEOUT=5)),
    "EX_edges_max2.cfg": dict(L3_SMALL, nbuf=3, consts=dict(MAX_BUFFERED_PER_IP=2, ARP_TIMEOUT=10)),
    "EX_edges_gw.cfg": dict(L3_SMALL, consts=dict(MAX_BUFFERED_PER_IP=1, ARP_TIMEOUT=10)),
    "EX_edges_noarp.cfg": dict(L3_SMALL, consts=dict(MAX_BUFFERED_PER_IP=1, ARP_TIMEOUT=10), arp_for_unknowns=False),
}
L3_REAL = dict(nbuf=8, ports=3, ips=["a", "b", "c", "g"])          # the module's own constants (120 / 5 / 5)
ARP_CFG = {
    "EXA_edges_t1.cfg": dict(nbuf=1, ports=2, ips=["a", "h", "g"], timeout=1),
    "EXA_edges_t5.cfg": dict(nbuf=2, ports=2, ips=["a", "h", "g"], timeout=10),
    "EXA_edges_nolearn.cfg": dict(nbuf=1, ports=2, ips=["a", "h", "g"], timeout=10, learn=False, eat=False),
}
ARP_REAL = dict(nbuf=6, ports=3, ips=["a", "b", "h", "g"], timeout=240)


def _tlc_all(ctx, jobs, ex):
  """all TLC runs of the tier side by side: model checking (coverage on) and exports (one worker each).
  A job with export=True is a model-checking run whose config also carries ACTION_CONSTRAINT ExportT (one
  worker, so that every PrintT is one line); an `ex` entry dict(job=i) takes its behaviours from job i."""
  spec = [dict(spec_dir="l3", module=j[0], cfg=j[1], tag="X05", timeout=2400, **(dict(workers=1) if len(j) > 4 and j[4] else {}))
          for j in jobs]
  own = [e for e in ex if "job" not in e[2]]
  spec += [dict(spec_dir="l3", module=m, cfg=c, workers=1, coverage=False, tag="X05", timeout=2400, **kw) for (m, c, kw) in own]
  res = tlc.run_many(spec, parallel=6)
  for r in res:
    r.stdout = ""                # everything needed has been parsed; an export is some 100 MB of text
  for j, r in zip(jobs, res):
    if r.violated:
      raise tlc.TLCError("%s %s: the spec violates its own property %s:\n%s" % (j[0], j[1], r.violated, r.error_trace))
    tlc.require_coverage(r, j[2], j[3])
    ctx.add_model(j[3], r)
  it = iter(res[len(jobs):])
  return [res[e[2]["job"]] if "job" in e[2] else next(it) for e in ex]


def run(ctx):
  import time
  t0 = time.time()
  quick = ctx.tier == "quick"
  ctx.notes["phase_wall_s"] = {}

  def lap(name):
    ctx.notes["phase_wall_s"][name] = round(time.time() - t0, 1)
  ctx.rule = ("behaviours exported by TLC from L3Learn.tla / ArpResp.tla (edge cover: shortest path to every abstract "
              "state + each outgoing transition; -simulate runs with the modules' real timeouts) replayed on the real "
              "l3_learning / arp_responder components behind a real of_01.Connection and a real SoftwareSwitch, every "
              "step compared (messages on the wire, frames leaving the ports, error replies, projected tables); "
              "traces of a seeded random driver validated by TLC; distinct = distinct action/argument sequences")
  ctx.assumptions = [
      "one switch; 2-3 ports; 2-3 host addresses + one fake gateway (l3_learning) / two static entries (arp_responder)",
      "exhaustive parts use scaled constants set through the modules' own knobs (l3_learning.ARP_TIMEOUT, "
      "MAX_BUFFERED_PER_IP; arp_responder launch(timeout=)); simulation and trace validation use the real ones",
      "virtual time in whole seconds; the components' own recurring Timer(5) fires at its exact virtual instants",
      "every IP frame has a fresh UDP source port, so flows installed by l3_learning never hide later packets",
      "buffer ids are bound dynamically to spec slots; addresses are symbols concretised injectively (3 families)",
      "Strict = FALSE: the named deviations IpWaitForget / ArpInDemoteStatic / ArpInUseStale / ArpInVlanMangled model what the "
      "code does (see notes/X05.md, Defects observed); the Strict = TRUE configs are model-checked only"]

  # 1. the properties on the models
  # (the two small models are checked and exported by the same TLC run: MCX_small = MC_small + ExportT)
  jobs = [("MCL3", "MCX_small.cfg", L3_ACTIONS + ["IpWaitForget"], "L3Learn small", True),
          ("MCArp", "MCAX_small.cfg", ARP_ACTIONS + ["ArpInDemoteStatic", "ArpInUseStale", "ArpInVlanMangled"], "ArpResp small", True)]
  if not quick:
    jobs += [("MCArp", "MCA_small.cfg", ARP_ACTIONS + ["ArpInDemoteStatic", "ArpInUseStale", "ArpInVlanMangled", "Set", "Del"], "ArpResp small + console"),
             ("MCL3", "MC_strict.cfg", L3_ACTIONS + ["IpWaitRelease"], "L3Learn small, Strict (documented intent)"),
             ("MCArp", "MCA_strict.cfg", ARP_ACTIONS + ["ArpInStrict", "Set", "Del"], "ArpResp small, Strict (documented intent)"),
             ("MCL3", "MC_noarp.cfg", [a for a in L3_ACTIONS if a != "IpWait"] + ["IpIgnore"], "L3Learn small, no ARPing"),
             ("MCArp", "MCA_nolearn.cfg", ARP_ACTIONS + ["Set", "Del"], "ArpResp small, no_learn, eat_packets=False"),
             ("MCL3", "MC_mid.cfg", L3_ACTIONS + ["IpWaitForget"], "L3Learn mid (finer time)"),
             ("MCL3", "MC_max2.cfg", [a for a in L3_ACTIONS if a != "Advance"] + ["IpWaitForget"], "L3Learn 2 per address, 3 buffers"),
             ("MCL3", "MC_gw.cfg", [a for a in L3_ACTIONS if a != "Advance"] + ["IpWaitForget"], "L3Learn, a host claims the gateway address"),
             ("MCArp", "MCA_mid.cfg", ARP_ACTIONS + ["ArpInDemoteStatic", "ArpInUseStale", "Set", "Del"], "ArpResp mid (longer timeout, 2 buffers, console)")]

  # 2. spec -> code
  nsim = 30 if quick else 600
  ex = [("MCL3", "EX_edges_t45.cfg", dict(job=0)), ("MCArp", "EXA_edges_t1.cfg", dict(job=1)),
        ("MCL3", "EX_sim.cfg", dict(simulate=dict(num=nsim), depth=61, seed=ctx.seed + 1)),
        ("MCArp", "EXA_sim.cfg", dict(simulate=dict(num=nsim), depth=61, seed=ctx.seed + 2))]
  later = []
  if not quick:
    # the large edge covers are exported and replayed one after the other (memory: an export is some 100 MB of text)
    later = [("MCL3", "EX_edges_t5.cfg", {}), ("MCL3", "EX_edges_noarp.cfg", {}), ("MCArp", "EXA_edges_nolearn.cfg", {}),
             ("MCL3", "EX_edges_max2.cfg", {}), ("MCL3", "EX_edges_gw.cfg", {}), ("MCArp", "EXA_edges_t5.cfg", {})]
  res = _tlc_all(ctx, jobs, ex)
  lap("TLC: model checking + export")
  exercised = {}

  def consume(m, c, kw, r):
    l3 = m == "MCL3"
    sim = "simulate" in kw
    raws = r.tagged_raw("H" if sim else "T")
    r.prints = []
    total = len(raws)
    if (sim and total < nsim // 2) or not total:
      raise tlc.TLCError("%s %s exported %d behaviours" % (m, c, total))
    need = ([] if sim else ["IpWaitForget", "IpWait", "TimerFires", "ArpAnswer"] if l3 and "noarp" not in c else
            ["ArpInDemoteStatic", "ArpInUseStale", "ArpInVlanMangled", "ArpInPlain"] if not l3 and "nolearn" not in c else [])
    behs = sample(raws, total if sim else 2500 if quick else 8000, ctx.seed, need)
    del raws
    if sim:
      params = dict(L3_REAL if l3 else ARP_REAL)
    else:
      params = dict(L3_CFG[c] if l3 else ARP_CFG[c])
    params["variant"] = ctx.seed % 3 if not sim else (ctx.seed + 1) % 3
    st = core.replay(ctx, L3_ADAPTER if l3 else ARP_ADAPTER, behs, params=params, chunk=20 if sim else 100)
    for k, v in vias(behs).items():
      exercised[k] = exercised.get(k, 0) + v
    ctx.notes["replay %s" % c] = dict(exported=total, replayed=len(behs), **st)
    lap("replay " + c)
    if st["ok"] and (l3, sim) == (True, False) and "negctl" not in ctx.notes:
      # negative control of the replay itself: a corrupted expectation must be reported
      bad = copy.deepcopy(behs[core.replay.last_ok[-1]])
      bad[-1]["exp"]["st"]["tbl"]["a"] = [1, "m2", 3]
      nctx = core.Context("X05", ctx.tier, ctx.seed, ctx.level, clear=False)
      core.replay(nctx, L3_ADAPTER, [bad, copy.deepcopy(bad)], params=params, chunk=1)     # (in worker processes)
      if not nctx.violations:
        raise core.Machinery("negative control: a corrupted expectation was not reported by the replay")
      ctx.notes["negctl"] = "corrupted expectation reported by the replay"

  for i, (m, c, kw) in enumerate(ex):
    consume(m, c, kw, res[i])
    res[i] = None
  for (m, c, kw) in later:
    r = tlc.run("l3", m, c, workers=1, coverage=False, tag="X05", timeout=2400)
    r.stdout = ""
    consume(m, c, kw, r)
    del r
  missing = [a for a in L3_ACTIONS + ARP_ACTIONS + ["IpWaitForget", "IpIgnore", "ArpInDemoteStatic", "ArpInUseStale", "ArpInVlanMangled"]
             if not exercised.get("Up" if a == "ConnUp" else a) and not (quick and a == "IpIgnore")]
  if missing:
    raise core.Machinery("replayed behaviours never took the spec actions %s" % missing)
  ctx.notes["spec_actions_replayed"] = exercised

  # 3. code -> spec
  ntr = 100 if quick else 1500
  for which, drv, mod, cfg in (("l3", "props.X05:drive_l3", "TraceL3", "Trace.cfg"),
                               ("arp", "props.X05:drive_arp", "TraceArp", "TraceA.cfg")):
    traces = core.run_driver(drv, [(ctx.seed * 100003 + i, 50) for i in range(ntr)])
    bad = copy.deepcopy(traces[0])           # negative control: corrupt one projected deadline
    for e in bad:
      if e["a"] != "Tick" and e["wf"]:
        t = e["obs"]["st"]["tbl"]
        k = sorted(t)[0]
        t[k] = list(t[k])
        t[k][-1] += 1
        break
    r, rej = tracecheck.validate("l3", mod, cfg, traces + [bad], tag="X05")
    ctx.add_model("%s (validation of %d implementation traces)" % (mod, ntr), r)
    if len(traces) not in [t for t, _ in rej]:
      raise tlc.TLCError("negative control (corrupted deadline) was accepted by %s" % mod)
    for t, matched in rej:
      if t == len(traces):
        continue
      ev = traces[t][matched]
      ctx.report(dict(action=ev["a"], via="trace", component=which, wf=ev["wf"],
                      fields=sorted(ev.get("diag", {}).keys())),
                 dict(trace=traces[t], failing_step=matched, note="TLC rejected the trace at this event"))
    ctx.traces += len(traces)
    for t in traces[:2000]:
      ctx.case(core.fp([[e["a"], e["args"]] for e in t]), sample=None)
    lap("traces " + which)
    ctx.notes["trace_validation_" + which] = dict(traces=len(traces), events=sum(len(t) for t in traces),
                                                  rejected=len(rej) - 1, negative_control_rejected=True)
  ctx.exhaustive = True


# --------------------------------------------------------------------------
# drivers (worker processes)

FRAME = {"k": "", "op": 0, "es": "", "ed": "", "sha": "", "spa": "", "tha": "", "tpa": ""}
MSG = {"k": "", "buf": 0, "inp": 0, "acts": [{"t": "", "m": "", "o": 0}], "data": FRAME, "mt": "", "idle": 0}


def conform(x, t):
  """x has exactly the shape/types of template t (lists: every element like t[0]; tuple: fixed positions)"""
  if isinstance(t, bool):
    return isinstance(x, bool)
  if isinstance(t, int):
    return isinstance(x, int) and not isinstance(x, bool) and -2 ** 31 < x < 2 ** 31
  if isinstance(t, str):
    return isinstance(x, str)
  if isinstance(t, tuple):
    return isinstance(x, list) and len(x) == len(t) and all(conform(a, b) for a, b in zip(x, t))
  if isinstance(t, list):
    return isinstance(x, list) and all(conform(a, t[0]) for a in x)
  if isinstance(t, dict):
    return isinstance(x, dict) and set(x) == set(t) and all(conform(x[k], t[k]) for k in t)
  return False


def _l3_template(ips, tick):
  return {"pin": 0, "msgs": [(MSG, 0)] if tick else [MSG], "out": [(0, FRAME, 0)], "errs": 0,
          "st": {"tbl": {ip: (0, "", 0) for ip in ips}, "wait": {ip: [(0, 0, 0)] for ip in ips},
                 "arps": {ip: 0 for ip in ips}}}


def _arp_template(ips):
  return {"pin": 0, "msgs": [MSG], "out": [(0, FRAME, 0)], "errs": 0, "halted": False,
          "st": {"tbl": {ip: ("", False, False, 0) for ip in ips}, "fq": [""]}}


def _dummy(t):
  if isinstance(t, tuple):
    return [_dummy(x) for x in t]
  if isinstance(t, list):
    return []
  if isinstance(t, dict):
    return {k: _dummy(v) for k, v in t.items()}
  return t


def _record(tr, ad, a, args, template):
  try:
    obs = json.loads(canon(ad.step(a, args)))
    diag = {}
  except Exception as e:      # the code under test raised: not a behaviour of the spec
    obs, diag = None, {"exception": type(e).__name__ + ": " + str(e)[:200]}
  wf = obs is not None and conform(obs, template)
  if not wf:
    if obs is not None:
      diag = {"malformed": obs}
    obs = _dummy(template)
  ev = dict(a=a, args=args, obs=obs, wf=wf)
  if diag:
    ev["diag"] = diag
  tr.append(ev)
  return wf


L3_STATIONS = [("a", "m1", 1), ("b", "m2", 2), ("a", "m3", 2), ("c", "m3", 3)]
L3_ARPSRCS = [(1, "m1", "m1", "a", 1), (2, "m2", "m2", "b", 1), (2, "m3", "m3", "a", 1), (3, "m3", "m3", "c", 1),
              (1, "m1", "mx", "a", 1), (1, "m1", "m1", "z", 1), (2, "m2", "m2", "b", 6)]
L3_TARGETS = ["a", "b", "c", "g"]
DELTAS = [1, 1, 2, 3, 4, 5, 5, 6, 9, 10, 11, 55, 60, 111, 119, 120, 121]


def drive_l3(arg):
  """seeded random run of the real l3_learning; biased towards bursts for one unknown address"""
  seed, n = arg
  from harness.adapters_x05 import L3Adapter
  rnd = random.Random(seed)
  p = dict(L3_REAL)
  p["variant"] = seed % 3
  ad = L3Adapter(**p)
  tr = []
  burst = None
  try:
    while len(tr) < n:
      k = rnd.random()
      if burst and k < 0.55:
        st, dip = burst
        a, args = "IpIn", dict(ip=st[0], mac=st[1], p=st[2], dip=dip)
        if rnd.random() < 0.15:
          burst = None
      elif k < 0.35:
        st = rnd.choice(L3_STATIONS)
        dip = rnd.choice(L3_TARGETS)
        a, args = "IpIn", dict(ip=st[0], mac=st[1], p=st[2], dip=dip)
        if rnd.random() < 0.4:
          burst = (rnd.choice(L3_STATIONS), dip)
      elif k < 0.6:
        s = rnd.choice(L3_ARPSRCS)
        a, args = "ArpIn", dict(p=s[0], es=s[1], sha=s[2], spa=s[3], ht=s[4], op=rnd.choice([1, 1, 2]),
                                tpa=rnd.choice(L3_TARGETS))
      elif k < 0.63:
        a, args = "OtherIn", dict(p=rnd.randint(1, 3))
      else:
        a, args = "Tick", dict(d=rnd.choice(DELTAS if rnd.random() < 0.5 else [1, 2, 4, 5]))
      if not _record(tr, ad, a, args, _l3_template(p["ips"], a == "Tick")):
        break
  finally:
    ad.close()
  return tr


ARP_SRCS = [(1, "m1", "mx", "a"), (1, "m1", "m3", "a"), (2, "m2", "m2", "b"), (2, "ms", "ms", "h"), (2, "m3", "m3", "h"),
            (1, "m1", "m1", "z"), (2, "m2", "m2", "g")]
ARP_IPS = ["a", "b", "h", "g"]
ARP_DELTAS = [1, 2, 4, 5, 5, 6, 10, 115, 119, 120, 121, 230, 235, 239, 240, 241]


def drive_arp(arg):
  seed, n = arg
  from harness.adapters_x05 import ArpAdapter
  rnd = random.Random(seed)
  p = dict(ARP_REAL)
  p["variant"] = seed % 3
  ad = ArpAdapter(**p)
  tr = []
  tmpl = _arp_template(p["ips"])
  try:
    _record(tr, ad, "Up", dict(x=0), tmpl)
    while len(tr) < n:
      k = rnd.random()
      if k < 0.55:
        s = rnd.choice(ARP_SRCS)
        a, args = "ArpIn", dict(p=s[0], es=s[1], sha=s[2], spa=s[3], op=rnd.choice([1, 1, 2]),
                                tpa=rnd.choice(ARP_IPS), vl=rnd.random() < 0.2)
      elif k < 0.6:
        a, args = "OtherIn", dict(p=rnd.randint(1, 3))
      elif k < 0.66:
        a, args = "Set", dict(ip=rnd.choice(["a", "h"]), mac=rnd.choice(["m2", "SW"]), static=rnd.random() < 0.5)
      elif k < 0.7:
        ip = rnd.choice(["a", "h", "b"])
        if ad.project()["tbl"][ip][0] == "-":       # `del arp[ip]` of a missing entry is a KeyError, not modelled
          continue
        a, args = "Del", dict(ip=ip)
      else:
        a, args = "Tick", dict(d=rnd.choice(ARP_DELTAS if rnd.random() < 0.5 else [1, 4, 5]))
      if not _record(tr, ad, a, args, tmpl):
        break
  finally:
    ad.close()
  return tr


def strict_demo():
  """NOT part of run(ctx).  Replays the behaviours of the Strict = TRUE specs (documented intent, deviations
  switched off) on the unchanged code and prints what is rejected - the evidence behind the section
  "Defects observed" of notes/X05.md.   cd /verif && /venv/bin/python -c "import props.X05 as p; p.strict_demo()" """
  for mod, cfg, adapter, params in (("MCL3", "EX_strict.cfg", L3_ADAPTER, L3_CFG["EX_edges_t5.cfg"]),
                                    ("MCArp", "EXA_strict.cfg", ARP_ADAPTER, ARP_CFG["EXA_edges_t1.cfg"])):
    r = tlc.run("l3", mod, cfg, workers=1, coverage=False, tag="X05", timeout=2400)
    behs = [sort_exp(b) for b in r.tagged("T")]
    ctx = core.Context("X05", "strict-demo", 0, "demo", clear=False)
    st = core.replay(ctx, adapter, behs, params=dict(params, variant=0))
    by = {}
    first = {}
    for sig, rep in ctx.violations:
      if rep is None:
        continue
      via = rep["behaviour"][rep["failing_step"]].get("via")
      by[via] = by.get(via, 0) + 1
      first.setdefault(via, rep)
    print("%s %s: %d behaviours, %s" % (mod, cfg, len(behs), st))
    print("  rejected at spec action: %s (counted for the first 2 of every signature)" % by)
    for via, rep in sorted(first.items()):
      print("  --- first rejection at %s" % via)
      for s in rep["behaviour"][:rep["failing_step"] + 1]:
        print("     %s %s" % (s["a"], canon(s["args"])))
      print("     expected msgs %s" % canon(rep["expected"].get("msgs")))
      print("     observed msgs %s" % canon(rep["observed"].get("msgs")))
      print("     expected st   %s" % canon(rep["expected"].get("st")))
      print("     observed st   %s" % canon(rep["observed"].get("st")))
