"""C10 - malformed OpenFlow input is contained.  FramingFaults.tla states what a decoder may do with each
class of malformed message; TLC model-checks containment on it.  The real I/O loops (controller:
OpenFlow_01_Task.run; switch: RecocoIOLoop.run + OFConnection) are driven as generators over scripted
sockets with every fault class x message kind x position x feeding plan, under a deterministic step
budget; TLC validates each recorded outcome trace against the spec (TraceFaults.tla)."""
import copy
import itertools
import random

from engine import tlc, core, tracecheck

CLASS_OF = {"OK": "ok", "HANDLER_RAISES": "raises", "HANDLER_CLOSES": "closes", "BAD_VERSION": "bad", "TYPE_UNKNOWN": "bad", "TYPE_WRONG_DIR": "tolerable",
            "LEN_LT_8": "nolen", "LEN_LT_NEEDED": "badlen", "LEN_GT_ACTUAL": "badlen",
            "INNER_LEN_BAD": "tolerable", "TRUNCATED": "partial", "MUTATED": "junk", "RANDOM": "junk"}


def drive(sc):
  """one scenario on the real loop; returns the trace dict"""
  from harness import c10_loops as L
  from harness import rawbytes as rb
  side, kind, fault, param, pos, la, plan = sc[:7]
  prev = sc[7] if len(sc) > 7 else None      # kind of the well-formed message right before the faulty one
  Loop = L.ControllerLoop if side == "ctl" else L.SwitchLoop
  fx = L.RAISE_XID if fault == "HANDLER_RAISES" else L.CLOSE_XID if fault == "HANDLER_CLOSES" else 10 + pos
  c = L.corrupt(side, kind, fx, fault, param)
  if c is None:
    return None
  # A's stream: ok messages around the faulty one; B: two ok messages
  msgs = {"A": [], "B": []}
  cls = {"A": [], "B": []}
  okk = ["echo", "barrier", "echo"]
  for i in range(1, la + 1):
    if i == pos:
      msgs["A"].append(c[0])
      # a HELLO announcing another version is version negotiation, not a malformed message
      cls["A"].append("tolerable" if (kind == "hello" and fault == "BAD_VERSION") else
                      "short" if c[2] == "short" else CLASS_OF[fault.split("+")[-1]])
    else:
      msgs["A"].append(L.good(side, prev if (prev and i == pos - 1) else okk[i % 3], 10 + i))
      cls["A"].append("ok")
  msgs["B"] = [L.good(side, "echo", 101), L.good(side, "barrier", 102)]
  cls["B"] = ["ok", "ok"]
  xid2idx = {"A": {10 + i: i for i in range(1, la + 1)}, "B": {101: 1, 102: 2}}
  xid2idx["A"][fx] = pos
  if plan == "batch":
    feeds = [("A", la), ("B", 1), ("B", 1)]
  elif plan == "single":
    feeds = [("B", 1)] + [("A", 1)] * la + [("B", 1)]
  elif plan == "together":    # (controller loop) A's whole stream and B's first message readable in the same select round
    feeds = [("A+B", la), ("B", 1)]
  else:  # "split": everything before the fault, then the rest
    feeds = [("A", pos - 1)] if pos > 1 else []
    feeds += [("B", 1), ("A", la - pos + 1), ("B", 1)]
  events = []
  fed = {"A": 0, "B": 0}
  nxt = {"A": 1, "B": 1}
  isopen = {"A": True, "B": True}
  lp = Loop(["A", "B"])
  try:
    for (cn, k) in feeds:
      also = None
      if cn == "A+B":
        cn = "A"
        also = ("B", msgs["B"][fed["B"]])
      if k == 0 or not lp.alive or not isopen[cn]:
        continue        # nothing is sent on a connection the other side has closed
      data = b"".join(msgs[cn][fed[cn]:fed[cn] + k])
      last = fed[cn] + k == len(msgs[cn])
      eof = last and cls[cn][-1] == "partial"
      events.append({"e": "feed", "c": cn, "k": k, "i": 0})
      fed[cn] += k
      if eof:
        events.append({"e": "eof", "c": cn, "k": 0, "i": 0})
      if also is not None:
        events.append({"e": "feed", "c": "B", "k": 1, "i": 0})
        fed["B"] += 1
        o = lp.feed(cn, data, eof=eof, also=also)
      else:
        o = lp.feed(cn, data, eof=eof)
      if o["diverged"]:
        events.append({"e": "diverged", "c": cn, "k": 0, "i": 0})
        break
      for x in ("A", "B"):
        # error replies written on this connection, in order: the index (in this connection's stream) of the
        # message whose transaction id each of them carries (0: no message of the stream has that id)
        try:
          errs = [xid2idx[x].get(m["xid"], 0) for m in rb.parse_stream(o["wrote"][x]) if m["type"] == rb.ERROR]
        except rb.ParseError:
          errs = [0]
        nerr = len(errs)
        junk = (cls[x].index("junk") + 1) if "junk" in cls[x] else None
        for (t, xid, raw) in o["new"][x]:
          if junk and nxt[x] > junk:           # framing was given up at the junk message: anything goes
            events.append({"e": "garbage", "c": x, "k": 0, "i": 0})
            continue
          idx = xid2idx[x].get(xid, 0)
          if junk and nxt[x] == junk and fed[x] >= junk and (idx == 0 or idx >= junk):
            idx = junk                          # whatever came out of the junk bytes counts as its delivery
          elif idx and idx >= nxt[x] and idx <= fed[x]:
            orig = msgs[x][idx - 1]
            if cls[x][idx - 1] in ("ok", "raises", "closes"):
              # the delivered object must be the message that was sent: exact bytes for body-less / opaque-body
              # kinds, type and length for kinds POX re-encodes in normalised form
              exact = t in (rb.HELLO, rb.ECHO_REQUEST, rb.ECHO_REPLY, rb.BARRIER_REQUEST, rb.BARRIER_REPLY)
              if (exact and raw != orig) or orig[1] != t or len(raw) != len(orig):
                idx = 0
          else:
            idx = 0
          if idx == 0:
            events.append({"e": "garbage", "c": x, "k": 0, "i": 0})
            continue
          while nxt[x] < idx:          # messages passed over before this delivery
            if nerr > 0:
              nerr -= 1
              events.append({"e": "error", "c": x, "k": errs.pop(0), "i": nxt[x]})
            else:
              events.append({"e": "skipq", "c": x, "k": 0, "i": nxt[x]})
            nxt[x] += 1
          events.append({"e": "deliver", "c": x, "k": 0, "i": idx})
          nxt[x] = idx + 1
        if o["closed"][x] and isopen[x]:
          isopen[x] = False
          events.append({"e": "close", "c": x, "k": 0, "i": 0})
        elif isopen[x]:
          while nxt[x] <= fed[x] and nerr > 0 and not (junk and nxt[x] > junk):
            nerr -= 1                  # error replies answer the next unresolved messages
            events.append({"e": "error", "c": x, "k": errs.pop(0), "i": nxt[x]})
            nxt[x] += 1
          if o["residual"][x] == 0:
            while nxt[x] <= fed[x] and not (junk and nxt[x] > junk):
              events.append({"e": "skipq", "c": x, "k": 0, "i": nxt[x]})   # consumed, no delivery, no reply
              nxt[x] += 1
          for _ in range(nerr):
            events.append({"e": "garbage", "c": x, "k": 0, "i": 0})
      if not o["alive"]:
        events.append({"e": "died", "c": cn, "k": 0, "i": 0})
        break
  finally:
    lp.close()
  events.append({"e": "end", "c": "A", "k": 0, "i": 0})
  return {"streams": cls, "events": events, "scenario": list(sc)}


def hung(sc):
  """the scenario never returned even under the step budget: the loop hangs"""
  la = sc[5]
  return {"streams": {"A": ["ok"] * la, "B": ["ok", "ok"]}, "scenario": list(sc),
          "events": [{"e": "feed", "c": "A", "k": 1, "i": 0}, {"e": "diverged", "c": "A", "k": 0, "i": 0}]}


def scenarios(quick, rnd):
  from harness import c10_loops as L
  out = []
  for side in ("ctl", "sw"):
    for fault in L.FAULTS:
      for kind in L.KINDS[side]:
        params = range(3) if quick else range(6)
        for param in params:
          for (la, pos) in ([(3, 2), (1, 1), (2, 2)] if quick else [(1, 1), (2, 1), (2, 2), (3, 1), (3, 2), (3, 3)]):
            if fault == "TRUNCATED" and pos != la:
              continue
            for plan in ("batch", "single", "split") + (("together",) if side == "ctl" else ()):
              out.append((side, kind, fault, param, pos, la, plan))
  # two corrupted fields in one header (version or type, and the length)
  for side in ("ctl", "sw"):
    for fault in L.COMPOUND:
      for kind in L.KINDS[side]:
        for param in (range(0, 8, 3) if quick else range(16)):
          for plan in ("batch", "single"):
            out.append((side, kind, fault, param, 2, 3, plan))
  # every kind of well-formed message right before a header fault, in the same read and in its own
  for side in ("ctl", "sw"):
    for fault in L.HEADER_FAULTS + L.COMPOUND[:2]:
      for kind in (("echo", "barrier") if quick else L.KINDS[side]):
        for prev in L.KINDS[side]:
          for plan in ("batch", "single"):
            out.append((side, kind, fault, 0 if quick else 1, 2, 3, plan, prev))
  # random mutations of valid messages and fully random byte strings (containment only)
  nfuzz = 40 if quick else 600
  for side in ("ctl", "sw"):
    for kind in L.KINDS[side]:
      for j in range(nfuzz // 8):
        prm = rnd.randrange(1 << 20)
        out.append((side, kind, "MUTATED", prm, 2, 3, ("batch", "single")[j % 2]))
    for j in range(nfuzz):
      out.append((side, "echo", "RANDOM", rnd.randrange(1 << 20), 1 + j % 2, 2, ("batch", "single", "split")[j % 3]))
  # all-ok control scenarios
  for side in ("ctl", "sw"):
    for plan in ("batch", "single"):
      out.append((side, "echo", "OK", 0, 2, 3, plan))
  return out


def run(ctx):
  quick = ctx.tier == "quick"
  ctx.rule = ("scenario = (side, message kind, fault class, parameter, position of the faulty message in a stream "
              "of 1-3 messages on connection A, feeding plan) with valid traffic on connection B; run on the real "
              "I/O loop generators over scripted sockets under a step budget; the recorded outcome events (feed, "
              "deliver, error reply with the index of the message whose transaction id it carries, quiet skip, close, "
              "garbage-after-desync, died, diverged) are validated by TLC "
              "against FramingFaults.tla; distinct = distinct scenarios")
  ctx.assumptions = ["fault classes: bad version, unknown type, wrong-direction type, length <8, length < fixed part, "
                     "length > sent, bad embedded action/entry/property length, truncation at end of stream",
                     "8 message kinds per side; quick: 2 parameter values per class, thorough: 6, plus random byte mutations",
                     "a step budget of 200k line events inside the pox package stands for termination"]
  r = tlc.run("framing", "MCFramingFaults", "MC_faults.cfg", tag="C10")
  if r.violated:
    raise tlc.TLCError("FramingFaults violates %s:\n%s" % (r.violated, r.error_trace[:2000]))
  tlc.require_coverage(r, ["Feed", "Eof", "Deliver", "SkipWithError", "SkipQuietly", "Close", "Garbage"], "MC_faults")
  ctx.add_model("FramingFaults MC_faults", r)
  rnd = random.Random(ctx.seed)
  scs = scenarios(quick, rnd)
  traces = [t for t in core.run_driver_guarded("props.C10:drive", scs, hung, chunk=25) if t is not None]
  # vacuity guard: every scenario must have fed both connections something, on both sides of the protocol
  idle = [t["scenario"] for t in traces if sum(1 for e in t["events"] if e["e"] == "feed") < 2
          and not any(e["e"] in ("died", "diverged") for e in t["events"])]
  if idle:
    raise core.Machinery("%d scenarios fed nothing to the loop (harness broken), e.g. %s" % (len(idle), idle[0]))
  for side in ("ctl", "sw"):
    if not any(t["scenario"][0] == side and t["scenario"][2] == "HANDLER_CLOSES" and
               any(e["e"] in ("close", "died", "diverged") for e in t["events"]) for t in traces):
      raise core.Machinery("no %s scenario in which a handler gave its connection up and the close was seen" % side)
  # negative controls: a clean connection that gets closed; a dead loop
  ok_tr = [t for t in traces if t["scenario"][2] == "OK"]
  bad1 = copy.deepcopy(ok_tr[0])
  bad1["events"].insert(len(bad1["events"]) - 1, {"e": "close", "c": "B", "k": 0, "i": 0})
  bad2 = copy.deepcopy(ok_tr[0])
  bad2["events"].insert(2, {"e": "died", "c": "A", "k": 0, "i": 0})
  # ... and an error reply that carries another message's transaction id
  err_tr = [t for t in traces if t["scenario"][2] == "TYPE_UNKNOWN" and any(e["e"] == "error" and e["k"] for e in t["events"])]
  if not err_tr:
    raise core.Machinery("no scenario produced an attributed error reply (negative control impossible)")
  bad3 = copy.deepcopy(err_tr[0])
  for e in bad3["events"]:
    if e["e"] == "error" and e["k"]:
      e["k"] += 1
      break
  r, rej = tracecheck.validate("framing", "TraceFaults", "TraceFaults.cfg", traces + [bad1, bad2, bad3], tag="C10")
  ctx.add_model("TraceFaults (%d outcome traces)" % len(traces), r)
  rejd = dict(rej)
  n = len(traces)
  if n not in rejd or (n + 1) not in rejd or (n + 2) not in rejd:
    raise tlc.TLCError("negative control trace accepted")
  for t, m in sorted(rejd.items()):
    if t >= n:
      continue
    tr = traces[t]
    ev = tr["events"][m]
    side, kind, fault, param, pos, la, plan = tr["scenario"][:7]
    sig = dict(side=side, fault=fault, event=ev["e"], conn=ev["c"])
    ctx.report(sig, dict(trace=tr, failing_event=m, note="TLC rejected the recorded outcome at this event"))
  ctx.traces += n
  for t in traces:
    ctx.case(core.fp(t["scenario"]), sample={"scenario": t["scenario"], "events": t["events"][:10]})
  ctx.notes["scenarios"] = dict(total=n, rejected=len([t for t in rejd if t < n]))
  ctx.exhaustive = True


def replay_one(ctx, rep):
  """re-drive the recorded scenario on the current tree and let TLC judge the new outcome trace"""
  tr = drive(tuple(rep["trace"]["scenario"]))
  r, rej = tracecheck.validate("framing", "TraceFaults", "TraceFaults.cfg", [tr], tag="C10")
  for t, m in rej:
    ev = tr["events"][m]
    ctx.report(dict(side=tr["scenario"][0], fault=tr["scenario"][2], event=ev["e"], conn=ev["c"]),
               dict(trace=tr, failing_event=m))
