"""X10 - spanning_forest: port roles from discovery link events with link timeouts.

specs/forest/Forest.tla is model-checked (several small universes; MC_*.cfg), every transition of two small
universes and random deep behaviours of larger ones are replayed on the real component (real SoftwareSwitches,
real of_01 connections, synthetic LinkEvents) with comparison after every step, and histories recorded from the
real component under a seeded random environment - including histories in which the real discovery component
produces the LinkEvents from LLDP frames over simulated wires - are validated by TLC (TraceForest.tla), with
corrupted histories as negative controls.
"""
import concurrent.futures
import copy
import multiprocessing
import os
import random

from engine import tlc, core, tracecheck

SPEC = "forest"
ADAPTER = "harness.adapters_x10:Adapter"
ACTIONS = ["ConnUp", "Disconnect", "ConnDown", "LinkEv", "PortEv", "Tick", "Deliver", "Advance"]

# the universes of specs/forest/MCForest.tla, as the drivers / adapters need them
UNI = dict(
    lone=dict(n=1, ports={"1": [1, 2]}, links=[]),
    one=dict(n=2, ports={"1": [1, 2], "2": [1, 2]}, links=[[1, 1, 2, 1]]),
    pair=dict(n=2, ports={"1": [1, 2, 3], "2": [1, 2, 3]},
              links=[[1, 1, 2, 1], [1, 2, 2, 2], [1, 1, 2, 2], [1, 2, 1, 3]]),
    tri=dict(n=3, ports={"1": [1, 2, 3], "2": [1, 2, 3], "3": [1, 2, 3]},
             links=[[1, 1, 2, 1], [2, 2, 3, 1], [1, 2, 3, 2]]),
    tri2=dict(n=3, ports={"1": [1, 2], "2": [1, 2], "3": [1, 2]},
              links=[[1, 1, 2, 1], [2, 2, 3, 1], [1, 2, 3, 2]]),
    sq=dict(n=4, ports={str(s): [1, 2, 3, 4] for s in (1, 2, 3, 4)},
            links=[[1, 1, 2, 1], [2, 2, 3, 1], [3, 2, 4, 1], [1, 2, 4, 2], [1, 3, 3, 3], [2, 3, 4, 3], [1, 3, 2, 3]]),
)

ARGS0 = dict(s=0, fresh=False, add=False, l=[0, 0, 0, 0], dir="", p=0, k="")
OBS0 = dict(sent=[], tree=[], err="", cfg=[], tick=False)


def norm(b):
  """TLC prints sets in its own order: sort them the way the adapter does"""
  for st in b:
    e = st["exp"]
    if "sent" in e:
      e["sent"] = sorted([x[0], sorted(x[1])] for x in e["sent"])
      e["tree"] = sorted(e["tree"])
    if "cfg" in e:
      e["cfg"] = sorted(e["cfg"])
  return b


def params(uni, mode="stable", P=1, W=1, seed=0):
  u = UNI[uni]
  return dict(n=u["n"], ports=u["ports"], mode=mode, P=P, W=W, seed=seed)


# ---------------------------------------------------------------------------- model checking (child process)
def mc_jobs(quick):
  jobs = [("Forest: lone switch, P=2 W=3, port add/del/down/up, reboots (async channel)", "MC_lone.cfg"),
          ("Forest: one cable, P=1 W=1, reboots (async channel)", "MC_one.cfg"),
          ("Forest: one cable, port events on a cable port (eager channel)", "MC_onep1.cfg"),
          ("Forest: two parallel cables + refused links (eager channel)", "MC_pair.cfg"),
          ("Forest: one cable, Strict (cache forgotten on ConnectionUp): told = has without exemption",
           "MC_one_strict.cfg")]
  if not quick:
    jobs += [("Forest: one cable, port events on the cable port and a host port (eager channel)", "MC_onep.cfg"),
             ("Forest: one cable, port events, StrictHeal (a port coming up revives what discovery vouches for): "
              "HealsOnPortUp", "MC_onep1_heal.cfg"),
             ("Forest: triangle, stable (eager channel)", "MC_tri.cfg"),
             ("Forest: triangle, randomized / nx: every spanning forest (eager channel)", "MC_tri_rand.cfg"),
             ("Forest: two parallel cables, unstable (eager channel)", "MC_pair_unstable.cfg"),
             ("Forest: one cable, P=2 W=3 (async channel)", "MC_one_p2w3.cfg")]
  return jobs


def model_check_start(quick):
  jobs = mc_jobs(quick)
  mp = multiprocessing.get_context("fork")
  rx, tx = mp.Pipe(duplex=False)
  p = mp.Process(target=_mc_child, args=(jobs, quick, tx))
  p.start()
  tx.close()
  return p, rx, jobs


def _mc_child(jobs, quick, tx):
  def one(job):
    name, cfg = job
    try:
      return ("ok", tlc.run(SPEC, "MCForest", cfg, tag="X10", workers=(2 if quick else 3), timeout=1500))
    except Exception as e:        # noqa
      return ("err", "%s: %s" % (cfg, e))
  with concurrent.futures.ThreadPoolExecutor(max_workers=(len(jobs) if quick else 3)) as ex:
    res = list(ex.map(one, jobs))
  for k, r in res:
    if k == "ok":
      r.stdout = r.stdout[-4000:]
  tx.send(res)
  tx.close()


def model_check_finish(ctx, started):
  p, rx, jobs = started
  try:
    res = rx.recv()
  except EOFError:
    raise tlc.TLCError("model checking child died")
  finally:
    p.join(30)
  for (name, cfg), (k, r) in zip(jobs, res):
    if k != "ok":
      raise tlc.TLCError(r)
    if r.violated:
      raise tlc.TLCError("spec violates its own property %s (%s):\n%s" % (r.violated, cfg, r.error_trace))
    acts = [a for a in ACTIONS if not (a == "PortEv" and cfg in NO_PORT_EVENTS) and
            not (a == "LinkEv" and cfg == "MC_lone.cfg")]
    tlc.require_coverage(r, acts, cfg)
    ctx.add_model(name + " [" + cfg + "]", r)


NO_PORT_EVENTS = {"MC_one.cfg", "MC_pair.cfg", "MC_one_strict.cfg", "MC_tri.cfg", "MC_tri_rand.cfg",
                  "MC_pair_unstable.cfg", "MC_one_p2w3.cfg"}


# ---------------------------------------------------------------------------- code -> spec: random driver
def ev(a, args, obs):
  A = dict(ARGS0)
  A.update(args or {})
  O = dict(OBS0)
  O.update(obs)
  return dict(a=a, args=A, obs=O)


def drive(arg):
  """A seeded random environment around the real component; returns the recorded history."""
  seed, uni, mode, P, W, nsteps = arg
  from harness.adapters_x10 import Adapter
  rnd = random.Random(seed)
  random.seed(seed)                 # spanning_forest's randomized mode shuffles with the global generator
  u = UNI[uni]
  ad = Adapter(seed=seed, **{k: v for k, v in params(uni, mode, P, W).items() if k != "seed"})
  n = u["n"]
  allports = sorted(set(p for ps in u["ports"].values() for p in ps))
  conn = set()
  sports = {s: set(u["ports"][str(s)]) for s in range(1, n + 1)}
  down = {s: set() for s in sports}
  told = {s: set() for s in sports}          # ports named in the last batch written to s
  tr = []
  tick_due = False
  burst = 0

  def do(a, args):
    try:
      obs = ad.step(a, args)
    except Exception as e:           # adapter's own consistency checks (timer model): let TLC reject the step
      obs = dict(err="ADAPTER: %s: %s" % (type(e).__name__, str(e)[:100]))
    if "unexpected" in obs:
      obs = dict(err="ADAPTER: bytes written during Deliver")
    for x in obs.get("sent", []):
      told[x[0]] = set(q[0] for q in x[1])
    tr.append(ev(a, args, obs))
    return obs

  while len(tr) < nsteps:
    if tick_due:
      do("Tick", {})
      tick_due = False
      continue
    pend = [s for s in sorted(conn) if ad.net.pending(ad.d(s))]
    if burst > 0:                     # a calm period: drain the channels, let time pass
      burst -= 1
      if pend:
        do("Deliver", dict(s=pend[0]))
        continue
      tick_due = do("Advance", {}).get("tick", False)
      continue
    r = rnd.random()
    if r < 0.04:
      burst = W + 2 * P + 2 + len(pend)
    elif r < 0.24:
      tick_due = do("Advance", {}).get("tick", False)
    elif r < 0.40 and pend:
      do("Deliver", dict(s=rnd.choice(pend)))
    elif r < 0.52:
      off = [s for s in sports if s not in conn]
      if off and (rnd.random() < 0.8 or not conn):
        s = rnd.choice(off)
        do("ConnUp", dict(s=s, fresh=rnd.random() < 0.25))
        conn.add(s)
      elif conn and rnd.random() < 0.6:
        s = rnd.choice(sorted(conn))
        do("Disconnect", dict(s=s))
        do("ConnDown", dict(s=s))
        conn.discard(s)
    elif r < 0.85 and u["links"]:
      l = rnd.choice(u["links"])
      do("LinkEv", dict(add=rnd.random() < 0.7, l=list(l), dir=rnd.choice(["uv", "vu"])))
    elif r < 0.95:
      s = rnd.choice(sorted(sports))
      p = rnd.choice(allports)
      if p not in sports[s]:
        # environment assumption of the spec: a port deleted from a connected switch is not re-added before
        # the component has written a batch without it
        if s not in conn or p not in told[s]:
          do("PortEv", dict(s=s, p=p, k="add"))
          sports[s].add(p)
      else:
        k = rnd.choice(["down", "up", "del"] if rnd.random() < 0.5 else ["down", "up"])
        if k == "del" and len(sports[s]) > 1:
          do("PortEv", dict(s=s, p=p, k="del"))
          sports[s].discard(p)
          down[s].discard(p)
        elif k == "down" and p not in down[s]:
          do("PortEv", dict(s=s, p=p, k="down"))
          down[s].add(p)
        elif k == "up" and p in down[s]:
          do("PortEv", dict(s=s, p=p, k="up"))
          down[s].discard(p)
  ad.close()
  return tr


def corrupt(trace, how):
  """negative controls: a history the specification must reject"""
  t = copy.deepcopy(trace)
  for e in t:
    if e["obs"]["sent"]:
      if how == "flip":               # one port told something else
        pc = e["obs"]["sent"][0][1][0]
        pc[1] = 0 if pc[1] else 16
      elif how == "drop":             # a batch that was due is missing
        e["obs"]["sent"] = e["obs"]["sent"][1:]
      elif how == "tree":             # the tree is not what the mode function yields
        e["obs"]["tree"] = [] if e["obs"]["tree"] else [[1, 1, 2, 1]]
      return t
  return None


def G(kind, uni, mode, P, W, cfg, n, steps, lt=0):
  return dict(kind=kind, uni=uni, mode=mode, P=P, W=W, cfg=cfg, n=n, steps=steps, lt=lt)


# syn: seeded random environment with synthetic LinkEvents (props.X10:drive)
# e2e: the real Discovery produces the LinkEvents from LLDP over simulated wires (harness.x10_e2e:drive_e2e);
#      lt = discovery's link_timeout in seconds (W = lt / 8 s)
TRACE_GROUPS_QUICK = [G("syn", "pair", "stable", 1, 1, "Trace_pair_stable.cfg", 60, 90),
                      G("syn", "tri", "unstable", 2, 3, "Trace_tri_unstable.cfg", 40, 110),
                      G("syn", "sq", "randomized", 4, 5, "Trace_sq_randomized.cfg", 30, 160),
                      G("e2e", "sq", "stable", 2, 1, "Trace_sq_e2e_stable.cfg", 16, 150, 4)]
TRACE_GROUPS_THOROUGH = [G("syn", "pair", "stable", 1, 1, "Trace_pair_stable.cfg", 1200, 120),
                         G("syn", "tri", "unstable", 2, 3, "Trace_tri_unstable.cfg", 800, 150),
                         G("syn", "sq", "stable", 4, 5, "Trace_sq_stable.cfg", 600, 220),
                         G("syn", "sq", "randomized", 4, 5, "Trace_sq_randomized.cfg", 600, 220),
                         G("e2e", "sq", "stable", 2, 1, "Trace_sq_e2e_stable.cfg", 300, 250, 4),
                         G("e2e", "sq", "randomized", 2, 1, "Trace_sq_e2e_randomized.cfg", 150, 250, 4),
                         G("e2e", "sq", "stable", 4, 5, "Trace_sq_stable.cfg", 100, 500, 10)]


def items_of(g, seed):
  if g["kind"] == "syn":
    return [(seed * 100003 + i, g["uni"], g["mode"], g["P"], g["W"], g["steps"]) for i in range(g["n"])]
  return [(seed * 100003 + 50000 + i, g["mode"], g["P"], g["W"], g["lt"], g["steps"]) for i in range(g["n"])]


def validate_tlc(grp, traces):
  """TLC decides (thread-safe: touches no check state)"""
  cfg = grp["cfg"]
  controls = []
  for how in ("flip", "drop", "tree"):
    for t in traces:
      c = corrupt(t, how)
      if c is not None and c != t:
        controls.append((how, c))
        break
  if len(controls) < 3:
    raise tlc.TLCError("could not build the negative controls for %s" % cfg)
  r, rej = tracecheck.validate(SPEC, "TraceForest", cfg, traces + [c for _, c in controls], tag="X10")
  rejected = dict(rej)
  for j, (how, _) in enumerate(controls):
    if len(traces) + j not in rejected:
      raise tlc.TLCError("negative control '%s' was accepted by the trace specification (%s)" % (how, cfg))
  return r, rej, len(controls)


def account(ctx, grp, traces, items, r, rej, ncontrols):
  uni, mode, cfg = grp["uni"], grp["mode"], grp["cfg"]
  bad = 0
  for t, matched in sorted(rej):
    if t >= len(traces):
      continue
    bad += 1
    e = traces[t][matched]
    sig = dict(action=e["a"], via="trace" if grp["kind"] == "syn" else "e2e-trace", mode=mode, universe=uni)
    if e["a"] == "PortEv":
      sig["k"] = e["args"]["k"]
    if e["a"] == "LinkEv":
      sig["add"] = e["args"]["add"]
    if e["obs"]["err"]:
      sig["err"] = e["obs"]["err"][:60]
    ctx.report(sig, dict(kind="trace", group=grp, arg=list(items[t]), cfg=cfg, trace=traces[t][:matched + 1],
                         failing_step=matched, note="TLC rejected the history at this event"))
  ctx.traces += len(traces)
  for t in traces:
    ctx.case(core.fp([[e["a"], e["args"]] for e in t]), sample=None)
  ctx.add_model("TraceForest %s (%d %s implementation histories, %d events)" %
                (cfg, len(traces), grp["kind"], sum(len(t) for t in traces)), r)
  return dict(histories=len(traces), events=sum(len(t) for t in traces), rejected=bad,
              negative_controls_rejected=ncontrols,
              batches=sum(len(e["obs"]["sent"]) for t in traces for e in t),
              link_timeouts=sum(1 for t in traces for e in t if e["a"] == "LinkEv" and not e["args"]["add"]),
              disconnects=sum(1 for t in traces for e in t if e["a"] == "Disconnect"))


def validate_group(ctx, grp, traces, items):
  r, rej, nc = validate_tlc(grp, traces)
  return account(ctx, grp, traces, items, r, rej, nc)


# ---------------------------------------------------------------------------- the check
def pick(behs, keep, seed):
  """a deterministic sample (by content hash) of exported behaviours: 1 in `keep`"""
  if keep <= 1:
    return behs
  return [b for b in behs if (int(core.fp(b), 16) + seed) % keep == 0]


def witnesses(behs, what):
  """vacuity guard on the exports: the branches of the actions that matter must occur among the exported steps"""
  seen = set()
  for b in behs:
    for st in b:
      e = st["exp"]
      if e.get("sent"):
        seen.add(st["a"] + "+batch")
      if e.get("err"):
        seen.add(st["a"] + "+" + e["err"])
      if st["a"] == "ConnUp" and not e.get("sent"):
        seen.add("ConnUp-nobatch")
      if st["a"] == "ConnUp" and st["args"]["fresh"]:
        seen.add("ConnUp-fresh")
      if st["a"] == "LinkEv" and not st["args"]["add"] and e.get("sent"):
        seen.add("LinkEv-timeout+batch")
      if len(e.get("tree", [])) > 0:
        seen.add("tree")
  missing = [w for w in what if w not in seen]
  if missing:
    raise tlc.TLCError("vacuous export: no exported step shows %s" % missing)


def run(ctx):
  import time
  quick = ctx.tier == "quick"
  t0 = time.time()
  ctx.notes["phase_s"] = {}

  def lap(name):
    ctx.notes["phase_s"][name] = round(time.time() - t0, 1)

  ctx.rule = ("behaviours exported by TLC from Forest.tla (every transition of small universes; -simulate runs of "
              "larger ones) replayed on the real spanning_forest component over real SoftwareSwitches / of_01 "
              "connections, comparing the port_mod batches written, the component's tree, handler exceptions, the "
              "switch's port configuration and the timer after EVERY step; plus histories of the real component "
              "under a seeded random environment validated by TLC against TraceForest.tla (all invariants in every "
              "state); distinct = distinct action/argument sequences")
  ctx.assumptions = [
      "time is discrete in units of 1/P s; the component's timer period is P units, the waiting period W units "
      "(send_cycle_time = 4 W / P s); events that fall on a timer instant happen after the timer",
      "datapath ids and port numbers are concretised by order-preserving maps (boundary values included)",
      "a port deleted from a connected switch is not re-added before the component wrote a batch without it",
      "OpenFlow bytes are decoded by harness/rawbytes.py (struct only)",
      "nx mode is not run (networkx is not installed); randomized mode is validated against 'any spanning forest'"]
  # X10_SKIP_MC=1 (self-test aid for mutation screening on a loaded machine): skip the model checking of the
  # specification, which does not depend on the code under test; everything that touches the code still runs
  skip_mc = os.environ.get("X10_SKIP_MC") == "1"
  started = None if skip_mc else model_check_start(quick)
  s = ctx.seed
  # ---- TLC exports (all JVMs at once, before this process forks its workers)
  edges = [("EX_lone.cfg", params("lone", P=2, W=3, seed=s), "edges_lone", 4 if quick else 1)]
  if quick:
    edges += [("EX_oneq.cfg", params("one", seed=s + 5), "edges_one_eager_noreboot", 2)]
  else:
    edges += [("EX_onee.cfg", params("one", seed=s + 5), "edges_one_eager", 1),
              ("EX_one.cfg", params("one", seed=s + 2), "edges_one_async", 1),
              ("EX_pair.cfg", params("pair", seed=s + 3), "edges_pair", 1)]
  sims = [("EX_sim_pair.cfg", params("pair", "stable", 1, 1, s + 1), "sim_pair", 60 if quick else 1500, 50),
          ("EX_sim_tri.cfg", params("tri", "unstable", 2, 3, s + 2), "sim_tri_unstable", 60 if quick else 1500, 60)]
  if not quick:
    sims.append(("EX_sim_sq.cfg", params("sq", "stable", 4, 5, s + 3), "sim_sq", 1000, 80))
  jobs = [dict(spec_dir=SPEC, module="MCForest", cfg=cfg, workers=1, coverage=False, tag="X10", timeout=1500)
          for cfg, _, _, _ in edges]
  jobs += [dict(spec_dir=SPEC, module="MCForest", cfg=cfg, workers=1, coverage=False, simulate=dict(num=num),
                depth=depth + 1, seed=ctx.seed + 1, tag="X10", timeout=1500) for cfg, _, _, num, depth in sims]
  res = tlc.run_many(jobs, parallel=4)
  lap("exports")
  allb = []
  # ---- spec -> code: every transition of the small universes (quick: a deterministic sample of them)
  for (cfg, par, label, keep), r in zip(edges, res):
    behs = [norm(b) for b in r.tagged("T")]
    if not behs:
      raise tlc.TLCError("no behaviours exported by %s" % cfg)
    allb += behs
    sel = pick(behs, keep, s)
    st = core.replay(ctx, ADAPTER, sel, params=par, chunk=100)
    ctx.notes["replay_" + label] = dict(exported=len(behs), behaviours=len(sel), **st)
    lap(label)
  # ---- spec -> code: random deep behaviours
  for (cfg, par, label, num, depth), r in zip(sims, res[len(edges):]):
    behs, seen = [], set()
    for b in r.tagged("H"):            # TLC prints every successor at the last level: keep one per prefix
      k = core.fp([[st["a"], st["args"]] for st in b[:-1]])
      if k not in seen:
        seen.add(k)
        behs.append(norm(b))
    if len(behs) < num // 2:
      raise tlc.TLCError("simulation %s exported %d behaviours" % (cfg, len(behs)))
    allb += behs
    st = core.replay(ctx, ADAPTER, behs, params=par, chunk=10)
    ctx.notes["replay_" + label] = dict(behaviours=len(behs), depth=depth, **st)
    lap(label)
  witnesses(allb, ["ConnUp+batch", "ConnDown+batch", "LinkEv+batch", "LinkEv-timeout+batch", "PortEv+batch",
                   "Tick+batch", "LinkEv+RuntimeError", "LinkEv+AssertionError", "ConnUp-nobatch", "ConnUp-fresh",
                   "tree"])
  # ---- code -> spec
  groups = TRACE_GROUPS_QUICK if quick else TRACE_GROUPS_THOROUGH
  per = []
  for g in groups:
    items = items_of(g, s)
    fn = "props.X10:drive" if g["kind"] == "syn" else "harness.x10_e2e:drive_e2e"
    per.append((items, core.run_driver(fn, items)))
  lap("drive")
  with concurrent.futures.ThreadPoolExecutor(max_workers=4) as ex:
    outs = list(ex.map(lambda k: validate_tlc(groups[k], per[k][1]), range(len(groups))))
  for g, (items, traces), (r, rej, nc) in zip(groups, per, outs):
    ctx.notes["trace_%s_%s" % (g["kind"], g["cfg"][6:-4])] = account(ctx, g, traces, items, r, rej, nc)
  lap("validate")
  if skip_mc:
    ctx.notes["model_checking"] = "SKIPPED (X10_SKIP_MC=1)"
  else:
    model_check_finish(ctx, started)
  lap("model_checking_done")
  ctx.exhaustive = True


def replay_one(ctx, rep):
  if rep.get("kind") != "trace":
    core.replay(ctx, rep["adapter"], [rep["behaviour"]], params=rep.get("params"), procs=1)
    return
  g = rep["group"]
  arg = tuple(rep["arg"])
  fn = "props.X10:drive" if g["kind"] == "syn" else "harness.x10_e2e:drive_e2e"
  traces = core.run_driver(fn, [arg, arg, arg], procs=1)
  validate_group(ctx, g, traces, [arg] * 3)
