"""X06 - NAT translation table (pox/misc/nat.py): NatTable.tla model-checked, its transitions replayed on the
real NAT + ARPHelper over a real SoftwareSwitch, random implementation traces validated by TLC."""
import copy
import json
import random

from engine import tlc, core, tracecheck

ADAPTER = "harness.adapters_x06:Adapter"
CORE_ACTIONS = ["Start", "ArpReply", "OutNoGw", "OutNew", "OutReinstall", "OutFast", "InBlocked", "InFast",
                "InReinstall", "InUnsolicited", "Advance", "Expire"]
INVARIANTS = ["TypeOK", "KeysUnique", "NoSharedPort", "NoAmbiguousAnswer", "UsedConsistent", "PortInRange",
              "RoundTrip", "ExpiryPrompt", "TimerAlive"]


def skey(x):
  return json.dumps(x, sort_keys=True)


def sort_sets(b):
  for st in b:
    e = st["exp"]
    for k in ("em", "arp", "tbl", "used"):
      if k in e:
        e[k] = sorted(e[k], key=skey)
  return b


def nontrivial(b):
  return any(s["a"] in ("Out", "In") and s["args"].get("case") in ("new", "reinstall", "fast", "unsolicited", "blocked")
             for s in b)


def models(ctx, jobs):
  """jobs: [(cfg, name, actions that must have been taken)] - run concurrently"""
  res = tlc.run_many([dict(spec_dir="nat", module="MCNatTable", cfg=cfg, tag="X06", timeout=1500, workers=4)
                      for cfg, _, _ in jobs], parallel=4)
  for (cfg, name, need), r in zip(jobs, res):
    if r.violated:
      raise tlc.TLCError("spec violates its own property %s (%s):\n%s" % (r.violated, cfg, r.error_trace[:4000]))
    tlc.require_coverage(r, need, name)
    ctx.add_model(name, r)


def exports(cfgs, sim):
  """all export runs concurrently (each is single-threaded): edge covers + the simulation"""
  jobs = [dict(spec_dir="nat", module="MCNatTable", cfg=c, workers=1, coverage=False, tag="X06", timeout=1500)
          for c in cfgs]
  jobs.append(dict(spec_dir="nat", module="MCNatTable", cfg="EX_sim.cfg", workers=1, coverage=False, tag="X06",
                   timeout=1500, **sim))
  res = tlc.run_many(jobs, parallel=8)
  out = {}
  for c, r in zip(cfgs, res):
    out[c] = [sort_sets(b) for b in r.tagged("T")]
    if not out[c]:
      raise tlc.TLCError("no behaviours exported by " + c)
  return out, [sort_sets(b) for b in res[-1].tagged("H")]


def run(ctx):
  quick = ctx.tier == "quick"
  ctx.rule = ("behaviours exported by TLC from NatTable.tla (edge cover: shortest path to every abstract state + "
              "each outgoing transition, for seven constant sets; plus -simulate runs) replayed on the real NAT + "
              "ARPHelper over a real SoftwareSwitch, the full observation compared after every step; seeded random "
              "implementation traces validated by TLC against TraceNat.tla; distinct = distinct action/argument "
              "sequences; non-trivial = creates, re-installs or uses a mapping, or meets the unsolicited-traffic path")
  ctx.assumptions = [
      "NAT object created as nat.launch()'s got_lease() creates it; the DHCP client / NATDHCPD of launch() are not started",
      "one switch: inside ports 1,2, outside port 3 'wan0'; 2 inside hosts, 2 public peers + the DNS server, ports from small sets",
      "time in 30 s units on the virtual clock; the switch expires flows the instant their timeout is over; the NAT's own "
      "Timer(60) fires through the real scheduler hub exactly when due",
      "nat.random is a scripted source (the spec's rnd argument); FLOW_MEMORY_TIMEOUT is configured to 60/120 s in "
      "three of the edge covers and left at 600 s elsewhere",
      "projection of NAT._record_by_outgoing/_record_by_incoming/_used_ports/_gateway_eth is read after every step",
      "port exhaustion (16382 mappings) is model-checked with a toy range only; it is not reachable in the binding"]
  # 1. the properties on the model
  jobs = [("MC_t1.cfg", "one mapping, real time constants", CORE_ACTIONS + ["InNoGw", "ArpRequest", "Other"]),
          ("MC_t2.cfg", "two mappings, memory 120 s", CORE_ACTIONS),
          ("MC_ports.cfg", "toy port range (probing, wrap, exhaustion; Strict)",
           ["Start", "ArpReply", "OutNew", "OutNoPort", "OutFast", "InFast", "InUnsolicited", "InBlocked", "Advance",
            "Expire"]),
          ("MC_feat.cfg", "DNS hack, local destinations, 2 protocols, gateway MAC change, foreign station",
           CORE_ACTIONS + ["OutIgnored", "ArpRequest", "Other", "InNoGw"])]
  if not quick:
    jobs.append(("MC_time.cfg", "two mappings, real time constants", CORE_ACTIONS + ["ArpRequest", "Other"]))
  models(ctx, jobs)
  # 2. spec -> code: every transition of the abstract graphs
  plans = [("EX_edges_t1.cfg", dict(), 1),
           ("EX_edges_fb.cfg", dict(memT=2, max_buffers=0), 1),
           ("EX_edges_nd.cfg", dict(memT=2, dns=False, max_buffers=2), 1),
           ("EX_edges_pp.cfg", dict(memT=2, max_buffers=1), 4 if quick else 1),
           ("EX_edges_fa.cfg", dict(memT=2), 6 if quick else 1),
           ("EX_edges_t2.cfg", dict(memT=4), 6 if quick else 1)]
  num = 40 if quick else 600
  exported, simbehs = exports([p[0] for p in plans], dict(simulate=dict(num=num), depth=81, seed=ctx.seed + 1))
  for cfg, params, stride in plans:
    behs = exported.pop(cfg)
    total = len(behs)
    if stride > 1:      # quick tier: a seeded 1/stride sample; transitions that change the table are always kept
      off = ctx.seed % stride
      behs = [b for i, b in enumerate(behs) if i % stride == off or b[-1]["a"] in ("Expire", "Start") or
              b[-1]["args"].get("case") in ("new", "reinstall")]
    st = core.replay(ctx, ADAPTER, behs, params=params, nontrivial=nontrivial, chunk=100)
    ctx.notes["replay_" + cfg[3:-4]] = dict(exported=total, replayed=len(behs), params=params, **st)
  # 3. random deep behaviours over the large constant set
  behs = simbehs
  if len(behs) < num // 2:
    raise tlc.TLCError("simulation exported %d behaviours" % len(behs))
  st = core.replay(ctx, ADAPTER, behs, params=dict(), nontrivial=nontrivial, chunk=10)
  ctx.notes["replay_sim"] = dict(behaviours=len(behs), depth=80, **st)
  # 4. code -> spec: seeded random driver on the real code, traces validated by TLC
  ntr, nev = (120, 140) if quick else (1500, 180)
  traces = core.run_driver("props.X06:drive", [(ctx.seed * 100003 + i, nev) for i in range(ntr)])
  stats = {}
  for t in traces:
    for e in t:
      stats[e["a"]] = stats.get(e["a"], 0) + 1
  bad = None                                 # negative control: corrupt one observation of an accepted-looking trace
  for t in traces:
    for i, e in enumerate(t):
      if e["a"] == "Out" and e["obs"]["em"] and e["obs"]["fms"]:
        bad = copy.deepcopy(t)
        bad[i]["obs"]["em"][0]["sp"] += 1
        break
    if bad:
      break
  if bad is None:
    raise tlc.TLCError("no trace with a translated frame to corrupt for the negative control")
  bad2 = None                                # second control: a mapping that disappears one timer period early
  for t in traces:
    for i, e in enumerate(t):
      if e["a"] == "Expire" and i > 0 and len(e["obs"]["tbl"]) < len(t[i - 1]["obs"]["tbl"]):
        for j in range(i - 1, 0, -1):
          if t[j]["a"] == "Expire":
            bad2 = copy.deepcopy(t)
            for k in range(j, i):
              bad2[k]["obs"]["tbl"] = e["obs"]["tbl"]
              bad2[k]["obs"]["used"] = e["obs"]["used"]
            break
        break
    if bad2:
      break
  controls = [bad] + ([bad2] if bad2 else [])
  r, rej = tracecheck.validate("nat", "TraceNat", "Trace.cfg", traces + controls, tag="X06", timeout=2400)
  ctx.add_model("TraceNat (validation of %d implementation traces)" % ntr, r)
  rejected = set(t for t, _ in rej)
  for k in range(len(controls)):
    if len(traces) + k not in rejected:
      raise tlc.TLCError("negative control %d (corrupted trace) was accepted by the trace spec" % k)
  nrej = 0
  for t, matched in rej:
    if t >= len(traces):
      continue
    nrej += 1
    ev = traces[t][matched]
    ctx.report(dict(action=ev["a"], via="trace", args=ev["args"]),
               dict(trace=traces[t][:matched + 1], failing_step=matched, note="TLC rejected the trace at this event"))
  ctx.traces += len(traces)
  for t in traces:
    ctx.case(core.fp([[e["a"], e["args"]] for e in t]), sample=None)
  ctx.notes["trace_validation"] = dict(traces=len(traces), events=sum(len(t) for t in traces), per_action=stats,
                                       rejected=nrej, negative_controls_rejected=len(controls),
                                       early_expiry_control=bad2 is not None)
  ctx.exhaustive = True


# ------------------------------------------------------------------------------------------------------------
# the random driver (runs in worker processes)

X_SPORTS = [5000, 5001, 80, 65533]
X_DSTS = ["r1", "r2", "in", "h3"]
X_RNDS = [49152, 65533, 65534]
X_INPORTS = [5000, 5002, 49152]
FM_KEYS = {"wc", "inport", "es", "ed", "sip", "dip", "sp", "dp", "pr", "acts", "idle", "hard", "prio", "flags", "pkt"}
EM_KEYS = {"port", "es", "ed", "sip", "dip", "sp", "dp", "pr"}
ARP_KEYS = {"port", "op", "es", "ed", "sha", "spa", "tha", "tpa"}
TBL_KEYS = {"h", "sp", "d", "dp", "pr", "fake", "g"}
BLANK = dict(pin=-1, fms=[], em=[], arp=[], rnd=-1, frem=-1, err=-1, tbl=[], used=[], nflows=-1, gw="?", due=False)


def well_formed(o):
  try:
    return (set(o) == set(BLANK) and all(isinstance(o[k], int) and not isinstance(o[k], bool)
                                         for k in ("pin", "rnd", "frem", "err", "nflows"))
            and all(set(f) == FM_KEYS and isinstance(f["pkt"], bool) for f in o["fms"])
            and all(set(a) == {"t", "s", "n"} for f in o["fms"] for a in f["acts"])
            and all(set(e) == EM_KEYS for e in o["em"]) and all(set(e) == ARP_KEYS for e in o["arp"])
            and all(set(e) == TBL_KEYS for e in o["tbl"]) and all(set(e) == {"pr", "port"} for e in o["used"])
            and isinstance(o["gw"], str) and isinstance(o["due"], bool))
  except Exception:
    return False


def drive(arg):
  """Random operation sequence on the real NAT; returns the recorded trace."""
  seed, n = arg
  from harness.adapters_x06 import Adapter
  rnd = random.Random(seed)
  ad = Adapter(dns=True, max_buffers=rnd.choice([0, 3, 16]))
  tr = []

  def do(a, args):
    try:
      obs = json.loads(json.dumps(ad.step(a, args)))
      wf = well_formed(obs)
    except Exception as e:          # an exception escaping the adapter: recorded, never matched by the spec
      obs, wf = dict(BLANK, gw="exc:" + type(e).__name__), False
    if not wf:
      obs = dict(BLANK, gw=str(obs.get("gw", "?"))[:60] if isinstance(obs, dict) else "?")
    tr.append(dict(a=a, args=args, obs=obs, wf=wf))
    return obs

  p_adv = rnd.choice([0.1, 0.2, 0.35, 0.5])
  work = [dict(h=rnd.choice(["h1", "h2"]), sp=rnd.choice(X_SPORTS), d=rnd.choice(["r1", "r2", "in"]),
               dp=rnd.choice([53, 80]), pr=rnd.choice([6, 17])) for _ in range(3)]
  obs = do("Start", dict(late=rnd.random() < 0.3))
  learn_at = rnd.choice([1, 1, 2, 4])
  try:
    while len(tr) < n:
      if obs["due"]:
        obs = do("Expire", dict(x=0))
        continue
      if len(tr) == learn_at:
        obs = do("ArpReply", dict(port=3, spa="gwip", sha="gw"))
        continue
      k = rnd.random()
      if k < p_adv:
        # idle stretches: several units at once now and then
        for _ in range(rnd.choice([1, 1, 1, 1, 2, 2, 3, 5, 21])):
          obs = do("Advance", dict(x=0))
          if obs["due"]:
            obs = do("Expire", dict(x=0))
          if len(tr) >= n:
            break
      elif k < p_adv + (1 - p_adv) * 0.5:
        if rnd.random() < 0.8:
          a = dict(rnd.choice(work))
        else:
          a = dict(h=rnd.choice(["h1", "h2"]), sp=rnd.choice(X_SPORTS), d=rnd.choice(X_DSTS),
                   dp=rnd.choice([53, 80]), pr=rnd.choice([6, 17]))
        a["rnd"] = rnd.choice(X_RNDS) if a["sp"] < 1024 else 0
        obs = do("Out", a)
      elif k < p_adv + (1 - p_adv) * 0.85:
        live = obs["tbl"]
        if live and rnd.random() < 0.75:
          m = rnd.choice(live)
          peer = "dns" if (m["d"] == "in" and m["dp"] == 53 and m["pr"] == 17) else m["d"]
          a = dict(via=m["g"], r=peer, rp=m["dp"], fp=m["fake"], pr=m["pr"])
          if rnd.random() < 0.25:      # almost the right answer
            f = rnd.choice(["via", "r", "rp", "pr"])
            a[f] = {"via": rnd.choice(["gw", "gw2", "other"]), "r": rnd.choice(["r1", "r2", "dns"]),
                    "rp": rnd.choice([53, 80]), "pr": rnd.choice([6, 17])}[f]
        else:
          ports = X_INPORTS + [m["fake"] for m in live]
          a = dict(via=rnd.choice(["gw", "gw2", "other"]), r=rnd.choice(["r1", "r2", "dns"]), rp=rnd.choice([53, 80]),
                   fp=rnd.choice(ports), pr=rnd.choice([6, 17]))
        if a["fp"] == 0 or a["r"] not in ("r1", "r2", "dns"):
          continue
        obs = do("In", a)
      elif k < p_adv + (1 - p_adv) * 0.9:
        obs = do("ArpReply", dict(port=rnd.choice([3, 1]), spa=rnd.choice(["gwip", "r1"]),
                                  sha=rnd.choice(["gw", "gw", "gw2"])))
      elif k < p_adv + (1 - p_adv) * 0.96:
        if rnd.random() < 0.4:
          obs = do("ArpRequest", dict(port=3, asker="gw", tpa=rnd.choice(["out", "gwip"])))
        else:
          h = rnd.choice(["h1", "h2"])
          obs = do("ArpRequest", dict(port=1 if h == "h1" else 2, asker=h,
                                      tpa=rnd.choice([x for x in ["in", "out", "r1", "h1", "h2", "h3"] if x != h])))
      else:
        if obs["gw"] != "none":
          obs = do("Other", dict(kind=rnd.choice(["icmp_out", "icmp_in", "in_other"])))
  finally:
    ad.close()
  return tr
