"""X18 - recoco work consumers (pox/lib/recoco/consumer.py) and event waiters (pox/lib/recoco/events.py).

specs/consumer/WorkConsumer.tla and EventWaiter.tla are model-checked (safety as built, the intended design
with Strict = TRUE, liveness); behaviours exported by TLC (one per transition of the abstract state graph, plus
deep random ones) are replayed on the real code - a real recoco Scheduler whose cooperative thread is a real
thread stepped by the harness, so foreign-thread calls are really foreign and can fall between two work items
of a batch - with comparison after every step; traces recorded from the real code under a seeded random driver
are validated by TLC.  See notes/X18.md.
"""
import copy
import json
import random
import time as _time

from engine import tlc, core, tracecheck

SPEC = "consumer"
AD_W = "harness.adapters_x18:ConsumerAdapter"
AD_E = "harness.adapters_x18:WaiterAdapter"
MOD = {AD_W: "MCWorkConsumer", AD_E: "MCEventWaiter"}
ACT_W = ["New", "AddWork", "FSched", "Stop", "Cycle", "Finish", "Idle"]
ACT_E = ["Register", "Other", "Raise", "FSched", "Start", "Cycle", "Yield", "Get"]
PROPS_W = ["TypeOK", "ExactlyOnceInOrder", "NothingLost", "BatchBound", "WorkImpliesScheduled", "NoLostWakeup",
           "AtMostTwiceReady", "SleepsWhenIdle", "StoppedStartsNothing", "OneAtATime", "WakeSignalled"]
PROPS_W_STRICT = PROPS_W + ["AtMostOnceReady", "NoApiError", "DiesOnlyWhenStopped"]
PROPS_E = ["TypeOK", "ExactlyThoseEvents", "NeverResumedEmpty", "NoLostWakeup", "NoSpuriousWake", "AtMostOnceReady",
           "ArmedOnlyWhileWaiting", "OneTakesOne", "AllTakesAll", "ResumedBySchedulerOnly"]
PROPS_E_STRICT = PROPS_E + ["TaskSurvives", "NoApiError"]
# every branch of every action (args.br in the exported behaviours) must have been replayed: vacuity guard of
# the replay itself, including the named deviations
BR_W = {"New": ["started", "idle"],
        "AddWork": ["ScheduleTask", "AlreadyReady", "SelfAddDoubleSchedules", "Scheduled", "FlexAddWorkRaises", "ForeignAppended"],
        "FSched": ["-"],
        "Cycle": ["RunSTNoop", "RunSTWakes", "EmptyStep", "BeginBatch", "EndTask", "DropDead"],
        "Finish": ["EndOfStepSleep", "EndOfStepRequeue", "NextItem", "KilledByBaseException"],
        "Idle": ["Woken", "Waits"], "Stop": ["-"]}
BR_E = {"Register": ["WeakRegisterRaises", "RegisterHalfDone", "Registered"],
        "Other": ["OtherListenerRejected", "Added"],
        "Raise": ["NotSubscribed", "Queued", "WakesViaScheduleTask", "Wakes", "DisarmedNotYetScheduled"],
        "FSched": ["-"],
        "Cycle": ["RunST", "Resume-none", "Resume-one", "Resume-all", "DefaultRfKillsTask"],   # (DropDead is unreachable: a task inside its body is never queued)
        "Yield": ["WaitFindsEvents", "WaitBlocks", "resched", "exit"],
        "Get": ["Nothing", "Events"], "Start": ["-"]}

JVM_SHORT = {"JAVA_TOOL_OPTIONS": "-XX:ParallelGCThreads=2 -XX:TieredStopAtLevel=1"}
TRACE_W = dict(batch=[2, 3], lo=[1], flex=[2])      # = specs/consumer/TraceW.cfg


def mc_job(module, cfg, workers=2, cov=True, short=True):
  # (short runs spend most of their CPU in JIT compilation and GC threads: keep them light; long ones need the JIT)
  return dict(spec_dir=SPEC, module=module, cfg=cfg, tag="X18", timeout=2400, workers=workers, coverage=cov,
              env=JVM_SHORT if short else None)


def ex_job(module, cfg):
  return dict(spec_dir=SPEC, module=module, cfg=cfg, workers=1, coverage=False, tag="X18", timeout=2400, env=JVM_SHORT)


def sim_job(ctx, module, cfg, num, depth, off):
  return dict(spec_dir=SPEC, module=module, cfg=cfg, workers=1, coverage=False, simulate=dict(num=num),
              depth=depth + 1, seed=ctx.seed + 41 + off, tag="X18", timeout=2400, env=JVM_SHORT)


def take(ctx, r, tag, cap):
  """behaviours printed by TLC under `tag`, sampled BEFORE decoding; returns (number exported, branches seen in
  the last steps of ALL exported behaviours, sampled behaviours)"""
  raw = r.tagged_raw(tag)
  nall = len(raw)
  if cap and nall > cap:
    raw = random.Random(ctx.seed * 7919 + nall).sample(raw, cap)
  behs = [json.loads(json.loads(x)) for x in raw]
  r.stdout, r.prints = "", []
  return nall, behs


def branches(behs):
  s = set()
  for b in behs:
    for st in b:
      s.add((st["a"], st["args"].get("br")))
  return s


def corrupt_w(b):
  for st in reversed(b):
    if st["a"] == "Finish" and st["exp"]["ran"]:
      st["exp"]["ran"][0]["i"] += 1
      return True
  return False


def corrupt_e(b):
  for st in reversed(b):
    if st["a"] == "Cycle" and st["exp"]["got"] and st["exp"]["got"][0]["ev"]:
      st["exp"]["got"][0]["ev"] = st["exp"]["got"][0]["ev"][1:] + [99]
      return True
  return False


def negative_control(ctx, adapter, beh, params, corrupt):
  """corrupt one expectation of a conforming behaviour: the replay must report it"""
  bad = copy.deepcopy(beh)
  if not corrupt(bad):
    return False
  c2 = core.Context(ctx.pid, ctx.tier, ctx.seed, ctx.level, clear=False)
  c2.known = []
  core.replay(c2, adapter, [bad], params=params, procs=1)
  if not c2.violations:
    raise core.Machinery("negative control: a corrupted expectation was not reported by the replay (%s)" % adapter)
  return True


def replay_set(ctx, name, adapter, nall, behs, params, chunk=200):
  if not behs:
    raise tlc.TLCError("no behaviours exported by " + name)
  t0 = _time.time()
  st = core.replay(ctx, adapter, behs, params=params, chunk=chunk, nontrivial=lambda b: len(b) > 1)
  ctx.notes["replay " + name] = dict(exported=nall, replayed=len(behs), params=params,
                                     wall_s=round(_time.time() - t0, 1), **st)
  return st


def run(ctx):
  quick = ctx.tier == "quick"
  ctx.rule = ("behaviours exported by TLC from specs/consumer/WorkConsumer.tla and EventWaiter.tla (edge cover: the "
              "shortest path to every abstract state plus each outgoing transition; plus -simulate runs) replayed on the "
              "real BaseConsumer / FlexConsumer / ReventWaiter / WaitOnEvents on a real recoco Scheduler whose cooperative "
              "thread is a real thread stepped by the harness (foreign-thread calls are made from another thread, also "
              "between two work items of a batch and while the waiting task is inside its body); after every step the "
              "ready deque, work queues, consumer states, item in progress, items that ended and how, wake-up byte, hub "
              "registrations / subscriptions, queued events, arming flag, task state, return function, what the task "
              "was handed, and the error raised by the call are compared with the spec; plus traces of a seeded random "
              "driver validated by TLC; distinct = distinct action/argument sequences; non-trivial = more than one action")
  ctx.assumptions = [
      "bounds: <=2 consumers (batch sizes 1..3, one with priority < 1, one FlexConsumer), <=4 items per consumer "
      "exhaustively (12 in simulation, unbounded in traces), <=2 pending ScheduleTasks; 1-2 event types, <=3 events "
      "exhaustively (14 in simulation), one waiting task, at most one other listener per event type",
      "the interleaving points of a foreign thread are: between scheduler cycles, and inside a work item / inside the "
      "task's body (not between two byte codes of add_work / _check: C07 covers the hand-off at that granularity)",
      "the scheduler's random draws (priority < 1) are an input scripted by the spec; time never moves (nothing here sleeps)",
      "the named deviations (FlexAddWorkRaises, SelfAddDoubleSchedules, KilledByBaseException, DefaultRfKillsTask, "
      "RegisterHalfDone, OtherListenerRejected, WeakRegisterRaises) are part of the spec with Strict = FALSE: see "
      "notes/X18.md 'Defects observed'; the intended design (Strict = TRUE) is model-checked with all properties",
      "waitAll is 'wait, then take all queued events' (what the code does; nothing documents another intent)"]

  pw1, pw2 = dict(batch=[2]), dict(batch=[1, 2], lo=[2], flex=[2])
  pe1, pe2 = dict(ne=1), dict(ne=2)
  W, E = "MCWorkConsumer", "MCEventWaiter"
  # (module, cfg, actions for the vacuity guard, properties)
  mcs = [(W, "MC_W1.cfg", ACT_W, PROPS_W), (W, "MC_W2q.cfg", [a for a in ACT_W if a != "FSched"], PROPS_W),
         (W, "STRICT_MC_W1.cfg", ACT_W, PROPS_W_STRICT), (W, "LIVE_W1.cfg", None, ["EveryItemExecuted"]),
         (E, "MC_E1.cfg", ACT_E, PROPS_E), (E, "MC_E2.cfg", [a for a in ACT_E if a != "Other"], PROPS_E),
         (E, "STRICT_MC_E1.cfg", ACT_E, PROPS_E_STRICT), (E, "LIVE_E.cfg", None, ["EventuallyResumed"])]
  if not quick:
    mcs += [(W, "LIVE_W.cfg", None, ["EveryItemExecuted"]), (W, "MC_W2.cfg", ACT_W, PROPS_W), (W, "STRICT_MC_W2.cfg", ACT_W, PROPS_W_STRICT),
            (W, "MC_W3.cfg", ACT_W, PROPS_W), (E, "MC_E3.cfg", ACT_E, PROPS_E),
            (E, "STRICT_MC_E3.cfg", ACT_E, PROPS_E_STRICT)]
  # (module, cfg, adapter, params, cap quick, cap thorough)
  exs = [(W, "EX_edges_W1.cfg", AD_W, pw1, None, None),
         (W, "EX_edges_W2q.cfg", AD_W, pw2, 2500, 20000),
         (E, "EX_edges_E1.cfg", AD_E, pe1, 2500, 20000),
         (E, "EX_edges_E2.cfg", AD_E, pe2, 2000, 20000)]
  if not quick:
    exs += [(W, "EX_edges_W2s.cfg", AD_W, pw2, None, 20000)]       # two consumers with pre-empted foreign threads
  n = 150 if quick else 1500
  sims = [(W, "EX_sim_W.cfg", AD_W, TRACE_W, n, 40, 0),
          (E, "EX_sim_E.cfg", AD_E, pe2, n, 40, 1)]

  import concurrent.futures
  pool = concurrent.futures.ThreadPoolExecutor(10 if quick else 6)
  t0 = _time.time()
  sub = lambda job: pool.submit(lambda j=job: tlc.run(j.pop("spec_dir"), j.pop("module"), j.pop("cfg"), **j))   # noqa
  subx = lambda job, tag, cap: pool.submit(                                                                      # noqa
      lambda j=job: take(ctx, tlc.run(j.pop("spec_dir"), j.pop("module"), j.pop("cfg"), **j), tag, cap))
  f_ex = [subx(ex_job(m, c), "T", capq if quick else capt) for m, c, _, _, capq, capt in exs]
  f_sim = [subx(sim_job(ctx, m, c, num, d, off), "H", None) for m, c, _, _, num, d, off in sims]
  f_mc = [sub(mc_job(m, c, workers=2 if quick else 4, short=quick)) for m, c, _, _ in mcs]
  try:
    _stages(ctx, quick, mcs, exs, sims, f_mc, f_ex, f_sim, pool, t0)
  finally:
    pool.shutdown(wait=True, cancel_futures=True)


def _stages(ctx, quick, mcs, exs, sims, f_mc, f_ex, f_sim, pool, t0):
  # ---- spec -> code: every transition of the abstract state graphs (sampled where capped)
  done_nc = set()
  seen_br = {AD_W: set(), AD_E: set()}
  for (m, c, ad, prm, capq, capt), f in zip(exs, f_ex):
    nall, behs = f.result()
    replay_set(ctx, c, ad, nall, behs, prm)
    seen_br[ad] |= branches([behs[i] for i in core.replay.last_ok])
    if ad not in done_nc:
      cor = corrupt_w if ad == AD_W else corrupt_e
      oks = [behs[i] for i in core.replay.last_ok]
      oks = [b for b in oks if cor(copy.deepcopy(b))]
      if oks and negative_control(ctx, ad, max(oks, key=len), prm, cor):
        done_nc.add(ad)
  if done_nc != {AD_W, AD_E} and not ctx.violations:
    raise core.Machinery("negative control of the replay could not be run for %s" % sorted({AD_W, AD_E} - done_nc))
  ctx.notes["replay_negative_controls"] = "corrupted expectation reported for: %s" % sorted(done_nc)
  if not ctx.violations:
    for ad, table in ((AD_W, BR_W), (AD_E, BR_E)):
      missing = [(a, b) for a, bs in table.items() for b in bs if (a, b) not in seen_br[ad]]
      if missing:
        raise core.Machinery("branches of the spec never replayed to the end (%s): %s" % (ad, missing))
  ctx.notes["branches_replayed"] = {ad.split(":")[1]: sorted("%s/%s" % x for x in s) for ad, s in seen_br.items()}

  # ---- deep random behaviours
  for (m, c, ad, prm, num, d, off), f in zip(sims, f_sim):
    nall, behs = f.result()
    if len(behs) < num // 2:
      raise tlc.TLCError("simulation %s exported only %d behaviours" % (c, len(behs)))
    replay_set(ctx, "%s seed+%d" % (c, off), ad, nall, behs, prm, chunk=20)

  # ---- code -> spec: random drivers on the real code, traces validated by TLC
  ntr = 150 if quick else 1500
  sets = [("consumers", "props.X18:drive_w", "TraceWorkConsumer", "TraceW.cfg"),
          ("waiter", "props.X18:drive_e", "TraceEventWaiter", "TraceE.cfg")]
  work = []
  for name, drv, mod, cfg in sets:
    items = [(ctx.seed * 100003 + i, 60) for i in range(ntr)]
    traces = core.run_driver(drv, items)
    bad = None
    for t in sorted(traces, key=len, reverse=True):          # negative control: one corrupted observation
      bad = copy.deepcopy(t)
      if (corrupt_tw if name == "consumers" else corrupt_te)(bad):
        break
      bad = None
    if bad is None and not ctx.violations:
      # (with conformance failures already on record the implementation may simply never get that far: then
      # the verdict is the violation, not a machinery failure)
      raise core.Machinery("no trace to corrupt (%s)" % name)
    work.append((name, mod, cfg, items, traces, bad))
  futs = [pool.submit(tracecheck.validate, SPEC, mod, cfg, traces + ([bad] if bad is not None else []), tag="X18",
                      extra_env=JVM_SHORT)
          for name, mod, cfg, items, traces, bad in work]
  outs = [f.result() for f in futs]
  for (name, mod, cfg, items, traces, bad), (r, rej) in zip(work, outs):
    ctx.add_model("%s %s (validation of %d implementation traces)" % (mod, cfg, len(traces)), r)
    if bad is not None and len(traces) not in [t for t, _ in rej]:
      raise tlc.TLCError("negative control (corrupted observation) was accepted by %s" % mod)
    for t, matched in rej:
      if t == len(traces):
        continue
      ev = traces[t][matched]
      ctx.report(dict(action=ev["a"], via="trace", spec=mod, args=ev["args"], obs=ev["obs"] if not ev["wf"] else "wf"),
                 dict(trace=traces[t], failing_step=matched, cfg=cfg, seed=items[t][0],
                      note="TLC rejected the trace at this event"))
    ctx.traces += len(traces)
    for t in traces[:3000]:
      ctx.case(core.fp([[e["a"], e["args"]] for e in t]), sample=None)
    ctx.notes["trace_validation %s" % name] = dict(
        traces=len(traces), events=sum(len(t) for t in traces), rejected=len(rej) - (1 if bad is not None else 0),
        negative_control_rejected=bad is not None)

  # ---- the model runs: the properties on the specs themselves, with the vacuity guard
  for (m, c, acts, props), f in zip(mcs, f_mc):
    r = f.result()
    if r.violated:
      raise tlc.TLCError("spec violates its own property %s in %s:\n%s" % (r.violated, c, r.error_trace[:3000]))
    if acts:
      tlc.require_coverage(r, acts, c)
    ctx.add_model("%s %s" % (m[2:], c), r, properties=props)
  ctx.notes["tlc_all_done_s"] = round(_time.time() - t0, 1)
  ctx.exhaustive = True


def corrupt_tw(tr):
  for e in reversed(tr):
    if e["a"] == "Finish" and e["wf"] and e["obs"]["ran"]:
      e["obs"]["ran"][0]["i"] += 1
      return True
  return False


def corrupt_te(tr):
  for e in reversed(tr):
    if e["a"] == "Cycle" and e["wf"] and e["obs"]["got"] and e["obs"]["got"][0]["ev"]:
      e["obs"]["got"][0]["ev"] = e["obs"]["got"][0]["ev"][1:] + [99]
      return True
  return False


# ----------------------------------------------------------------------------
# random drivers (run in worker processes).  Which action makes sense is decided from what can be seen of the
# real objects (deque, parked item, subscriptions), not from a model.

def _ints(x):
  return isinstance(x, list) and all(isinstance(v, int) and not isinstance(v, bool) for v in x)


def _wf_w(o, nc):
  try:
    return (set(o) == {"ready", "fp", "q", "st", "cur", "ran", "pinged", "err", "wait", "hub"} and _ints(o["ready"])
            and _ints(o["fp"]) and len(o["fp"]) == nc
            and isinstance(o["q"], list) and len(o["q"]) == nc and all(_ints(q) for q in o["q"])
            and isinstance(o["st"], list) and len(o["st"]) == nc and all(isinstance(s, str) for s in o["st"])
            and _ints(o["cur"]) and len(o["cur"]) in (0, 2)
            and isinstance(o["ran"], list) and all(set(r) == {"c", "i", "o"} and isinstance(r["c"], int)
                                                   and isinstance(r["i"], int) and isinstance(r["o"], str) for r in o["ran"])
            and isinstance(o["pinged"], bool) and isinstance(o["wait"], bool) and isinstance(o["err"], str)
            and isinstance(o["hub"], int))
  except Exception:      # noqa
    return False


BAD_W = dict(ready=[], fp=[0, 0], q=[[], []], st=["bad", "bad"], cur=[], ran=[], pinged=False, err="bad", wait=False, hub=-1)


def drive_w(arg):
  seed, n = arg
  from harness.adapters_x18 import ConsumerAdapter
  rnd = random.Random(seed)
  ad = ConsumerAdapter(**TRACE_W)
  lo = set(TRACE_W["lo"])
  tr = []
  made, blocked = set(), False
  busy = rnd.choice([0.25, 0.45, 0.7])          # how eagerly work is submitted
  try:
    for _ in range(n):
      env = ad.env
      parked = env.parked is not None
      ready = [ad._rid(t) for t in list(env.sched._ready)]
      cand = []
      for c in (1, 2):
        if c not in made:
          cand += [("New", dict(c=c, start=rnd.random() < 0.7, thr=rnd.choice(["coop", "foreign"])))] * 2
        else:
          if rnd.random() < busy:
            form = "base" if c not in TRACE_W["flex"] else rnd.choice(["raw", "raw", "raw", "flex"])
            thr = rnd.choice(["coop", "coop", "foreign", "fsplit"])
            if thr == "fsplit" and ad.fp.get(c):
              thr = "foreign"                    # (one pre-empted thread per consumer: TraceW.cfg MaxPend = 1)
            cand += [("AddWork", dict(c=c, thr=thr, form=form))] * 3
          if ad.fp.get(c):
            cand += [("FSched", dict(c=c))] * 2
          if ad._state(c) == "live" and rnd.random() < 0.04:
            cand.append(("Stop", dict(c=c)))
      if parked:
        cand += [("Finish", dict(o=rnd.choice(["ok"] * 10 + ["raise"] * 4 + ["halt", "base"])))] * 4
      elif ready:
        k = 0
        while len(ready) > 1 and k < 3 and ready[k % len(ready)] in lo and rnd.random() < 0.4:
          k += 1
        cand += [("Cycle", dict(k=k, t=ready[k % len(ready)]))] * 4
      elif not blocked:
        cand.append(("Idle", dict(x=0)))
      if not cand:
        continue
      a, args = rnd.choice(cand)
      try:
        obs = ad.step(a, args)
        wf = _wf_w(obs, 2)
      except Exception as e:       # noqa
        obs, wf = None, False
      if a == "New":
        made.add(args["c"])
      if not wf:
        tr.append(dict(a=a, args=args, obs=dict(BAD_W), wf=False))
        break
      if a == "Idle":
        blocked = obs["wait"]
      if obs["pinged"]:
        blocked = False
      tr.append(dict(a=a, args=args, obs=obs, wf=True))
  finally:
    ad.close()
  return tr


def _wf_e(o, ne):
  try:
    def dl(x):
      return (isinstance(x, list) and len(x) <= 1 and
              all(set(d) == {"m", "ev"} and isinstance(d["m"], str) and _ints(d["ev"]) for d in x))
    return (set(o) == {"ready", "fwake", "reg", "oth", "pend", "wakeable", "bound", "tst", "rf", "got", "seen", "pinged",
                       "err"} and isinstance(o["fwake"], bool)
            and _ints(o["ready"]) and isinstance(o["reg"], list) and len(o["reg"]) == ne
            and all(isinstance(s, str) for s in o["reg"]) and _ints(o["oth"]) and len(o["oth"]) == ne
            and _ints(o["pend"]) and isinstance(o["wakeable"], bool) and isinstance(o["bound"], bool)
            and isinstance(o["tst"], str) and isinstance(o["rf"], str) and dl(o["got"]) and _ints(o["seen"])
            and isinstance(o["pinged"], bool) and isinstance(o["err"], str))
  except Exception:      # noqa
    return False


BAD_E = dict(ready=[], fwake=False, reg=["bad", "bad"], oth=[0, 0], pend=[], wakeable=False, bound=False, tst="bad", rf="bad",
             got=[], seen=[], pinged=False, err="bad")


def drive_e(arg):
  seed, n = arg
  from harness.adapters_x18 import WaiterAdapter
  rnd = random.Random(seed)
  ad = WaiterAdapter(ne=2)
  tr = []
  eager = rnd.choice([0.2, 0.4, 0.7])           # how often events are raised
  p_def = rnd.choice([0.0, 0.0, 0.1])           # WaitOnEvents with the default return function ends the task as built
  try:
    for step in range(n):
      env = ad.env
      parked = env.parked is not None
      ready = [ad._rid(t) for t in list(env.sched._ready)]
      reg, oth = ad._regs()
      cand = []
      for e in (1, 2):
        if reg[e - 1] == "none" and rnd.random() < 0.5:
          cand.append(("Register", dict(e=e, how=rnd.choice(["perm", "perm", "once", "once", "weak"]))))
        if oth[e - 1] == 0 and rnd.random() < 0.08:
          cand.append(("Other", dict(e=e)))
        if rnd.random() < eager:
          thr = rnd.choice(["coop", "foreign", "fsplit"])
          if thr == "fsplit" and not (ad.fw is None and reg[e - 1] == "perm" and oth[e - 1] == 0):
            thr = "foreign"                      # (EventWaiter!Raise: where a split raise is modelled)
          cand += [("Raise", dict(e=e, thr=thr))] * 2
      if ad.fw is not None:
        cand += [("FSched", dict(x=0))] * 3
      if ad.task is None:
        cand += [("Start", dict(x=0))] * 2
      if parked:
        ops = ["one"] * 5 + ["all"] * 5 + ["resched"] * 2 + ["exit"] * (1 if step > n // 2 else 0)
        if rnd.random() < p_def:
          ops.append("def")
        cand += [("Yield", dict(op=rnd.choice(ops)))] * 4
        cand += [("Get", dict(m=rnd.choice(["one", "all"])))]
      elif ready:
        cand += [("Cycle", dict(t=ready[0]))] * 4
      if not cand:
        continue
      a, args = rnd.choice(cand)
      try:
        obs = ad.step(a, args)
        wf = _wf_e(obs, 2)
      except Exception as e:       # noqa
        obs, wf = None, False
      if not wf:
        tr.append(dict(a=a, args=args, obs=dict(BAD_E), wf=False))
        break
      tr.append(dict(a=a, args=args, obs=obs, wf=True))
  finally:
    ad.close()
  return tr


def replay_one(ctx, rep):
  """./check X18 --replay FILE for findings that came from trace validation"""
  if "behaviour" in rep:
    core.replay(ctx, rep["adapter"], [rep["behaviour"]], params=rep.get("params"), procs=1)
    return
  drv, mod = (drive_w, "TraceWorkConsumer") if rep.get("cfg") == "TraceW.cfg" else (drive_e, "TraceEventWaiter")
  tr = drv((rep["seed"], 60))
  r, rej = tracecheck.validate(SPEC, mod, rep["cfg"], [tr], tag="X18")
  for t, matched in rej:
    ev = tr[matched]
    ctx.report(dict(action=ev["a"], via="trace", spec=mod, args=ev["args"], obs=ev["obs"] if not ev["wf"] else "wf"),
               dict(trace=tr, failing_step=matched, cfg=rep["cfg"], seed=rep["seed"]))
