"""X18 substrate: a fresh real recoco Scheduler per behaviour whose cooperative thread is a REAL thread that the
harness steps, so that foreign-thread calls (add_work, raiseEvent from the harness' main thread) are foreign for
`Scheduler.schedule()` (`threading.current_thread() is self._thread` is false for them) and can be placed
between any two work items of a consumer batch / inside a task's body.

Exactly one of the two threads runs at a time (baton passing over queues), so every run is deterministic:

  main thread                         scheduler thread S (sched._thread)
  env.call(fn)      ---------------->  fn()            e.g. sched.cycle()
                    <----------------  ("parked", info)   code under test reached env.park(info) (inside
                                                           _do_work / inside the task's generator body)
  env.inside(fn)    ---------------->  fn() executed at the parking place (a cooperative call made by the
                                        work item / task body itself)
  env.release(v)    ---------------->  park() returns v; S runs on to the next park or to the end of fn
                    <----------------  ("done", result)

A third kind of thread models a foreign thread that is PRE-EMPTED in the middle of its call:
env.foreign_split(fn) runs fn on a new thread which is stopped when it first reaches Scheduler.schedule()
(add_work: after queue.appendleft; ReventWaiter._check: after disarming, lock released); env.foreign_finish(h)
lets it go on.  While it is stopped the harness goes on stepping the scheduler thread.

Time is virtual and never moves here (nothing in this area sleeps); the hub's select() stand-in polls the real
wake-up pipe with timeout 0 and raises WouldWait instead of waiting (harness/x04_sched.VSched, reused).
"""
import os
import queue
import select as _select
import threading

from harness import poxenv
from harness import x04_sched                      # noqa: F401 (VSched; also quiets recoco.print / traceback)

import pox.lib.recoco.recoco as recoco             # noqa: E402
import pox.core                                    # noqa: E402

WAIT = float(os.environ.get("VERIF_X18_WAIT", "60"))


class Diverged(Exception):
  """the scheduler thread neither parked nor finished in time"""


class _Split(object):
  def __init__(self):
    self.reached = threading.Event()
    self.gate = threading.Event()
    self.done = threading.Event()
    self.passed = False
    self.parked = False
    self.exc = None
    self.th = None


class Env(object):
  def __init__(self):
    self.vs = x04_sched.VSched()
    self.sched = self.vs.sched
    self.hub = self.vs.hub
    self.core = pox.core.core
    self._old_sched = self.core.scheduler
    self.core.scheduler = self.sched               # consumer.py schedules through core.scheduler
    self._cmd = queue.Queue()
    self._pcmd = queue.Queue()
    self._rsp = queue.Queue()
    self.parked = None                             # info given to park(), while S is parked
    self._outer = False                            # a call() has not finished yet
    # foreign threads that the harness stops at their first Scheduler.schedule() (see foreign_split)
    self._gated = {}
    orig_schedule = self.sched.schedule

    def schedule(task, first=False):
      g = self._gated.get(threading.current_thread())
      if g is not None and not g.passed:
        g.passed = True
        g.reached.set()
        if not g.gate.wait(WAIT):
          raise Diverged("a stopped foreign thread was never released")
      return orig_schedule(task, first)
    self.sched.schedule = schedule
    self.S = threading.Thread(target=self._loop, name="x18-sched", daemon=True)
    self.sched._thread = self.S
    self.S.start()

  # ---- scheduler thread
  def _loop(self):
    while True:
      c = self._cmd.get()
      if c[0] == "quit":
        self._rsp.put(("quit", None))
        return
      try:
        r = ("ok", c[1]())
      except BaseException as e:                   # noqa
        r = ("exc", e)
      self._rsp.put(("done", r))

  def park(self, info):
    """called by the harness' stand-ins INSIDE the code under test, on S: hand control to the main thread"""
    if threading.current_thread() is not self.S:
      raise RuntimeError("park() outside the scheduler thread")
    self._rsp.put(("parked", info))
    while True:
      c = self._pcmd.get()
      if c[0] == "go":
        return c[1]
      try:
        r = ("ok", c[1]())
      except BaseException as e:                   # noqa
        r = ("exc", e)
      self._rsp.put(("pdone", r))

  # ---- main thread
  def _wait(self):
    try:
      kind, v = self._rsp.get(timeout=WAIT)
    except queue.Empty:
      raise Diverged("scheduler thread busy for more than %s s" % WAIT)
    if kind == "parked":
      self.parked = v
      return ("parked", v)
    if kind == "done":
      self._outer = False
      self.parked = None
      if v[0] == "exc":
        raise v[1]
      return ("done", v[1])
    raise RuntimeError("unexpected answer %r" % (kind,))

  def call(self, fn):
    """run fn on the scheduler thread; returns ("done", result) or ("parked", info)"""
    assert self.parked is None and not self._outer
    self._outer = True
    self._cmd.put(("call", fn))
    return self._wait()

  def inside(self, fn):
    """run fn on the scheduler thread at the place where it is parked (a call made by the running work item /
    task body); returns fn's result"""
    assert self.parked is not None
    self._pcmd.put(("call", fn))
    try:
      kind, v = self._rsp.get(timeout=WAIT)
    except queue.Empty:
      raise Diverged("scheduler thread busy for more than %s s" % WAIT)
    assert kind == "pdone", kind
    if v[0] == "exc":
      raise v[1]
    return v[1]

  def coop(self, fn):
    """a call on the cooperative thread: from inside the running item/body when there is one"""
    if self.parked is not None:
      return self.inside(fn)
    kind, v = self.call(fn)
    if kind != "done":
      raise RuntimeError("cooperative call parked: %r" % (v,))
    return v

  def release(self, value):
    """let the parked code go on with `value`; returns like call()"""
    assert self.parked is not None
    self.parked = None
    self._pcmd.put(("go", value))
    return self._wait()

  def foreign(self, fn):
    """a call from a thread that is not the scheduler's: the harness' own (main) thread"""
    assert threading.current_thread() is not self.S
    return fn()

  def foreign_split(self, fn):
    """run fn on a NEW foreign thread which is stopped when it first calls Scheduler.schedule() (the thread is
    pre-empted there); returns a handle: handle.parked tells whether it got that far, handle.exc what fn raised"""
    h = _Split()

    def body():
      try:
        fn()
      except BaseException as e:                   # noqa
        h.exc = e
      finally:
        h.done.set()
        h.reached.set()
    h.th = threading.Thread(target=body, name="x18-foreign", daemon=True)
    self._gated[h.th] = h
    h.th.start()
    if not h.reached.wait(WAIT):
      raise Diverged("foreign thread neither reached schedule() nor finished")
    h.parked = not h.done.is_set()
    if not h.parked:
      self._gated.pop(h.th, None)
    return h

  def foreign_finish(self, h):
    """the stopped foreign thread goes on (calls schedule) and finishes"""
    h.gate.set()
    if not h.done.wait(WAIT):
      raise Diverged("released foreign thread did not finish")
    self._gated.pop(h.th, None)
    h.parked = False
    if h.exc is not None:
      raise h.exc

  # ---- projections
  def pinged(self):
    return bool(_select.select([self.hub._pinger], [], [], 0)[0])

  def hub_load(self):
    return len(self.hub._tasks) + self.hub._incoming.qsize()

  def idle(self):
    """one pass of the hub as Scheduler.run() makes it when nothing is ready; True = it would have to wait"""
    def f():
      try:
        self.hub._select(self.hub._tasks, {})
        return False
      except x04_sched.WouldWait:
        return True
    return self.coop(f)

  def close(self, unpark=None):
    for h in list(self._gated.values()):
      h.gate.set()
      h.done.wait(5)
    self._gated.clear()
    try:
      n = 0
      while self.parked is not None and n < 50:    # let a parked item / body run to its end
        n += 1
        try:
          self.release(unpark(self.parked) if unpark else None)
        except BaseException:                      # noqa
          break
      if self.S.is_alive() and not self._outer:
        self._cmd.put(("quit",))
        try:
          self._rsp.get(timeout=5)
        except queue.Empty:
          pass
    finally:
      if self.core.scheduler is self.sched:
        self.core.scheduler = self._old_sched
      self.vs.close()
