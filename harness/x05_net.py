"""X05 network harness: real l3_learning / arp_responder over one real switch.

  host frames --> SoftwareSwitch (real) --OFConnection/IOWorker (real)--+
                                                                         | bytes
  l3_switch / ARPResponder (real) <-- events -- of_01.Connection (real) -+

* One real `SoftwareSwitch` behind a real `OFConnection` on a stub IOWorker,
  connected byte for byte to a real `of_01.Connection` on a scripted socket.
  A synchronous pump moves the bytes until nothing is in flight; everything
  that crosses the channel is tapped and decoded by harness/rawbytes.py.
* The component under test is started through its own `launch()` on a fresh
  `OpenFlowNexus`; module-level state of arp_responder is cleared and timers of
  earlier instances are dropped.
* The recoco scheduler is owned by the harness (poxenv): `advance(d)` lets `d`
  seconds of VIRTUAL time pass and the component's own recurring `Timer(5)`
  fires at exactly its virtual instants (no sleeping anywhere).
* Frames are bytes built with struct only; emitted frames are taken from the
  switch's `DpPacketOut` event and decoded with struct only.

Nothing here decides anything: it drives the real code and hands back what
happened (messages in both directions, emitted frames, projections).
"""
import os
import select as _select
import struct

from engine.core import Machinery
from harness import poxenv
from harness import rawbytes as rb

core = poxenv.boot()

import pox.openflow as ofmod                                  # noqa: E402
import pox.openflow.of_01 as of_01                            # noqa: E402
import pox.lib.recoco.recoco as recoco                        # noqa: E402
from pox.lib.ioworker import IOWorker                         # noqa: E402
from pox.datapaths import switch as swmod                     # noqa: E402
from pox.openflow import flow_table as ftmod                  # noqa: E402
from pox.lib.packet.ethernet import ethernet                  # noqa: E402

ofmod.launch()
of_01.DeferredSender.start = lambda self: None
if of_01.deferredSender is None:
  of_01.deferredSender = of_01.DeferredSender()

import pox.py as poxpy                                        # noqa: E402
if not core.hasComponent("Interactive"):
  poxpy.Interactive()           # what boot does for every POX instance; arp_responder publishes its table there

import pox.forwarding.l3_learning as l3mod                    # noqa: E402
import pox.proto.arp_responder as armod                       # noqa: E402

clock = poxenv.install_clock(recoco, of_01, swmod, ftmod, l3mod, armod)

L3_DEFAULTS = dict(ARP_TIMEOUT=l3mod.ARP_TIMEOUT, MAX_BUFFERED_PER_IP=l3mod.MAX_BUFFERED_PER_IP,
                   MAX_BUFFER_TIME=l3mod.MAX_BUFFER_TIME, FLOW_IDLE_TIMEOUT=l3mod.FLOW_IDLE_TIMEOUT)
AR_DEFAULTS = dict(ARP_TIMEOUT=armod.ARP_TIMEOUT)


class Horizon(Exception):
  """raised by the select shim when the next timer lies beyond the target"""


class CtlSock(object):
  _fileno = 7000

  def __init__(self):
    self.inq = []
    self.out = b""
    self.closed = False
    self.shut = False
    CtlSock._fileno += 1
    self._fd = CtlSock._fileno

  def fileno(self):
    return self._fd

  def getpeername(self):
    return ("10.9.0.1", 41000)

  def setblocking(self, v):
    pass

  def send(self, data):
    if self.closed or self.shut:
      import socket
      raise socket.error(32, "Broken pipe")
    self.out += data
    return len(data)

  def recv(self, n, flags=0):
    if self.inq:
      d = self.inq.pop(0)
      if len(d) > n:
        self.inq.insert(0, d[n:])
        d = d[:n]
      return d
    if self.shut or self.closed:
      return b""
    import socket
    raise socket.error(11, "Resource temporarily unavailable")

  def shutdown(self, how):
    self.shut = True

  def close(self):
    self.closed = True


class SwSock(object):
  def getpeername(self):
    return ("127.0.0.1", 6633)


# ---------------------------------------------------------------- frames (struct only)

def ip_udp_frame(dst_mac, src_mac, src_ip, dst_ip, sport, dport=9, payload_len=18):
  pl = bytes((i * 5 + 1) & 0xff for i in range(payload_len))
  udp_len = 8 + len(pl)
  pseudo = rb.ip(src_ip) + rb.ip(dst_ip) + struct.pack("!BBH", 0, 17, udp_len)
  udp = struct.pack("!HHHH", sport, dport, udp_len, 0) + pl
  c = rb.csum(pseudo + udp) or 0xffff
  udp = struct.pack("!HHHH", sport, dport, udp_len, c) + pl
  hdr = struct.pack("!BBHHHBBH4s4s", 0x45, 0, 20 + udp_len, 1, 0, 64, 17, 0, rb.ip(src_ip), rb.ip(dst_ip))
  hdr = hdr[:10] + struct.pack("!H", rb.csum(hdr)) + hdr[12:]
  return rb.eth(dst_mac, src_mac, 0x0800, hdr + udp)


def arp_frame(eth_dst, eth_src, op, sha, spa, tha, tpa, pad=True, vlan=None):
  body = struct.pack("!HHBBH6s4s6s4s", 1, 0x0800, 6, 4, op, rb.mac(sha), rb.ip(spa), rb.mac(tha), rb.ip(tpa))
  if vlan is None:
    fr = rb.eth(eth_dst, eth_src, 0x0806, body)
  else:
    vid, pcp = vlan
    fr = rb.mac(eth_dst) + rb.mac(eth_src) + struct.pack("!HHH", 0x8100, ((pcp & 7) << 13) | (vid & 0xfff), 0x0806) + body
  if pad and len(fr) < 60:
    fr += b"\0" * (60 - len(fr))
  return fr


def _mac_s(b):
  return ":".join("%02x" % x for x in b)


def _ip_s(b):
  return ".".join(str(x) for x in b)


def decode_frame(fr):
  """Ethernet frame -> dict (struct only).  kind: 'ip' | 'arp' | 'other'."""
  d = dict(ed=_mac_s(fr[0:6]), es=_mac_s(fr[6:12]), len=len(fr), vlan=None)
  et = struct.unpack("!H", fr[12:14])[0]
  off = 14
  if et == 0x8100 and len(fr) >= 18:
    tci, et = struct.unpack("!HH", fr[14:18])
    d["vlan"] = [tci & 0xfff, tci >> 13]
    off = 18
  d["et"] = et
  if et == 0x0806 and len(fr) >= off + 28:
    ht, pt, hl, pl, op = struct.unpack("!HHBBH", fr[off:off + 8])
    d.update(kind="arp", htype=ht, ptype=pt, hlen=hl, plen=pl, op=op,
             sha=_mac_s(fr[off + 8:off + 14]), spa=_ip_s(fr[off + 14:off + 18]),
             tha=_mac_s(fr[off + 18:off + 24]), tpa=_ip_s(fr[off + 24:off + 28]),
             trailer=len(fr) - off - 28)
  elif et == 0x0800 and len(fr) >= off + 20:
    d.update(kind="ip", sip=_ip_s(fr[off + 12:off + 16]), dip=_ip_s(fr[off + 16:off + 20]), proto=fr[off + 9])
    ihl = (fr[off] & 0xf) * 4
    if fr[off + 9] == 17 and len(fr) >= off + ihl + 4:
      d["sport"], d["dport"] = struct.unpack("!HH", fr[off + ihl:off + ihl + 4])
    d["rest"] = fr[12:].hex()
  else:
    d["kind"] = "other"
  return d


# ---------------------------------------------------------------- the network

class Net(object):
  MAX_ROUNDS = 200

  def __init__(self, app, nports=3, max_buffers=4, dpid=1, miss_send_len=128, consts=None, **appkw):
    """app: 'l3' (appkw: fakeways, arp_for_unknowns, wide) or 'arp' (appkw of arp_responder.launch)."""
    self.app = app
    self.dpid = dpid
    self.emitted = []
    self.c2s, self.s2c = [], []
    self.c2s_raw = self.s2c_raw = b""
    self.seen = []                      # PacketIns that reached a listener AFTER the component under test
    self._reset_controller(app, consts or {}, appkw)
    self.t0 = clock.now                 # the component (and its Timer) was created now
    self.sw = swmod.SoftwareSwitch(dpid, ports=nports, max_buffers=max_buffers, miss_send_len=miss_send_len)
    self.sw.addListenerByName("DpPacketOut", self._on_out)
    self.worker = IOWorker()
    self.worker.socket = SwSock()
    self.ofc = swmod.OFConnection(self.worker)
    self.sw.set_connection(self.ofc)
    self.sock = CtlSock()
    self.con = of_01.Connection(self.sock)
    self._settle()
    if self.nexus.getConnection(dpid) is not self.con or self.con.connect_time is None:
      raise Machinery("x05_net: handshake did not complete")
    self.setup_c2s = self.take()["c2s"]   # what the component sent at ConnectionUp (after the handshake)

  # -------------------------------------------------------------- controller
  def _reset_controller(self, app, consts, appkw):
    sched = core.scheduler
    hub = sched._selectHub
    self.sched, self.hub = sched, hub
    if getattr(hub, "_x05_pid", None) != os.getpid():
      # a forked worker inherits the hub's wake-up pipe and would share it with its siblings (one process
      # reading the byte another one wrote): give this process a pipe of its own
      from pox.lib.util import make_pinger
      old_pinger, hub._pinger = hub._pinger, make_pinger()
      hub._x05_old_pinger = old_pinger          # keep the inherited descriptors open (the parent owns them)
      hub._x05_pid = os.getpid()
    hub._select_func = self._vselect
    self._target = clock.now
    sched._ready.clear()
    for t in list(hub._tasks):
      if isinstance(t, recoco.Timer):
        t._cancelled = True
        del hub._tasks[t]
    keep = []
    while not hub._incoming.empty():
      it = hub._incoming.get(True)
      hub._incoming.task_done()
      if not isinstance(it[0], recoco.Timer):
        keep.append(it)
    for it in keep:
      hub._incoming.put(it)
    old = core.components.get("openflow")
    if old is not None:
      try:
        core.removeListener(old._handle_DownEvent)
      except Exception:
        pass
    self.nexus = ofmod.OpenFlowNexus()
    core.components["openflow"] = self.nexus
    core.components["OpenFlowConnectionArbiter"] = ofmod.OpenFlowConnectionArbiter()
    of_01.Connection.ID = 0
    of_01.deferredSender.sending = False
    of_01.deferredSender._dataForConnection.clear()
    for name in ("l3_switch", "ARPResponder"):
      oldc = core.components.pop(name, None)
      if name == "ARPResponder" and oldc is not None:
        try:
          core.removeListener(oldc._handle_GoingUpEvent)
        except Exception:
          pass
    for k, v in L3_DEFAULTS.items():
      setattr(l3mod, k, v)
    armod._arp_table.clear()
    armod._failed_queries.clear()
    armod.ARP_TIMEOUT = AR_DEFAULTS["ARP_TIMEOUT"]
    if app == "l3":
      for k, v in consts.items():
        if k not in L3_DEFAULTS:
          raise Machinery("unknown l3_learning constant " + k)
        setattr(l3mod, k, v)
      l3mod.launch(**appkw)
      self.comp = core.components["l3_switch"]
    elif app == "arp":
      if consts:
        raise Machinery("arp_responder takes its timeout through launch()")
      armod.launch(**appkw)
      self.comp = core.components["ARPResponder"]
      # pox.core would raise GoingUpEvent once at start-up; the harness never brings the core "up", so
      # deliver exactly that event to the component's own handler
      self.comp._handle_GoingUpEvent(None)
    else:
      raise Machinery("unknown app " + app)
    # a listener that runs after every component under test: tells whether the PacketIn was halted
    self.nexus.addListenerByName("PacketIn", self._after, priority=-100000)

  def _after(self, event):
    self.seen.append(event.ofp.buffer_id)

  def _on_out(self, e):
    self.emitted.append((e.port.port_no, e.packet.pack()))

  # -------------------------------------------------------------- time
  def _vselect(self, r, w, x, timeout):
    ro, wo, xo = _select.select(list(r), list(w), list(x), 0)
    if not (ro or wo or xo) and not self.hub._incoming.empty():
      # a task registered with the hub but its wake-up byte is gone (the pipe is shared with a forked
      # sibling process): wake the hub again so that it takes the registration in
      self.hub._pinger.ping()
      ro, wo, xo = _select.select(list(r), list(w), list(x), 0)
    if ro or wo or xo:
      return ro, wo, xo
    if timeout is None:
      raise Horizon()
    if clock.now + timeout > self._target:
      raise Horizon()
    clock.advance(timeout)
    return [], [], []

  def _settle(self):
    for _ in range(10000):
      busy = False
      while self.sched._ready:
        self.sched.cycle()
        busy = True
      if self._pump():
        busy = True
      if not busy:
        return
    raise Machinery("x05_net: did not settle")

  def advance(self, d):
    """let d seconds of virtual time pass; timers fire at their exact virtual instants"""
    self._target = clock.now + d
    for _ in range(100000):
      self._settle()
      try:
        self.hub._select(self.hub._tasks, {})
      except Horizon:
        if not self.sched._ready:
          break
    else:
      raise Machinery("x05_net.advance: too many timer steps")
    self._settle()
    clock.now = self._target

  @property
  def now(self):
    return clock.now - self.t0

  # -------------------------------------------------------------- bytes
  def _pump(self):
    moved = False
    for _ in range(self.MAX_ROUNDS):
      again = False
      if self.sock.out:
        data, self.sock.out = self.sock.out, b""
        self.c2s_raw += data
        self.worker._push_receive_data(data)
        again = True
      if self.worker.send_buf:
        data, self.worker.send_buf = self.worker.send_buf, b""
        self.s2c_raw += data
        self.sock.inq.append(data)
        while self.sock.inq:
          if self.con.read() is False:
            raise ChannelLost("controller dropped the connection")
        again = True
      if not again:
        return moved
      moved = True
    raise Diverged("control channel still busy after %d rounds" % self.MAX_ROUNDS)

  def take(self):
    """everything that happened since the last take()"""
    c2s = rb.parse_stream(self.c2s_raw)
    s2c = rb.parse_stream(self.s2c_raw)
    self.c2s_raw = self.s2c_raw = b""
    em, self.emitted = self.emitted, []
    seen, self.seen = self.seen, []
    return dict(c2s=c2s, s2c=s2c, emitted=em, seen=seen)

  def inject(self, port, frame):
    self.sw.rx_packet(ethernet(raw=frame), port)
    self._settle()
    return self.take()

  def occupancy(self):
    return sum(1 for b in self.sw._packet_buffer if b is not None)

  def close(self):
    try:
      t = getattr(self.comp, "_expire_timer", None)
      if t is not None:
        t.cancel()
    except Exception:
      pass


class Diverged(Exception):
  """the control loop did not become quiet (code under test)"""


class ChannelLost(Exception):
  """the controller gave up the OpenFlow connection (code under test)"""
