"""C17 adapters: PortView.tla / StatsAgg.tla actions -> a real of_01.Connection.

Every action is OpenFlow bytes (harness/rawbytes.py, struct only) read by the
real Connection.read(); the observation is taken from the public mapping API
of connection.ports / connection.original_ports (PortAdapter) and from the
*StatsReceived events raised on the Connection and on core.openflow
(StatsAdapter).  The spec's symbols (port numbers 1..NP, names "a".., addresses
"A".., request keys, entry triples) are mapped injectively to concrete values
chosen per `variant` from boundary pools; observations are mapped back.
"""
import json
import struct

from engine.core import Machinery
from harness import rawbytes as rb
from harness.c17_conn import Env, EthAddr, ofmod

# --------------------------------------------------------------------------
# concretisation pools (index = variant % len)

# abstract port number p -> NOS[v][p-1]; the last element is the number that is
# never reported (ProbeNos' extra member)
NOS = [
    [1, 2, 3, 4, 5, 6],
    [0xfffe, 1, 0xff00, 2, 0xfeff, 3],         # OFPP_LOCAL, OFPP_MAX among them
    [0, 65535, 7, 300, 256, 1],
]
NAMES = [
    {"a": "eth0", "b": "eth1", "c": "eth2", "zz": "eth9"},
    {"a": "s1-eth1", "b": "abcdefghijklmnop", "c": "", "zz": "abcdefghijklmno"},   # 16 chars (no NUL), empty
    {"a": "1", "b": "eth0", "c": "veth-1.100@if2", "zz": "2"},                    # looks like a number; punctuation
]
HWS = [
    {"A": "00:00:00:00:00:01", "B": "00:00:00:00:00:02", "C": "00:00:00:00:00:03", "ZZ": "00:00:00:00:00:09"},
    {"A": "ff:ff:ff:ff:ff:ff", "B": "00:00:00:00:00:00", "C": "01:80:c2:00:00:0e", "ZZ": "fe:ff:ff:ff:ff:ff"},
    {"A": "02:00:00:00:00:01", "B": "02:00:00:00:00:00", "C": "82:00:00:00:00:01", "ZZ": "02:00:00:00:01:00"},
]
DPIDS = [1, 0xffffffffffffffff, 0x0000123456789abc]
REASON = {"add": 0, "del": 1, "mod": 2}
NONE = {"name": "-", "hw": "-", "st": 0}


def _is_none(rec):
  return rec["name"] == "-"


def ssort(xs):
  """sort that never fails on mixed values (both sides of a comparison use it)"""
  xs = list(xs)
  try:
    return sorted(xs)
  except TypeError:
    return sorted(xs, key=lambda v: json.dumps(v, sort_keys=True))


class _Base(object):
  """Connection in the connected state; helpers shared by both adapters."""

  def __init__(self, variant=0, NP=3):
    self.variant = variant
    self.NP = NP
    self.nos = NOS[variant % len(NOS)]
    self.names = NAMES[variant % len(NAMES)]
    self.hws = HWS[variant % len(HWS)]
    self.dpid = DPIDS[variant % len(DPIDS)]
    self.no_inv = {v: i + 1 for i, v in enumerate(self.nos)}
    self.name_inv = {v: k for k, v in self.names.items()}
    self.hw_inv = {rb.mac(v): k for k, v in self.hws.items()}
    self.hw_probe = {k: EthAddr(v) for k, v in self.hws.items()}
    self.env = Env()
    self.con = self.env.con
    self.n = 0
    self.env.hello()

  # -- concretisation
  def port_bytes(self, p, rec):
    """ofp_phy_port for abstract number p with description rec."""
    st = rec["st"]
    return rb.phy_port(self.nos[p - 1], self.hws[rec["hw"]], self.names[rec["name"]].encode("latin-1"),
                       config=st * rb.PC_PORT_DOWN, state=st * rb.PS_LINK_DOWN,
                       curr=0x82 + p, advertised=0x3f, supported=0xbf, peer=p)

  def ports_bytes(self, ports):
    return [self.port_bytes(i + 1, r) for i, r in enumerate(ports) if not _is_none(r)]

  def feed(self, data):
    """Deliver one step's bytes; the segmentation varies with the step number
    (whole / split inside the message / behind an echo request in one read)."""
    self.n += 1
    k = (self.n + self.variant) % 4
    if k == 1 and len(data) > 12:
      ok = self.env.feed(data, cuts=(9 + (self.n % (len(data) - 10)),))
    elif k == 2:
      ok = self.env.feed(rb.echo_request(b"c17", xid=self.n) + data)
    elif k == 3 and len(data) > 4:
      ok = self.env.feed(data, cuts=(3, len(data) - 1))
    else:
      ok = self.env.feed(data)
    return ok

  def handshake(self, ports, early=()):
    """features reply, early notifications, barrier reply."""
    self.env.features(self.dpid, ports)
    xid = self.env.barrier_xid()
    for data in early:
      self.feed(data)
    self.feed(rb.barrier_reply(xid))
    if not self.env.connected():
      raise Machinery("connection did not reach the connected state")

  def close(self):
    pass

  # -- the listener environment (the spec's `raw` / `lis` argument)
  def with_listeners(self, mode, event_names, fn, must_fire=True):
    """Run fn() while OTHER components listen to the given events on the
    nexus and/or on the connection and behave as `mode` says:
      none                         nobody listens
      listen                       passive listeners on nexus and connection
      halt_nexus / halt_con        the listener there returns EventHalt
      raise_nexus / raise_con      the listener there raises
      remove_nexus / remove_con    the listener there unsubscribes itself (EventRemove)
    Listeners exist for this one step only.  When the listener the mode is
    about is never invoked the environment is vacuous: machinery failure."""
    if mode in (None, "none"):
      return fn()
    from pox.lib.revent import EventHalt, EventRemove
    fired = {"nexus": 0, "con": 0}

    def make(level, what):
      def h(event):
        fired[level] += 1
        if what == "halt":
          return EventHalt
        if what == "remove":
          return EventRemove
        if what == "raise":
          raise RuntimeError("C17 environment: listener raises")
        return None
      return h

    if mode == "listen":
      plan = [("nexus", "listen"), ("con", "listen")]
    else:
      what, level = mode.split("_")
      plan = [(level, what)]
    added = []
    for level, what in plan:
      src = self.env.nexus if level == "nexus" else self.con
      for name in event_names:
        h = make(level, what)
        src.addListenerByName(name, h)
        added.append((src, h))
    try:
      return fn()
    finally:
      for src, h in added:
        try:
          src.removeListener(h)
        except Exception:
          pass
      if must_fire and not any(fired[level] for level, _ in plan):
        raise Machinery("environment %s: no %s listener was ever invoked - the listener dimension is vacuous"
                        % (mode, "/".join(event_names)))


# --------------------------------------------------------------------------
# PortView

class PortAdapter(_Base):
  def __init__(self, variant=0, NP=3, probe_names=("a", "b", "c", "zz"),
               probe_hws=("A", "B", "C", "ZZ")):
    _Base.__init__(self, variant, NP)
    self.probe_names = list(probe_names)
    self.probe_hws = list(probe_hws)
    self.barrier = None

  # -- projection of a real ofp_phy_port back onto the spec's symbols
  def _rec(self, port):
    st = port.state & rb.PS_LINK_DOWN
    if bool(port.config & rb.PC_PORT_DOWN) != bool(st):
      st = "config/state disagree"
    name = self.name_inv.get(port.name)
    if name is None:
      name = "?" + repr(port.name)
    hw = self.hw_inv.get(self._raw(port.hw_addr))
    if hw is None:
      hw = "?" + str(port.hw_addr)
    return {"name": name, "hw": hw, "st": st}

  @staticmethod
  def _raw(hw):
    try:
      return hw if isinstance(hw, bytes) else hw.toRaw()
    except Exception:
      return None

  def _tup(self, port):
    r = self._rec(port)
    return [self.no_inv.get(port.port_no, "?%s" % (port.port_no,)), r["name"], r["hw"], r["st"]]

  def _no(self, k):
    return self.no_inv.get(k, "?%r" % (k,))

  def _lookup(self, pc, key):
    """pc[key] -> [tuple] or [] (a LookupError means `not there`)."""
    try:
      return [self._tup(pc[key])]
    except LookupError:
      return []

  def _view_getitem(self, pc):
    """The view through keys() / len() / [] / in."""
    v = {}
    ports = []
    for p in range(1, self.NP + 1):
      f = self._lookup(pc, self.nos[p - 1])
      if f and f[0][0] != p:
        ports.append({"name": "wrong port %s" % (f[0][0],), "hw": "-", "st": 0})
      elif f:
        ports.append({"name": f[0][1], "hw": f[0][2], "st": f[0][3]})
      else:
        ports.append(dict(NONE))
    v["ports"] = ports
    v["nos"] = ssort(self._no(k) for k in pc.keys())
    v["n"] = len(pc)
    v["has"] = [p for p in range(1, self.NP + 2) if self.nos[p - 1] in pc]
    v["byname"] = {nm: self._lookup(pc, self.names[nm]) for nm in self.probe_names}
    v["byhw"] = {hw: self._lookup(pc, self.hw_probe[hw]) for hw in self.probe_hws}
    return v

  def _view_iter(self, pc):
    """The same facts through iteration: iter / values / items (and the legacy
    iterkeys / itervalues / iteritems where the collection still has them)."""
    out = {}
    out["iter"] = ssort(self._no(k) for k in iter(pc))
    out["values"] = ssort(self._tup(x) for x in pc.values())
    out["items"] = ssort([self._no(k)] + self._tup(x) for k, x in pc.items())
    if hasattr(pc, "iterkeys"):
      out["iterkeys"] = ssort(self._no(k) for k in pc.iterkeys())
    if hasattr(pc, "itervalues"):
      out["itervalues"] = ssort(self._tup(x) for x in pc.itervalues())
    if hasattr(pc, "iteritems"):
      out["iteritems"] = ssort([self._no(k)] + self._tup(x) for k, x in pc.iteritems())
    return out

  def _view_member(self, pc):
    """The same facts through get() / `in` with names and addresses (and legacy has_key)."""
    out = {"get": [], "in_name": [], "in_hw": [], "get_default": []}
    legacy = hasattr(pc, "has_key")
    if legacy:
      out["has_key"] = []
    for p in range(1, self.NP + 2):
      g = pc.get(self.nos[p - 1])
      if g is not None:
        out["get"].append(self._tup(g))
      if pc.get(self.nos[p - 1], "dflt") == "dflt":
        out["get_default"].append(p)
      if legacy and pc.has_key(self.nos[p - 1]):
        out["has_key"].append(p)
    for nm in self.probe_names:
      if self.names[nm] in pc:
        out["in_name"].append(nm)
    for hw in self.probe_hws:
      if self.hw_probe[hw] in pc:
        out["in_hw"].append(hw)
    return out

  def _view(self, pc):
    v = self._view_getitem(pc)
    # the other access paths must tell the same story; a path that does not
    # is reported as an extra field (the spec's expectation has none)
    present = [[p, r["name"], r["hw"], r["st"]] for p, r in zip(range(1, self.NP + 1), v["ports"])
               if not _is_none(r)]
    it = self._view_iter(pc)
    want_it = {"iter": v["nos"], "iterkeys": v["nos"], "values": ssort(present),
               "itervalues": ssort(present), "items": ssort([t[0]] + t for t in present),
               "iteritems": ssort([t[0]] + t for t in present)}
    for k in sorted(it):
      if it[k] != want_it[k]:
        v["via_" + k] = it[k]
    mem = self._view_member(pc)
    want_mem = {"get": present, "has_key": v["has"],
                "get_default": [p for p in range(1, self.NP + 2) if p not in v["has"]],
                "in_name": [nm for nm in self.probe_names if v["byname"][nm]],
                "in_hw": [hw for hw in self.probe_hws if v["byhw"][hw]]}
    for k in sorted(mem):
      if mem[k] != want_mem[k]:
        v["via_" + k] = mem[k]
    return v

  def observe(self):
    return {"cur": self._view(self.con.ports), "orig": self._view(self.con.original_ports)}

  # -- actions
  def step(self, a, args):
    if a == "FeaturesHS":
      self.env.features(self.dpid, self.ports_bytes(args["ports"]))
      self.barrier = self.env.barrier_xid()
      return {"x": 0}
    if a == "EarlyStatus":
      self.feed(rb.port_status(REASON[args["r"]], self.port_bytes(args["p"], args["rec"])))
      return {"x": 0}
    lis = args.get("lis", "none")
    if a == "Barrier":
      # the port-status events of the early notifications are raised now (if there were any)
      self.with_listeners(lis, ["PortStatus"], lambda: self.feed(rb.barrier_reply(self.barrier)),
                          must_fire=False)
      if not self.env.connected():
        return {"not_connected": True}
      return self.observe()
    if a == "Status":
      data = rb.port_status(REASON[args["r"]], self.port_bytes(args["p"], args["rec"]), xid=self.n)
      self.with_listeners(lis, ["PortStatus"], lambda: self.feed(data))
      return self.observe()
    if a == "Features":
      data = rb.features_reply(self.dpid, ports=self.ports_bytes(args["ports"]), xid=self.n)
      self.with_listeners(lis, ["FeaturesReceived"], lambda: self.feed(data))
      return self.observe()
    raise ValueError(a)

  # -- comparison with the spec's expectation
  def normalize(self, obs, exp):
    """A lookup by name / address may answer with any port that has the
    attribute: an answer that is a member of the spec's set is that set."""
    if not isinstance(obs, dict) or not isinstance(exp, dict):
      return obs
    for side in ("cur", "orig"):
      if side not in obs or side not in exp:
        continue
      for fld in ("byname", "byhw"):
        o, e = obs[side].get(fld), exp[side].get(fld)
        if not isinstance(o, dict) or not isinstance(e, dict):
          continue
        for k in o:
          if k in e and len(o[k]) == 1 and o[k][0] in e[k]:
            o[k] = e[k]
    return obs

  def signature(self, st, obs):
    """which API answers differ, and how (scalar fields: usable in KNOWN_FINDINGS)"""
    sig = {"spec": "PortView", "action": st["a"]}
    exp = st["exp"]
    if isinstance(obs, dict) and "EXC" in obs:
      sig["observed"] = "exception:" + obs["EXC"]
      return sig
    if st["a"] in ("Status", "EarlyStatus"):
      sig["reason"] = st["args"]["r"]
    if st["args"].get("lis", "none") != "none":
      sig["listeners"] = st["args"]["lis"]
    diffs = []
    kinds = set()
    for side in ("cur", "orig"):
      o = obs.get(side) if isinstance(obs, dict) else None
      e = exp.get(side) if isinstance(exp, dict) else None
      if not isinstance(o, dict) or not isinstance(e, dict):
        if o != e:
          diffs.append(side)
        continue
      for k in sorted(set(o) | set(e)):
        if o.get(k) != e.get(k):
          diffs.append(side + "." + k)
          if k in ("byname", "byhw") and isinstance(o.get(k), dict):
            for key in o[k]:
              if o[k][key] != e[k].get(key):
                kinds.add("stale_hit" if o[k][key] and not e[k].get(key) else
                          "missed" if e[k].get(key) and not o[k][key] else "wrong_port")
    lookups = [d for d in diffs if d.split(".")[-1] in ("byname", "byhw", "via_in_name", "via_in_hw")]
    sig["class"] = ("attribute_lookup" if diffs and len(lookups) == len(diffs) else
                    "original_ports" if diffs and all(d.startswith("orig") for d in diffs) else "mapping")
    if sig["class"] == "attribute_lookup":
      # lookups by name / address answered wrongly while numbers, len, iteration are right:
      # one class per view, whatever the notification was
      sig.pop("reason", None)
      sig["action"] = "Status" if st["a"] in ("Status", "Barrier") else st["a"]
      sig["view"] = "+".join(sorted(set(d.split(".")[0] for d in diffs)))
    else:
      sig["fields"] = ",".join(diffs)
    if kinds:
      sig["lookup"] = "stale_hit" if "stale_hit" in kinds else sorted(kinds)[0]
    return sig


# --------------------------------------------------------------------------
# StatsAgg

XIDS = [
    {1: 0x11, 2: 0x12},
    {1: 0x7fffffff, 2: 0x80000000},
    {1: 0, 2: 0xffffffff},
]
STYPE = {"desc": rb.ST_DESC, "flow": rb.ST_FLOW, "aggr": rb.ST_AGGREGATE, "table": rb.ST_TABLE,
         "port": rb.ST_PORT, "queue": rb.ST_QUEUE, "vendor": rb.ST_VENDOR}
# statistics types OpenFlow 1.0 does not define ("unk"), per variant: the first free one, a middle one,
# the one next to OFPST_VENDOR
UNK_STYPE = [6, 0x7fff, 0xfffe]
VENDOR_IDS = [0x00002320, 0xffffffff, 0x00000000]
OPAQUE = ("vendor", "unk")
MULTI = ("flow", "table", "port", "queue")
EVENTS = {"desc": "SwitchDescReceived", "flow": "FlowStatsReceived", "aggr": "AggregateFlowStatsReceived",
          "table": "TableStatsReceived", "port": "PortStatsReceived", "queue": "QueueStatsReceived"}


def code(k, g, i):
  return k * 1000000 + g * 1000 + i


def decode(c):
  if not isinstance(c, int) or c < 0:
    return ["?", repr(c), 0]
  return [c // 1000000, (c // 1000) % 1000, c % 1000]


def entry_bytes(t, k, g, i):
  c = code(k, g, i)
  if t == "flow":       # variable-length entries (0..2 actions)
    return rb.flow_stats_entry(rb.match(wildcards=rb.FW_ALL & ~rb.FW_IN_PORT, in_port=i & 0xff),
                               table_id=0, duration_sec=i, priority=i, cookie=c, packet_count=c,
                               byte_count=64 * c, actions=rb.a_output(1 + (i % 5)) * (i % 3))
  if t == "table":
    return rb.table_stats_entry(table_id=i & 0xff, name=b"t%d" % c, max_entries=c, active=i, lookup=c,
                                matched=c)
  if t == "port":
    return rb.port_stats_entry(i & 0xffff, [c] * 12)
  if t == "queue":
    return rb.queue_stats_entry(i & 0xffff, c & 0xffffffff, tx_bytes=c, tx_packets=c)
  if t == "desc":
    return rb.desc_stats_body(mfr=b"c%d" % c, hw=b"hw", sw=b"sw", serial=b"%d" % c, dp=b"dp")
  if t == "aggr":
    import struct
    return struct.pack("!QQI4x", c, 64 * c, i)
  raise ValueError(t)


def entry_code(t, s):
  """identity (code) of one decoded stats entry, through its public fields."""
  try:
    if t == "flow":
      return s.cookie if s.packet_count == s.cookie else "flow fields disagree"
    if t == "table":
      return s.lookup_count if s.name == "t%d" % s.lookup_count else "table fields disagree"
    if t == "port":
      return s.rx_packets if s.collisions == s.rx_packets else "port fields disagree"
    if t == "queue":
      return s.tx_bytes if s.tx_packets == s.tx_bytes else "queue fields disagree"
    if t == "desc":
      return int(s.mfr_desc[1:]) if s.serial_num == s.mfr_desc[1:] else "desc fields disagree"
    if t == "aggr":
      return s.packet_count
  except Exception as e:
    return "undecodable entry: %s" % type(e).__name__
  return "?"


class StatsAdapter(_Base):
  def __init__(self, variant=0, ports=2):
    _Base.__init__(self, variant, NP=ports)
    self.xids = XIDS[variant % len(XIDS)]
    self.xid_inv = {v: k for k, v in self.xids.items()}
    R = lambda n, h: {"name": n, "hw": h, "st": 0}
    self.handshake(self.ports_bytes([R("a", "A"), R("b", "B")]))
    self.env.written()
    self.ev_con = []
    self.ev_nexus = []
    self.since = {}          # request key -> tags of odd parts seen while its reply is incomplete
    self.odd_open = set()
    self.cur_since = []
    for t, name in EVENTS.items():
      self.con.addListenerByName(name, self._listener(self.ev_con, t))
      self.env.nexus.addListenerByName(name, self._listener(self.ev_nexus, t))

  def _listener(self, sink, t):
    def h(event):
      stats = event.stats
      if t in ("desc", "aggr"):
        entries = [stats]
      else:
        entries = list(stats)
      e = [decode(entry_code(t, s)) for s in entries]
      # which request: the transaction id of the raw part(s) the event carries
      ofp = getattr(event, "ofp", None)
      parts = ofp if isinstance(ofp, (list, tuple)) else [ofp]
      xs = set(getattr(p, "xid", None) for p in parts)
      if len(xs) == 1 and None not in xs:
        x = self.xid_inv.get(xs.pop(), "?")
      elif xs == {None}:
        x = self.cur_x           # no raw message attached: attribute to the part just fed
      else:
        x = "mixed"
      if event.connection is not self.con:
        x = "other connection"
      sink.append({"t": t, "x": x, "e": e})
    return h

  def step(self, a, args):
    self.ev_con[:] = []
    self.ev_nexus[:] = []
    self.cur_x = None
    if a == "Part":
      t, k, g = args["t"], args["k"], args["g"]
      self.cur_x = args["x"]
      if t in OPAQUE:
        # no aggregated event exists for these: the body is opaque data of n units
        body = bytes((0xa0 + k + j) & 0xff for j in range(8 * args["n"]))
        if t == "vendor":
          body = struct.pack("!I", VENDOR_IDS[self.variant % len(VENDOR_IDS)]) + body
        stype = UNK_STYPE[self.variant % len(UNK_STYPE)] if t == "unk" else STYPE[t]
      else:
        body = b"".join(entry_bytes(t, k, g, args["first"] + j) for j in range(args["n"]))
        stype = STYPE[t]
      flags = 1 if args["more"] else 0          # OFPSF_REPLY_MORE, the only flag OpenFlow 1.0 defines
      data = rb.stats_reply(stype, body, flags=flags, xid=self.xids[args["x"]])
      self._note_part(k, t, args["more"])
      self.with_listeners(args.get("raw", "none"), ["RawStatsReply"], lambda: self.feed(data))
    elif a == "Other":
      self.feed(self.other(args["kind"]))
    else:
      raise ValueError(a)
    if self.con.disconnected:
      return {"disconnected": True}
    return {"con": list(self.ev_con), "nexus": list(self.ev_nexus), "free": []}

  def _note_part(self, k, t, more):
    """For failure signatures only: which replies of NOT multipart-capable types (vendor / unknown type,
    split or not; desc or aggregate split with MORE) arrived while request k's reply was being assembled."""
    self.cur_since = sorted(self.since.get(k, ()))
    if t in OPAQUE or (t not in MULTI and (more or k in self.odd_open)):
      for j in self.since:
        if j != k:
          self.since[j].add(t)
      if more:
        self.odd_open.add(k)
    if more:
      self.since.setdefault(k, set())
    else:
      self.since.pop(k, None)
      self.odd_open.discard(k)

  def normalize(self, obs, exp):
    """exp.free = the (type, xid) pairs whose events the spec leaves open in this step (the own events of a
    desc / aggregate reply that is split although the type is not multipart-capable): not compared."""
    if not (isinstance(obs, dict) and isinstance(exp, dict) and "con" in obs and "free" in obs):
      return obs
    free = exp.get("free") or []
    for w in ("con", "nexus"):
      obs[w] = [ev for ev in obs[w] if {"t": ev.get("t"), "x": ev.get("x")} not in free]
    obs["free"] = free
    return obs

  def other(self, kind):
    n = self.n
    if kind == "echo":
      return rb.echo_request(b"x" * (n % 3), xid=self.xids[1])
    if kind == "pktin":
      return rb.packet_in(rb.NO_BUFFER, 60, self.nos[0], 0,
                          rb.pad_to(rb.eth("ff:ff:ff:ff:ff:ff", "00:00:00:00:00:01", 0x0806), 60), xid=0)
    if kind == "portstatus":
      return rb.port_status(2, self.port_bytes(1, {"name": "a", "hw": "A", "st": n % 2}))
    if kind == "barrier":
      return rb.barrier_reply(self.xids[1 + n % 2])
    if kind == "flowrem":
      return rb.flow_removed(rb.match(), code(1, 0, 1), 1, 0, 1, 0, 0, 1, 64, xid=self.xids[1])
    if kind == "error":
      return rb.error(1, 1, b"12345678", xid=self.xids[2])
    if kind == "config":
      return rb.msg(rb.GET_CONFIG_REPLY, struct.pack("!HH", 0, 128), xid=self.xids[1])
    if kind == "vendormsg":        # an OFPT_VENDOR message (not a statistics reply)
      return rb.vendor(VENDOR_IDS[self.variant % len(VENDOR_IDS)], b"v" * (n % 5), xid=self.xids[1 + n % 2])
    if kind == "echoreply":
      return rb.echo_reply(b"y" * (n % 3), xid=self.xids[2])
    if kind == "hello":
      return rb.hello(xid=self.xids[1])
    if kind == "features":         # another features reply on the established connection
      R = lambda nm, h: {"name": nm, "hw": h, "st": 0}
      return rb.features_reply(self.dpid, ports=self.ports_bytes([R("a", "A"), R("b", "B")]),
                               xid=self.xids[1 + n % 2])
    raise ValueError(kind)

  def signature(self, st, obs):
    sig = {"spec": "StatsAgg", "action": st["a"]}
    exp = st["exp"]
    if isinstance(obs, dict) and "EXC" in obs:
      sig["observed"] = "exception:" + obs["EXC"]
      return sig
    if st["a"] == "Part":
      sig["type"] = st["args"]["t"]
      sig["final"] = not st["args"]["more"]
      if st["args"].get("raw", "none") != "none":
        sig["raw_listeners"] = st["args"]["raw"]
      if self.cur_since:
        # a vendor / unknown-type reply, or a part of a desc / aggregate reply split with MORE, arrived
        # while this request's reply was being assembled: one class, whatever else was going on
        sig["interleaved_with"] = "reply_of_non_multipart_type"
        sig.pop("raw_listeners", None)
    else:
      sig["kind"] = st["args"]["kind"]
    if not isinstance(obs, dict) or "con" not in obs:
      sig["observed"] = "no observation"
      return sig
    where = [w for w in ("con", "nexus") if obs.get(w) != exp.get(w)]
    sig["where"] = "+".join(where)
    w = where[0] if where else "con"
    o, e = obs.get(w) or [], exp.get(w) or []
    if len(o) != len(e):
      sig["observed"] = "no_event" if not o else ("spurious_event" if not e else "%d_events" % len(o))
    else:
      oe, ee = o[0]["e"], e[0]["e"]
      if o[0]["t"] != e[0]["t"] or o[0]["x"] != e[0]["x"]:
        sig["observed"] = "event_of_other_request"
      elif len(oe) < len(ee) and oe == ee[len(ee) - len(oe):]:
        sig["observed"] = "earlier_parts_missing"
      elif len(oe) < len(ee):
        sig["observed"] = "entries_missing"
      elif any(x[:2] != ee[0][:2] for x in oe if ee) or (not ee and oe):
        sig["observed"] = "foreign_entries"
      elif sorted(oe) == sorted(ee):
        sig["observed"] = "entries_out_of_order"
      else:
        sig["observed"] = "wrong_entries"
    return sig
