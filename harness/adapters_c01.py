"""C01 adapter: OFWire.tla actions -> the real codec of pox.openflow.libopenflow_01 / nicira.

An abstract value of the spec ({"k": kind, "f": {field: bytes-as-list | value | [values]}})
is turned into the library's objects through the library's public constructors
and attributes (Choose / Modify), packed (Encode), fed as BYTES COMPUTED BY THE SPEC
through the library's real decode dispatch (of_01.unpackers = util.make_type_to_unpacker_table,
_unpack_actions, _unpack_queue_props, unpack_new) at a non-zero buffer offset (Decode),
and re-packed (Reencode).  Observations are projected back onto abstract values by
reading the objects' public attributes; field widths come from the layout tables that
TLC exported from the spec (params["layout"]), not from the library.
"""
from harness import poxenv

poxenv.boot()

import pox.openflow.libopenflow_01 as of                  # noqa: E402
import pox.openflow.nicira as nx                          # noqa: E402
from pox.openflow import of_01                             # noqa: E402
from pox.lib.addresses import EthAddr, IPAddr              # noqa: E402

_NX_READY = False


def _nx_ready():
  """install nicira's vendor-message dispatch exactly as nicira.launch() does"""
  global _NX_READY
  if not _NX_READY:
    nx._init_unpacker()
    _NX_READY = True


VALUED = ("u", "str", "rest", "sub", "list", "listn", "listc", "listz")
LISTS = ("list", "listn", "listc", "listz")
MACS = {"hw_addr", "dl_addr", "dl_src", "dl_dst"}
IPS = {"nw_addr"}
MATCH_FIELDS = ["in_port", "dl_src", "dl_dst", "dl_vlan", "dl_vlan_pcp", "dl_type", "nw_tos", "nw_proto",
                "nw_src", "nw_dst", "tp_src", "tp_dst"]
MATCH_W = dict(in_port=2, dl_src=6, dl_dst=6, dl_vlan=2, dl_vlan_pcp=1, dl_type=2, nw_tos=1, nw_proto=1,
               nw_src=4, nw_dst=4, tp_src=2, tp_dst=2)


class Unbuildable(Exception):
  """the harness has no way to express this abstract value (machinery problem, not a verdict)"""


def _int(b):
  return int.from_bytes(bytes(b), "big")


def _flds(sv):
  f = sv.get("f")
  return f if isinstance(f, dict) else {}      # TLC prints an empty record as []


# ---------------------------------------------------------------------------
# statistics: which body class carries a sreq_* / srep_* kind
SREQ_BODY = {"sreq_desc": lambda: of.ofp_desc_stats_request(), "sreq_table": lambda: of.ofp_table_stats_request(),
             "sreq_flow": lambda: of.ofp_flow_stats_request(), "sreq_aggregate": lambda: of.ofp_aggregate_stats_request(),
             "sreq_port": lambda: of.ofp_port_stats_request(), "sreq_queue": lambda: of.ofp_queue_stats_request(),
             "sreq_vendor": lambda: of.ofp_vendor_stats_generic()}
SREP_SINGLE = {"srep_desc": lambda: of.ofp_desc_stats(), "srep_aggregate": lambda: of.ofp_aggregate_stats(),
               "srep_vendor": lambda: of.ofp_vendor_stats_generic()}
SREP_LIST = ("srep_flow", "srep_table", "srep_port", "srep_queue")
STATS_TYPE = {"desc": 0, "flow": 1, "aggregate": 2, "table": 3, "port": 4, "queue": 5, "vendor": 0xffff}

SIMPLE = {
    "hello": lambda: of.ofp_hello(), "error": lambda: of.ofp_error(), "echo_request": lambda: of.ofp_echo_request(),
    "echo_reply": lambda: of.ofp_echo_reply(), "vendor": lambda: of.ofp_vendor_generic(),
    "features_request": lambda: of.ofp_features_request(), "features_reply": lambda: of.ofp_features_reply(),
    "get_config_request": lambda: of.ofp_get_config_request(), "get_config_reply": lambda: of.ofp_get_config_reply(),
    "set_config": lambda: of.ofp_set_config(), "packet_in": lambda: of.ofp_packet_in(),
    "flow_removed": lambda: of.ofp_flow_removed(), "port_status": lambda: of.ofp_port_status(),
    "packet_out": lambda: of.ofp_packet_out(), "flow_mod": lambda: of.ofp_flow_mod(),
    "port_mod": lambda: of.ofp_port_mod(), "barrier_request": lambda: of.ofp_barrier_request(),
    "barrier_reply": lambda: of.ofp_barrier_reply(),
    "queue_get_config_request": lambda: of.ofp_queue_get_config_request(),
    "queue_get_config_reply": lambda: of.ofp_queue_get_config_reply(),
    "phy_port": lambda: of.ofp_phy_port(), "packet_queue": lambda: of.ofp_packet_queue(),
    "qp_none": lambda: of.ofp_queue_prop_none(), "qp_min_rate": lambda: of.ofp_queue_prop_min_rate(),
    "flow_stats": lambda: of.ofp_flow_stats(), "table_stats": lambda: of.ofp_table_stats(),
    "port_stats": lambda: of.ofp_port_stats(), "queue_stats": lambda: of.ofp_queue_stats(),
    "a_output": lambda: of.ofp_action_output(), "a_set_vlan_vid": lambda: of.ofp_action_vlan_vid(),
    "a_set_vlan_pcp": lambda: of.ofp_action_vlan_pcp(), "a_strip_vlan": lambda: of.ofp_action_strip_vlan(),
    "a_set_dl_src": lambda: of.ofp_action_dl_addr.set_src(), "a_set_dl_dst": lambda: of.ofp_action_dl_addr.set_dst(),
    "a_set_nw_src": lambda: of.ofp_action_nw_addr.set_src(), "a_set_nw_dst": lambda: of.ofp_action_nw_addr.set_dst(),
    "a_set_nw_tos": lambda: of.ofp_action_nw_tos(), "a_set_tp_src": lambda: of.ofp_action_tp_port.set_src(),
    "a_set_tp_dst": lambda: of.ofp_action_tp_port.set_dst(), "a_enqueue": lambda: of.ofp_action_enqueue(),
    "a_vendor": lambda: of.ofp_action_vendor_generic(), "a_generic": lambda: of.ofp_action_generic(),
    "qp_generic": lambda: of.ofp_queue_prop_generic(),
}
# library class (and discriminating attribute) -> kind, for projecting decoded objects
CLASS_KIND = [
    (of.ofp_hello, "hello"), (of.ofp_error, "error"), (of.ofp_echo_request, "echo_request"),
    (of.ofp_echo_reply, "echo_reply"), (of.ofp_vendor_generic, "vendor"), (of.ofp_features_request, "features_request"),
    (of.ofp_features_reply, "features_reply"), (of.ofp_get_config_request, "get_config_request"),
    (of.ofp_get_config_reply, "get_config_reply"), (of.ofp_set_config, "set_config"), (of.ofp_packet_in, "packet_in"),
    (of.ofp_flow_removed, "flow_removed"), (of.ofp_port_status, "port_status"), (of.ofp_packet_out, "packet_out"),
    (of.ofp_flow_mod, "flow_mod"), (of.ofp_port_mod, "port_mod"), (of.ofp_barrier_request, "barrier_request"),
    (of.ofp_barrier_reply, "barrier_reply"), (of.ofp_queue_get_config_request, "queue_get_config_request"),
    (of.ofp_queue_get_config_reply, "queue_get_config_reply"), (of.ofp_phy_port, "phy_port"),
    (of.ofp_packet_queue, "packet_queue"), (of.ofp_queue_prop_none, "qp_none"),
    (of.ofp_queue_prop_min_rate, "qp_min_rate"), (of.ofp_flow_stats, "flow_stats"),
    (of.ofp_table_stats, "table_stats"), (of.ofp_port_stats, "port_stats"), (of.ofp_queue_stats, "queue_stats"),
    (of.ofp_action_output, "a_output"), (of.ofp_action_vlan_vid, "a_set_vlan_vid"),
    (of.ofp_action_vlan_pcp, "a_set_vlan_pcp"), (of.ofp_action_strip_vlan, "a_strip_vlan"),
    (of.ofp_action_nw_tos, "a_set_nw_tos"), (of.ofp_action_enqueue, "a_enqueue"),
    (of.ofp_action_vendor_generic, "a_vendor"), (of.ofp_match, "match"), (of.ofp_action_generic, "a_generic"),
    (of.ofp_queue_prop_generic, "qp_generic"),
]
TYPED_ACTIONS = {(of.ofp_action_dl_addr, 4): "a_set_dl_src", (of.ofp_action_dl_addr, 5): "a_set_dl_dst",
                 (of.ofp_action_nw_addr, 6): "a_set_nw_src", (of.ofp_action_nw_addr, 7): "a_set_nw_dst",
                 (of.ofp_action_tp_port, 9): "a_set_tp_src", (of.ofp_action_tp_port, 10): "a_set_tp_dst"}


class Codec(object):
  """abstract value <-> library objects, driven by the layout tables of the spec"""

  def __init__(self, layout):
    self.layout = layout
    from harness import c01_nx
    self.nx = c01_nx.NX(self)

  # ---- layout helpers
  def descs(self, k):
    return [d for d in self.layout[k] if d["t"] in VALUED]

  def desc(self, k, n):
    for d in self.layout[k]:
      if d["n"] == n and d["t"] in VALUED:
        return d
    raise Unbuildable("no field %s in %s" % (n, k))

  # ---- scalar conversions
  def to_attr(self, k, d, v):
    t = d["t"]
    if t == "u":
      if d["n"] in MACS:
        return EthAddr(bytes(v))
      if d["n"] in IPS:
        return IPAddr(bytes(v))
      return _int(v)
    if t == "str":
      return bytes(v).decode("latin-1")
    if t == "rest":
      return bytes(v)
    if t == "sub":
      return self.build(v)
    if t in LISTS:
      return [self.build(x) for x in v]
    raise Unbuildable(t)

  def from_attr(self, k, d, x):
    t = d["t"]
    if t == "u":
      if isinstance(x, EthAddr):
        return list(x.toRaw())
      if isinstance(x, IPAddr):
        return list(x.toRaw())
      if isinstance(x, (bytes, bytearray)) and d["n"] in (MACS | IPS):
        return list(x)
      if x is None and d["n"] == "buffer_id":
        x = 0xffffffff                      # the library shows NO_BUFFER as None
      if isinstance(x, bool) or not isinstance(x, int):
        return {"BAD": "%s.%s=%r" % (k, d["n"], x)}
      if x < 0 or x >= 1 << (8 * d["w"]):
        return {"BAD": "%s.%s=%r out of range" % (k, d["n"], x)}
      return list(x.to_bytes(d["w"], "big"))
    if t == "str":
      if not isinstance(x, str):
        return {"BAD": "%s.%s=%r" % (k, d["n"], x)}
      return list(x.encode("latin-1"))
    if t == "rest":
      if x is None:
        x = b""
      if hasattr(x, "pack"):
        x = x.pack()
      if not isinstance(x, (bytes, bytearray)):
        return {"BAD": "%s.%s=%r" % (k, d["n"], x)}
      return list(x)
    if t == "sub":
      return self._project(x)
    if t in LISTS:
      if not isinstance(x, (list, tuple)):
        return {"BAD": "%s.%s is %s" % (k, d["n"], type(x).__name__)}
      return [self._project(e) for e in x]
    raise Unbuildable(t)

  # ---- where a field of a kind lives in the object graph
  def holder(self, k, obj, n):
    if k in ("sreq_generic", "srep_generic"):
      return obj.body if (k, n) == ("sreq_generic", "data") else obj
    if (k.startswith("sreq_") or (k.startswith("srep_") and k not in SREP_LIST)) and n not in ("xid", "flags"):
      return obj.body
    return obj

  def attr(self, k, n):
    """attribute that carries field n of kind k (mostly the field's own name)"""
    if k in ("sreq_generic", "srep_generic") and n == "stype":
      return "type"
    if (k, n) == ("srep_generic", "data"):
      return "body"
    return n

  # ---- build
  def new_object(self, k, f=None):
    """the library's object for kind k as its constructor leaves it (no field set yet)"""
    if k == "sreq_generic":
      obj = of.ofp_stats_request()
      obj.body = of.ofp_generic_stats_body()
    elif k.startswith("sreq_"):
      obj = of.ofp_stats_request()
      obj.body = SREQ_BODY[k]()
    elif k in SREP_SINGLE:
      obj = of.ofp_stats_reply()
      obj.body = SREP_SINGLE[k]()
    elif k in SREP_LIST:
      obj = of.ofp_stats_reply()
      obj.body = []
      if f is None or not f.get("body"):
        # the library cannot guess the statistics type of an empty list
        obj.type = STATS_TYPE[k[5:]]
    elif k == "srep_generic":
      obj = of.ofp_stats_reply()
    elif k in SIMPLE:
      obj = SIMPLE[k]()
    else:
      raise Unbuildable(k)
    return obj

  def set_field(self, k, obj, d, v):
    setattr(self.holder(k, obj, d["n"]), self.attr(k, d["n"]), self.to_attr(k, d, v))

  def build(self, sv):
    k = sv["k"]
    f = _flds(sv)
    if k == "match":
      return self.build_match(f)
    if self.nx.handles(k):
      return self.nx.build(k, f)
    if k in ("actions", "props"):
      return [self.build(x) for x in f[k]]
    obj = self.new_object(k, f)
    for d in self.descs(k):
      self.set_field(k, obj, d, f[d["n"]])
    return obj

  def build_match(self, f):
    m = of.ofp_match()
    for n in MATCH_FIELDS:
      v = f[n]
      if not v:
        continue
      self.set_match_field(m, n, v, f)
    return m

  def set_match_field(self, m, n, v, f):
    if n in ("nw_src", "nw_dst"):
      bits = f[n + "_bits"][0]
      setattr(m, n, (IPAddr(bytes(v)), bits) if v else None)
    elif n in ("dl_src", "dl_dst"):
      setattr(m, n, EthAddr(bytes(v)) if v else None)
    else:
      setattr(m, n, _int(v) if v else None)

  # ---- project
  def kind_of(self, obj):
    if isinstance(obj, of.ofp_stats_request) or isinstance(obj, of.ofp_stats_reply):
      req = isinstance(obj, of.ofp_stats_request)
      t = obj.type
      if t is None:
        # not packed yet: the library derives the type from the body when it packs
        b = obj.body
        if isinstance(b, list):
          b = b[0] if b else None
        t = getattr(b, "_type", None)
      for name, tt in STATS_TYPE.items():
        if t == tt:
          return ("sreq_" if req else "srep_") + name
      if isinstance(t, int):
        return "sreq_generic" if req else "srep_generic"
      return "?stats-type-%r" % (obj.type,)
    nk = self.nx.kind_of(obj)
    if nk:
      return nk
    if type(obj) in (of.ofp_action_dl_addr, of.ofp_action_nw_addr, of.ofp_action_tp_port):
      return TYPED_ACTIONS.get((type(obj), obj.type), "?%s-type-%r" % (type(obj).__name__, obj.type))
    for cls, k in CLASS_KIND:
      if type(obj) is cls:
        return k
    return "?" + type(obj).__name__

  def project(self, obj, k=None, consts=False):
    """abstract value of a library object; consts: also require the fixed fields the object exposes
    (version, type codes) to have the value the layout fixes (used for decoded objects)"""
    self.consts = consts
    return self._project(obj, k)

  def _project(self, obj, k=None):
    if k in ("actions", "props"):
      return {"k": k, "f": {k: [self._project(x) for x in obj]}}
    k = self.kind_of(obj)
    if k.startswith("?"):
      return {"k": k, "f": []}
    if k == "match":
      return self.project_match(obj)
    if self.nx.handles(k):
      return self.nx.project(k, obj)
    f = {}
    for d in self.descs(k):
      h = self.holder(k, obj, d["n"])
      if k in SREP_LIST and d["n"] == "body" and not isinstance(h.body, list):
        f[d["n"]] = {"BAD": "body is %s" % type(h.body).__name__}
        continue
      f[d["n"]] = self.from_attr(k, d, getattr(h, self.attr(k, d["n"])))
    bad = self.check_consts(k, obj) if self.consts else None
    if bad:
      f["BAD_CONST"] = bad
    return {"k": k, "f": f or []}           # TLC prints an empty record as []

  def check_consts(self, k, obj):
    """fixed fields the object exposes must have the value the layout fixes"""
    L = self.layout[k]
    bad = []
    if len(L) >= 4 and L[0]["t"] == "const" and L[0]["c"] == [1] and L[1]["t"] == "const" and len(L[1]["c"]) == 1:
      if obj.version != 1:
        bad.append("version=%r" % (obj.version,))
      if obj.header_type != L[1]["c"][0]:
        bad.append("header_type=%r" % (obj.header_type,))
    if k.startswith("a_") and L[0]["t"] == "const" and obj.type != _int(L[0]["c"]):
      bad.append("type=%r" % (obj.type,))
    if k.startswith("qp_") and L[0]["t"] == "const" and obj.property != _int(L[0]["c"]):
      bad.append("property=%r" % (obj.property,))
    return bad

  def project_match(self, m):
    f = {}
    for n in MATCH_FIELDS:
      v = getattr(m, n)
      if v is None:
        f[n] = []
      elif isinstance(v, (EthAddr, IPAddr)):
        f[n] = list(v.toRaw())
      elif isinstance(v, int) and 0 <= v < 1 << (8 * MATCH_W[n]):
        f[n] = list(v.to_bytes(MATCH_W[n], "big"))
      else:
        f[n] = {"BAD": "%s=%r" % (n, v)}
    for n, g in (("nw_src", m.get_nw_src), ("nw_dst", m.get_nw_dst)):
      a, bits = g()
      f[n + "_bits"] = [bits if a is not None else 0]
    return {"k": "match", "f": f}

  # ---- modify in place
  def target(self, k, obj, step):
    """object reached by one path step from obj (of kind k) -> (kind, object)"""
    n, i = step["f"], step["i"]
    if k in ("actions", "props"):
      lst = obj
    else:
      lst = getattr(self.holder(k, obj, n), self.attr(k, n))
    x = lst if i == 0 else lst[i - 1]
    return x

  def write_match(self, m, fields, form):
    """one write of the construction history of a match, in the spelling `form` names"""
    if form == "wildcards":
      m.wildcards = of.OFPFW_ALL            # "match everything", assigned directly
      return
    for n in MATCH_FIELDS:
      if n not in fields:
        continue
      v = fields[n]
      if n in ("nw_src", "nw_dst"):
        bits = fields[n + "_bits"][0]
        if not v:
          if form == "method":
            getattr(m, "set_" + n)(None)
          else:
            setattr(m, n, None)
          continue
        ip = IPAddr(bytes(v))
        if form == "tuple":
          setattr(m, n, (ip, bits))
        elif form == "cidr":
          setattr(m, n, "%s/%d" % (ip, bits))
        elif form == "method":
          getattr(m, "set_" + n)(ip, bits)
        elif form == "attr" and bits == 32:
          setattr(m, n, ip)
        else:
          raise Unbuildable("form %r for /%d" % (form, bits))
      elif n in ("dl_src", "dl_dst"):
        setattr(m, n, EthAddr(bytes(v)) if v else None)
      else:
        setattr(m, n, _int(v) if v else None)

  def setf(self, k, obj, path, fields, form):
    cur, ck = obj, k
    for st in path:
      cur = self.target(ck, cur, st)
      ck = self.kind_of(cur)
    if ck == "match":
      return self.write_match(cur, fields, form)
    for n, v in fields.items():
      if self.nx.handles(ck):
        self.nx.set_field(ck, cur, self.desc(ck, n), v)
      else:
        self.set_field(ck, cur, self.desc(ck, n), v)

  def modify(self, k, obj, path, op, v, form=""):
    if op == "setf":
      return self.setf(k, obj, path, v, form)
    cur, ck = obj, k
    for st in path[:-1]:
      cur = self.target(ck, cur, st)
      ck = self.kind_of(cur)
    last = path[-1]
    n, i = last["f"], last["i"]
    if ck == "match":
      if op != "set" or i != 0:
        raise Unbuildable("match op")
      fake = {n + "_bits": [32]}
      self.set_match_field(cur, n, v, fake)
      return
    if self.nx.handles(ck):
      return self.nx.modify(ck, cur, n, i, op, v)
    h = cur if ck in ("actions", "props") else self.holder(ck, cur, n)
    a = self.attr(ck, n)
    if op == "append":
      lst = h if ck in ("actions", "props") else getattr(h, a)
      lst.append(self.build(v))              # in-place change of the list the object holds
    elif i > 0:
      lst = h if ck in ("actions", "props") else getattr(h, a)
      lst[i - 1] = self.build(v)
    else:
      d = self.desc(ck, n)
      setattr(h, a, self.to_attr(ck, d, v))

  # ---- encode / decode through the library
  def pack(self, k, obj):
    if k in ("actions", "props"):
      return b"".join(x.pack() for x in obj)
    return obj.pack()

  def length(self, k, obj):
    if k in ("actions", "props"):
      return sum(len(x) for x in obj)
    return len(obj)

  def decode(self, k, buf, off, n, obj=None):
    """-> (new offset, object) through the library's own dispatch"""
    if self.nx.handles(k):
      _nx_ready()
      return self.nx.decode(k, obj, buf, off, n)
    if k == "match":
      return of.ofp_match.unpack_new(buf, off)
    L = self.layout[k]
    if len(L) >= 4 and L[0]["t"] == "const" and L[0]["c"] == [1]:
      if buf[off + 1] == 4:
        _nx_ready()
      return of_01.unpackers[buf[off + 1]](buf, off)
    if k == "actions":
      return of._unpack_actions(buf, n, off)
    if k == "props":
      return of._unpack_queue_props(buf, n, off)
    if k == "match":
      return of.ofp_match.unpack_new(buf, off)
    if k == "phy_port":
      return of.ofp_phy_port.unpack_new(buf, off)
    raise Unbuildable("no decoder for " + k)


def _first_diff(a, b, path=""):
  if type(a) != type(b):
    return path or "."
  if isinstance(a, dict):
    for key in sorted(set(a) | set(b)):
      if key not in a or key not in b:
        return "%s.%s" % (path, key)
      d = _first_diff(a[key], b[key], "%s.%s" % (path, key))
      if d:
        return d
    return None
  if isinstance(a, list):
    if a and all(isinstance(x, int) for x in a) or b and all(isinstance(x, int) for x in b):
      return None if a == b else (path or ".")
    if len(a) != len(b):
      return path + ".#"
    for i, (x, y) in enumerate(zip(a, b)):
      d = _first_diff(x, y, "%s[%d]" % (path, i))
      if d:
        return d
    return None
  return None if a == b else (path or ".")


def _strip_index(p):
  import re
  return re.sub(r"\[\d+\]", "[]", p or "")


class Adapter(object):
  def __init__(self, layout=None):
    if layout is None:
      from harness import c01_lib
      layout = c01_lib.load_layout()
    self.codec = Codec(layout)
    self.kind = None
    self.tag = None
    self.obj = None
    self.obj2 = None
    self.own = None
    self.msg = None
    self.modified = False
    self.wild_assigned = False

  def step(self, a, args):
    c = self.codec
    if a == "Modify":
      self.modified = True
      if args.get("form") == "wildcards":
        self.wild_assigned = True
    if a == "Choose":
      self.kind = args["msg"]["k"]
      self.tag = args["tag"]
      self.msg = args["msg"]
      self.obj = c.build(args["msg"])
      back = c.project(self.obj, self.kind)
      if back != args["msg"]:
        return {"ok": False, "diff": _first_diff(args["msg"], back)}
      return {"ok": True}
    if a == "Receive":
      # bytes from a peer: there is no original object, only what the decoder makes of them
      self.kind, self.tag = args["kind"], args["tag"]
      self.obj = self.obj2 = self.own = None
      return {"ok": True}
    if a == "ChoosePartial":
      # (driver only) the constructor's defaults with some fields set: returns the abstract value
      k = args["kind"]
      self.kind, self.tag = k, "random/partial"
      obj = c.nx.new_object(k) if c.nx.handles(k) else c.new_object(k)
      for d in c.descs(k):
        if d["n"] in args["fields"]:
          if c.nx.handles(k):
            c.nx.set_field(k, obj, d, args["fields"][d["n"]])
          else:
            c.set_field(k, obj, d, args["fields"][d["n"]])
      self.obj = obj
      self.msg = c.project(obj, k)
      return self.msg
    if a == "Modify":
      c.modify(self.kind, self.obj, args["path"], args["op"], args["v"], args.get("form", ""))
      return {"ok": True}
    if a == "Encode":
      b = c.pack(self.kind, self.obj)
      if not isinstance(b, bytes):
        return {"len": -1, "wire": "not-bytes:" + type(b).__name__, "free": []}
      self.own = b
      return {"len": c.length(self.kind, self.obj), "wire": list(b), "free": []}
    if a == "Decode":
      wire = self.own if args["src"] == "own" else bytes(args["wire"])
      pre = bytes(args["pre"])
      buf = pre + wire + bytes(args["post"])
      off, o2 = c.decode(self.kind, buf, len(pre), len(wire), self.obj)
      self.obj2 = o2
      try:
        # (received bytes: no original to compare with; the object must at least equal itself)
        ref = self.obj if self.obj is not None else o2
        eq = bool(o2 == ref) and not bool(o2 != ref)
      except Exception as e:        # comparison itself fails
        eq = "exception:" + type(e).__name__
      return {"consumed": off - len(pre), "eq": eq, "val": c.project(o2, self.kind, consts=True)}
    if a == "Reencode":
      b = c.pack(self.kind, self.obj2)
      n = c.length(self.kind, self.obj2)
      # rt: the re-encoding decodes, completely, to an object equal to the one it was made from
      try:
        off, o3 = c.decode(self.kind, b, 0, len(b), self.obj2)
        rt = off == len(b) and bool(o3 == self.obj2) and not bool(o3 != self.obj2) and \
            c.project(o3, self.kind, consts=True) == c.project(self.obj2, self.kind, consts=True)
      except Exception as e:
        rt = "exception:" + type(e).__name__
      return {"len": n, "wire": list(b), "free": [], "rt": rt}
    raise ValueError(a)

  def normalize(self, obs, exp):
    """free bits (OFWire.tla NormalizePrereqs): wildcard bits an encoder may clear count as set"""
    if isinstance(obs, dict) and isinstance(exp, dict) and "free" in exp and "wire" in obs:
      free = sorted(exp["free"])
      exp["free"] = free
      for side in (obs, exp):
        if isinstance(side["wire"], list):
          w = list(side["wire"])
          for pos, mask in free:
            if pos < len(w):
              w[pos] |= mask
          side["wire"] = w
      obs["free"] = free
    return obs

  def signature(self, st, obs):
    """classifies a mismatch: which action on which kind of object failed how, and whether the object
    had been changed after its first encoding (stale-state defects)"""
    sig = {"action": st["a"], "kind": self.kind, "modified": self.modified}
    if self.obj is None and st["a"] != "Choose":
      sig["received"] = True
    if self.wild_assigned:
      sig["wildcards_assigned"] = True      # the history contains `match.wildcards = OFPFW_ALL`
    exp = st["exp"]
    if isinstance(obs, dict) and "EXC" in obs:
      sig["observed"] = "exception:" + obs["EXC"]
      return sig
    if st["a"] in ("Encode", "Reencode"):
      if obs.get("wire") != exp.get("wire"):
        ow, ew = obs.get("wire"), exp.get("wire")
        sig["observed"] = "wire-length" if isinstance(ow, list) and len(ow) != len(ew) else "wire-bytes"
      elif obs.get("rt") is not True and "rt" in exp:
        sig["observed"] = "redecode=%s" % (obs.get("rt"),)
      else:
        sig["observed"] = "len()"
    elif st["a"] == "Decode":
      if obs.get("consumed") != exp.get("consumed"):
        sig["observed"] = "consumed"
      elif obs.get("val") != exp.get("val"):
        sig["observed"] = "value"
        sig["where"] = _strip_index(_first_diff(exp.get("val"), obs.get("val")))
      else:
        sig["observed"] = "eq=%s" % (obs.get("eq"),)
    else:
      sig["observed"] = "construct"
      sig["where"] = _strip_index(obs.get("diff")) if isinstance(obs, dict) else ""
    return sig
