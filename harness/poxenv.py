"""Boot the real POX code inside the harness process, under our control.

No source hooks: the scheduler thread is never started (the harness steps it),
logging is silenced, nothing is written into the repository tree.
"""
import io
import os
import sys

REPO = os.environ.get("VERIF_REPO", "/repo")
os.environ.setdefault("NOXREPO_POX_VERIF", "1")
sys.dont_write_bytecode = True
if REPO not in sys.path:
  sys.path.insert(0, REPO)

_booted = False


class VClock(object):
  """Virtual clock substituted for the `time` module inside POX modules."""
  def __init__(self, start=1000.0):
    self.now = float(start)
    self.on_sleep = None

  def time(self):
    return self.now

  def sleep(self, d):
    if self.on_sleep:
      self.on_sleep(d)
    self.now += d

  def advance(self, d):
    self.now += d

  def __getattr__(self, name):
    import time as _t
    return getattr(_t, name)


clock = VClock()


def boot(threaded_selecthub=False, quiet=True):
  """Initialise pox.core with a scheduler that the harness owns."""
  global _booted
  if _booted:
    import pox.core
    return pox.core.core
  import logging
  if quiet:
    logging.disable(logging.CRITICAL)
  import pox.lib.recoco.recoco as recoco
  recoco.Scheduler.runThreaded = lambda self, daemon=False: None
  import pox.core
  if pox.core.core is None:
    old = sys.stdout
    sys.stdout = io.StringIO()
    try:
      pox.core.initialize(threaded_selecthub=threaded_selecthub,
                          handle_signals=False)
    finally:
      sys.stdout = old
  _booted = True
  os.register_at_fork(after_in_child=_fresh_pinger)
  return pox.core.core


def _fresh_pinger():
  """Worker processes forked after boot() (multiprocessing pools of core.replay / run_driver) inherit the ONE
  pinger pipe of the core scheduler's SelectHub: a wake-up byte written in one process could be swallowed by a
  sibling's pongAll(), and a newly registered timer then never gets adopted by that hub (seen about once in a
  thousand behaviours).  Every process gets its own pipe."""
  try:
    import pox.core
    import pox.lib.util
    hub = pox.core.core.scheduler._selectHub
    hub._pinger = pox.lib.util.makePinger()
    if not hub._incoming.empty():
      hub._pinger.ping()
  except Exception:
    pass


def install_clock(*modules):
  """Replace the `time` attribute of the given modules by the virtual clock."""
  for m in modules:
    setattr(m, "time", clock)
  return clock
