"""C05 adapter: Revent.tla commands -> a real pox.lib.revent EventMixin source.

The real raiseEvent / raiseEventNoErrors runs on a second thread.  Every real
handler invocation stops there and hands control back to the adapter, which
reports it as the observation of the previous command; the next command of the
behaviour (subscribe, unsubscribe, nested raise, let an owner die, return a
value / raise an exception) is then executed *inside that real handler
invocation*.  Exactly one of the two threads runs at any time (baton passing
with two semaphores), so runs are deterministic.

Only public API of revent is used: addListener / addListenerByName /
add_listener / addListeners / listenTo / autoBindEvents, removeListener,
removeListeners, clearHandlers, raiseEvent / raiseEventNoErrors, _eventMixin_get_listener_count, the
EventHalt... constants and Event.halt.
"""
import contextlib
import io
import logging
import sys
import threading
import weakref

from harness import poxenv  # noqa: F401  (puts VERIF_REPO on sys.path)
from engine.core import Machinery

import pox.lib.revent.revent as revent

_ORIG_HOOK = revent.handleEventException
PRIOS = {"std": {0: -3, 1: 0, 2: 5}, "unit": {0: -1, 1: 0, 2: 1},
         "big": {0: -2 ** 40, 1: 0, 2: 2 ** 40}}


class EvA(revent.Event):
  pass


class EvB(revent.Event):
  pass


class EvU(revent.Event):       # never declared by the source
  pass


EV = {"A": EvA, "B": EvB, "U": EvU}


class HandlerBoom(Exception):
  """What a scripted handler raises."""


class HandlerBoomB(BaseException):
  """What a scripted handler raises when the script says "throwb": an exception
  outside the Exception hierarchy (like GeneratorExit or a library's own
  BaseException subclass)."""


class _Abort(BaseException):
  pass


def O0(**kw):
  d = dict(k="-", o="-", m="-", res="-", halt=False, id=0, alt=False, n=0, seq=[])
  d.update(kw)
  return d


class Owner(revent.EventMixin):
  """An object whose bound methods are the handlers."""
  def __init__(self, rig, name):
    self._rig = rig
    self._name = name

  # In some variants the owners are value-like objects: distinct instances that compare equal.  Whose handler an
  # unsubscription by handler names is a matter of the owner's IDENTITY (as it is for bound methods in Python).
  def __eq__(self, other):
    if getattr(self._rig, "eqowners", False) and isinstance(other, Owner):
      return True
    return self is other

  def __hash__(self):
    return 7 if getattr(self._rig, "eqowners", False) else object.__hash__(self)

  def h(self, ev):
    return self._rig.invoked(self, "h", ev)

  def _handle_EvA(self, ev):
    return self._rig.invoked(self, "A", ev)

  def _handle_EvB(self, ev):
    return self._rig.invoked(self, "B", ev)

  def _handle_EvU(self, ev):          # the source never declares EvU
    return self._rig.invoked(self, "U", ev)

  # prefixed methods: bound by autoBindEvents(prefix="other") only, never by a
  # plain autoBind (and the plain ones never by a prefixed autoBind)
  def _handle_other_EvA(self, ev):
    return self._rig.invoked(self, "oA", ev)

  def _handle_other_EvB(self, ev):
    return self._rig.invoked(self, "oB", ev)

  def _handle_other_EvU(self, ev):    # the source never declares EvU
    return self._rig.invoked(self, "oU", ev)

  def method(self, m):
    if m == "h":
      return self.h
    if len(m) == 2 and m[0] == "o":
      return getattr(self, "_handle_other_Ev" + m[1])
    return getattr(self, "_handle_Ev" + m)


def make_source(types, decl):
  evs = [EV[t] for t in types]
  if decl == "class":
    cls = type("Src", (revent.EventMixin,), {"_eventMixin_events": set(evs)})
    return cls()
  cls = type("SrcDyn", (revent.EventMixin,), {})
  s = cls()
  s._eventMixin_addEvents(evs)
  return s


class Adapter(object):
  def __init__(self, types=("A", "B"), hook="none", prios="std", decl="class",
               owners=("o1", "o2", "o3"), arbiter=None, eqowners=None):
    # arbiter: trace cfg; set in recorded replay files so that `./check C05
    # --replay FILE` decides a run that leaves the recorded behaviour the way
    # the check does (TLC validates the run as observed) instead of by equality
    self.arbiter = arbiter
    self.eqowners = (prios == "unit") if eqowners is None else eqowners     # (the "unit" variant has value-like owners)
    self.log = []
    self.skip = False
    self.types = sorted(types)
    self.prio = PRIOS[prios]
    self.hookname = hook
    if hook == "core":
      logging.disable(logging.CRITICAL)
      import pox.core  # noqa: F401  installs _revent_exception_hook
      import pox.core as pc
      self.hook = pc._revent_exception_hook
    elif hook == "default":
      self.hook = _ORIG_HOOK
    else:
      self.hook = None
    revent.handleEventException = self.hook
    self.src = make_source(self.types, decl)
    self.owners = {o: Owner(self, o) for o in owners}
    self.wr = {o: weakref.ref(self.owners[o]) for o in owners}
    self.eids = {}          # spec id -> (eventType, eid)
    self.issued = set()     # concrete eids seen
    self.nsub = 0
    self.auto = None        # list while a RaiseSimple runs
    self.deliv = []         # per delivery in progress: handlers invoked so far
    self.weakh = set()      # (o, m) that were ever subscribed weakly
    self.ninv = 0
    # baton
    self.sem_cmd = threading.Semaphore(0)
    self.sem_reply = threading.Semaphore(0)
    self.cmd = None
    self.reply = None
    self.aborting = False
    self.thread = threading.Thread(target=self._main, daemon=True)
    self.thread.start()

  # ------------------------------------------------------------ main side
  def step(self, a, args):
    if self.aborting:
      raise Machinery("adapter already closed")
    if self.skip:
      return {}
    r = self._step(a, args)
    self.log.append(dict(a=a, args=args or {}, obs=r, wf=True))
    return r

  def _step(self, a, args):
    self.cmd = (a, args or {})
    self.sem_cmd.release()
    if not self.sem_reply.acquire(timeout=60):
      raise Machinery("C05 worker thread did not answer (%s)" % a)
    r = self.reply
    self.reply = None
    if isinstance(r, dict) and r.get("MACHINERY"):
      raise Machinery(r["MACHINERY"])
    return r

  def close(self):
    self.aborting = True
    revent.handleEventException = None
    self.sem_cmd.release()
    self.thread.join(5)
    self.owners.clear()

  def normalize(self, obs, exp):
    if self.skip:
      return exp
    if self.arbiter and obs != exp and isinstance(obs, dict) and "EXC" not in obs \
       and isinstance(exp, dict) and set(obs) == set(O0()):
      from engine import tracecheck
      r, rej = tracecheck.validate("revent", "TraceRevent", self.arbiter,
                                   [self.log], tag="C05")
      if not rej:
        # the run as observed is a behaviour of the spec: it merely took
        # another permitted branch; the rest of the recorded behaviour does
        # not apply to it
        self.skip = True
        return exp
    return obs

  def signature(self, st, obs):
    a = st["a"]
    args = st.get("args") or {}
    exp = st.get("exp") or {}
    sig = {"action": a}
    if isinstance(obs, dict) and "EXC" in obs:
      sig["observed"] = "exception:" + obs["EXC"]
    elif isinstance(obs, dict):
      sig["observed"] = obs.get("k")
      sig["fields"] = sorted(k for k in exp if obs.get(k) != exp[k])
    sig["expected"] = exp.get("k")
    if a == "Unsubscribe":
      sig["mode"] = args.get("mode")
      sig["handler_weakly_subscribed"] = (args.get("o"), args.get("m")) in self.weakh
    if a == "AutoBind":
      sig["prefix"] = args.get("prefix", "")
      sig["weak"] = args.get("weak")
    if a == "UnsubscribeMany":
      items = args.get("items") or []
      sig["modes"] = sorted(set(it.get("mode") for it in items))
    if isinstance(obs, dict) and obs.get("k") == "inv":
      # the handler reported by the failing step had already run in this delivery
      d = self.deliv[-1] if self.deliv else []
      sig["handler_already_invoked"] = d.count((obs.get("o"), obs.get("m"))) > 1
    if a == "Subscribe":
      sig["weak"] = args.get("weak")
      sig["declared"] = args.get("t") in self.types
    if a in ("RaiseBegin", "RaiseSimple"):
      sig["form"] = args.get("form")
      sig["declared"] = args.get("t") in self.types
    if a == "Return":
      sig["rv"] = args.get("rv")
    return sig

  # ---------------------------------------------------------- worker side
  def _wait(self):
    self.sem_cmd.acquire()
    if self.aborting:
      self.sem_cmd.release()
      raise _Abort()
    c = self.cmd
    self.cmd = None
    return c

  def _post(self, obs):
    self.reply = obs
    self.sem_reply.release()

  def _main(self):
    try:
      self._loop(None, None)
    except _Abort:
      pass
    except BaseException as e:   # pragma: no cover
      self._post({"MACHINERY": "worker died: %r" % (e,)})

  def _count(self):
    return self.src._eventMixin_get_listener_count()

  def _loop(self, ev, running):
    """Control point: execute commands until Return (inside a handler)."""
    while True:
      a, args = self._wait()
      if a == "Return":
        if ev is None:
          self._post({"MACHINERY": "Return at top level"})
          continue
        rv = args["rv"]
        if rv == "throw":
          raise HandlerBoom("scripted")
        if rv == "throwb":
          raise HandlerBoomB("scripted")
        if rv == "sethalt":
          ev.halt = True
          return None
        return {"none": None, "true": True, "false": False,
                "cont": revent.EventContinue, "halt": revent.EventHalt,
                "remove": revent.EventRemove,
                "haltremove": revent.EventHaltAndRemove, "empty": ()}[rv]
      try:
        obs = self._do(a, args)
      except _Abort:
        raise
      except Exception as e:
        import traceback
        obs = {"EXC": type(e).__name__, "msg": str(e)[:200],
               "tb": traceback.format_exc()[-1200:]}
        e = None
      self._post(obs)

  def invoked(self, owner, m, ev):
    """Called by the real code: handler <owner.m> is being invoked."""
    self.ninv += 1
    if self.auto is not None:
      self.auto.append({"o": owner._name, "m": m})
      if len(self.auto) > 500:
        raise _Abort()
      return None
    if self.deliv:
      self.deliv[-1].append((owner._name, m))
    self._post(O0(k="inv", o=owner._name, m=m, n=self._count()))
    return self._loop(ev, owner)

  # ---- commands
  def _handler(self, o, m):
    return self.owners[o].method(m)

  def _bind(self, res):
    """(eventType, eid) handed out by the code -> next spec id."""
    if not (isinstance(res, tuple) and len(res) == 2 and isinstance(res[1], int)):
      return -2
    if res[1] in self.issued:
      return -1
    self.issued.add(res[1])
    self.nsub += 1
    self.eids[self.nsub] = res
    return self.nsub

  def _eid(self, sid):
    if sid in self.eids:
      return self.eids[sid][1]
    return 10 ** 9 + sid      # never issued

  def _do(self, a, args):
    src = self.src
    if a == "Subscribe":
      t, once, weak = args["t"], args["once"], args["weak"]
      prio = self.prio[args["prio"]]
      h = self._handler(args["o"], "h")
      try:
        if args["byName"]:
          if once:
            res = src.add_listener(h, event_name=EV[t].__name__, once=once,
                                   weak=weak, priority=prio)
          else:
            res = src.addListenerByName(EV[t].__name__, h, once=once, weak=weak,
                                        priority=prio)
        elif args["prio"] == 2:
          res = src.add_listener(h, event_type=EV[t], once=once, weak=weak,
                                 priority=prio)
        elif args["prio"] == 1 and not once and not weak:
          res = src.addListener(EV[t], h)      # all defaults
        else:
          res = src.addListener(EV[t], h, once=once, weak=weak, priority=prio)
      except revent.ReventError:
        return O0(k="rejected", n=self._count())
      finally:
        h = None
      if weak:
        self.weakh.add((args["o"], "h"))
      if res[0] is not EV[t]:
        return O0(k="sub", id=-3, n=self._count())
      return O0(k="sub", id=self._bind(res), n=self._count())
    if a == "AutoBind":
      o = self.owners[args["o"]]
      prio = self.prio[args["prio"]]
      weak = args["weak"]
      first = self.nsub + 1
      prefix = args.get("prefix", "")
      if prefix:
        # "You can also set a prefix ...": "other" and "_other" are the same
        pfx = "_" + prefix if self.hookname == "core" else prefix
        out = io.StringIO()       # a prefixed autoBind print()s a warning for
        with contextlib.redirect_stdout(out):   # _handle_other_<undeclared>
          if args["prio"] == 1 and not weak:
            res = o.listenTo(src, pfx)
          elif weak:
            res = src.addListeners(o, prefix=pfx, weak=True, priority=prio)
          else:
            res = revent.autoBindEvents(o, src, pfx, False, prio)
      elif args["prio"] == 1 and not weak:
        res = o.listenTo(src)
      elif weak:
        res = src.addListeners(o, weak=True, priority=prio)
      else:
        res = revent.autoBindEvents(o, src, priority=prio)
      o = None
      if weak:
        self.weakh.update((args["o"], ("o" + t) if prefix else t) for t in self.types)
      byt = {}
      for r in res:
        byt.setdefault(r[0], []).append(r)
      if sorted(byt, key=lambda c: c.__name__) != [EV[t] for t in self.types] \
         or any(len(v) != 1 for v in byt.values()):
        return O0(k="auto", id=-4, n=self._count())
      for t in self.types:
        if self._bind(byt[EV[t]][0]) < 0:
          first = -1
      return O0(k="auto", id=first, n=self._count())
    if a == "Unsubscribe":
      mode = args["mode"]
      if mode == "handler":
        r = src.removeListener(self._handler(args["o"], args["m"]))
      elif mode == "handlerT":
        r = src.removeListener(self._handler(args["o"], args["m"]), EV[args["t"]])
      elif mode == "eid":
        r = src.removeListener(self._eid(args["id"]))
      elif mode == "eidT":
        r = src.removeListener(self._eid(args["id"]), EV[args["t"]])
      elif mode == "pair":
        r = src.removeListener((EV[args["t"]], self._eid(args["id"])))
      else:
        raise ValueError(mode)
      if r not in (True, False):
        return O0(k="unsub", res="not-bool", n=self._count())
      return O0(k="unsub", alt=r, n=self._count())
    if a == "UnsubscribeMany":
      # the plural form: a list of handlers / eids / (type, eid) pairs exactly
      # as addListener / autoBindEvents hand them out
      lst = []
      for it in args["items"]:
        mode = it["mode"]
        if mode == "handler":
          lst.append(self._handler(it["o"], it["m"]))
        elif mode == "eid":
          lst.append(self._eid(it["id"]))
        elif mode == "pair":
          sid = it["id"]
          if sid in self.eids and self.eids[sid][0] is EV[it["t"]]:
            lst.append(self.eids[sid])      # the very object the code returned
          else:
            lst.append((EV[it["t"]], self._eid(sid)))
        else:
          raise ValueError(mode)
      try:
        r = src.removeListeners(lst)
      finally:
        del lst[:]
      if r not in (True, False):
        return O0(k="unsub", res="not-bool", n=self._count())
      return O0(k="unsub", alt=r, n=self._count())
    if a == "ClearAll":
      src.clearHandlers()
      return O0(k="clear", n=self._count())
    if a == "DropOwner":
      del self.owners[args["o"]]
      return O0(k="drop", n=self._count())
    if a in ("RaiseBegin", "RaiseSimple"):
      t, form = args["t"], args["form"]
      ev = EV[t]() if form == "inst" else EV[t]
      fn = src.raiseEventNoErrors if args.get("noerr") else src.raiseEvent
      simple = a == "RaiseSimple"
      if simple:
        if self.auto is not None:
          raise Machinery("nested RaiseSimple")
        self.auto = []
      old_err = sys.stderr
      if self.hookname == "default":
        sys.stderr = io.StringIO()
      if not simple:
        self.deliv.append([])
      try:
        try:
          res = fn(ev)
        finally:
          sys.stderr = old_err
          if not simple:
            self.last_deliv = self.deliv.pop()
          seq = self.auto if simple else []
          if simple:
            self.auto = None
      except revent.ReventError:
        return O0(k="rejected", n=self._count())
      except (HandlerBoom, HandlerBoomB):
        return O0(k="simple" if simple else "end", res="exc", n=self._count())
      k = "simple" if simple else "end"
      if res is None:
        return O0(k=k, res="none", n=self._count(), seq=seq)
      if not isinstance(res, EV[t]) or (form == "inst" and res is not ev) \
         or res.source is not src:
        return O0(k=k, res="other", n=self._count(), seq=seq)
      return O0(k=k, res="event", halt=(not simple) and res.halt is True,
                n=self._count(), seq=seq)
    raise ValueError(a)
