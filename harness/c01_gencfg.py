"""Regenerates specs/wire/*.cfg (C01).  The .cfg files are committed; this script
documents how the alphabets of the TLC runs are composed:
  /venv/bin/python harness/c01_gencfg.py
Every configuration model-checks all invariants of OFWire.tla on its family of
objects and prints each complete behaviour (INVARIANT Export) for the replay.
"""
import os

D = os.path.join(os.path.dirname(os.path.dirname(os.path.abspath(__file__))), "specs", "wire")
INVS = ["TypeOK", "LenFieldOK", "ConsumedOK", "Lossless", "Stable", "Idempotent", "Fresh", "Mult8"]

OF = "TopKindsOF"
# run name -> (Cases expression, Around)
RUNS = {
    "tiny": ('Uniform({"hello", "flow_mod", "packet_out", "srep_flow", "actions"}) \\cup Outputs(0)', "AroundBoth"),
    # quick tier
    "q_uniform": ("Uniform(%s) \\cup Empty(%s) \\cup Outputs(0) \\cup NXUniform(TopKindsNX)" % (OF, OF), "AroundBoth"),
    "q_dev": ("Deviations(%s \\ StatsKinds)" % OF, "AroundOne"),
    "q_dev_stats": ("Deviations(StatsKinds)", "AroundOne"),
    "q_shapes": ("Payloads({0, 1, 2, 7, 8, 9, 1499, 1500}) \\cup ListsOf(1) \\cup Counts(0..3)", "AroundOne"),
    "q_match": ('MatchIn("match", MFlags2(0) \\cup MFlagsCo(2) \\cup MBits(BitsQ) \\cup MTypes(0) \\cup MVals(0), "q") \\cup '
                'MatchIn("flow_mod", MFlags2(0) \\cup MFlagsCo(2) \\cup MBits(BitsQ) \\cup MTypes(0) \\cup MVals(0), "q") \\cup '
                'UNION {MatchIn(k, MFlags1(0) \\cup MTypes(0), "q") : k \\in MatchKinds \\ {"match", "flow_mod"}}',
                "AroundOne"),
    "q_mod": ("Modified(0) \\cup NXModified(0)", "AroundOne"),
    "q_nx": ("NXDeviations(TopKindsNX) \\cup NXShapes({0, 1, 2, 3, 4, 5})", "AroundOne"),
    "q_nxm": ("NXEntries(0) \\cup NXRegs(0)", "AroundOne"),
    "q_hist": ('Histories("match", ExactTCP, NwSteps("nw_src") \\cup NwSteps("nw_dst") \\cup FieldSteps, 2, "pre") \\cup '
               'Histories("match", IPOnly, NwSteps("nw_src") \\cup {HStep(Wild, "wildcards")}, 2, "pre")', "AroundOne"),
    "q_hist2": ('Histories("flow_mod", ExactTCP, NwSteps("nw_dst") \\cup {HStep(("nw_proto" :> <<>>), "attr"), '
                'HStep(("tp_dst" :> <<>>), "attr"), HStep(Wild, "wildcards")}, 2, "pre") \\cup '
                'UNION {Histories(k, ExactTCP, NwSteps("nw_src") \\cup FieldSteps, 1, "post") : k \\in DOMAIN MatchPos} \\cup '
                'UNION {PrePost(k, ExactTCP, NwSteps("nw_src")) : k \\in {"flow_removed", "sreq_flow", "srep_flow"}} \\cup Cycles(0)',
                "AroundOne"),
    "q_recv": ("{}", "AroundOne", "Received({33, 63})"),
    # thorough tier (in addition)
    "t_pairs": ("Pairs(%s)" % OF, "AroundOne"),
    "t_shapes": ("Payloads(0..40 \\cup {63, 64, 65, 127, 128, 129, 255, 256, 257, 1023, 1024, 1498, 1499, 1500}) "
                 "\\cup ListsOf(2) \\cup Counts(0..6)", "AroundOne"),
    "t_match_fm": ('MatchIn("flow_mod", MFlagsAll(0) \\cup MBits(BitsT) \\cup MTypes(0) \\cup MVals(0), "t")', "AroundBoth"),
    "t_match_other": ('UNION {MatchIn(k, MFlagsAll(0) \\cup MBits(BitsT) \\cup MTypes(0) \\cup MVals(0), "t") : '
                      'k \\in MatchKinds \\ {"flow_mod"}}', "AroundOne"),
    "t_long": ("Longest(0)", "AroundOne"),
    "t_hist": ('UNION {Histories("match", b, NwStepsT("nw_src") \\cup NwStepsT("nw_dst") \\cup FieldSteps, 2, "pre") : '
               'b \\in {ExactTCP, IPOnly}} \\cup '
               'Histories("match", ExactTCP, NwSteps("nw_src") \\cup NwSteps("nw_dst"), 3, "pre") \\cup '
               'Histories("match", ARP, NwSteps("nw_src") \\cup FieldStepsT, 2, "pre")', "AroundOne"),
    "t_hist2": ('UNION {Histories(k, ExactTCP, NwSteps("nw_src") \\cup NwSteps("nw_dst") \\cup FieldSteps, 2, "pre") : '
                'k \\in {"flow_mod", "srep_flow"}} \\cup '
                'UNION {PrePost(k, ExactTCP, NwSteps("nw_src") \\cup FieldSteps) : k \\in DOMAIN MatchPos}', "AroundOne"),
    "t_recv": ("{}", "AroundBoth", "Received({32, 33, 40, 62, 63})"),
    "t_nx": ("NXPairs(TopKindsNX) \\cup NXShapes(0..9) \\cup NXEntriesT(0)", "AroundOne"),
}


def main():
  for name, run in RUNS.items():
    cases, around = run[0], run[1]
    rcases = run[2] if len(run) > 2 else "{}"
    with open(os.path.join(D, "MC_%s.tla" % name), "w") as f:
      f.write("---- MODULE MC_%s ----\nEXTENDS MCOFWire\nTheCases == %s\nTheRCases == %s\nTheAround == %s\n====\n"
              % (name, cases, rcases, around))
    lines = ["CONSTANTS", "  Cases <- TheCases", "  RCases <- TheRCases", "  Around <- TheAround", "INIT Init", "NEXT Next"]
    lines += ["INVARIANT %s" % i for i in INVS]
    lines += ["INVARIANT Export", "CHECK_DEADLOCK FALSE"]
    with open(os.path.join(D, "MC_%s.cfg" % name), "w") as f:
      f.write("\n".join(lines) + "\n")
  # layout export for the adapter
  with open(os.path.join(D, "MC_layout.tla"), "w") as f:
    f.write("---- MODULE MC_layout ----\nEXTENDS MCOFWire\nTheCases == {}\nTheRCases == {}\nTheAround == {}\n"
            "ASSUME PrintT(<<\"L\", ToJson(Layout)>>)\n"
            "ASSUME PrintT(<<\"N\", ToJson([fields |-> NxmFields, maskable |-> NxmMaskable])>>)\n====\n")
  with open(os.path.join(D, "MC_layout.cfg"), "w") as f:
    f.write("CONSTANTS\n  Cases <- TheCases\n  RCases <- TheRCases\n  Around <- TheAround\nINIT Init\nNEXT Next\nCHECK_DEADLOCK FALSE\n")
  # trace validation (code -> spec)
  lines = ["CONSTANTS", "  Cases <- MCNoCases", "  RCases <- MCNoCases", "  Around <- AroundBoth", "INIT TrInit", "NEXT TrNext",
           "CONSTRAINT Progress", "POSTCONDITION Accepted"]
  lines += ["INVARIANT %s" % i for i in INVS]
  lines += ["CHECK_DEADLOCK FALSE"]
  with open(os.path.join(D, "Trace.cfg"), "w") as f:
    f.write("\n".join(lines) + "\n")


if __name__ == "__main__":
  main()
