"""X12 environment: the real pox.proto.rip.rip_core driven through a minimal RIPRouter subclass.

* `MiniRouter` is the smallest concrete RIPRouter: it is linux_rip.LinuxRIPRouter without sockets and without
  the `ip` command line - receive() is LinuxRIPRouter.run()'s dispatch, send_updates() is
  LinuxRIPRouter.send_updates() (the shape documented in RIPRouter.send_updates), the static/local route
  helpers are the bodies of OVSRIPRouter.add_static_route / _refresh_ports and LinuxRIPRouter.add_iface_routes /
  add_local_routes.  Everything else (Entry, process_response, process_entry, get_responses,
  package_responses, trigger_update, _on_triggered_update, _get_port_ip_map, _mark_all_clean) is rip_core's.
* Time is poxenv's virtual clock, installed into recoco and rip_core.  Timers are the real recoco Timers,
  registered with the real SelectHub of the core scheduler.  The harness never lets the hub sleep: it adopts new
  registrations with the hub's own code (clock held back so that nothing expires meanwhile) and releases due
  timers itself, one at a time, either in the order the specification chose (replay) or in the hub's own order
  (driver), so that every timer callback is one observable step.
* RIP messages go in and come out as bytes: built with pox.lib.packet.rip, pack()ed, parsed again with
  rip(raw=...) on the receiving side (router input) and by the harness (router output).
"""
import select as _select
import socket

from harness import poxenv
from engine.core import Machinery

core = poxenv.boot()
import pox.lib.recoco.recoco as recoco            # noqa: E402
import pox.proto.rip.rip_core as rc               # noqa: E402
import pox.lib.packet as pkt                      # noqa: E402
from pox.lib.addresses import IPAddr              # noqa: E402

RIP = pkt.RIP
clock = poxenv.install_clock(recoco, rc)
sched = core.scheduler
hub = sched._selectHub
INF = 16


class Horizon(Exception):
  pass


def _vselect(r, w, x, timeout):
  ro, wo, xo = _select.select(list(r), list(w), list(x), 0)
  if not (ro or wo or xo) and not hub._incoming.empty():
    hub._pinger.ping()          # wake-up byte lost (pipe shared with a forked sibling): ping again
    ro, wo, xo = _select.select(list(r), list(w), list(x), 0)
  if ro or wo or xo:
    return ro, wo, xo
  raise Horizon()


def settle():
  """run every ready task, let the hub adopt every new timer registration; no timer is released here"""
  hub._select_func = _vselect
  for _ in range(10000):
    while sched._ready:
      sched.cycle()
    if hub._incoming.empty():
      return
    real = clock.now
    clock.now = -1.0e9          # nothing is "expired" while the hub takes the registrations in
    try:
      hub._select(hub._tasks, {})
    except Horizon:
      pass
    finally:
      clock.now = real
  raise Machinery("x12_env: scheduler did not settle")


def timers():
  """all Timer tasks sleeping in the hub: [(timer, due)] in the hub's own (registration) order"""
  return [(t, st[4]) for t, st in hub._tasks.items() if isinstance(t, recoco.Timer)]


def release(t):
  """wake one sleeping timer task and run it (its callback runs inside the real Timer.run)"""
  del hub._tasks[t]
  hub._return(t, ([], [], []))
  settle()


def reset():
  """forget every timer of earlier behaviours (same process, fresh router)"""
  settle()
  for t, _ in timers():
    t.cancel()
    del hub._tasks[t]
    hub._return(t, ([], [], []))
  settle()
  clock.now = 1000.0


def cb_kind(t):
  """what a live Timer is going to call"""
  cb = t._callback
  names = getattr(getattr(cb, "__code__", None), "co_names", ())
  if "_handle_timeout" in names:
    return "to"
  if "_handle_garbage" in names:
    return "gc"
  f = getattr(cb, "__func__", None)
  if f is rc.RIPRouter._on_triggered_update:
    return "trig"
  if getattr(f, "__name__", "") in ("_on_send", "_first_send"):
    return "per"
  return "other"


def remaining(due):
  d = due - clock.now
  return int(d) if d == int(d) else "frac:%r" % d


# ---------------------------------------------------------------------------------------- RIP bytes
AF_OF = {"inet": socket.AF_INET, "other": 10, "zero": 0}


def rip_bytes(command, ents):
  """ents: [(ip, bits, metric, tag, af)] -> bytes of a RIP v2 message (pox.lib.packet.rip pack())"""
  p = RIP.rip()
  p.version = 2
  p.command = command
  for ip, bits, metric, tag, af in ents:
    e = RIP.RIPEntry()
    e.address_family = AF_OF[af]
    e.route_tag = tag
    e.ip = IPAddr(ip)
    e.network_bits = bits
    e.metric = metric
    p.entries.append(e)
  return p.pack()


def rip_parse(data):
  """bytes -> (wire, [(ip, bits, metric)]); wire = "ok" when every fixed field is what RIP v2 responses carry"""
  p = RIP.rip(raw=data)
  bad = []
  if len(data) == 4:
    # header only (package_responses' empty packet): pox's own parser refuses anything shorter than 24 octets,
    # so the four octets are read here
    import struct
    p = RIP.rip()
    p.command, p.version, z = struct.unpack("!BBH", data)
    p.parsed = (z == 0)
  if not p.parsed:
    bad.append("unparsed")
  if p.version != 2:
    bad.append("version=%s" % p.version)
  if p.command != RIP.RIP_RESPONSE:
    bad.append("command=%s" % p.command)
  if len(data) != 4 + 20 * len(p.entries):
    bad.append("length=%d" % len(data))
  out = []
  for e in p.entries:
    if e.address_family != socket.AF_INET:
      bad.append("af=%s" % e.address_family)
    if e.route_tag != 0:
      bad.append("tag=%s" % e.route_tag)
    if str(e.next_hop) != "0.0.0.0":
      bad.append("next_hop=%s" % e.next_hop)
    try:
      bits = e.network_bits
    except Exception:
      bits = -1
    out.append((str(e.ip), bits, e.metric))
  return ("ok" if not bad else ",".join(sorted(set(bad)))), out


# ---------------------------------------------------------------------------------------- the router
class MiniRouter(rc.RIPRouter):
  def __init__(self, name, ifaces, T, G, R, mtu=None, periodic=None):
    class _Entry(rc.Entry):
      TIMEOUT = T
      GARBAGE_TIMEOUT = G
    self.ENTRY_TYPE = _Entry
    self.TRIGGERED_TIMER = R
    super(MiniRouter, self).__init__()
    self.name = name
    self.ifaces = list(ifaces)          # like LinuxRIPRouter.sock_to_iface (one "socket" per interface)
    self.mtu = mtu
    self.sent = []                      # [(iface, bytes)]
    self.syncs = 0
    self.fib = None
    self.send_timer = None
    if periodic is not None:            # LinuxRIPRouter._handle_core_UpEvent
      self.SEND_TIMER = periodic[0]
      self.send_timer = recoco.Timer(periodic[1], self._first_send)

  # LinuxRIPRouter._handle_core_UpEvent starts the recurring timer when POX goes up; routers of one network go
  # up at different instants, which the harness expresses as a one-shot delay before the recurring timer starts
  def _first_send(self):
    self.send_timer = recoco.Timer(self.SEND_TIMER, self._on_send, recurring=True)
    self._on_send()

  def _on_send(self):                   # LinuxRIPRouter._on_send / OVSRIPRouter._on_send
    self.send_updates(force=True)

  def sync_table(self):
    self.syncs += 1
    self.fib = sorted((e.key, str(e.next_hop), e.metric) for e in self.table.values() if not e.local)

  def send_updates(self, force):        # LinuxRIPRouter.send_updates
    direct = self._get_port_ip_map()
    for iface in self.ifaces:
      dests = direct.get(iface)
      if self.mtu is None:
        responses = self.get_responses(dests, force=force)
      else:
        responses = self.get_responses(dests, force=force, mtu=self.mtu)
      for r in responses:
        self.sent.append((iface, r.pack()))
    self._mark_all_clean()

  def receive(self, iface, addr, data):  # LinuxRIPRouter.run, one datagram
    addr = IPAddr(addr)
    data = RIP.rip(raw=data)
    if data.version != 2:
      return
    if data.command == RIP.RIP_REQUEST:
      self.process_request(iface, addr, data)
    elif data.command == RIP.RIP_RESPONSE:
      self.process_response(iface, addr, data)
      self.sync_table()

  # -- configuration, as the two real subclasses do it
  def add_static_route(self, prefix, next_hop, metric=1):     # OVSRIPRouter.add_static_route
    e = self._new_entry(static=True, origin=next_hop)
    e.ip = prefix[0]
    e.size = prefix[1]
    e.metric = metric
    self.table[e.key] = e

  def add_connected(self, prefix, dev):                        # OVSRIPRouter._refresh_ports
    e = self._new_entry(static=True)
    e.ip = prefix[0]
    e.size = prefix[1]
    e.dev = dev
    e.metric = 0
    self.table[e.key] = e

  def add_iface_route(self, iface, ip):                        # LinuxRIPRouter.add_iface_routes
    n = self._new_entry(local=True, origin=ip, dev=iface)
    self.table[n.key] = n

  def add_local_route(self, prefix, src, metric=1):            # LinuxRIPRouter.add_local_routes
    n = self._new_entry(local=True, origin=src)
    n.ip = prefix[0]
    n.size = prefix[1]
    n.metric = metric
    self.table[n.key] = n
