"""X03 network simulator: hub / l2_pairs / l2_multi (+ openflow.discovery) closed over bytes.

Same substrate as harness/c11_netsim.py (whose sockets, segmentation patterns
and struct-only frame builders are reused unchanged):

  hosts --frames--> SoftwareSwitch (real) --OFConnection/IOWorker (real)--+
                                                                           | bytes
  forwarding component (real) <- events - of_01.Connection (real) <- sock -+

plus, for l2_multi, what harness/c19_netsim.py does for discovery: the recoco
scheduler is owned by the harness and `advance(d)` lets the LLDP send timer
and the link-timeout timer fire at their exact virtual times; LLDP probes
travel over the wires that are physically up.

* `Net(comp, ...)`: comp in {"hub_pro", "hub_re", "pairs", "multi"}; the
  component is started through its own `launch()` on a fresh OpenFlowNexus.
* Wires are undirected cables ((s1,p1),(s2,p2)); `cut` / `restore` change the
  physical state only - the controller finds out through discovery.
* `inject(s, p, frame)`: one frame enters the network; every arrival at a
  switch is one hop, processed until the control channels are quiet; frames
  leaving on a wire that is up arrive at the neighbour (FIFO).
* Observed for verdicts: PACKET_INs on the wire (decoded by rawbytes),
  DpPacketOut events, flow tables read through OFPST_FLOW on the wire, buffer
  occupancy (`_packet_buffer`, no public accessor).
"""
import os
import select as _select

from engine.core import Machinery
from harness import poxenv
from harness import rawbytes as rb
from harness import c11_netsim as c11          # sockets, chunking, frame builders (not edited)

core = poxenv.boot()

import pox.openflow as ofmod                                  # noqa: E402
import pox.openflow.of_01 as of_01                            # noqa: E402
import pox.openflow.libopenflow_01 as of                      # noqa: E402
import pox.lib.recoco.recoco as recoco                        # noqa: E402
from pox.lib.ioworker import IOWorker                         # noqa: E402
from pox.lib.util import make_pinger                          # noqa: E402
from pox.datapaths import switch as swmod                     # noqa: E402
from pox.openflow import flow_table as ftmod                  # noqa: E402
from pox.lib.packet.ethernet import ethernet                  # noqa: E402
import pox.openflow.discovery as discmod                      # noqa: E402
import pox.forwarding.hub as hubmod                           # noqa: E402
import pox.forwarding.l2_pairs as pairsmod                    # noqa: E402
import pox.forwarding.l2_multi as multimod                    # noqa: E402

clock = poxenv.install_clock(recoco, of_01, discmod, multimod, swmod, ftmod)
discmod.random = lambda: 0.5

Diverged = c11.Diverged
ChannelLost = c11.ChannelLost
HandshakeFailed = c11.HandshakeFailed

LLDP_TYPE = 0x88cc
NDP_MCAST = bytes.fromhex("012320000001")


class Horizon(Exception):
  pass


class Node(object):
  pass


class Net(object):
  MAX_ROUNDS = 80
  MAX_HOPS = 40

  def __init__(self, comp, nsw=1, nports=3, links=None, noflood=(), max_buffers=2, seg=0,
               dpids=None, miss_send_len=128):
    self.comp = comp
    self.nsw = nsw
    self.nports = nports
    self.wires = {}                                   # (s,p) -> (s2,p2), both directions
    for a, b in (links or {}).items():
      self.wires[tuple(a)] = tuple(b)
      self.wires[tuple(b)] = tuple(a)
    self.upw = set(self.wires)                        # wire ends whose cable is physically up
    self.seg = c11.SEG_PATTERNS[seg % len(c11.SEG_PATTERNS)]
    self._segstate = [0]
    self.dpids = dpids or list(range(1, nsw + 1))
    self.s_of = {d: i + 1 for i, d in enumerate(self.dpids)}
    self.tracing = False
    self.emits = []
    self.wireq = []
    self.lost = 0
    self._target = clock.now
    self._fresh_controller()
    self.nodes = {}
    for s in range(1, nsw + 1):
      n = Node()
      n.s = s
      n.dpid = self.dpids[s - 1]
      n.sw = swmod.SoftwareSwitch(n.dpid, ports=nports, max_buffers=max_buffers,
                                  miss_send_len=miss_send_len)
      for (fs, fp) in noflood:
        if fs == s:
          n.sw.ports[fp].config |= of.OFPPC_NO_FLOOD  # operator's configuration (a static spanning tree)
      n.worker = IOWorker()
      n.worker.socket = c11.SwSock(s)
      n.ofc = swmod.OFConnection(n.worker)
      n.sw.set_connection(n.ofc)
      n.sw.addListenerByName("DpPacketOut", self._on_out(s))
      n.sock = c11.CtlSock(s)
      n.con = None
      n.c2s, n.s2c = [], []
      n.c2s_raw, n.s2c_raw = b"", b""
      self.nodes[s] = n
    self._connect()

  # ---------------------------------------------------------------- controller
  def _fresh_controller(self):
    sched = core.scheduler
    hub = sched._selectHub
    self.sched, self.hub = sched, hub
    hub._select_func = self._vselect
    if getattr(hub, "_x03_pid", None) != os.getpid():
      # forked replay / driver workers inherit ONE pinger pipe: a wake-up byte written in one process can be
      # swallowed by another, and SelectHub only adopts newly registered timers when it sees the pinger
      # readable - timers would silently never fire.  Every process gets its own pinger.
      hub._pinger = make_pinger()
      hub._x03_pid = os.getpid()
    sched._ready.clear()
    for t in list(hub._tasks):
      if isinstance(t, recoco.Timer):
        t._cancelled = True
        del hub._tasks[t]
    keep = []
    while not hub._incoming.empty():
      it = hub._incoming.get(True)
      hub._incoming.task_done()
      if not isinstance(it[0], recoco.Timer):
        keep.append(it)
    for it in keep:
      hub._incoming.put(it)
    old = core.components.get("openflow")
    if old is not None:
      try:
        core.removeListener(old._handle_DownEvent)
      except Exception:
        pass
    self.nexus = ofmod.OpenFlowNexus()
    core.components["openflow"] = self.nexus
    core.components["OpenFlowConnectionArbiter"] = ofmod.OpenFlowConnectionArbiter()
    of_01.Connection.ID = 0
    of_01.Connection._aborted_connections = 0
    of_01.deferredSender.sending = False
    of_01.deferredSender._dataForConnection.clear()
    for name in ("openflow_discovery", "l2_multi", "l2_learning"):
      core.components.pop(name, None)
    self.disc = None
    self.link_events = []
    c = self.comp
    if c == "hub_pro":
      hubmod.launch(reactive=False)
    elif c == "hub_re":
      hubmod.launch(reactive=True)
    elif c == "pairs":
      pairsmod.table.clear()
      pairsmod.all_ports = of.OFPP_FLOOD
      pairsmod.launch()
    elif c == "multi":
      multimod.adjacency.clear()
      multimod.switches.clear()
      multimod.mac_map.clear()
      multimod.path_map.clear()
      multimod.waiting_paths.clear()
      discmod.launch()
      self.disc = core.components["openflow_discovery"]
      multimod.launch()
      self.multi = core.components["l2_multi"]
      self.disc.addListenerByName("LinkEvent", self._on_link_event, priority=1000000)
      if len(self.disc._eventMixin_handlers.get(discmod.LinkEvent, [])) < 2:
        raise Machinery("l2_multi did not attach to discovery")
    else:
      raise Machinery("unknown component %r" % (c,))

  def _on_link_event(self, e):
    l = e.link
    self.link_events.append(["add" if e.added else "rem", self.s_of.get(l.dpid1, 0), l.port1,
                             self.s_of.get(l.dpid2, 0), l.port2])

  def _on_out(self, s):
    def h(e):
      rec = (s, e.port.port_no, e.packet.pack())
      if self.tracing:
        self.emits.append(rec)
      else:
        self.wireq.append(rec)
    return h

  def _connect(self):
    for s, n in self.nodes.items():
      n.con = of_01.Connection(n.sock)
    try:
      self._settle()
    except (ChannelLost, Diverged, rb.ParseError) as e:
      raise HandshakeFailed(str(e))
    for s, n in self.nodes.items():
      if self.nexus.getConnection(n.dpid) is not n.con or n.con.connect_time is None:
        raise HandshakeFailed("switch %d did not complete the handshake" % s)
      n.c2s, n.s2c = [], []

  # ---------------------------------------------------------------- time
  def _vselect(self, r, w, x, timeout):
    ro, wo, xo = _select.select(list(r), list(w), list(x), 0)
    if not (ro or wo or xo) and not self.hub._incoming.empty():
      self.hub._pinger.ping()                       # registered timers waiting to be adopted: wake the hub
      ro, wo, xo = _select.select(list(r), list(w), list(x), 0)
    if ro or wo or xo:
      return ro, wo, xo
    if timeout is None or clock.now + timeout > self._target:
      raise Horizon()
    clock.advance(timeout)
    return [], [], []

  def _settle(self):
    for _ in range(10000):
      busy = False
      while self.sched._ready:
        self.sched.cycle()
        busy = True
      if self._pump():
        busy = True
      if not busy:
        return
    raise Diverged("network did not settle")

  def advance(self, d):
    """virtual time passes; timers fire at their exact virtual times"""
    self._target = clock.now + d
    for _ in range(200000):
      self._settle()
      try:
        self.hub._select(self.hub._tasks, {})
      except Horizon:
        if not self.sched._ready:
          break
    else:
      raise Machinery("advance: too many timer steps")
    self._settle()
    clock.now = self._target

  # ---------------------------------------------------------------- bytes / frames
  def _pump(self):
    """move bytes in both directions (and, outside inject(), frames over the wires) until quiet"""
    rounds = 0
    any_moved = False
    while True:
      moved = False
      for s, n in self.nodes.items():
        if n.sock.out:
          data, n.sock.out = n.sock.out, b""
          n.c2s_raw += data
          for ch in c11._chunks(data, self.seg, self._segstate):
            n.worker._push_receive_data(ch)
          moved = True
        if n.worker.send_buf:
          data, n.worker.send_buf = n.worker.send_buf, b""
          n.s2c_raw += data
          n.sock.inq.extend(c11._chunks(data, self.seg, self._segstate))
          while n.sock.inq:
            if n.con.read() is False:
              raise ChannelLost("controller dropped the connection of switch %d" % s)
          moved = True
      while self.wireq:
        s, p, fr = self.wireq.pop(0)
        if (s, p) in self.wires and (s, p) in self.upw:
          s2, p2 = self.wires[(s, p)]
          self.nodes[s2].sw.rx_packet(ethernet(raw=fr), p2)
        else:
          self.lost += 1
        moved = True
      if not moved:
        break
      any_moved = True
      rounds += 1
      if rounds > self.MAX_ROUNDS:
        raise Diverged("control channel still busy after %d rounds" % rounds)
    for n in self.nodes.values():
      if n.c2s_raw:
        n.c2s.extend(rb.parse_stream(n.c2s_raw))
        n.c2s_raw = b""
      if n.s2c_raw:
        n.s2c.extend(rb.parse_stream(n.s2c_raw))
        n.s2c_raw = b""
    return any_moved

  # ---------------------------------------------------------------- environment
  def cut(self, a):
    a = tuple(a)
    self.upw.discard(a)
    self.upw.discard(self.wires[a])

  def restore(self, a):
    a = tuple(a)
    self.upw.add(a)
    self.upw.add(self.wires[a])

  def sweep(self):
    for n in self.nodes.values():
      n.sw.table.remove_expired_entries()
    self._settle()

  # ---------------------------------------------------------------- projections
  def occupancy(self, s):
    return sum(1 for b in self.nodes[s].sw._packet_buffer if b is not None)

  def table_wire(self, s):
    n = self.nodes[s]
    if n.worker.send_buf or n.sock.out:
      raise Machinery("table_wire: channel of switch %d not quiet" % s)
    req = rb.stats_request(rb.ST_FLOW, rb.flow_stats_request_body(), xid=0x7e57)
    n.worker._push_receive_data(req)
    data, n.worker.send_buf = n.worker.send_buf, b""
    msgs = rb.parse_stream(data)
    if len(msgs) != 1 or msgs[0]["type"] != rb.STATS_REPLY or msgs[0].get("stype") != rb.ST_FLOW \
        or msgs[0]["xid"] != 0x7e57:
      raise Machinery("table_wire: unexpected answer to the flow statistics request: %r"
                      % [(m["name"], m.get("stype")) for m in msgs])
    return msgs[0]["flows"]

  def disc_adjacency(self):
    """discovery's adjacency as undirected cables [[s1,p1,s2,p2]] (s1<s2) known in BOTH directions, and the
    directed entries known in one direction only"""
    if self.disc is None:
      return [], []
    d = set((self.s_of.get(l.dpid1, 0), l.port1, self.s_of.get(l.dpid2, 0), l.port2) for l in self.disc.adjacency)
    both = sorted(list(x) for x in d if x[0] < x[2] and (x[2], x[3], x[0], x[1]) in d)
    half = sorted(list(x) for x in d if (x[2], x[3], x[0], x[1]) not in d)
    return both, half

  def take_link_events(self):
    e, self.link_events = self.link_events, []
    return e

  # ---------------------------------------------------------------- dataplane
  def inject(self, s, p, fr):
    """Frame `fr` arrives at port p of switch s.  Returns the hops in processing order:
    dict(s, i, s2c, c2s (per switch), out, modified, extra (other frames emitted), lostwire)."""
    self._settle()
    hops = []
    todo = [(s, p)]
    self.tracing = True
    try:
      while todo:
        if len(hops) >= self.MAX_HOPS:
          raise Diverged("frame still travelling after %d hops" % len(hops))
        cs, cp = todo.pop(0)
        self.emits = []
        for m in self.nodes.values():
          m.c2s, m.s2c = [], []
        self.nodes[cs].sw.rx_packet(ethernet(raw=fr), cp)
        self._settle()
        out, foreign, extra = [], [], []
        for (es, ep, eb) in self.emits:
          if eb != fr:
            extra.append([es, ep, eb])       # another frame (e.g. an ICMP error made up by the controller)
            continue
          if es != cs:
            foreign.append([es, ep])
            continue
          out.append(ep)
          if (es, ep) in self.wires and (es, ep) in self.upw:
            todo.append(self.wires[(es, ep)])
        hops.append(dict(s=cs, i=cp, s2c={k: m.s2c for k, m in self.nodes.items()},
                         c2s={k: m.c2s for k, m in self.nodes.items()}, out=out, foreign=foreign,
                         extra=extra))
        self.emits = []
    finally:
      self.tracing = False
    return hops
