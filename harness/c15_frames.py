"""C15 corpus: valid frames of every protocol the POX packet library parses.

struct-only byte builders - nothing here imports POX.  A frame is described
exactly as PktGrammar.tla describes it: a stack of layers [k, v] (kind,
variant), the length of the raw payload under the last layer and the length
of trailing padding after the outermost datagram.  build() assembles the
bytes bottom-up (length fields, checksums incl. pseudo-headers) and returns
the layout (offset and header length of every layer) so that the adapter can
cross-check it against the layout arithmetic of the specification.
"""
import struct

MAC_DST = bytes.fromhex("020000000002")
MAC_SRC = bytes.fromhex("020000000001")
IP4_SRC = bytes([10, 0, 0, 1])
IP4_DST = bytes([10, 0, 0, 2])
IP6_SRC = bytes.fromhex("fe800000000000000000000000000001")
IP6_DST = bytes.fromhex("fe800000000000000000000000000002")


def csum(data):
  """RFC 1071 ones-complement checksum."""
  if len(data) % 2:
    data += b"\0"
  s = sum(struct.unpack("!%dH" % (len(data) // 2), data))
  while s >> 16:
    s = (s & 0xffff) + (s >> 16)
  return (~s) & 0xffff


def payload(n):
  return bytes(((i * 37 + 0x41) & 0xff) for i in range(n))


def padding(n):
  return bytes(((i * 7 + 3) & 0xff) for i in range(n))


# ---------------------------------------------------------------------------
# per-kind header builders: f(v, body, child, parent) -> header bytes
# child = (kind, variant) of the next layer or ("raw", "") ; parent likewise

ETYPE = {"vlan": 0x8100, "arp": 0x0806, "ip4": 0x0800, "ip6": 0x86dd,
         "lldp": 0x88cc, "eapol": 0x888e, "mpls": 0x8847, "raw": 0x88b5}


def _ethertype(child, body):
  k, v = child
  if k == "arp" and v == "rreq":
    return 0x8035
  if k == "mpls" and v == "mc":
    return 0x8848
  if k == "llc":
    return min(len(body), 1500)   # 802.3 length field (deep nests: any value below 1536 means "length")
  return ETYPE[k]


def h_eth(v, body, child, parent):
  return MAC_DST + MAC_SRC + struct.pack("!H", _ethertype(child, body))


def h_vlan(v, body, child, parent):
  cfi = 1 if v == "c1" else 0
  return struct.pack("!HH", (3 << 13) | (cfi << 12) | 100, _ethertype(child, body))


def h_llc(v, body, child, parent):
  if v == "u":
    return bytes([0x42, 0x42, 0x03])
  if v == "i":
    return bytes([0x42, 0x42, 0x00, 0x02])
  if v == "snap0":
    return bytes([0xaa, 0xaa, 0x03, 0, 0, 0]) + struct.pack("!H", _ethertype(child, body))
  if v == "snapx":
    return bytes([0xaa, 0xaa, 0x03, 0, 0, 0x0c]) + struct.pack("!H", 0x2000)
  if v == "snapi":            # SNAP behind a two-octet (I-format) control field
    return bytes([0xaa, 0xaa, 0x00, 0x02, 0, 0, 0x0c]) + struct.pack("!H", 0x2000)
  raise KeyError(v)


def h_mpls(v, body, child, parent):
  s = 0 if child[0] == "mpls" else 1
  label = 16
  return struct.pack("!HBB", label >> 4, ((label & 0xf) << 4) | s, 64)


def h_arp(v, body, child, parent):
  op = {"req": 1, "rep": 2, "rreq": 3}[v]
  return (struct.pack("!HHBBH", 1, 0x0800, 6, 4, op) + MAC_SRC + IP4_SRC +
          (MAC_DST if op == 2 else b"\0" * 6) + IP4_DST)


IPPROTO = {"udp": 17, "tcp": 6, "icmp": 1, "igmp": 2, "gre": 47, "raw": 253,
           "icmp6": 58}


def h_ip4(v, body, child, parent):
  opts = bytes([1, 1, 1, 0]) if v == "opts" else b""
  hl = 5 + len(opts) // 4
  frag = 8 if v == "frag" else 0
  tot = hl * 4 + len(body)
  if v == "orig":             # the quoted datagram of an ICMP error: only its first bytes follow
    tot += 100
  h = struct.pack("!BBHHHBBH", 0x40 | hl, 0, tot, 1, frag, 64, IPPROTO[child[0]], 0)
  h += IP4_SRC + IP4_DST + opts
  c = csum(h)
  return h[:10] + struct.pack("!H", c) + h[12:]


IP6EXT = {"plain": [], "hbh": [0], "rt": [43], "dst": [60], "frag": [44],
          "hbhdst": [0, 60], "nonext": [],
          "dstbig": ["big"],
          "dstx20": [60] * 20, "dstx180": [60] * 180, "dstx1100": [60] * 1100, "dstx8000": [60] * 8000}


def h_ip6(v, body, child, parent):
  last = 59 if v == "nonext" else IPPROTO[child[0]]
  chain = IP6EXT[v]
  ext = []
  for i, t in enumerate(chain):
    nh = chain[i + 1] if i + 1 < len(chain) else last
    if t == "big":            # destination options header of the maximal length: 8 * (255 + 1) octets
      ext.append(struct.pack("!BB", nh, 255) + (bytes([1, 253]) + b"\0" * 253) * 8 + bytes([1, 4, 0, 0, 0, 0]))
    elif t == 44:
      ext.append(struct.pack("!BBHI", nh, 0, 0, 0x1234))
    elif t == 43:
      ext.append(struct.pack("!BBBBI", nh, 0, 2, 0, 0))
    else:
      ext.append(struct.pack("!BB", nh, 0) + bytes([1, 4, 0, 0, 0, 0]))     # PadN
  ext = b"".join(ext)
  first = (60 if chain[0] == "big" else chain[0]) if chain else last
  h = struct.pack("!IHBB", 6 << 28, len(ext) + len(body), first, 64)
  return h + IP6_SRC + IP6_DST + ext


def _pseudo(parent, proto, length):
  if parent[0] == "ip6":
    return IP6_SRC + IP6_DST + struct.pack("!IHBB", length, 0, 0, proto)
  return IP4_SRC + IP4_DST + struct.pack("!BBH", 0, proto, length)


UDPPORTS = {"dhcp": (68, 67), "dns": (40000, 53), "rip": (520, 520),
            "vxlan": (49152, 4789), "raw": (40000, 40001)}


def h_udp(v, body, child, parent):
  sp, dp = UDPPORTS[child[0]]
  if child == ("dns", "mdns"):
    sp, dp = 5353, 5353
  ln = 8 + len(body)
  if v == "orig":
    ln += 100
  h = struct.pack("!HHHH", sp, dp, ln, 0)
  c = csum(_pseudo(parent, 17, ln) + h + body) or 0xffff
  return h[:6] + struct.pack("!H", c)


TCPOPTS = {
  "plain": b"",
  "eol": bytes([1, 0, 0, 0]),
  "opts": bytes([2, 4, 5, 0xb4, 4, 2, 8, 10, 0, 0, 0, 1, 0, 0, 0, 2, 1, 3, 3, 7]),
  "sack": bytes([1, 1, 5, 10, 0, 0, 0, 1, 0, 0, 0, 9]),
  "mpcap": bytes([30, 12, 0x00, 0x81]) + bytes(range(1, 9)),
  "mpjoin": bytes([30, 12, 0x10, 7]) + bytes(range(1, 9)),
  "mpdss": bytes([30, 20, 0x20, 0x05, 0, 0, 0, 1, 0, 0, 0, 2, 0, 0, 0, 3, 0, 4, 0, 0]),
  "unk": bytes([253, 4, 0xab, 0xcd]),
  "unkmax": bytes([253, 4, 0xab, 0xcd]) * 10,      # the longest possible header: data offset 15
  # 40 bytes of known options: MSS, SACK-permitted, timestamps, window scale, NOP, SACK with two blocks, 2 NOPs
  "optmax": bytes([2, 4, 5, 0xb4, 4, 2, 8, 10, 0, 0, 0, 1, 0, 0, 0, 2, 3, 3, 7, 1,
                   5, 18, 0, 0, 0, 1, 0, 0, 0, 9, 0, 0, 0, 20, 0, 0, 0, 29, 1, 1]),
}


def h_tcp(v, body, child, parent):
  o = TCPOPTS[v]
  off = 5 + len(o) // 4
  h = struct.pack("!HHIIBBHHH", 40000, 80, 1000, 2000, off << 4, 0x18, 8192, 0, 0) + o
  c = csum(_pseudo(parent, 6, len(h) + len(body)) + h + body)
  return h[:16] + struct.pack("!H", c) + h[18:]


def h_icmp(v, body, child, parent):
  t, code = {"echo": (8, 0), "unreach": (3, 3), "timex": (11, 0), "raw": (13, 0)}[child[0]]
  if child == ("echo", "rep"):
    t = 0
  h = struct.pack("!BBH", t, code, 0)
  return h[:2] + struct.pack("!H", csum(h + body))


def h_echo(v, body, child, parent):
  return struct.pack("!HH", 0x1234, 7)


def h_unreach(v, body, child, parent):
  return struct.pack("!HH", 0, 1400)


def h_timex(v, body, child, parent):
  return struct.pack("!I", 0)


def h_igmp(v, body, child, parent):
  grp = bytes([224, 1, 2, 3])
  if v == "v3report":
    rec = struct.pack("!BBH", 1, 0, 1) + grp + IP4_SRC
    h = struct.pack("!BBHHH", 0x22, 0, 0, 0, 1) + rec
  else:
    t = {"query": 0x11, "report1": 0x12, "report2": 0x16, "leave": 0x17}[v]
    h = struct.pack("!BBH", t, 100 if v == "query" else 0, 0) + (b"\0" * 4 if v == "query" else grp)
  return h[:2] + struct.pack("!H", csum(h)) + h[4:]


def h_gre(v, body, child, parent):
  proto = {"ip4": 0x0800, "eth": 0x6558, "raw": 0x88b5}[child[0]]
  if v == "plain":
    return struct.pack("!HH", 0, proto)
  if v == "key":
    return struct.pack("!HHI", 0x2000, proto, 0xabcdef01)
  if v == "seq":
    return struct.pack("!HHI", 0x1000, proto, 5)
  if v == "keyseq":
    return struct.pack("!HHII", 0x3000, proto, 0xabcdef01, 5)
  if v == "csum":
    h = struct.pack("!HHHH", 0x8000, proto, 0, 0)
    return h[:4] + struct.pack("!H", csum(h + body)) + h[6:]
  if v == "route":
    return (struct.pack("!HHHH", 0x4000, proto, 0, 0) +
            struct.pack("!HBB", 0x0800, 0, 4) + IP4_DST + struct.pack("!HBB", 0, 0, 0))
  raise KeyError(v)


def h_vxlan(v, body, child, parent):
  return struct.pack("!BBBB", 0x08, 0, 0, 0) + bytes([0x00, 0x12, 0x34, 0])


def _dhcp_fixed(op, sname=b"", file=b""):
  return (struct.pack("!BBBBIHH", op, 1, 6, 0, 0x3903f326, 0, 0x8000) +
          b"\0" * 4 + (IP4_DST if op == 2 else b"\0" * 4) + b"\0" * 8 +
          MAC_SRC + b"\0" * 10 + sname.ljust(64, b"\0") + file.ljust(128, b"\0"))


def h_dhcp(v, body, child, parent):
  magic = bytes([0x63, 0x82, 0x53, 0x63])
  if v == "bootp":
    return _dhcp_fixed(1) + b"\0" * 64
  if v == "bare":
    return _dhcp_fixed(1) + magic
  if v == "end":
    return _dhcp_fixed(1) + magic + b"\xff"
  if v == "overload":         # option 52: more options in the sname and file fields
    return (_dhcp_fixed(2, bytes([12, 2]) + b"h1" + b"\xff", bytes([15, 7]) + b"example" + b"\xff") + magic +
            bytes([52, 1, 3, 53, 1, 2, 255]))
  if v == "long":             # one option code in two parts, 400 bytes together (RFC 3396)
    o = bytes([53, 1, 1, 43, 200]) + payload(200) + bytes([43, 200]) + payload(200) + b"\xff"
    return _dhcp_fixed(1) + magic + o
  if v == "longover":         # ... continued in the overloaded file field, 300 bytes together
    return (_dhcp_fixed(1, b"", bytes([43, 100]) + payload(100) + b"\xff") + magic +
            bytes([52, 1, 1, 43, 200]) + payload(200) + bytes([53, 1, 1, 255]))
  if v == "disc":
    o = bytes([53, 1, 1, 55, 4, 1, 3, 6, 15, 61, 7, 1]) + MAC_SRC + bytes([50, 4]) + IP4_SRC + b"\xff"
    return _dhcp_fixed(1) + magic + o
  if v == "offer":
    o = (bytes([53, 1, 2, 1, 4, 255, 255, 255, 0, 3, 4]) + IP4_DST + bytes([6, 8]) + IP4_DST + IP4_SRC +
         bytes([51, 4, 0, 0, 14, 16, 54, 4]) + IP4_DST + bytes([58, 4, 0, 0, 7, 8, 59, 4, 0, 0, 12, 78]) +
         bytes([15, 7]) + b"example" + bytes([12, 2]) + b"h1" + bytes([0, 0, 255]))
    return _dhcp_fixed(2) + magic + o
  raise KeyError(v)


def _name(s):
  out = b""
  for p in s.split("."):
    out += bytes([len(p)]) + p.encode()
  return out + b"\0"


def h_dns(v, body, child, parent):
  q = _name("www.example.com") + struct.pack("!HH", 1, 1)
  ptr = struct.pack("!H", 0xc00c)
  if v == "empty":
    return struct.pack("!HHHHHH", 0x1111, 0x0100, 0, 0, 0, 0)
  if v in ("q", "mdns"):
    return struct.pack("!HHHHHH", 0x1111, 0x0100, 1, 0, 0, 0) + q
  if v == "resp":
    a = ptr + struct.pack("!HHIH", 1, 1, 300, 4) + IP4_DST
    return struct.pack("!HHHHHH", 0x1111, 0x8180, 1, 1, 0, 0) + q + a
  if v == "txtlong":          # TXT record of two character-strings, 300 bytes of RDATA
    txt = bytes([255]) + payload(255) + bytes([43]) + payload(43)
    a = ptr + struct.pack("!HHIH", 16, 1, 300, len(txt)) + txt
    return struct.pack("!HHHHHH", 0x1111, 0x8180, 1, 1, 0, 0) + q + a
  if v == "many":             # 24 answers
    a = b"".join(ptr + struct.pack("!HHIH", 1, 1, 300, 4) + bytes([10, 0, 1, i]) for i in range(24))
    return struct.pack("!HHHHHH", 0x1111, 0x8180, 1, 24, 0, 0) + q + a
  if v == "multi":
    cn = _name("host") [:-1] + struct.pack("!H", 0xc010)          # host.example.com
    an = ptr + struct.pack("!HHIH", 5, 1, 300, len(cn)) + cn
    mxd = struct.pack("!H", 10) + _name("mx")[:-1] + struct.pack("!H", 0xc010)
    an += ptr + struct.pack("!HHIH", 15, 1, 300, len(mxd)) + mxd
    an += ptr + struct.pack("!HHIH", 28, 1, 300, 16) + IP6_DST
    txt = bytes([5]) + b"hello"
    an += ptr + struct.pack("!HHIH", 16, 1, 300, len(txt)) + txt
    nsd = _name("ns")[:-1] + struct.pack("!H", 0xc010)
    ns = struct.pack("!H", 0xc010) + struct.pack("!HHIH", 2, 1, 300, len(nsd)) + nsd
    ar = ptr + struct.pack("!HHIH", 1, 1, 300, 4) + IP4_SRC
    return struct.pack("!HHHHHH", 0x1111, 0x8180, 1, 4, 1, 1) + q + an + ns + ar
  raise KeyError(v)


def h_rip(v, body, child, parent):
  if v == "req":
    return struct.pack("!BBH", 1, 2, 0) + struct.pack("!HHIIII", 0, 0, 0, 0, 0, 16)
  if v == "full25":           # the largest RIP message: 25 entries
    return struct.pack("!BBH", 2, 2, 0) + b"".join(
      struct.pack("!HH", 2, i) + bytes([10, i, 0, 0, 255, 255, 0, 0]) + IP4_DST + struct.pack("!I", 1 + i % 15)
      for i in range(25))
  e1 = struct.pack("!HH", 2, 0) + bytes([10, 1, 0, 0, 255, 255, 0, 0, 0, 0, 0, 0]) + struct.pack("!I", 1)
  e2 = struct.pack("!HH", 2, 5) + bytes([192, 168, 1, 0, 255, 255, 255, 0]) + IP4_DST + struct.pack("!I", 3)
  return struct.pack("!BBH", 2, 2, 0) + e1 + e2


def _tlv(t, data):
  return struct.pack("!H", (t << 9) | len(data)) + data


def h_lldp(v, body, child, parent):
  ch = _tlv(1, b"\x04" + MAC_SRC)
  port = _tlv(2, b"\x07" + b"p1")
  if v == "netport":
    port = _tlv(2, b"\x04" + b"\x01" + IP4_SRC)
  if v == "macport":
    port = _tlv(2, b"\x03" + MAC_SRC)
  ttl = _tlv(3, struct.pack("!H", 120))
  more = b""
  if v == "full":
    more = (_tlv(4, b"eth-1") + _tlv(5, b"sw-1") + _tlv(6, b"pox-sw") +
            _tlv(7, struct.pack("!HH", 0x14, 0x04)) +
            _tlv(8, bytes([5, 1]) + IP4_SRC + bytes([2]) + struct.pack("!I", 1) + bytes([0])) +
            _tlv(127, bytes([0x00, 0x26, 0xe1, 0]) + b"dpid"))
  if v == "long":             # information strings of 300 and 511 (the maximum) octets
    more = _tlv(6, payload(300)) + _tlv(127, bytes([0x00, 0x26, 0xe1, 7]) + payload(507))
  return ch + port + ttl + more + _tlv(0, b"")


def h_eapol(v, body, child, parent):
  t = {"eap": 0, "start": 1, "logoff": 2, "key": 3}[v]
  return struct.pack("!BBH", 1, t, len(body))


def h_eap(v, body, child, parent):
  if v == "success":
    return struct.pack("!BBH", 3, 1, 4)
  if v == "failure":
    return struct.pack("!BBH", 4, 1, 4)
  if v == "reqid":
    return struct.pack("!BBHB", 1, 1, 5, 1)
  if v == "respid":
    return struct.pack("!BBHB", 2, 1, 9, 1) + b"user"
  if v == "md5":
    return struct.pack("!BBHBB", 1, 2, 22, 4, 16) + bytes(range(16))
  raise KeyError(v)


def h_icmp6(v, body, child, parent):
  t = {"echo6": 128, "unreach6": 1, "toobig": 2, "timex6": 3, "rs": 133, "ra": 134,
       "ns": 135, "na": 136, "raw": 130}[child[0]]
  if child == ("echo6", "rep"):
    t = 129
  h = struct.pack("!BBH", t, 0, 0)
  c = csum(_pseudo(("ip6", ""), 58, 4 + len(body)) + h + body)
  return h[:2] + struct.pack("!H", c)


def h_echo6(v, body, child, parent):
  return struct.pack("!HH", 0x1234, 7)


def h_unreach6(v, body, child, parent):
  return struct.pack("!I", 0)


def h_toobig(v, body, child, parent):
  return struct.pack("!I", 1280)


def h_timex6(v, body, child, parent):
  return struct.pack("!I", 0)


def _ndopt(t, data):
  assert (len(data) + 2) % 8 == 0
  return bytes([t, (len(data) + 2) // 8]) + data


ND_SLLA = _ndopt(1, MAC_SRC)
ND_TLLA = _ndopt(2, MAC_SRC)
ND_MTU = _ndopt(5, struct.pack("!HI", 0, 1500))
ND_PREFIX = _ndopt(3, struct.pack("!BBII", 64, 0xc0, 86400, 14400) + b"\0" * 4 +
                   bytes.fromhex("20010db8000000000000000000000000"))
ND_NONCE = _ndopt(14, bytes(range(6)))


def h_rs(v, body, child, parent):
  return b"\0" * 4 + (ND_SLLA if v == "slla" else b"")


def h_ra(v, body, child, parent):
  h = struct.pack("!BBHII", 64, 0x80, 1800, 0, 0)
  if v == "full":
    h += ND_SLLA + ND_MTU + ND_PREFIX
  return h


def h_ns(v, body, child, parent):
  h = b"\0" * 4 + IP6_DST
  return h + {"plain": b"", "slla": ND_SLLA, "gen": ND_NONCE}[v]


def h_na(v, body, child, parent):
  h = struct.pack("!I", 0x60000000) + IP6_SRC
  return h + (ND_TLLA if v == "tlla" else b"")


HDR = {"eth": h_eth, "vlan": h_vlan, "llc": h_llc, "mpls": h_mpls, "arp": h_arp,
       "ip4": h_ip4, "ip6": h_ip6, "udp": h_udp, "tcp": h_tcp, "icmp": h_icmp,
       "echo": h_echo, "unreach": h_unreach, "timex": h_timex, "igmp": h_igmp,
       "gre": h_gre, "vxlan": h_vxlan, "dhcp": h_dhcp, "dns": h_dns, "rip": h_rip,
       "lldp": h_lldp, "eapol": h_eapol, "eap": h_eap, "icmp6": h_icmp6,
       "echo6": h_echo6, "unreach6": h_unreach6, "toobig": h_toobig,
       "timex6": h_timex6, "rs": h_rs, "ra": h_ra, "ns": h_ns, "na": h_na}


def expand(desc):
  """the full stack of a frame description: st + unit * n + post (deeply nested frames are
  described by a repeated group of layers)"""
  f = lambda x: [[l["k"], l["v"]] for l in x]
  return f(desc["st"]) + f(desc.get("unit", [])) * desc.get("n", 0) + f(desc.get("post", []))


def build(stack, plen=0, pad=0):
  """stack: list of [k, v].  Returns (frame bytes, layout) with
  layout = [{"k","v","off","hlen"}...] (one entry per layer)."""
  stack = [tuple(x) for x in stack]
  body = payload(plen)
  hl = []
  for i in range(len(stack) - 1, -1, -1):
    k, v = stack[i]
    child = stack[i + 1] if i + 1 < len(stack) else ("raw", "")
    parent = stack[i - 1] if i > 0 else ("", "")
    h = HDR[k](v, body, child, parent)
    hl.insert(0, len(h))
    body = h + body
  layout = []
  off = 0
  for (k, v), n in zip(stack, hl):
    layout.append(dict(k=k, v=v, off=off, hlen=n))
    off += n
  return body + padding(pad), layout


# ---------------------------------------------------------------------------
# re-sealing: recompute every checksum / nothing else, after a mutation of a
# built frame (structure-aware mutation must get past checksum verification)

def reseal(frame, layout):
  """Recompute the checksums of the layers of `layout` inside `frame` (bottom-up).
  Length fields are left as they are (they may be the mutated field)."""
  b = bytearray(frame)
  n = len(layout)
  for i in range(n - 1, -1, -1):
    L = layout[i]
    k, off, hlen = L["k"], L["off"], L["hlen"]
    parent = (layout[i - 1]["k"], layout[i - 1]["v"]) if i else ("", "")
    end = len(b)
    # the enclosing datagram's extent, if some IP layer above declares one
    for j in range(i - 1, -1, -1):
      P = layout[j]
      if P["k"] == "ip4" and P["off"] + 4 <= len(b):
        end = min(end, P["off"] + struct.unpack("!H", b[P["off"] + 2:P["off"] + 4])[0])
        break
      if P["k"] == "ip6" and P["off"] + 6 <= len(b):
        end = min(end, P["off"] + 40 + struct.unpack("!H", b[P["off"] + 4:P["off"] + 6])[0])
        break
    if end < off:
      end = off
    seg = bytes(b[off:end])
    if k == "ip4" and len(seg) >= 20:
      hl = (seg[0] & 0xf) * 4
      h = bytearray(seg[:max(20, hl)])
      h[10:12] = b"\0\0"
      b[off + 10:off + 12] = struct.pack("!H", csum(bytes(h)))
    elif k == "udp" and len(seg) >= 8:
      s = bytearray(seg)
      s[6:8] = b"\0\0"
      ln = struct.unpack("!H", seg[4:6])[0]
      c = csum(_pseudo(parent, 17, ln) + bytes(s)) or 0xffff
      b[off + 6:off + 8] = struct.pack("!H", c)
    elif k == "tcp" and len(seg) >= 20:
      s = bytearray(seg)
      s[16:18] = b"\0\0"
      b[off + 16:off + 18] = struct.pack("!H", csum(_pseudo(parent, 6, len(s)) + bytes(s)))
    elif k in ("icmp", "igmp") and len(seg) >= 4:
      s = bytearray(seg)
      s[2:4] = b"\0\0"
      b[off + 2:off + 4] = struct.pack("!H", csum(bytes(s)))
    elif k == "icmp6" and len(seg) >= 4:
      s = bytearray(seg)
      s[2:4] = b"\0\0"
      b[off + 2:off + 4] = struct.pack("!H", csum(_pseudo(("ip6", ""), 58, len(s)) + bytes(s)))
    elif k == "gre" and len(seg) >= 8 and (seg[0] & 0x80):
      s = bytearray(seg)
      s[4:6] = b"\0\0"
      b[off + 4:off + 6] = struct.pack("!H", csum(bytes(s)))
  return bytes(b)
