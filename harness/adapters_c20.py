"""C20 adapter (controller side): SendPath.tla actions -> real of_01.Connection.send and the real
DeferredSender.run loop on two real threads stepped by the thread controller.  No source hooks:
the `sending` flag read, the sender's lock, select() and the sockets' send() are intercepted."""
import errno
import socket
import threading

from harness import poxenv
from harness.threadctl import Controller, TPinger, Abort

core = poxenv.boot()
import pox.openflow                      # noqa: E402
import pox.openflow.libopenflow_01       # noqa: E402
import pox.openflow.of_01 as of_01       # noqa: E402
import pox.lib.util as putil             # noqa: E402

if not core.hasComponent("openflow"):
  pox.openflow.launch()


# concretisation of the spec's outcome "fatal": any errno a socket reports for a connection that is gone for
# good - the property speaks of "a fatal socket error", not of one error family (EPIPE / ECONNRESET happen to
# be ConnectionError subclasses in Python 3, ETIMEDOUT / EHOSTUNREACH / ENOTCONN ... are not)
FATAL_ERRNOS = [errno.ECONNRESET, errno.ETIMEDOUT, errno.EPIPE, errno.EHOSTUNREACH, errno.ENOTCONN,
                errno.ECONNABORTED, errno.ENETUNREACH]


def fatal_error(salt):
  import os
  e = FATAL_ERRNOS[salt % len(FATAL_ERRNOS)]
  return socket.error(e, os.strerror(e))


class _Msg(pox.openflow.libopenflow_01.ofp_header):
  """a message object whose wire form is the given bytes"""
  def __init__(self, raw):
    pox.openflow.libopenflow_01.ofp_header.__init__(self)
    self._raw = raw

  def pack(self):
    return self._raw


class FakeSock(object):
  def __init__(self, ad, name, idx):
    self.ad = ad
    self.name = name
    self.idx = idx
    self.accepted = bytearray()
    self.script = []
    self.dead = False
    self.closed = False
    self.calls = 0
    self.quota = None
    self.terminal = None

  def fileno(self):
    return -1 if self.closed else 100 + self.idx

  def _do(self, data):
    self.calls += 1
    if self.dead or self.closed:
      raise socket.error(errno.EPIPE, "Broken pipe")
    if self.quota is not None:
      # byte-budget mode (flush by the deferred sender): accept `quota` more bytes, then meet `terminal`.
      # Independent of how the sender slices its data into send() calls.
      if self.quota >= len(data) and not (self.quota == len(data) and self.terminal == "part" and False):
        self.quota -= len(data)
        self.accepted += data
        return len(data)
      if self.quota > 0:
        n, self.quota = self.quota, 0
        self.accepted += data[:n]
        return n
      if self.terminal == "fatal":
        self.dead = True
        raise fatal_error(self.calls + len(self.accepted) + self.idx)
      raise socket.error(errno.EAGAIN, "Resource temporarily unavailable")
    o = self.script.pop(0) if self.script else {"k": "full", "n": len(data)}
    if o["k"] == "full":
      self.accepted += data
      return len(data)
    if o["k"] == "part":
      n = min(o["n"], len(data))
      self.accepted += data[:n]
      return n
    if o["k"] == "eagain":
      raise socket.error(errno.EAGAIN, "Resource temporarily unavailable")
    self.dead = True
    raise fatal_error(self.calls + len(self.accepted) + self.idx)

  def send(self, data, flags=0):
    ctl = self.ad.ctl
    if ctl.me() is not None and ctl.me().name == "C":
      return ctl.op("sock.send", None, lambda: self._do(data))
    return self._do(data)

  def shutdown(self, how):
    self.dead = True

  def close(self):
    self.closed = True

  def recv(self, n):
    return b""

  def getpeername(self):
    return ("10.0.0.%d" % self.idx, 6633)


class DLock(object):
  """re-entrant lock whose outermost acquire is a scheduling point"""
  def __init__(self, ctl):
    self.ctl = ctl
    self.owner = None
    self.depth = 0

  def acquire(self, *a, **k):
    me = threading.current_thread()
    if self.owner is me:
      self.depth += 1
      return True

    def do():
      self.owner = me
      self.depth = 1
      return True
    return self.ctl.op("dlock.acquire", None, do, enabled=lambda: self.owner is None)

  def release(self):
    self.depth -= 1
    if self.depth == 0:
      self.owner = None

  def __enter__(self):
    self.acquire()
    return self

  def __exit__(self, *a):
    self.release()


class Adapter(object):
  def __init__(self, conns=("A", "B"), pipebuf=2):
    ad = self
    self.ctl = Controller()
    self.saved = dict(ds=of_01.deferredSender, select=of_01.select, pipebuf=of_01.PIPE_BUF)
    of_01.PIPE_BUF = pipebuf
    self.sel_result = None
    self.cmds = []

    class TDS(of_01.DeferredSender):
      _sending = False

      def start(self):          # the harness runs run() on a controlled thread
        pass

      @property
      def sending(self):
        me = ad.ctl.me()
        if me is not None and me.name == "C":
          return ad.ctl.op("flag.read", None, lambda: self._sending)
        return self._sending

      @sending.setter
      def sending(self, v):
        self._sending = v

    self.ds = TDS()
    self.ds._lock = DLock(self.ctl)
    self.waker = self.ds._waker
    of_01.deferredSender = self.ds

    class SelShim(object):
      error = OSError

      @staticmethod
      def select(r, w, x, timeout=None):
        def do():
          wl, ad.sel_result = ad.sel_result, None
          rl = [ad.waker] if ad._waker_readable() else []
          for c in w:
            if c.fileno() < 0:
              raise ValueError("file descriptor cannot be a negative integer (-1)")
          return rl, [c for c in w if c in wl], []
        return ad.ctl.op("select", None, do, enabled=lambda: ad.sel_result is not None)
    of_01.select = SelShim
    self.socks = {}
    self.cons = {}
    self.reports = {}
    for i, name in enumerate(conns):
      s = FakeSock(self, name, i + 1)
      con = of_01.Connection(s)
      con.dpid = i + 1            # handshake done: ConnectionDown is raised on loss
      self.socks[name] = s
      self.cons[name] = con
      self.reports[name] = 0
      con.addListenerByName("ConnectionDown", lambda e, n=name: self._down(n))
      s.base = len(s.accepted)
    self.C = self.ctl.spawn("C", self._coop)
    self.D = self.ctl.spawn("D", self.ds.run)
    self.ctl.start()
    self.dphase = "top"

  def _down(self, n):
    self.reports[n] += 1

  def _waker_readable(self):
    import select as _s
    return bool(_s.select([self.waker], [], [], 0)[0])

  def _coop(self):
    while True:
      cmd = self.ctl.op("cmd.get", None, lambda: self.cmds.pop(0), enabled=lambda: bool(self.cmds))
      if cmd[0] == "send":
        self.cons[cmd[1]].send(cmd[2])
      elif cmd[0] == "close":
        self.cons[cmd[1]].close()

  def close(self):
    try:
      self.ctl.shutdown()
    finally:
      of_01.deferredSender = self.saved["ds"]
      of_01.select = self.saved["select"]
      of_01.PIPE_BUF = self.saved["pipebuf"]
      p = self.waker
      import os
      for fd in (p._w, p._r):
        try:
          os.close(fd)
        except Exception:
          pass
      p._w = p._r = -1

  # ---- projection
  def _cst(self):
    if self.C.done:
      return "DIED"
    op = self.C.pending[0]
    return {"cmd.get": "idle", "flag.read": "flag", "sock.send": "direct", "dlock.acquire": "defer"}.get(op, op)

  def _dst(self):
    if self.D.done:
      return "DIED"
    op = self.D.pending[0]
    if op == "select":
      return "select"
    if op == "dlock.acquire":
      return self.dphase
    return op

  def project(self):
    pend = {}
    for n, con in self.cons.items():
      sl = self.ds._dataForConnection.get(con, [])
      pend[n] = [b for s in sl for b in s]
    return {"accepted": {n: list(s.accepted[s.base:]) for n, s in self.socks.items()},
            "pending": pend, "sending": bool(self.ds._sending),
            "dead": {n: bool(c.disconnected) for n, c in self.cons.items()},
            "reports": dict(self.reports), "coop": self._cst(), "dthr": self._dst()}

  # ---- actions
  def step(self, a, args):
    ctl = self.ctl
    if self.ctl.errors:
      return {"thread_error": self.ctl.errors}
    if a == "CoopCall":
      n = args["n"]
      data = bytes(10 * n + i for i in range(1, 4))
      if n % 2 == 0:
        # Connection.send takes raw bytes or a message object (it packs objects itself): every other message is
        # handed over as an object - the bytes that reach the socket must be the same either way
        data = _Msg(data)
      self.cur = args["c"]
      self.cmds.append(("send", args["c"], data))
      ctl.run_until(self.C, ("flag.read", "cmd.get"))
    elif a == "CoopFlag":
      ctl.run_until(self.C, ("sock.send", "dlock.acquire"))
    elif a == "CoopDirect":
      for s in self.socks.values():
        s.script = []
      self._cur_sock().script = [args["o"]]
      ctl.run_until(self.C, ("dlock.acquire", "cmd.get"))
    elif a == "CoopDefer":
      ctl.run_until(self.C, ("cmd.get",))
    elif a == "DefSnap":
      ctl.run_until(self.D, ("select",))
    elif a == "DefSelect":
      self.sel_result = [self.cons[n] for n in args["w"]]
      self.dphase = "flush"
      ctl.run_until(self.D, ("dlock.acquire",))
    elif a == "DefFlush":
      outs = args["outs"] if isinstance(args["outs"], dict) else {}
      pb = of_01.PIPE_BUF
      for s_ in self.socks.values():
        s_.script = []
      for n, o in outs.items():
        s = self.socks[n]
        k = o["k"]
        if k in ("none", "all"):
          s.quota, s.terminal = None, None
        else:
          # the socket accepts q more bytes and then meets the outcome (a short write ends the flush like EAGAIN)
          q = args["q"] if isinstance(args.get("q"), dict) else {}
          s.quota = q.get(n, 0)
          s.terminal = "eagain" if k == "part" else k
      self.dphase = "top"
      ctl.run_until(self.D, ("dlock.acquire",))
      for s_ in self.socks.values():
        s_.quota, s_.terminal = None, None
    elif a == "Close":
      self.cmds.append(("close", args["c"]))
      ctl.run_until(self.C, ("cmd.get",))
    else:
      raise ValueError(a)
    if self.ctl.errors:
      return {"thread_error": self.ctl.errors}
    return self.project()

  def _cur_sock(self):
    return self.socks[self.cur]

  def accept_alt(self, obs, st):
    alts = st.get("alts") or []
    if "sending" in alts and isinstance(obs, dict) and "sending" in obs:
      o2 = dict(obs)
      o2["sending"] = st["exp"]["sending"]
      return o2 == st["exp"]
    return False

  def signature(self, st, obs):
    sig = {"action": st["a"]}
    if isinstance(obs, dict) and ("EXC" in obs or "thread_error" in obs):
      sig["observed"] = "exception"
      return sig
    sig["fields"] = sorted(k for k in st["exp"] if obs.get(k) != st["exp"][k])
    if st["a"] == "CoopDirect":
      sig["outcome"] = st["args"]["o"]["k"]
    return sig
