"""Deterministic thread controller for the recoco hand-off (C07).

The real Scheduler, SelectHub, CallLaterTask, ScheduleTask, Synchronizer/SyncTask
run on real threads, but every operation on state shared between threads
(ready deque, call-later deque, pingers, hub event, incoming queue, locks,
select) goes through a traced wrapper that first parks the thread.  Exactly
one thread runs at a time; the controller picks which parked thread performs
its next shared operation.  Blocking operations (lock acquire, Event.wait,
select) are never really blocked on: they are simply not eligible until they
can complete, and timeouts NEVER fire - so a lost wake-up shows up as
quiescence with work pending.

Each performed operation is one trace event {th, op, arg, res}.
"""
import collections
import os
import queue
import random
import select as _select
import threading

from harness import poxenv

poxenv.boot()
import pox.lib.recoco.recoco as recoco   # noqa: E402
import pox.lib.util as putil             # noqa: E402

NOARG = ["-", "", 0, 0]


class Abort(BaseException):
  pass


class CT(object):
  """a controlled thread"""
  def __init__(self, ctl, name, target):
    self.ctl = ctl
    self.name = name
    self.sem = threading.Semaphore(0)
    self.pending = None       # (op, arg, enabled)
    self.done = False
    self.opix = 0             # foreign: index of the scenario op being executed
    self.thread = threading.Thread(target=self._main, args=(target,), daemon=True)

  def _main(self, target):
    self.ctl.local.ct = self
    self.sem.acquire()        # wait for first grant
    try:
      if not self.ctl.abort:
        target()
    except Abort:
      pass
    except BaseException as e:     # noqa
      self.ctl.errors.append((self.name, repr(e)))
    finally:
      self.done = True
      self.pending = None
      self.ctl.back.release()


class Controller(object):
  def __init__(self, seed=0, policy="random", schedule=None):
    self.local = threading.local()
    self.threads = []
    self.back = threading.Semaphore(0)
    self.events = []
    self.errors = []
    self.abort = False
    self.rnd = random.Random(seed)
    self.policy = policy
    self.schedule = list(schedule) if schedule else None
    self.choices = []         # (chosen index, number of enabled) per step
    self.steps = 0
    self.last = None
    self.preempt_budget = None

  def spawn(self, name, target):
    t = CT(self, name, target)
    self.threads.append(t)
    t.thread.start()
    return t

  def me(self):
    return getattr(self.local, "ct", None)

  # called by wrappers on controlled threads
  def op(self, name, arg, do, enabled=None, res=None):
    t = self.me()
    if t is None or self.abort:
      if self.abort and t is not None:
        raise Abort()
      return do()
    t.pending = (name, arg, enabled)
    self.back.release()
    t.sem.acquire()
    if self.abort:
      raise Abort()
    t.pending = None
    r = do()
    rr = res(r) if res else "-"
    self.events.append({"th": t.name, "op": name, "arg": list(arg) if arg else NOARG, "res": rr})
    return r

  def run(self, max_steps=5000):
    """drive until no thread can move; returns 'quiescent' | 'steps'"""
    # start everybody: each runs to its first shared op
    for t in self.threads:
      t.sem.release()
      self.back.acquire()
    while True:
      cands = [t for t in self.threads if not t.done and t.pending is not None and
               (t.pending[2] is None or t.pending[2]())]
      if not cands:
        return "quiescent"
      if self.steps >= max_steps:
        return "steps"
      self.steps += 1
      names = [c.name for c in cands]
      if self.schedule is not None and self.schedule:
        want = self.schedule.pop(0)
        i = names.index(want) if want in names else 0
      elif self.policy == "nonpreemptive":
        i = cands.index(self.last) if self.last in cands else 0
      elif self.policy == "random":
        i = self.rnd.randrange(len(cands))
      elif self.policy == "sticky":
        # keep running the same thread with probability 3/4 (few preemptions)
        i = None
        if self.last in cands and self.rnd.random() < 0.75:
          i = cands.index(self.last)
        if i is None:
          i = self.rnd.randrange(len(cands))
      else:
        i = 0
      self.choices.append((names[i], names, self.last.name if self.last is not None and self.last in cands else None))
      t = cands[i]
      self.last = t
      t.sem.release()
      self.back.acquire()

  # ---- explicit stepping (used when a spec behaviour dictates who moves)
  def start(self):
    for t in self.threads:
      t.sem.release()
      self.back.acquire()

  def grant(self, t):
    """let thread t perform its pending operation and run to its next one"""
    if t.done or t.pending is None:
      raise RuntimeError("thread %s has nothing pending" % t.name)
    if t.pending[2] is not None and not t.pending[2]():
      raise RuntimeError("thread %s: pending op %s is not enabled" % (t.name, t.pending[0]))
    self.steps += 1
    t.sem.release()
    self.back.acquire()

  def run_until(self, t, stop_ops, limit=200):
    """grant t at least once, then until its pending op is one of stop_ops (or it is done)"""
    n = 0
    while True:
      self.grant(t)
      n += 1
      if t.done or (t.pending is not None and t.pending[0] in stop_ops):
        return n
      if n >= limit:
        raise RuntimeError("thread %s did not reach %s" % (t.name, stop_ops))

  def shutdown(self):
    self.abort = True
    for t in self.threads:
      if not t.done:
        t.sem.release()
    for t in self.threads:
      t.thread.join(2)


# ---------------------------------------------------------------------------
# traced shared objects

def tname(x):
  return getattr(x, "vname", None) or ["?", type(x).__name__[:8], 0, 0]


class TDeque(collections.deque):
  def __init__(self, ctl, name):
    collections.deque.__init__(self)
    self.ctl = ctl
    self.nm = name

  def _arg(self, x):
    if isinstance(x, tuple) and len(x) == 3 and callable(x[0]):     # (func, args, kw) in _calls
      f = x[0]
      if getattr(f, "vname", None) is None and getattr(f, "__self__", None) is not None:
        return tname(f.__self__)
      return tname(f)
    return tname(x)

  def append(self, x):
    return self.ctl.op(self.nm + ".append", self._arg(x), lambda: collections.deque.append(self, x))

  def appendleft(self, x):
    return self.ctl.op(self.nm + ".appendleft", self._arg(x), lambda: collections.deque.appendleft(self, x))

  def popleft(self):
    def do():
      try:
        return collections.deque.popleft(self)
      except IndexError:
        return IndexError
    r = self.ctl.op(self.nm + ".popleft", None, do,
                    res=lambda v: "empty" if v is IndexError else "item")
    if r is IndexError:
      raise IndexError("pop from an empty deque")
    self.ctl.events[-1]["arg"] = self._arg(r) if self.ctl.me() else NOARG
    return r

  def __contains__(self, x):
    return self.ctl.op(self.nm + ".contains", self._arg(x),
                       lambda: collections.deque.__contains__(self, x),
                       res=lambda v: "true" if v else "false")

  def __len__(self):
    return self.ctl.op(self.nm + ".len", None, lambda: collections.deque.__len__(self),
                       res=lambda v: "zero" if v == 0 else "nonzero")

  def snapshot(self):
    return [self._arg(x) for x in collections.deque.__iter__(self)]


class TPinger(object):
  def __init__(self, ctl, name, real):
    self.ctl = ctl
    self.nm = name
    self.real = real

  def ping(self):
    return self.ctl.op(self.nm + ".ping", None, self.real.ping)

  def fileno(self):
    return self.real.fileno()

  def pongAll(self):
    return self.ctl.op(self.nm + ".pong", None, self.real.pongAll)

  pong_all = pongAll

  def readable(self):
    return bool(_select.select([self.real], [], [], 0)[0])

  def close(self):
    for fd in (self.real._w, self.real._r):
      try:
        os.close(fd)
      except Exception:
        pass
    self.real._w = self.real._r = -1


class TEvent(object):
  def __init__(self, ctl, name="ev"):
    self.ctl = ctl
    self.nm = name
    self.flag = False

  def set(self):
    def do():
      self.flag = True
    return self.ctl.op(self.nm + ".set", None, do)

  def clear(self):
    def do():
      self.flag = False
    return self.ctl.op(self.nm + ".clear", None, do)

  def wait(self, timeout=None):
    # the poll timeout never fires: eligible only when set
    return self.ctl.op(self.nm + ".wait", None, lambda: True, enabled=lambda: self.flag)

  def is_set(self):
    return self.flag


class TLock(object):
  def __init__(self, ctl, name="lock", arg=None):
    self.ctl = ctl
    self.nm = name
    self.arg = arg
    self.held = False

  def acquire(self, blocking=True, timeout=-1):
    def do():
      self.held = True
      return True
    return self.ctl.op(self.nm + ".acquire", self.arg, do, enabled=lambda: not self.held)

  def release(self):
    def do():
      if not self.held:
        raise RuntimeError("release unlocked lock")
      self.held = False
    return self.ctl.op(self.nm + ".release", self.arg, do)

  def __enter__(self):
    self.acquire()
    return self

  def __exit__(self, *a):
    self.release()

  def locked(self):
    return self.held


class TQueue(object):
  def __init__(self, ctl, name="incoming"):
    self.ctl = ctl
    self.nm = name
    self.q = collections.deque()

  def put(self, item, *a, **k):
    return self.ctl.op(self.nm + ".put", tname(item[0]), lambda: self.q.append(item))

  def empty(self):
    return self.ctl.op(self.nm + ".empty", None, lambda: len(self.q) == 0,
                       res=lambda v: "true" if v else "false")

  def get(self, *a, **k):
    r = self.ctl.op(self.nm + ".get", None, lambda: self.q.popleft())
    self.ctl.events[-1]["arg"] = tname(r[0])
    return r

  def task_done(self):
    pass

  @property
  def queue(self):
    return self.q


class ThreadingShim(object):
  """what recoco sees as the `threading` module"""
  def __init__(self, ctl):
    self.ctl = ctl
    self.local = threading.local
    self.current_thread = threading.current_thread
    self.Thread = threading.Thread
    self._n = 0

  def Lock(self):
    return TLock(self.ctl, "lock%d" % id(self))

  def Event(self):
    return TEvent(self.ctl)
