"""C01 helpers: the layout tables of specs/wire/OFWire.tla as JSON (exported by TLC itself)."""
import glob
import json
import os

VERIF = os.path.dirname(os.path.dirname(os.path.abspath(__file__)))
SPEC = os.path.join(VERIF, "specs", "wire")
CACHE = os.path.join(VERIF, ".work", "C01", "layout.json")


def export_layout():
  """run TLC on MC_layout (prints ToJson(Layout)) and cache the result"""
  from engine import tlc
  r = tlc.run("wire", "MC_layout", "MC_layout.cfg", workers=1, coverage=False, tag="C01", timeout=600,
              env={"JAVA_TOOL_OPTIONS": "-Xss1g"})
  t = r.tagged("L")
  n = r.tagged("N")
  if len(t) != 1 or len(n) != 1:
    raise tlc.TLCError("layout export failed:\n" + r.stdout[-2000:])
  lay = t[0]
  lay["#nxm"] = dict(fields=sorted(n[0]["fields"]), maskable=sorted(n[0]["maskable"]))
  os.makedirs(os.path.dirname(CACHE), exist_ok=True)
  tmp = CACHE + ".%d" % os.getpid()
  with open(tmp, "w") as f:
    json.dump(lay, f)
  os.replace(tmp, CACHE)
  return lay


def load_layout():
  newest = max(os.path.getmtime(p) for p in glob.glob(os.path.join(SPEC, "*.tla")))
  if os.path.exists(CACHE) and os.path.getmtime(CACHE) >= newest:
    return json.load(open(CACHE))
  return export_layout()


# ---------------------------------------------------------------------------
# random abstract values inside the property's domain (OFWire.tla: WF /\ Constructible);
# TLC re-checks both predicates on every value before it judges the trace
VALUED = ("u", "str", "rest", "sub", "list", "listn", "listc", "listz")
LISTS = ("list", "listn", "listc", "listz")
MATCH_W = dict(in_port=2, dl_src=6, dl_dst=6, dl_vlan=2, dl_vlan_pcp=1, dl_type=2, nw_tos=1, nw_proto=1,
               nw_src=4, nw_dst=4, tp_src=2, tp_dst=2)
OF_ACTIONS = ["a_generic", "a_output", "a_set_vlan_vid", "a_set_vlan_pcp", "a_strip_vlan", "a_set_dl_src", "a_set_dl_dst",
              "a_set_nw_src", "a_set_nw_dst", "a_set_nw_tos", "a_set_tp_src", "a_set_tp_dst", "a_enqueue", "a_vendor"]
FAMILY = {"port": ["phy_port"], "queue": ["packet_queue"], "prop": ["qp_none", "qp_min_rate", "qp_min_rate", "qp_generic"],
          "flowstat": ["flow_stats"], "tablestat": ["table_stats"], "portstat": ["port_stats"],
          "queuestat": ["queue_stats"], "u16": ["u16"], "action": OF_ACTIONS}
NXVENDOR = [0, 0, 35, 32]


class Gen(object):
  def __init__(self, layout, rnd):
    self.L = layout
    self.rnd = rnd
    self.nxm_fields = [tuple(x) for x in layout["#nxm"]["fields"]]
    self.nxm_maskable = set(tuple(x) for x in layout["#nxm"]["maskable"])

  def top_kinds(self, nicira=True):
    ks = []
    for k, lay in self.L.items():
      if k.startswith("#") or k == "hello_ext":     # hello_ext: only ever received (OFWire.tla Receive)
        continue
      if len(lay) >= 4 and lay[0]["t"] == "const" and lay[0]["c"] == [1]:
        ks.append(k)
      elif k.startswith("nxa_"):
        ks.append(k)
    ks += ["match", "phy_port", "actions", "props", "nxmatch"]
    if not nicira:
      ks = [k for k in ks if not k.startswith("nx")]
    return sorted(ks)

  def bytes_(self, w):
    r = self.rnd
    c = r.random()
    if c < 0.12:
      return [0] * w
    if c < 0.24:
      return [255] * w
    if c < 0.32:
      return [128] + [0] * (w - 1)
    if c < 0.40:
      return [127] + [255] * (w - 1)
    if c < 0.50:
      return [0] * (w - 1) + [r.randint(0, 255)]
    return [r.randint(0, 255) for _ in range(w)]

  def text(self, w):
    n = self.rnd.choice([0, 1, w - 1, w, self.rnd.randint(0, w)])
    return [self.rnd.randint(1, 255) for _ in range(n)]

  def rest(self, big=False):
    r = self.rnd
    n = r.choice([0, 0, 1, 2, 7, 8, 9, r.randint(0, 64), r.randint(0, 300)] + ([1499, 1500] if big else []))
    return [r.randint(0, 255) for _ in range(n)]

  def match(self):
    r = self.rnd
    f = {n: [] for n in MATCH_W}
    f["nw_src_bits"] = [0]
    f["nw_dst_bits"] = [0]

    def maybe(n, v=None):
      if r.random() < 0.6:
        f[n] = v if v is not None else self.bytes_(MATCH_W[n])
    for n in ("in_port", "dl_src", "dl_dst", "dl_vlan", "dl_vlan_pcp"):
      maybe(n)
    t = r.choice(["ip", "ip", "arp", "other", "wild"])
    if t == "wild":
      return {"k": "match", "f": f}
    if t == "other":
      v = self.bytes_(2)
      if v in ([8, 0], [8, 6]):
        v = [136, 204]
      f["dl_type"] = v
      return {"k": "match", "f": f}
    f["dl_type"] = [8, 0] if t == "ip" else [8, 6]
    if t == "ip":
      maybe("nw_tos")
    proto = r.choice([[6], [17], [1], [47], None, self.bytes_(1)]) if t == "ip" else r.choice([[1], [2], None])
    if proto is not None:
      f["nw_proto"] = proto
    for n in ("nw_src", "nw_dst"):
      bits = r.choice([0, 0, 32, 32, 24, 8, 1, 31, r.randint(0, 32)])
      if bits:
        a = int.from_bytes(bytes(self.bytes_(4)), "big")
        a &= (0xffffffff << (32 - bits)) & 0xffffffff
        f[n] = list(a.to_bytes(4, "big"))
        f[n + "_bits"] = [bits]
    if t == "ip" and proto in ([6], [17], [1]):
      maybe("tp_src")
      maybe("tp_dst")
    return {"k": "match", "f": f}

  def nxm(self, exclude=()):
    r = self.rnd
    cand = [t for t in self.nxm_fields if (t[0], t[1]) not in exclude]
    v, fld, w = r.choice(cand)
    value = self.bytes_(w)
    mask = []
    if (v, fld) in self.nxm_maskable and r.random() < 0.5:
      mask = self.bytes_(w)
      if (v, fld) == (1, 34):
        mask[0] &= 0x0f
      if all(m == 255 for m in mask):
        mask[-1] = 254
      value = [a & b for a, b in zip(value, mask)]
    return {"k": "nxm", "f": {"vendor": [v >> 8, v & 255], "field": [fld], "value": value, "mask": mask}}

  def nxm_list(self, n):
    out, seen = [], set()
    for _ in range(n):
      e = self.nxm(seen)
      seen.add((e["f"]["vendor"][0] * 256 + e["f"]["vendor"][1], e["f"]["field"][0]))
      out.append(e)
    return out

  def nxm_header(self, widths=None):
    cand = [t for t in self.nxm_fields if widths is None or t[2] in widths]
    v, fld, w = self.rnd.choice(cand)
    return [v >> 8, v & 255, fld << 1, w]

  def fms(self):
    r = self.rnd
    src, dst = r.choice([0, 0, 1]), r.choice([0, 0, 1, 1, 2])
    nb = r.choice([1, 8, 12, 16, 17, 32, 48, 64, r.randint(1, 1023)])
    if src == 0:
      sv = self.nxm_header() + list(r.choice([0, 0, 3, r.randint(0, 65535)]).to_bytes(2, "big"))
    else:
      sv = [r.randint(0, 255) for _ in range(((nb + 15) // 16) * 2)]
    dv = [] if dst == 2 else self.nxm_header() + list(r.choice([0, 0, 5, r.randint(0, 65535)]).to_bytes(2, "big"))
    return {"k": "fms", "f": {"src": [src], "dst": [dst], "n_bits": list(nb.to_bytes(2, "big")), "srcv": sv, "dstv": dv}}

  def value(self, kind, depth=0):
    r = self.rnd
    if kind == "match":
      return self.match()
    lay = self.L[kind]
    f = {}
    for d in lay:
      t, n = d["t"], d["n"]
      if t not in VALUED:
        continue
      if t == "u":
        f[n] = self.bytes_(d["w"])
      elif t == "str":
        f[n] = self.text(d["w"])
      elif t == "rest":
        f[n] = self.rest(big=depth == 0)
      elif t == "sub":
        f[n] = self.value(d["k"], depth + 1)
      else:
        fam = d["k"]
        cnt = r.choice([0, 1, 1, 2, 3, r.randint(0, 6)]) if depth < 2 else r.choice([0, 1, 2])
        if fam == "nxm":
          f[n] = self.nxm_list(cnt)
        elif fam == "fms":
          f[n] = [self.fms() for _ in range(cnt)]
        else:
          f[n] = [self.value(r.choice(FAMILY[fam]), depth + 1) for _ in range(cnt)]
    sv = {"k": kind, "f": f or []}
    self.fix(sv)
    return sv

  def fix(self, sv):
    """bring a random value into the property's domain (OFWire.tla Constructible)"""
    r = self.rnd
    k, f = sv["k"], sv["f"]
    if k == "a_output":
      if r.random() < 0.3:
        f["port"] = [255, 253]          # (any max_len is allowed with any port: pack() normalises, PackCanon)
    elif k in ("packet_in", "nxt_packet_in"):
      if int.from_bytes(bytes(f["total_len"]), "big") < len(f["data"]):
        f["total_len"] = r.choice([list(len(f["data"]).to_bytes(2, "big")), [255, 255]])
    elif k == "packet_out":
      if f["data"] and r.random() < 0.7:
        f["buffer_id"] = [255] * 4
      if f["buffer_id"] != [255] * 4:
        f["data"] = []
    elif k == "a_vendor":
      f["body"] = f["body"][:len(f["body"]) // 8 * 8]
      if f["vendor"] == NXVENDOR:
        f["vendor"] = [0, 0, 35, 33]
    elif k == "vendor" and f["vendor"] == NXVENDOR:
      f["vendor"] = [0, 0, 35, 33]
    elif k == "a_generic":
      t = int.from_bytes(bytes(f["type"]), "big")
      if t <= 11 or t == 65535:
        f["type"] = [0, 12 + t % 200]
      n = len(f["data"]) // 8 * 8 + 4
      f["data"] = (f["data"] + [7] * 8)[:n]
    elif k == "qp_generic":
      if f["property"] in ([0, 0], [0, 1]):
        f["property"] = [0, 2]
      n = len(f["data"]) // 8 * 8 + 4
      f["data"] = (f["data"] + [9] * 8)[:n]
    elif k in ("sreq_generic", "srep_generic"):
      t = int.from_bytes(bytes(f["stype"]), "big")
      if t <= 5 or t == 65535:
        f["stype"] = [0, 6 + t % 200]
    elif k == "nx_flow_mod_table_id":
      f["enable"] = [f["enable"][0] & 1]
    elif k == "nxa_reg_move":
      f["src"], f["dst"] = self.nxm_header(), self.nxm_header()
    elif k == "nxa_reg_load":
      f["dst"] = self.nxm_header()
    elif k == "nxa_output_reg":
      f["reg"] = self.nxm_header()
    elif k == "nxa_bundle":
      f["slave_type"], f["dst"], f["ofs_nbits"] = [0, 0, 0, 2], [0, 0, 0, 0], [0, 0]
    elif k == "nxa_bundle_load":
      f["slave_type"], f["dst"] = [0, 0, 0, 2], self.nxm_header()

  def modification(self, sv):
    """one change of a top-level field of sv, or None"""
    r = self.rnd
    k = sv["k"]
    if k in ("match",) or not isinstance(sv["f"], dict):
      return None
    cands = [d for d in self.L[k] if d["t"] in ("u", "str", "rest") + LISTS]
    r.shuffle(cands)
    for d in cands:
      n, t = d["n"], d["t"]
      step = [{"f": n, "i": 0}]
      if t == "u":
        new = dict(sv["f"])
        new[n] = self.bytes_(d["w"])
        trial = {"k": k, "f": new}
        self.fix(trial)
        if trial["f"] != {**sv["f"], n: trial["f"][n]}:      # the fix-up touched another field: skip
          continue
        if k.startswith("nxa_") and n in ("src", "dst", "reg", "slave_type", "ofs_nbits"):
          continue
        if k == "nx_flow_mod_table_id":
          continue
        return {"path": step, "op": "set", "v": trial["f"][n], "when": "post", "form": ""}
      if t == "str":
        return {"path": step, "op": "set", "v": self.text(d["w"]), "when": "post", "form": ""}
      if t == "rest":
        if k in ("packet_in", "nxt_packet_in", "packet_out", "a_vendor", "a_generic", "qp_generic"):
          continue
        return {"path": step, "op": "set", "v": self.rest(), "when": "post", "form": ""}
      fam = d["k"]
      if fam == "nxm":
        have = set((e["f"]["vendor"][0] * 256 + e["f"]["vendor"][1], e["f"]["field"][0]) for e in sv["f"][n])
        return {"path": step, "op": "append", "v": self.nxm(have), "when": "post", "form": ""}
      if fam == "fms":
        return {"path": step, "op": "append", "v": self.fms(), "when": "post", "form": ""}
      if k in ("nxa_bundle", "nxa_bundle_load"):
        continue
      return {"path": step, "op": "append", "v": self.value(r.choice(FAMILY[fam]), 1), "when": "post", "form": ""}
    return None


def match_history(gen, sv):
  """a construction history on the match of sv (bare match, or a top-level `match` field): some fields are
  overwritten (other values, prefixes, None, or wildcards = OFPFW_ALL) and then every touched field is written
  back, so the final value is the one sv already has.  Returns the list of setf modifications."""
  r = gen.rnd
  if sv["k"] == "match":
    path, m = [], sv
  elif isinstance(sv["f"], dict) and isinstance(sv["f"].get("match"), dict) and sv["f"]["match"].get("k") == "match":
    path, m = [{"f": "match", "i": 0}], sv["f"]["match"]
  else:
    return []
  f = m["f"]
  mods, touched = [], []

  def nw(n, a, bits, form):
    return {"path": path, "op": "setf", "v": {n: a if bits else [], n + "_bits": [bits]}, "when": "pre", "form": form}
  if r.random() < 0.15:
    mods.append({"path": path, "op": "setf", "when": "pre", "form": "wildcards",
                 "v": dict({n: [] for n in MATCH_W}, nw_src_bits=[0], nw_dst_bits=[0])})
    touched = list(MATCH_W)
  for _ in range(r.choice([1, 1, 2, 3])):
    n = r.choice(["nw_src", "nw_dst", "nw_src", "nw_dst", "in_port", "dl_type", "nw_proto", "tp_dst", "dl_vlan"])
    if n in ("nw_src", "nw_dst"):
      bits = r.choice([0, 1, 8, 24, 31, 32, r.randint(1, 31)])
      a = int.from_bytes(bytes(gen.bytes_(4)), "big") & ((0xffffffff << (32 - bits)) & 0xffffffff) if bits else 0
      form = r.choice(["tuple", "cidr", "method"] + (["attr"] if bits in (0, 32) else []))
      if bits == 0 and form in ("tuple", "cidr"):
        form = "attr"
      mods.append(nw(n, list(a.to_bytes(4, "big")), bits, form))
    else:
      mods.append({"path": path, "op": "setf", "v": {n: r.choice([[], gen.bytes_(MATCH_W[n])])}, "when": "pre",
                   "form": "attr"})
    if n not in touched:
      touched.append(n)
  r.shuffle(touched)
  for n in touched:                      # write the final values back (last write wins)
    if n in ("nw_src", "nw_dst"):
      bits = f[n + "_bits"][0]
      form = r.choice(["tuple", "method"] + (["attr"] if bits in (0, 32) else ["cidr"]))
      if bits == 0 and form == "tuple":
        form = "method"
      mods.append(nw(n, f[n], bits, form))
    else:
      mods.append({"path": path, "op": "setf", "v": {n: f[n]}, "when": "pre", "form": "attr"})
  return mods


def apply_mod(sv, m):
  """the same change on the abstract value (top-level paths only)"""
  if m["op"] == "setf":
    return                               # histories end in the value the object already has
  n = m["path"][0]["f"]
  if m["op"] == "set":
    sv["f"][n] = m["v"]
  else:
    sv["f"][n] = sv["f"][n] + [m["v"]]


def has_bad(x):
  if isinstance(x, dict):
    if "BAD" in x or "BAD_CONST" in x:
      return True
    if "k" in x and isinstance(x["k"], str) and x["k"].startswith("?"):
      return True
    return any(has_bad(v) for v in x.values())
  if isinstance(x, list):
    return any(has_bad(v) for v in x)
  return False
