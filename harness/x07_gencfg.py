"""Generates specs/lb/*.cfg (the TLC configurations of X07) from one table, so that the model-checking, export and
trace configurations of one constant set cannot drift apart.  Run by hand: /venv/bin/python -m harness.x07_gencfg
(the generated files are checked in; the check itself never runs this)."""
import os

HEAD = """CONSTANTS
  Servers <- {Servers}
  Idents <- {Idents}
  Home <- HomeAll
  Flows <- {Flows}
  FlowDef <- FD
  CPorts <- {CPorts}
  NPorts = 4
  W = {W}
  A = {A}
  M = {M}
  I = {I}
  B = {B}
  Deltas <- {Deltas}
  OtherKinds <- {OtherKinds}
  Strict = {Strict}
  ExK = {ExK}
  D = {D}
"""
INVS = ["TypeOK", "KeyShape", "Paired", "OneFlowPerKey", "SweptOnTime", "RoundRobin", "ProbeDeadline",
        "RemovedInTime", "LiveWasProbed", "TimerAlive"]
PROPS = ["ExpiredExactly", "Sticky", "OnlyLive", "NoServerNothing", "ReverseRewritten", "ForwardOnly",
         "LiveChanges", "LeakOnly"]


def _head(kw, D):
  kw = dict(kw)
  kw.setdefault("Strict", "FALSE")
  kw.setdefault("ExK", 1)
  kw["D"] = D
  nxt = kw.pop("Next", "NextR")
  return HEAD.format(**kw), nxt


def mc(kw):
  h, nxt = _head(kw, 0)
  return (h + "INIT Init\nNEXT %s\nVIEW viewMC\n" % nxt + "".join("INVARIANT %s\n" % i for i in INVS) +
          "".join("PROPERTY %s\n" % p for p in PROPS) + "CHECK_DEADLOCK FALSE\n")


def edges(kw, k=1):
  h, nxt = _head(dict(kw, ExK=k), 1)
  return h + "INIT Init\nNEXT %s\nVIEW viewMC\nACTION_CONSTRAINT %s\nCHECK_DEADLOCK FALSE\n" % (
      nxt, "ExportT" if k == 1 else "ExportS")


def sim(kw, depth):
  h, nxt = _head(kw, depth)
  return h + "INIT Init\nNEXT %s\nINVARIANT Export\nCHECK_DEADLOCK FALSE\n" % nxt


def trace(kw):
  h, _ = _head(kw, 0)
  return (h + "INIT TrInit\nNEXT TrNext\nCONSTRAINT Progress\nPOSTCONDITION Accepted\n" +
          "".join("INVARIANT %s\n" % i for i in INVS) + "".join("PROPERTY %s\n" % p for p in PROPS) +
          "CHECK_DEADLOCK FALSE\n")


def K(Servers, Idents, Flows, CPorts, W, A, M, I, B, Deltas, OtherKinds, **kw):
  return dict(Servers=Servers, Idents=Idents, Flows=Flows, CPorts=CPorts, W=W, A=A, M=M, I=I, B=B, Deltas=Deltas,
              OtherKinds=OtherKinds, **kw)


# one server, ticks of 1 s: W = 5, A = 3
N1 = K("S1", "Id1x", "F1", "P12", 5, 3, 7, 2, 1, "D23", "SomeOther")
N1E = K("S1", "Id1x", "F1", "P12", 5, 3, 7, 2, 1, "D3", "SomeOther")
N1T = K("S1", "Id1x", "F1", "P12", 5, 3, 7, 2, 1, "D12", "NoOther")
# two servers, ticks of 0.5 s: W = 5, A = 6
N2 = K("S2", "Id2x", "F1", "P1", 5, 6, 8, 2, 1, "D3", "NoOther")
N2E = K("S2", "Id2", "F1", "P1", 5, 6, 8, 2, 1, "D3", "NoOther")
N2B = K("S2", "Id2", "F1", "P1", 5, 6, 13, 4, 0, "D3", "NoOther")
N2F = K("S2", "Id2", "F2", "P1", 5, 6, 8, 2, 0, "D3", "NoOther", Next="NextL")
N1F = K("S1", "Id1", "F2", "P1", 5, 3, 7, 2, 0, "D3", "NoOther")
N2D2 = K("S2", "Id2", "F1", "P1", 5, 6, 8, 2, 0, "D2", "NoOther")
# five servers of which two answer, ticks of 1 s: W = 1, A = 3 - probe instants fall ON the deadlines
N5 = K("S5", "Id5", "F1", "P1", 1, 3, 3, 1, 0, "D1", "NoOther")
N5T = K("S5", "Id5", "F1", "P1", 1, 3, 4, 2, 1, "D1", "NoOther")
N2XL = K("S2", "Id2x", "F1", "P1", 5, 6, 8, 2, 1, "D3", "NoOther", Next="NextL")
N5E = K("S5", "Id5", "F1", "P1", 1, 3, 4, 2, 1, "D1", "NoOther", Next="NextL")
# mid-size constants for the random deep behaviours; the shipped constants for the trace validation
SIM = K("S2", "Id2x", "F3", "P12", 5, 6, 30, 6, 3, "D1234", "AllOther")
REAL2 = K("S2", "Id2x", "F3", "P12", 5, 6, 600, 20, 16, "DNat", "AllOther")
REAL5 = K("S5", "Id5x", "F3", "P12", 1, 3, 300, 10, 2, "DNat", "AllOther")

FILES = {
    "MC_n1.cfg": mc(N1), "MC_n1t.cfg": mc(N1T), "MC_n2.cfg": mc(N2), "MC_n2b.cfg": mc(N2B), "MC_n2f.cfg": mc(N2F), "MC_n2d2.cfg": mc(N2D2), "MC_n1f.cfg": mc(N1F),
    "MC_n5.cfg": mc(N5), "MC_n5t.cfg": mc(N5T), "MC_strict.cfg": mc(dict(N2, Strict="TRUE")),
    "EX_edges_n1.cfg": edges(N1E), "EX_edges_n2.cfg": edges(N2E), "EX_edges_n5.cfg": edges(N5E),
    "EXQ_edges_n1.cfg": edges(N1E, 4), "EXQ_edges_n2.cfg": edges(N2E, 8), "EXQ_edges_n5.cfg": edges(N5E, 2),
    "EXT_edges_n1.cfg": edges(N1E, 2), "EXT_edges_n2.cfg": edges(N2E, 4), "EXT_edges_n2xl.cfg": edges(N2XL, 3),
    "EXT_edges_n2f.cfg": edges(N2F, 4),
    "EX_edges_n1f.cfg": edges(N1F),
    "EX_strict.cfg": edges(dict(N2E, Strict="TRUE"), 8),
    "EX_sim.cfg": sim(SIM, 120),
    "Trace_n2.cfg": trace(REAL2), "Trace_n5.cfg": trace(REAL5),
}

if __name__ == "__main__":
  d = os.path.join(os.path.dirname(os.path.dirname(os.path.abspath(__file__))), "specs", "lb")
  for name, text in FILES.items():
    with open(os.path.join(d, name), "w") as f:
      f.write(text)
  print("wrote %d files to %s" % (len(FILES), d))
