"""X06 network harness: the real pox.misc.nat.NAT over one real SoftwareSwitch.

  host frames --> SoftwareSwitch (real) --OFConnection/IOWorker (real)--+
                                                                         | bytes
  NAT + ARPHelper (real) <-- events -- of_01.Connection (real) <---------+

* One real `SoftwareSwitch` (ports: two inside ports and the outside port
  "wan0") behind a real `OFConnection` on a stub IOWorker, connected byte for
  byte to a real `of_01.Connection` on a scripted socket.  A synchronous pump
  moves the bytes until nothing is in flight; everything that crosses the
  channel is tapped and decoded by harness/rawbytes.py.
* The NAT object is created exactly the way `nat.launch()`'s `got_lease`
  callback creates it (`NAT(inside_ip, outside_ip, gateway_ip, dns_ip,
  outside_port, dpid, subnet=subnet)` + `core.register`), next to a real
  `ARPHelper` started by its own `launch(use_port_mac=True)`.  The DHCP client
  and the NAT's DHCP server that `launch()` also starts are other areas.
* The recoco scheduler is owned by the harness (poxenv).  `tick(d)` moves the
  VIRTUAL clock (and lets the switch expire flows - the switch is the ideal
  environment here); `run_timers()` runs the scheduler's select hub AT the
  current instant so that the NAT's own recurring `Timer(60, _expire)` fires
  iff it is due.  Nothing sleeps.
* `nat.random` is replaced by a scripted source: the random start of the port
  search for privileged source ports is an input of the step (the spec's
  `rnd` argument), not a hidden coin.
* Exceptions raised inside event handlers are swallowed by revent; the public
  hook `revent.handleEventException` is pointed at a recorder so that they
  become observations.
* Frames are bytes built with struct only; emitted frames are taken from the
  switch's `DpPacketOut` event and decoded with struct only.

Nothing here decides anything: it drives the real code and hands back what
happened.
"""
import select as _select
import struct

from engine.core import Machinery
from harness import poxenv
from harness import rawbytes as rb

core = poxenv.boot()

import pox.openflow as ofmod                                  # noqa: E402
import pox.openflow.of_01 as of_01                            # noqa: E402
import pox.openflow.libopenflow_01 as of                      # noqa: E402
import pox.lib.recoco.recoco as recoco                        # noqa: E402
import pox.lib.revent.revent as reventmod                     # noqa: E402
from pox.lib.ioworker import IOWorker                         # noqa: E402
from pox.datapaths import switch as swmod                     # noqa: E402
from pox.openflow import flow_table as ftmod                  # noqa: E402
from pox.lib.packet.ethernet import ethernet                  # noqa: E402
from pox.lib.addresses import IPAddr, EthAddr                 # noqa: E402

ofmod.launch()
of_01.DeferredSender.start = lambda self: None
if of_01.deferredSender is None:
  of_01.deferredSender = of_01.DeferredSender()

import pox.proto.arp_helper as ahmod                          # noqa: E402
import pox.misc.nat as natmod                                 # noqa: E402

clock = poxenv.install_clock(recoco, of_01, swmod, ftmod, natmod)

NAT_DEFAULTS = dict(FLOW_TIMEOUT=natmod.FLOW_TIMEOUT, FLOW_MEMORY_TIMEOUT=natmod.FLOW_MEMORY_TIMEOUT)

# ---------------------------------------------------------------- the concrete world
OUT_PORT = 3
OUT_NAME = "wan0"
PORT_MAC = {1: "02:00:00:00:01:01", 2: "02:00:00:00:01:02", 3: "02:00:00:00:01:03"}
INSIDE_IP = "172.16.1.1"
SUBNET = "172.16.1.0/24"
OUTSIDE_IP = "203.0.113.7"
GATEWAY_IP = "203.0.113.1"
GATEWAY_MAC = "00:00:00:00:99:01"
OTHER_MAC = "00:00:00:00:99:02"          # some other station on the outside segment
DNS_IP = "198.51.100.53"


class Horizon(Exception):
  """raised by the select shim when the next timer lies beyond the target"""


class Diverged(Exception):
  """the control loop did not become quiet (code under test)"""


class ChannelLost(Exception):
  """the controller gave up the OpenFlow connection (code under test)"""


class ScriptedRandom(object):
  """stands in for the `random` module inside nat.py"""
  def __init__(self):
    self.values = []
    self.calls = []

  def randint(self, a, b):
    self.calls.append((a, b))
    if not self.values:
      raise Machinery("x06_net: nat asked for a random number the step did not provide")
    return self.values.pop(0)


class CtlSock(object):
  _fileno = 7600

  def __init__(self):
    self.inq = []
    self.out = b""
    self.closed = False
    self.shut = False
    CtlSock._fileno += 1
    self._fd = CtlSock._fileno

  def fileno(self):
    return self._fd

  def getpeername(self):
    return ("10.9.0.1", 41006)

  def setblocking(self, v):
    pass

  def send(self, data):
    if self.closed or self.shut:
      import socket
      raise socket.error(32, "Broken pipe")
    self.out += data
    return len(data)

  def recv(self, n, flags=0):
    if self.inq:
      d = self.inq.pop(0)
      if len(d) > n:
        self.inq.insert(0, d[n:])
        d = d[:n]
      return d
    if self.shut or self.closed:
      return b""
    import socket
    raise socket.error(11, "Resource temporarily unavailable")

  def shutdown(self, how):
    self.shut = True

  def close(self):
    self.closed = True


class SwSock(object):
  def getpeername(self):
    return ("127.0.0.1", 6633)


# ---------------------------------------------------------------- frames (struct only)
PAYLOAD = bytes((i * 5 + 1) & 0xff for i in range(18))


def _ip_hdr(src_ip, dst_ip, proto, plen, ident=0x1234, ttl=64, tos=0):
  hdr = struct.pack("!BBHHHBBH4s4s", 0x45, tos, 20 + plen, ident, 0, ttl, proto, 0, rb.ip(src_ip), rb.ip(dst_ip))
  return hdr[:10] + struct.pack("!H", rb.csum(hdr)) + hdr[12:]


def l4_frame(dst_mac, src_mac, src_ip, dst_ip, proto, sport, dport, payload=PAYLOAD):
  """Ethernet/IPv4/{TCP,UDP} frame with correct checksums."""
  if proto == 17:
    ln = 8 + len(payload)
    seg = struct.pack("!HHHH", sport, dport, ln, 0) + payload
    pseudo = rb.ip(src_ip) + rb.ip(dst_ip) + struct.pack("!BBH", 0, 17, ln)
    c = rb.csum(pseudo + seg) or 0xffff
    seg = seg[:6] + struct.pack("!H", c) + seg[8:]
  elif proto == 6:
    seg = struct.pack("!HHIIBBHHH", sport, dport, 1000, 0, 5 << 4, 0x02, 8192, 0, 0) + payload
    pseudo = rb.ip(src_ip) + rb.ip(dst_ip) + struct.pack("!BBH", 0, 6, len(seg))
    c = rb.csum(pseudo + seg)
    seg = seg[:16] + struct.pack("!H", c) + seg[18:]
  else:
    raise ValueError(proto)
  return rb.eth(dst_mac, src_mac, 0x0800, _ip_hdr(src_ip, dst_ip, proto, len(seg)) + seg)


def icmp_frame(dst_mac, src_mac, src_ip, dst_ip):
  ic = struct.pack("!BBHHH", 8, 0, 0, 7, 1) + PAYLOAD
  ic = ic[:2] + struct.pack("!H", rb.csum(ic)) + ic[4:]
  return rb.eth(dst_mac, src_mac, 0x0800, _ip_hdr(src_ip, dst_ip, 1, len(ic)) + ic)


def arp_frame(eth_dst, eth_src, op, sha, spa, tha, tpa):
  body = struct.pack("!HHBBH6s4s6s4s", 1, 0x0800, 6, 4, op, rb.mac(sha), rb.ip(spa), rb.mac(tha), rb.ip(tpa))
  fr = rb.eth(eth_dst, eth_src, 0x0806, body)
  return fr + b"\0" * max(0, 60 - len(fr))


def _mac_s(b):
  return ":".join("%02x" % x for x in b)


def _ip_s(b):
  return ".".join(str(x) for x in b)


def decode_frame(fr):
  """Ethernet frame -> dict (struct only)."""
  d = dict(ed=_mac_s(fr[0:6]), es=_mac_s(fr[6:12]), len=len(fr))
  et = struct.unpack("!H", fr[12:14])[0]
  d["et"] = et
  off = 14
  if et == 0x0806 and len(fr) >= off + 28:
    ht, pt, hl, pl, op = struct.unpack("!HHBBH", fr[off:off + 8])
    d.update(kind="arp", op=op, sha=_mac_s(fr[off + 8:off + 14]), spa=_ip_s(fr[off + 14:off + 18]),
             tha=_mac_s(fr[off + 18:off + 24]), tpa=_ip_s(fr[off + 24:off + 28]),
             std=(ht, pt, hl, pl) == (1, 0x0800, 6, 4))
  elif et == 0x0800 and len(fr) >= off + 20:
    ihl = (fr[off] & 0xf) * 4
    tot = struct.unpack("!H", fr[off + 2:off + 4])[0]
    d.update(kind="ip", sip=_ip_s(fr[off + 12:off + 16]), dip=_ip_s(fr[off + 16:off + 20]), proto=fr[off + 9],
             ttl=fr[off + 8], tos=fr[off + 1], ident=struct.unpack("!H", fr[off + 4:off + 6])[0],
             ipcsum_ok=rb.csum(fr[off:off + ihl]) == 0)
    l4 = fr[off + ihl:off + tot]
    if fr[off + 9] in (6, 17) and len(l4) >= 8:
      d["sport"], d["dport"] = struct.unpack("!HH", l4[:4])
      hl = 8 if fr[off + 9] == 17 else (l4[12] >> 4) * 4
      d["payload"] = l4[hl:]
      pseudo = fr[off + 12:off + 20] + struct.pack("!BBH", 0, fr[off + 9], len(l4))
      d["l4csum_ok"] = rb.csum(pseudo + l4) == 0
    else:
      d["payload"] = l4
  else:
    d["kind"] = "other"
  return d


# ---------------------------------------------------------------- the network

class Net(object):
  MAX_ROUNDS = 200

  def __init__(self, dpid=1, max_buffers=16, miss_send_len=128, dns=True, late=False, consts=None):
    """dns: whether the (simulated) DHCP lease named a DNS server; late: the NAT object is created BEFORE the
    switch connects (it then starts from its ConnectionUp listener instead of immediately)."""
    self.dpid = dpid
    self.dns = dns
    self.late = late
    self.emitted = []
    self.c2s_raw = self.s2c_raw = b""
    self.handler_errors = []
    self.nat = None
    self._reset_controller(consts or {})
    plist = []
    for p in (1, 2, 3):
      pp = of.ofp_phy_port()
      pp.port_no = p
      pp.hw_addr = EthAddr(PORT_MAC[p])
      pp.name = OUT_NAME if p == OUT_PORT else "lan%d" % p
      pp.config = 0
      pp.curr = pp.advertised = pp.supported = pp.peer = of.OFPPF_10MB_HD
      plist.append(pp)
    self.sw = swmod.SoftwareSwitch(dpid, ports=plist, max_buffers=max_buffers, miss_send_len=miss_send_len)
    self.sw.addListenerByName("DpPacketOut", self._on_out)
    self.worker = IOWorker()
    self.worker.socket = SwSock()
    self.ofc = swmod.OFConnection(self.worker)
    self.sw.set_connection(self.ofc)
    self.sock = CtlSock()
    self.con = None
    if late:
      self._make_nat()
    else:
      self._connect()

  # -------------------------------------------------------------- controller
  def _reset_controller(self, consts):
    sched = core.scheduler
    hub = sched._selectHub
    self.sched, self.hub = sched, hub
    hub._select_func = self._vselect
    self._target = clock.now
    sched._ready.clear()
    for t in list(hub._tasks):
      if isinstance(t, recoco.Timer):
        t._cancelled = True
        del hub._tasks[t]
    keep = []
    while not hub._incoming.empty():
      it = hub._incoming.get(True)
      hub._incoming.task_done()
      if not isinstance(it[0], recoco.Timer):
        keep.append(it)
    for it in keep:
      hub._incoming.put(it)
    old = core.components.get("openflow")
    if old is not None:
      try:
        core.removeListener(old._handle_DownEvent)
      except Exception:
        pass
    self.nexus = ofmod.OpenFlowNexus()
    core.components["openflow"] = self.nexus
    core.components["OpenFlowConnectionArbiter"] = ofmod.OpenFlowConnectionArbiter()
    of_01.Connection.ID = 0
    of_01.deferredSender.sending = False
    of_01.deferredSender._dataForConnection.clear()
    oldh = core.components.pop("ARPHelper", None)
    if oldh is not None:
      try:
        core.removeListener(oldh._handle_GoingUpEvent)
      except Exception:
        pass
    core.components.pop("NAT", None)
    for k, v in NAT_DEFAULTS.items():
      setattr(natmod, k, v)
    for k, v in consts.items():
      if k not in NAT_DEFAULTS:
        raise Machinery("unknown nat constant " + k)
      setattr(natmod, k, v)
    self.rnd = ScriptedRandom()
    natmod.random = self.rnd
    reventmod.handleEventException = self._on_handler_exception
    # the ARP helper exactly as nat.launch() starts it
    ahmod.launch(use_port_mac=True)
    self.arp_helper = core.components["ARPHelper"]
    # pox.core raises GoingUpEvent once at start-up; the harness never brings the core "up", so deliver
    # exactly that event to the component's own handler
    self.arp_helper._handle_GoingUpEvent(None)

  def _on_handler_exception(self, source, event, args, kw, exc_info):
    import traceback
    self.handler_errors.append("%s: %s" % (exc_info[0].__name__, "".join(
        traceback.format_exception(*exc_info))[-600:]))

  def _make_nat(self):
    """what nat.launch()'s got_lease() does once the DHCP client has a lease"""
    n = natmod.NAT(IPAddr(INSIDE_IP), IPAddr(OUTSIDE_IP), IPAddr(GATEWAY_IP), IPAddr(DNS_IP) if self.dns else None,
                   OUT_NAME, self.dpid, subnet=SUBNET)
    core.register(n)
    self.nat = n
    self.t0 = clock.now
    self._settle()

  def _connect(self):
    self.con = of_01.Connection(self.sock)
    self._settle()
    if self.nexus.getConnection(self.dpid) is not self.con or self.con.connect_time is None:
      raise Machinery("x06_net: handshake did not complete")

  def bring_up(self):
    """the remaining half of the start-up: returns what crossed the channel / left the ports"""
    if self.late:
      self.take()
      self._connect()
    else:
      self.take()
      self._make_nat()
    return self.take()

  def _on_out(self, e):
    self.emitted.append((e.port.port_no, e.packet.pack()))

  # -------------------------------------------------------------- time
  def _vselect(self, r, w, x, timeout):
    ro, wo, xo = _select.select(list(r), list(w), list(x), 0)
    if not (ro or wo or xo) and not self.hub._incoming.empty():
      # a task registered with the hub but its wake-up byte is gone (the pipe is shared with a forked
      # sibling process): wake the hub again so that it takes the registration in
      self.hub._pinger.ping()
      ro, wo, xo = _select.select(list(r), list(w), list(x), 0)
    if ro or wo or xo:
      return ro, wo, xo
    if timeout is None:
      raise Horizon()
    if clock.now + timeout > self._target:
      raise Horizon()
    clock.advance(timeout)
    return [], [], []

  def _settle(self):
    for _ in range(10000):
      busy = False
      while self.sched._ready:
        self.sched.cycle()
        busy = True
      if self._pump():
        busy = True
      if not busy:
        return
    raise Machinery("x06_net: did not settle")

  def tick(self, d):
    """d seconds of virtual time pass; the switch expires its flows; the controller's scheduler does NOT run"""
    clock.advance(d)
    self.sw.table.remove_expired_entries()
    self._settle_no_sched()

  def _settle_no_sched(self):
    self._pump()

  def timer_due(self):
    t = getattr(self.nat, "expire_timer", None)
    return t is not None and t._next <= clock.now

  def run_timers(self):
    """run the scheduler's select hub at the current instant: timers that are due fire, nothing else"""
    self._target = clock.now
    for _ in range(1000):
      self._settle()
      try:
        self.hub._select(self.hub._tasks, {})
      except Horizon:
        if not self.sched._ready:
          break
    else:
      raise Machinery("x06_net.run_timers: too many timer steps")
    self._settle()

  @property
  def now(self):
    return clock.now - self.t0

  # -------------------------------------------------------------- bytes
  def _pump(self):
    moved = False
    if self.con is None:
      return False
    for _ in range(self.MAX_ROUNDS):
      again = False
      if self.sock.out:
        data, self.sock.out = self.sock.out, b""
        self.c2s_raw += data
        self.worker._push_receive_data(data)
        again = True
      if self.worker.send_buf:
        data, self.worker.send_buf = self.worker.send_buf, b""
        self.s2c_raw += data
        self.sock.inq.append(data)
        while self.sock.inq:
          if self.con.read() is False:
            raise ChannelLost("controller dropped the connection")
        again = True
      if not again:
        return moved
      moved = True
    raise Diverged("control channel still busy after %d rounds" % self.MAX_ROUNDS)

  def take(self):
    """everything that happened since the last take()"""
    c2s = rb.parse_stream(self.c2s_raw)
    s2c = rb.parse_stream(self.s2c_raw)
    self.c2s_raw = self.s2c_raw = b""
    em, self.emitted = self.emitted, []
    errs, self.handler_errors = self.handler_errors, []
    return dict(c2s=c2s, s2c=s2c, emitted=em, errors=errs)

  def inject(self, port, frame, rnd=None):
    self.rnd.values = list(rnd or [])
    self.sw.rx_packet(ethernet(raw=frame), port)
    self._settle()
    r = self.take()
    r["rnd_calls"] = list(self.rnd.calls)
    r["rnd_left"] = len(self.rnd.values)
    self.rnd.calls = []
    self.rnd.values = []
    return r

  def flows(self):
    return list(self.sw.table.entries)

  def close(self):
    try:
      t = getattr(self.nat, "expire_timer", None)
      if t is not None:
        t.cancel()
    except Exception:
      pass
