"""C07, wake-up channel: Pinger.tla actions -> the real pox.lib.util pinger (makePinger())."""
import os
import select as _select
import threading

from harness import poxenv   # noqa: F401  (puts the repository on sys.path)

import pox.lib.util as util   # noqa: E402

# a pong runs on the scheduler thread: one that has not returned after this long has stopped the scheduler.
# (generous: only ever waited for on a pinger that really blocks)
BLOCK_AFTER = float(os.environ.get("VERIF_C07_BLOCK_AFTER", "12"))
try:      # a crowded machine must never become a verdict: the limit grows with the load
  BLOCK_AFTER *= max(1.0, os.getloadavg()[0] / (os.cpu_count() or 1))
except OSError:
  pass


class Adapter(object):
  def __init__(self, **kw):
    self.p = util.makePinger()
    self.stuck = False

  def close(self):
    p = self.p
    for fd in (getattr(p, "_w", None), getattr(p, "_r", None)):
      try:
        if isinstance(fd, int):
          os.close(fd)
        elif fd is not None:
          fd.close()
      except Exception:
        pass
    if isinstance(getattr(p, "_w", None), int):
      p._w = p._r = -1

  def _readable(self):
    return bool(_select.select([self.p], [], [], 0)[0])

  def _timed(self, fn):
    box = {}

    def run():
      try:
        fn()
        box["r"] = "returned"
      except BaseException as e:     # noqa
        box["r"] = "exception:" + type(e).__name__
    t = threading.Thread(target=run, daemon=True)
    t.start()
    t.join(BLOCK_AFTER)
    if t.is_alive():
      self.stuck = True
      try:
        self.p.ping()                # let the reader go so that the thread ends
      except Exception:
        pass
      t.join(5)
      return "blocked"
    return box.get("r", "?")

  def step(self, a, args):
    if self.stuck:
      return {"readable": False, "ret": "after-block"}
    if a == "Ping":
      for _ in range(args["n"]):
        self.p.ping()
      ret = "-"
    elif a == "PongAll":
      ret = self._timed(self.p.pong_all if args.get("n", 0) % 2 == 0 and hasattr(self.p, "pong_all") else self.p.pongAll)
    elif a == "Pong":
      ret = self._timed(self.p.pong)
    else:
      raise ValueError(a)
    return {"readable": self._readable(), "ret": ret}

  def accept_alt(self, obs, st):
    return any(obs == a for a in (st.get("alts") or []))

  def signature(self, st, obs):
    sig = {"action": st["a"], "part": "pinger"}
    if isinstance(obs, dict) and "EXC" in obs:
      sig["observed"] = "exception:" + obs["EXC"]
      return sig
    exp = st["exp"]
    sig["fields"] = sorted(k for k in exp if obs.get(k) != exp[k])
    sig["ret"] = obs.get("ret")
    return sig
