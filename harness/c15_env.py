"""C15 environment: frames reach the packet library the way hostile frames do -
as the data of an OFPT_PACKET_IN read by a real of_01.Connection, parsed
lazily by `event.parsed` inside a PacketIn handler registered on core.openflow.

OpenFlow bytes are built with harness/rawbytes.py (struct only).
"""
import contextlib
import errno
import os
import signal
import socket as _socket
import traceback

from engine.core import Machinery
from harness import poxenv
from harness import rawbytes as rb

core = poxenv.boot()

import pox.openflow as ofmod                      # noqa: E402
import pox.openflow.of_01 as of_01                # noqa: E402

if not core.hasComponent("openflow"):
  ofmod.launch()
of_01.DeferredSender.start = lambda self: None
if of_01.deferredSender is None:
  of_01.deferredSender = of_01.DeferredSender()


class Diverged(BaseException):
  """the operation used more than CPU_LIMIT seconds of CPU time: it does not return"""


CPU_LIMIT = 0.5          # a parse takes ~30 microseconds
MAX_DIVERGED = 4         # per worker process; afterwards inputs are answered "Diverged" unrun
_diverged = [0]


def _on_alarm(signum, frame):
  _diverged[0] += 1
  raise Diverged("no result after %.1f s of CPU time" % CPU_LIMIT)


signal.signal(signal.SIGVTALRM, _on_alarm)


@contextlib.contextmanager
def deadline():
  """divergence guard: CPU-time budget for one operation of the code under test (BaseException, so
  that no `except Exception` inside POX swallows it)"""
  if _diverged[0] >= MAX_DIVERGED:
    # the code under test has been seen not to return several times in this process: do not
    # spend the budget again on every further input (the run is failing anyway)
    raise Diverged("not run: %d earlier operations did not return" % _diverged[0])
  signal.setitimer(signal.ITIMER_VIRTUAL, CPU_LIMIT)
  try:
    yield
  finally:
    signal.setitimer(signal.ITIMER_VIRTUAL, 0)


def where(e):
  """'file.py:function' of the innermost frame of the traceback that lies in the packet
  library (else the innermost frame inside POX)"""
  tb = traceback.extract_tb(e.__traceback__)
  pkt = os.sep + os.path.join("pox", "lib", "packet") + os.sep
  for pat in (pkt, os.sep + "pox" + os.sep):
    for fr in reversed(tb):
      if pat in fr.filename:
        return "%s:%s" % (os.path.basename(fr.filename), fr.name)
  return "?"


class _Sock(object):
  def __init__(self):
    self.inq = []
    self.out = b""

  def fileno(self):
    return 1515

  def setblocking(self, v):
    pass

  def getpeername(self):
    return ("10.0.0.15", 41515)

  def send(self, data):
    self.out += data
    return len(data)

  def recv(self, n, flags=0):
    if self.inq:
      d = self.inq.pop(0)
      if len(d) > n:
        self.inq.insert(0, d[n:])
        d = d[:n]
      return d
    raise _socket.error(errno.EAGAIN, "Resource temporarily unavailable")

  def shutdown(self, how):
    pass

  def close(self):
    pass


class Channel(object):
  """One established controller connection + a PacketIn handler that parses."""

  def __init__(self, dpid=0x15):
    self.sock = _Sock()
    self.con = of_01.Connection(self.sock)
    self.got = []
    self._feed(rb.hello())
    self._feed(rb.features_reply(dpid, ports=[rb.phy_port(1, "00:00:00:00:15:01", b"p1")], n_buffers=0))
    xid = None
    for m in rb.parse_stream(self.sock.out):
      if m["type"] == rb.BARRIER_REQUEST:
        xid = m["xid"]
    if xid is None:
      raise Machinery("C15 env: controller sent no barrier request during the handshake")
    self._feed(rb.barrier_reply(xid))
    if core.openflow.getConnection(dpid) is not self.con:
      raise Machinery("C15 env: handshake did not complete")
    core.openflow.addListenerByName("PacketIn", self._on_packet_in)

  def _feed(self, data):
    self.sock.inq.append(data)
    while self.sock.inq:
      if self.con.read() is False:
        raise Machinery("C15 env: connection closed by the controller")

  def _on_packet_in(self, event):
    # what any component does first with a packet-in: look at the parsed packet
    rec = {"event": event}
    try:
      rec["parsed"] = event.parsed
      rec["again"] = event.parse()
    except (Exception, Diverged) as e:         # the observation C15 is about
      rec["exc"] = (type(e).__name__, str(e)[:200], where(e))
    self.got.append(rec)

  def offer(self, frame):
    """Deliver `frame` as packet-in data; returns the handler's record."""
    if len(frame) > 65517:
      raise Machinery("C15 env: %d bytes do not fit into one OFPT_PACKET_IN" % len(frame))
    del self.got[:]
    n = len(self.sock.out)
    try:
      with deadline():
        self._feed(rb.packet_in(rb.NO_BUFFER, len(frame), 1, 0, frame))
    except Diverged as e:          # raised outside the handler (or not run at all)
      self.sock.inq = []
      self.con.buf = b""
      self.got[:] = [{"event": None, "exc": ("Diverged", str(e), where(e))}]
      return self.got[0]
    if len(self.got) != 1:
      raise Machinery("C15 env: %d PacketIn events for one OFPT_PACKET_IN" % len(self.got))
    rec = self.got[0]
    if rec["event"].data != frame:
      raise Machinery("C15 env: PacketIn.data differs from the bytes sent")
    self.sock.out = self.sock.out[:n]
    return rec


_channel = None


def channel():
  global _channel
  if _channel is None:
    _channel = Channel()
  return _channel
