"""C16 adapter: Addr.tla / AddrOrder.tla actions -> the real address classes.

Every action of the specifications is performed on pox.lib.addresses /
pox.lib.util through their public entry points; the observation is returned
in the JSON shape of the specification's `exp`.  Nothing here computes a
mask, a canonical text or a parse: texts come from the specification, and
integers that do not fit TLC (32/64/128-bit numbers) are exchanged as octet
lists - conversions are plain int.from_bytes / int.to_bytes.

  host order     : the number whose big-endian bytes are the address
  network order  : the number whose in-memory (native, sys.byteorder) bytes
                   are the address (that is what "an int in network byte
                   order" means on a given host)
"""
import sys

from pox.lib import addresses as A
from pox.lib import util as U

CLS = {"v4": A.IPAddr, "v6": A.IPAddr6, "mac": A.EthAddr}
NOVIEW = {"ok": "F", "str": "", "repr": "", "raw": [], "n": 0}
CRASHES = (RecursionError, MemoryError)


def call(f, *a, **kw):
  """('ok', value) | ('exc', name) | ('crash', name)"""
  try:
    return ("ok", f(*a, **kw))
  except CRASHES as e:
    return ("crash", type(e).__name__)
  except Exception as e:           # any ordinary exception = the input was refused
    return ("exc", type(e).__name__)


def tf(v):
  """strict booleans: anything else is shown as what it is"""
  if v is True:
    return "T"
  if v is False:
    return "F"
  return "notbool:" + repr(v)[:40]


def jb(v):
  return v if (v is True or v is False) else "notbool:" + repr(v)[:40]


def same(vals):
  """all aliases of one accessor must agree"""
  out = []
  for v in vals:
    if v not in out:
      out.append(v)
  return out[0] if len(out) == 1 else {"ALIASES-DISAGREE": out}


def view(k, x):
  cls = CLS[k]
  if type(x) is not cls:
    return {"ok": "wrong_type:" + type(x).__name__, "str": str(x)[:80], "repr": "", "raw": [], "n": 0}
  strs = [str(x), x.toStr() if hasattr(x, "toStr") else str(x), x.to_str() if hasattr(x, "to_str") else str(x)]
  raws = [list(x.raw)]
  if hasattr(x, "toRaw"):
    raws.append(list(x.toRaw()))
  raw = same(raws)
  n = len(x)
  if isinstance(raw, list) and n != len(raw):
    n = {"len": n, "raw": len(raw)}
  return {"ok": "T", "str": same(strs), "repr": repr(x), "raw": raw, "n": n}


def viewres(k, r):
  if r[0] == "ok":
    return view(k, r[1])
  if r[0] == "exc":
    return dict(NOVIEW)
  return dict(NOVIEW, ok="crash:" + r[1])


def sized(v, adj):
  v = list(v)
  if adj == 1:
    v = v + [0]
  elif adj == -1:
    v = v[:-1]
  return v


def be(n, size):
  return list(n.to_bytes(size, "big")) if isinstance(n, int) and 0 <= n < (1 << (8 * size)) else "RANGE:%r" % (n,)


def native(n, size):
  return list(n.to_bytes(size, sys.byteorder)) if isinstance(n, int) and 0 <= n < (1 << (8 * size)) else "RANGE:%r" % (n,)


def signed(n, size, order):
  lim = 1 << (8 * size - 1)
  if not isinstance(n, int) or not (-lim <= n < lim):
    return "RANGE:%r" % (n,)
  return list((n & ((1 << (8 * size)) - 1)).to_bytes(size, order))


class Adapter(object):
  def __init__(self, **kw):
    self.k = None
    self.x = None
    self.src = None
    self.hash0 = None
    self.pool = {}      # AddrOrder registers

  # ---------------------------------------------------------------- Addr.tla
  def _set(self, k, r, src=None):
    if r[0] == "ok" and type(r[1]) is CLS[k]:
      self.k, self.x, self.src = k, r[1], src
      h = call(hash, r[1])
      self.hash0 = h[1] if h[0] == "ok" else None
      if h[0] != "ok":
        return dict(viewres(k, r), ok="unhashable:" + h[1])
    else:
      self.k = self.x = self.src = None
    return viewres(k, r)

  def make_text(self, k, form, text):
    arg = text if form == "str" else text.encode("latin-1")
    return self._set(k, call(CLS[k], arg))

  def make_bin(self, k, form, v, adj):
    v = sized(v, adj)
    src = None
    if k == "v4":
      if form == "raw":
        r = call(A.IPAddr, bytes(v))
      elif form == "bytearray":
        src = bytearray(v)
        r = call(A.IPAddr, src)
      elif form == "int_h":
        r = call(A.IPAddr, int.from_bytes(bytes(v), "big"))
      elif form == "int_hs":
        r = call(A.IPAddr, int.from_bytes(bytes(v), "big", signed=True))
      elif form == "int_n":
        r = call(A.IPAddr, int.from_bytes(bytes(v), sys.byteorder), networkOrder=True)
      elif form == "copy":
        r = call(lambda: A.IPAddr(A.IPAddr(bytes(v))))
      else:
        raise ValueError(form)
    elif k == "v6":
      b = bytes(v)
      if form == "raw":
        r = call(A.IPAddr6, b, raw=True)
      elif form == "rawkw":
        r = call(A.IPAddr6, raw=b)
      elif form == "bytearray":
        src = bytearray(v)
        r = call(A.IPAddr6, src)
      elif form == "from_raw":
        r = call(A.IPAddr6.from_raw, b)
      elif form == "copy":
        r = call(lambda: A.IPAddr6(A.IPAddr6(b, raw=True)))
      elif form == "from_num":
        r = call(A.IPAddr6.from_num, int.from_bytes(b, "big"))
      elif form == "none":
        r = call(A.IPAddr6)
      elif form == "from_v4":
        r = call(lambda: A.IPAddr6(A.IPAddr(b[12:])))
      else:
        raise ValueError(form)
    else:
      if form == "raw":
        r = call(A.EthAddr, bytes(v))
      elif form == "list":
        src = list(v)
        r = call(A.EthAddr, src)
      elif form == "tuple":
        r = call(A.EthAddr, tuple(v))
      elif form == "bytearray":
        src = bytearray(v)
        r = call(A.EthAddr, src)
      elif form == "copy":
        r = call(lambda: A.EthAddr(A.EthAddr(bytes(v))))
      elif form == "none":
        r = call(A.EthAddr, None)
      else:
        raise ValueError(form)
    return self._set(k, r, src)

  def reparse(self):
    x, k = self.x, self.k
    r = call(CLS[k], str(x))
    if r[0] != "ok":
      return {"eq": "F", "ne": "T", "heq": "F", "view": viewres(k, r)}
    y = r[1]
    h = call(lambda: hash(x) == hash(y) and hash(x) == self.hash0)
    return {"eq": same([tf(x == y), tf(y == x)]), "ne": same([tf(x != y), tf(y != x)]),
            "heq": tf(h[1]) if h[0] == "ok" else h[0] + ":" + h[1], "view": view(k, y)}

  def props(self):
    x, k = self.x, self.k
    if k == "v4":
      return {"uh": same([be(x.toUnsigned(), 4), be(x.toUnsigned(networkOrder=False), 4), be(x.unsigned_h, 4)]),
              "un": same([native(x.toUnsigned(networkOrder=True), 4), native(x.toUnsignedN(), 4),
                          native(x.unsigned_n, 4)]),
              "sh": same([signed(x.toSigned(), 4, "big"), signed(x.toSigned(networkOrder=False), 4, "big")]),
              "sn": same([signed(x.toSigned(networkOrder=True), 4, sys.byteorder),
                          signed(x.toSignedN(), 4, sys.byteorder)])}
    if k == "v6":
      v4 = call(lambda: same([str(x.ipv4), str(x.to_ipv4(check_ipv4=False))]))
      return {"num": be(x.num, 16), "ipv4": v4[1] if v4[0] == "ok" else v4[0] + ":" + v4[1],
              "class": {"mc": jb(x.is_multicast), "gu": jb(x.is_global_unicast),
                        "ul": jb(x.is_unique_local_unicast), "ll": jb(x.is_link_unicast),
                        "compat": jb(x.is_ipv4_compatible), "mapped": jb(x.is_ipv4_mapped)}}
    loc = same([jb(x.isLocal()), jb(x.is_local), jb(not x.isGlobal()), jb(not x.is_global)])
    return {"tuple": same([list(x.toTuple()), list(x.to_tuple())]),
            "dash": same([x.to_str("-"), x.toStr("-"), x.to_str(separator="-")]),
            "flags": {"mc": same([jb(x.isMulticast()), jb(x.is_multicast)]), "local": loc,
                      "bf": same([jb(x.isBridgeFiltered()), jb(x.is_bridge_filtered)]),
                      "bc": jb(x.is_broadcast)}}

  def mutate(self, attr):
    x, k = self.x, self.k
    other = {"v4": 0x01010101, "v6": b"\x5a" * 16, "mac": b"\x5a" * 6}[k]
    r = call(setattr, x, attr, other)
    return {"refused": "T" if r[0] == "exc" else ("F" if r[0] == "ok" else "crash:" + r[1]),
            "view": self._view_again()}

  def _view_again(self):
    v = view(self.k, self.x)
    h = call(hash, self.x)
    if h[0] != "ok" or h[1] != self.hash0:
      v["ok"] = "hash-changed"
    return v

  def mutate_source(self):
    for i in range(len(self.src)):
      self.src[i] ^= 0xA5
    return {"view": self._view_again()}

  def in_network(self, k, style, nets):
    x = self.x
    cls = CLS[k]
    fns = [x.in_network] + ([x.inNetwork] if k == "v4" else [])
    out = []
    for e in nets:
      t, b, m = e["t"], e["b"], e["m"]
      res = []
      for f in fns:
        if style == "cidr":
          r = call(f, "%s/%d" % (t, b))
        elif style == "mask":
          r = call(f, "%s/%s" % (t, m))
        elif style == "tuple_text":
          r = call(f, (t, b))
        elif style == "tuple_obj":
          r = call(f, (cls(t), b))
        elif style == "sep_bits":
          r = call(f, t, b)
        elif style == "sep_mask":
          r = call(f, t, m)
        elif style == "sep_obj":
          r = call(f, cls(t), b)
        else:
          raise ValueError(style)
        res.append(jb(r[1]) if r[0] == "ok" else r[0] + ":" + r[1])
      out.append(same(res))
    return {"r": out}

  def get_network(self, style, bs):
    x = self.x
    out = []
    for e in bs:
      b, m = e["b"], e["m"]
      arg = {"int": b, "str": str(b), "mask": m, "mask_obj": None}[style]
      if style == "mask_obj":
        arg = A.IPAddr(m)
      r = call(x.get_network, arg)
      if r[0] != "ok":
        out.append({"net": r[0] + ":" + r[1], "b": -1})
      else:
        n, bits = r[1]
        out.append({"net": str(n) if type(n) is A.IPAddr else "wrong_type:" + type(n).__name__, "b": bits})
    return {"r": out}

  def step(self, a, args):
    if a == "MakeText":
      return self.make_text(args["k"], args["form"], args["text"])
    if a == "MakeBin":
      return self.make_bin(args["k"], args["form"], args["v"], args["adj"])
    if a == "Reparse":
      return self.reparse()
    if a == "Props":
      return self.props()
    if a == "Mutate":
      return self.mutate(args["attr"])
    if a == "MutateSource":
      return self.mutate_source()
    if a == "InNet":
      return self.in_network(args["k"], args["style"], args["nets"])
    if a == "InNetInfer":
      r = call(self.x.inNetwork, args["t"])
      return {"r": jb(r[1]) if r[0] == "ok" else r[0] + ":" + r[1]}
    if a == "GetNetwork":
      return self.get_network(args["style"], args["bs"])
    if a == "ToStr6":
      r = call(self.x.to_str, zero_drop=args["zd"], section_drop=args["sd"],
               ipv4={"auto": None, "yes": True, "no": False}[args["v4"]])
      return {"s": r[1] if r[0] == "ok" else r[0] + ":" + r[1]}
    if a == "SetMac6":
      r = call(self.x.set_mac, args["mac"])
      if r[0] != "ok":
        return {"s": r[0] + ":" + r[1]}
      return {"s": str(r[1]) if type(r[1]) is A.IPAddr6 else "wrong_type:" + type(r[1]).__name__}
    if a == "CidrToMask":
      f = A.cidr_to_netmask if args["k"] == "v4" else A.IPAddr6.cidr_to_netmask
      return viewres(args["k"], call(f, args["b"]))
    if a == "MaskToCidr":
      k = args["k"]
      f = A.netmask_to_cidr if k == "v4" else A.IPAddr6.netmask_to_cidr
      arg = args["t"] if args["form"] == "str" else CLS[k](args["t"])
      r = call(f, arg)
      if r[0] == "ok":
        return {"ok": "T", "b": r[1]}
      return {"ok": "F" if r[0] == "exc" else "crash:" + r[1], "b": 0}
    if a == "ParseCidrAgain":
      # the same text was asked about before, with other flags: the earlier answers are of no interest
      k = args["k"]
      if k == "v4":
        call(A.parse_cidr, args["text"], infer=args["infer0"], allow_host=args["allowHost0"])
        call(A.IPAddr.parse_cidr, args["text"], infer=args["infer0"], allow_host=args["allowHost0"])
      else:
        call(A.IPAddr6.parse_cidr, args["text"], allow_host=args["allowHost0"])
      a = "ParseCidr"
    if a == "ParseCidr":
      k = args["k"]
      if k == "v4":
        rs = [call(A.parse_cidr, args["text"], infer=args["infer"], allow_host=args["allowHost"]),
              call(A.IPAddr.parse_cidr, args["text"], infer=args["infer"], allow_host=args["allowHost"])]
      else:
        rs = [call(A.IPAddr6.parse_cidr, args["text"], allow_host=args["allowHost"])]
      out = []
      for r in rs:
        if r[0] == "ok":
          ad, bits = r[1]
          out.append({"ok": "T", "str": str(ad) if type(ad) is CLS[k] else "wrong_type:" + type(ad).__name__,
                      "b": bits})
        else:
          out.append({"ok": "F" if r[0] == "exc" else "crash:" + r[1], "str": "", "b": 0})
      return same(out)
    if a == "DpidToStr":
      d = bytes(args["d"])
      arg = int.from_bytes(d, "big") if args["form"] == "int" else d
      rs = [call(U.dpid_to_str, arg, alwaysLong=args["long"]), call(U.dpidToStr, arg, args["long"])]
      return {"s": same([r[1] if r[0] == "ok" else r[0] + ":" + r[1] for r in rs])}
    if a == "StrToDpid":
      rs = []
      for f in (U.str_to_dpid, U.strToDPID):
        r = call(f, args["text"])
        if r[0] == "ok":
          rs.append({"ok": "T", "d": be(r[1], 8)})
        else:
          rs.append({"ok": "F" if r[0] == "exc" else "crash:" + r[1], "d": []})
      return same(rs)
    if a == "DpidRound":
      n = int.from_bytes(bytes(args["d"]), "big")
      r = call(lambda: U.str_to_dpid(U.dpid_to_str(n, alwaysLong=args["long"])))
      return {"d": be(r[1], 8) if r[0] == "ok" else r[0] + ":" + r[1]}
    if a == "Cmp":
      return self.order_step(a, args)
    raise ValueError(a)

  # ----------------------------------------------------------- AddrOrder.tla
  def _reg(self, d):
    """the object in register d.r, built on first use from its descriptor"""
    if d["r"] not in self.pool:
      k, form = d["k"], d["form"]
      if form == "text":
        r = call(CLS[k], d["text"])
      else:
        save = (self.k, self.x, self.src, self.hash0)
        v = self.make_bin(k, form, d["v"], 0)
        r = ("ok", self.x) if self.x is not None and v.get("ok") == "T" else ("exc", "construct")
        self.k, self.x, self.src, self.hash0 = save
      if r[0] != "ok" or type(r[1]) is not CLS[k]:
        return None
      self.pool[d["r"]] = r[1]
    return self.pool[d["r"]]

  def order_step(self, a, args):
    x, y = self._reg(args["a"]), self._reg(args["b"])
    if x is None or y is None:
      return {"construct": "failed"}
    out = {}
    for name, f in (("eq", lambda: x == y), ("ne", lambda: x != y), ("lt", lambda: x < y),
                    ("le", lambda: x <= y), ("gt", lambda: x > y), ("ge", lambda: x >= y)):
      r = call(f)
      out[name] = tf(r[1]) if r[0] == "ok" else ("exc" if r[0] == "exc" else "crash:" + r[1])
    r = call(lambda: hash(x) == hash(y))
    out["heq"] = ("eq" if r[1] else "ne") if r[0] == "ok" else r[0]
    return out

  # ------------------------------------------------------------------ engine
  def normalize(self, obs, exp):
    if isinstance(obs, dict) and isinstance(exp, dict):
      for f, v in exp.items():
        if v == "any" and f in obs and not str(obs[f]).startswith("crash"):
          obs[f] = "any"
    return obs

  def signature(self, st, obs):
    a, args, exp = st["a"], st.get("args") or {}, st.get("exp")
    sig = {"action": a}
    for f in ("k", "form", "style", "rule", "attr"):
      if f in args:
        sig[f] = args[f]
    if isinstance(obs, dict) and "EXC" in obs:
      sig["class"] = "exception:" + obs["EXC"]
      return sig
    if not isinstance(obs, dict) or not isinstance(exp, dict):
      sig["class"] = "shape"
      return sig
    diff = sorted(f for f in exp if obs.get(f) != exp[f])
    sig["fields"] = diff
    if "ok" in exp:
      eo, oo = exp["ok"], obs.get("ok")
      if oo == eo:
        sig["class"] = "wrong_value" if ("raw" in diff or "d" in diff or "b" in diff) else "wrong_text"
      elif isinstance(oo, str) and oo.startswith("crash"):
        sig["class"] = oo
      elif isinstance(oo, str) and oo.startswith("wrong_type"):
        sig["class"] = oo
      elif eo == "F":
        sig["class"] = "accepted_malformed"
      elif oo == "F":
        sig["class"] = "rejected_valid"
      else:
        sig["class"] = "other:" + str(oo)[:30]
    else:
      vals = [obs.get(f) for f in diff]
      flat = repr(vals)
      if "crash:" in flat:
        sig["class"] = "crash"
      elif "exc" in flat:
        sig["class"] = "exception"
      elif "wrong_type" in flat:
        sig["class"] = "wrong_type"
      else:
        sig["class"] = "wrong_result"
    return sig
