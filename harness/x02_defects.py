"""X02: the failing histories of notes/X02.md "Defects observed", runnable:

    cd /verif && /venv/bin/python -m harness.x02_defects

Each history is performed on the real code through the adapter (so through the real OFSyncFlowTable /
OpenFlowSwitch / OpenFlowTopology / of_01.Connection / SoftwareSwitch), recorded as a trace, and given to TLC
twice: with Trace.cfg (Dev = AllDev, the spec as it models the code: must ACCEPT) and with Trace_strict.cfg
(Dev = {}, the intended design: must REJECT, at the step where the code deviates).  Not part of run(ctx).
"""
import sys

sys.path.insert(0, __file__.rsplit("/harness/", 1)[0])

from engine import tracecheck, tlc                    # noqa: E402
from harness.adapters_x02 import Adapter             # noqa: E402
from props.X02 import well_formed                    # noqa: E402
import pox.openflow.libopenflow_01 as of             # noqa: E402

I, RS, RW = "Install", "RemoveStrict", "RemoveWild"


def ev(a, **kw):
  return (a, kw or dict(x=0))


S, C, DN, UP = ev("SwRx"), ev("CtlRx"), ev("Down"), ev("Up")


def T(d):
  return ev("Tick", d=d)


DRAIN = ("drain", {})
H = {
    "D1-reconnect-duplicates": [ev(I, o=1), S, S, C, DN, UP, S, S, S, S, C, C],
    "D2-remove-lost-on-reconnect": [ev(I, o=1), S, S, C, ev(RS, o=1), DN, UP, DRAIN],
    "D3-remove-with-wildcards-raises": [ev(I, o=1), ev(RW, o=2)],
    "D4-partial-resend-reorders": [ev(I, o=1), S, S, C, ev(RS, o=1), T(1), T(1), ev(I, o=3), T(1), ev(I, o=4), DRAIN],
    "D5-flowremoved-proxy-raises": [ev(I, o=1), S, S, C, ev(RS, o=1), S, S, C, C],
    "D6-rejoin-after-timeout-fails": [DN, ev("Expire"), ev("Join")],
    "D7-reissued-object-lost": [ev(I, o=1), ev(RS, o=1), ev(I, o=1), DRAIN],
    "D8-same-key-install-duplicates": [ev(I, o=1), S, S, C, ev(I, o=3), S, S, C],
}


def record(steps, K=5, clears=True):
  ad = Adapter(K=K, clears=clears)
  tr = []

  def do(a, args):
    obs = ad.step(a, args)
    assert well_formed(obs), (a, obs)
    tr.append(dict(a=a, args=args, obs=obs, wf=True))
  for a, args in steps:
    if a == "drain":
      while ad.env.c2s or ad.batches:
        do("SwRx" if ad.env.c2s else "CtlRx", dict(x=0))
    else:
      do(a, args)
  return tr


def xid_collision():
  """D9 (not in the model): the un-tracked barrier of the resync takes its xid from the process-wide automatic
  counter, the tracked one from the per-switch generator; both draw from one number space."""
  def attempt(start):
    ad = Adapter(K=2, clears=True)
    for a in [ev(I, o=1), S, S, C, DN]:
      ad.step(*a)
    of.generate_xid = of.xid_generator(start)
    ad.env.connect()
    return ad, [(m["name"], m["xid"]) for m in ad.env.take_c2s_log()]
  ad, xids = attempt(70000)
  ad, xids = attempt(70000 + xids[-1][1] - xids[1][1])
  print("D9 resync wrote:", xids)
  ad.batches = []
  for _ in range(2):                 # the switch reads the delete-all and the FIRST barrier only
    ad.env.sw_deliver()
  print("   switch table:", ad._sw_table(), "(the re-ADD has not been read by the switch)")
  ad.env.ctl_deliver()
  print("   mirror after the reply to the UN-tracked barrier:", ad._bag(ad.env.mirror.entries),
        "FlowTableModification(added) events:", [len(a) for a, r in ad.env.take_events()])


def main():
  names = sorted(H)
  traces = []
  for n in names:
    tr = record(H[n])
    traces.append(tr)
    last = tr[-1]["obs"]
    print("%-34s %2d events; final mirror %s switch %s pending %d; exceptions %s" % (
        n, len(tr), last["mir"], last["sw"], last["npend"],
        sorted(set(x for e in tr for x in e["obs"]["exc"]))))
  for cfg in ("Trace.cfg", "Trace_strict.cfg"):
    r, rej = tracecheck.validate("flowsync", "TraceFlowSync", cfg, traces, tag="X02")
    print(cfg, "accepted" if not rej else "REJECTED:")
    for t, m in rej:
      print("   %-34s after %d of %d events, at %s %s" % (names[t], m, len(traces[t]), traces[t][m]["a"],
                                                          traces[t][m]["args"]))
  xid_collision()


if __name__ == "__main__":
  main()
