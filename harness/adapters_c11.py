"""C11 adapter: LearningNet.tla actions -> the real control loop (NetSim).

`World.step(a, args)` performs one action of the specification on real
l2_learning + of_01.Connection + SoftwareSwitch (harness/c11_netsim.py) and
returns the observation in the event schema of TraceLearningNet.tla:

  At    args {at: [[s,p] per host]}                       obs {}
  Move  args {h, s, p}                                    obs {}
  Send  args {h, dst, sh}   obs {hops: [ {s, i, pktin, out:[ports in emission order],
                                          mod, inst:[flow], tbl:[pattern], buf} ]}
  Tick  args {d, sweep}     obs {tbls: [[pattern] per switch]}

Concretisation (abstract symbol -> bytes) is chosen per `variant`; the spec
uses the symbols only under equality / class membership, so every injective
choice is an instance of the same behaviour:
  hosts 1..N        unicast MACs from one of several families
  UNK 90            a unicast MAC that is never a source
  BCAST 91, MCAST 92 (not bridge-filtered, incl. 01-80-C2-00-00-10), FILT 93
                    (01-80-C2-00-00-00 .. 0F, incl. both ends)
  shapes "a","b"    two different payloads (UDP small / > miss_send_len, ARP,
                    ICMP, unknown ethertype, VLAN-tagged), "l" = LLDP ethertype
Frames are built with struct only.  Flow-table entries and FLOW_MODs (both
taken from the wire, decoded by harness/rawbytes.py) are abstracted to the
spec's patterns [inp, src, dst, shs] by an independent OpenFlow 1.0 matcher.
"""
import struct

from engine.core import Machinery
from harness import rawbytes as rb
from harness import c11_netsim as ns

UNK, BCAST, MCAST, FILT = 90, 91, 92, 93

TOPOS = {
    "T1": dict(nsw=1, nports=3, links={}, hosts=3,
               at={1: (1, 1), 2: (1, 2), 3: (1, 3)}),
    "T2": dict(nsw=2, nports=3, links={(1, 3): (2, 3)}, hosts=4,
               at={1: (1, 1), 2: (1, 2), 3: (2, 1), 4: (2, 2)}),
    "T3": dict(nsw=3, nports=3, links={(1, 3): (2, 3), (2, 2): (3, 3)}, hosts=5,
               at={1: (1, 1), 2: (1, 2), 3: (2, 1), 4: (3, 1), 5: (3, 2)}),
}

MAC_FAMILIES = [
    lambda h: "00:00:00:00:00:%02x" % h,
    lambda h: "02:00:00:00:01:%02x" % h,          # locally administered
    lambda h: "fe:ff:ff:ff:ff:%02x" % (0xf0 + h if h < 16 else h),
    lambda h: "00:80:c2:00:00:%02x" % h,          # filtered range but for the first octet
    lambda h: "00:00:5e:00:01:%02x" % h,
    lambda h: "0c:%02x:00:00:00:0e" % h,          # differs in the second octet only
]
MCASTS = ["01:00:5e:00:00:fb", "01:80:c2:00:00:10", "33:33:00:00:00:01",
          "01:80:c2:00:01:00", "01:80:c3:00:00:00", "03:00:00:00:00:01"]
FILTS = ["01:80:c2:00:00:00", "01:80:c2:00:00:0f", "01:80:c2:00:00:0e",
         "01:80:c2:00:00:01", "01:80:c2:00:00:03", "01:80:c2:00:00:08"]
BUFFERS = [0, 2, 1, 100, 0, 2]
SEGS = [0, 2, 0, 3, 0, 1]          # how the OpenFlow byte streams are cut (c11_netsim.SEG_PATTERNS)
DPIDS = [lambda s: s, lambda s: 0x0000ffffffffff00 + s, lambda s: (s << 48) | 0x1234,
         lambda s: 0x8000000000000000 + s]

IP_A, IP_B = "10.0.0.1", "10.0.0.2"


def _f_udp(sport, dport, n, tos=0):
  pl = ns.ipv4_udp(IP_A, IP_B, sport, dport, n, tos=tos)
  return dict(et=0x0800, payload=pl, vlan=None,
              fields=dict(dl_vlan=0xffff, dl_vlan_pcp=0, dl_type=0x0800, nw_tos=tos, nw_proto=17,
                          nw_src=IP_A, nw_dst=IP_B, tp_src=sport, tp_dst=dport),
              soft=())


def _f_icmp():
  pl = ns.ipv4_icmp_echo(IP_A, IP_B)
  return dict(et=0x0800, payload=pl, vlan=None,
              fields=dict(dl_vlan=0xffff, dl_vlan_pcp=0, dl_type=0x0800, nw_tos=0, nw_proto=1,
                          nw_src=IP_A, nw_dst=IP_B, tp_src=8, tp_dst=0),
              soft=())


def _f_arp():
  pl = ns.arp_request("00:00:00:00:00:aa", IP_A, IP_B)
  return dict(et=0x0806, payload=pl, vlan=None,
              fields=dict(dl_vlan=0xffff, dl_vlan_pcp=0, dl_type=0x0806, nw_tos=0, nw_proto=1,
                          nw_src=IP_A, nw_dst=IP_B, tp_src=0, tp_dst=0),
              soft=("nw_tos", "tp_src", "tp_dst"))


def _f_raw(et=0x88b5):
  return dict(et=et, payload=b"C11 raw payload", vlan=None,
              fields=dict(dl_vlan=0xffff, dl_vlan_pcp=0, dl_type=et, nw_tos=0, nw_proto=0,
                          nw_src="0.0.0.0", nw_dst="0.0.0.0", tp_src=0, tp_dst=0),
              soft=("nw_tos", "nw_proto", "nw_src", "nw_dst", "tp_src", "tp_dst"))


def _f_vlan_udp(vid, pcp, sport, dport):
  d = _f_udp(sport, dport, 18)
  d["vlan"] = (vid, pcp)
  d["fields"]["dl_vlan"] = vid
  d["fields"]["dl_vlan_pcp"] = pcp
  return d


def _f_tcp(sport, dport):
  pl = struct.pack("!HHIIBBHHH", sport, dport, 1, 0, 5 << 4, 0x02, 8192, 0, 0) + b"C11-tcp-payload!"
  pseudo = rb.ip(IP_A) + rb.ip(IP_B) + struct.pack("!BBH", 0, 6, len(pl))
  pl = pl[:16] + struct.pack("!H", rb.csum(pseudo + pl)) + pl[18:]
  hdr = struct.pack("!BBHHHBBH4s4s", 0x45, 0, 20 + len(pl), 3, 0, 64, 6, 0, rb.ip(IP_A), rb.ip(IP_B))
  hdr = hdr[:10] + struct.pack("!H", rb.csum(hdr)) + hdr[12:]
  return dict(et=0x0800, payload=hdr + pl, vlan=None,
              fields=dict(dl_vlan=0xffff, dl_vlan_pcp=0, dl_type=0x0800, nw_tos=0, nw_proto=6,
                          nw_src=IP_A, nw_dst=IP_B, tp_src=sport, tp_dst=dport),
              soft=())


def _f_udp_frag(first):
  """One fragment of a fragmented UDP datagram.  OpenFlow 1.0 (and the
  switch) match fragments with tp_src = tp_dst = 0."""
  d = _f_udp(4000, 4001, 26)
  hdr = bytearray(d["payload"][:20])
  fragword = 0x2000 if first else 0x0003          # MF, offset 0  /  last fragment, offset 24 bytes
  hdr[6:8] = struct.pack("!H", fragword)
  hdr[10:12] = b"\0\0"
  hdr[10:12] = struct.pack("!H", rb.csum(bytes(hdr)))
  d["payload"] = bytes(hdr) + d["payload"][20:]
  d["fields"]["tp_src"] = 0
  d["fields"]["tp_dst"] = 0
  return d


def _f_ipv6():
  """IPv6 / UDP: OpenFlow 1.0 sees the ethertype only."""
  src, dst = bytes(range(1, 17)), bytes(range(17, 33))
  pl = b"C11 over IPv6."            # even length (odd lengths: packet_utils.checksum, see C14)
  udp = struct.pack("!HHHH", 546, 547, 8 + len(pl), 0) + pl
  pseudo = src + dst + struct.pack("!IxxxB", len(udp), 17)
  udp = udp[:6] + struct.pack("!H", rb.csum(pseudo + udp) or 0xffff) + udp[8:]
  d = _f_raw(0x86dd)
  d["payload"] = struct.pack("!IHBB", 0x60000000, len(udp), 17, 64) + src + dst + udp
  return d


def _f_lldp():
  d = _f_raw(0x88cc)
  d["payload"] = ns.lldp_payload()
  return d


# (a, b) pairs: the two shapes always differ in at least one match field
SHAPE_SETS = [
    (lambda: _f_udp(1000, 2000, 18), lambda: _f_udp(1001, 2000, 18)),
    (lambda: _f_udp(5353, 53, 180), _f_arp),                  # > miss_send_len (128)
    (_f_arp, _f_icmp),
    (_f_raw, lambda: _f_udp(1000, 2000, 18)),
    (lambda: _f_vlan_udp(5, 3, 1000, 2000), lambda: _f_udp(1000, 2000, 18)),
    (_f_icmp, lambda: _f_udp(7, 7, 300, tos=0x10)),
    (lambda: _f_udp_frag(True), lambda: _f_udp_frag(False)),   # IP fragments (first / later)
    (lambda: _f_tcp(40000, 80), _f_ipv6),
]

_PREFIX_FIELDS = (("nw_src", rb.FW_NW_SRC_SHIFT), ("nw_dst", rb.FW_NW_DST_SHIFT))
_BIT_FIELDS = (("dl_vlan", rb.FW_DL_VLAN), ("dl_vlan_pcp", rb.FW_DL_VLAN_PCP),
               ("dl_type", rb.FW_DL_TYPE), ("nw_tos", rb.FW_NW_TOS),
               ("nw_proto", rb.FW_NW_PROTO), ("tp_src", rb.FW_TP_SRC), ("tp_dst", rb.FW_TP_DST))


def _ip_int(x):
  if isinstance(x, str) and "." in x:
    return struct.unpack("!I", rb.ip(x))[0]
  return int(x, 16)                # parse_match gives hex


def covers_shape(m, shape):
  """OpenFlow 1.0: does wire match `m` (rawbytes.parse_match dict) admit the
  non-address fields of a frame of this shape?  Fields that do not exist in
  the frame (`soft`) are not held against the entry."""
  w = m["wildcards"]
  fl = shape["fields"]
  for name, bit in _BIT_FIELDS:
    if w & bit or name in shape["soft"]:
      continue
    if name == "dl_vlan_pcp" and fl["dl_vlan"] == 0xffff:
      continue
    if m[name] != fl[name]:
      return False
  for name, shift in _PREFIX_FIELDS:
    bits = (w >> shift) & 0x3f
    if bits >= 32 or name in shape["soft"]:
      continue
    mask = (0xffffffff << bits) & 0xffffffff
    if (_ip_int(m[name]) ^ _ip_int(fl[name])) & mask:
      return False
  return True


class World(object):
  def __init__(self, topo="T1", variant=0, opt=None):
    t = TOPOS[topo]
    # launch options of l2_learning (spec: opt.hold / opt.transp), handed over the way a command line
    # (strings) or a python caller (int / bool) would, by variant
    self.opt = dict(hold=0, transp=False)
    self.opt.update(opt or {})
    cli = (variant // 3) % 2 == 1
    self.launch_args = dict(
        hold_down=str(self.opt["hold"]) if cli else self.opt["hold"],
        transparent=(["True", "yes", "on"] if self.opt["transp"] else ["False", "no", "off"])[variant % 3]
        if cli else bool(self.opt["transp"]))
    self.topo = topo
    self.t = t
    v = variant
    self.variant = v
    k, r = v % 6, v // 6                 # six base worlds, rotated against each other by r
    self.macf = MAC_FAMILIES[k]
    self.special = {UNK: self.macf(0x63), BCAST: "ff:ff:ff:ff:ff:ff",
                    MCAST: MCASTS[(k + 2 * r) % 6], FILT: FILTS[(k + 3 * r) % 6]}
    a, b = SHAPE_SETS[(k + r) % len(SHAPE_SETS)]
    self.shapes = {"a": a(), "b": b(), "l": _f_lldp()}
    self.max_buffers = BUFFERS[(k + 4 * r) % 6]
    self.seg = SEGS[(k + 5 * r) % 6]
    dp = DPIDS[(k + r) % 4]
    self.sim = ns.NetSim(nsw=t["nsw"], nports=t["nports"], links=t["links"],
                         max_buffers=self.max_buffers, seg=self.seg,
                         dpids=[dp(s) for s in range(1, t["nsw"] + 1)],
                         transparent=self.launch_args["transparent"], hold_down=self.launch_args["hold_down"])
    self.at = dict(t["at"])
    self.nhosts = t["hosts"]
    self.mac2sym = {}
    for h in range(1, self.nhosts + 1):
      self.mac2sym[rb.mac(self.macf(h)).hex()] = h
    for k, m in self.special.items():
      self.mac2sym[rb.mac(m).hex()] = k
    if len(self.mac2sym) != self.nhosts + 4:
      raise Machinery("concretisation is not injective")

  def describe(self):
    return dict(topo=self.topo, variant=self.variant, max_buffers=self.max_buffers, seg=self.seg,
                launch=dict((k, repr(v)) for k, v in self.launch_args.items()),
                macs=[self.macf(h) for h in range(1, self.nhosts + 1)],
                special={str(k): v for k, v in self.special.items()},
                shapes={k: (hex(v["et"]), len(v["payload"]), v["vlan"]) for k, v in self.shapes.items()})

  # -- concretisation
  def dst_mac(self, d):
    return self.special[d] if d in self.special else self.macf(d)

  def frame(self, h, dst, sh):
    s = self.shapes[sh]
    if s["vlan"]:
      return ns.vlan_frame(self.dst_mac(dst), self.macf(h), s["vlan"][0], s["vlan"][1], s["et"], s["payload"])
    return ns.frame(self.dst_mac(dst), self.macf(h), s["et"], s["payload"])

  # -- abstraction of wire matches
  def pattern(self, m):
    w = m["wildcards"]
    if w & rb.FW_IN_PORT:
      inp = 0
    else:
      inp = m["in_port"]
      if not (1 <= inp <= self.t["nports"]):
        return None
    src = 0
    if not (w & rb.FW_DL_SRC):
      src = self.mac2sym.get(m["dl_src"])
      if src is None or src > 89:
        return None
    dst = 0
    if not (w & rb.FW_DL_DST):
      dst = self.mac2sym.get(m["dl_dst"])
      if dst is None:
        return None
    shs = sorted(k for k, s in self.shapes.items() if covers_shape(m, s))
    if not shs:
      return None
    return dict(inp=inp, src=src, dst=dst, shs=shs)

  def table(self, s):
    pats = []
    for fl in self.sim.table_wire(s):
      p = self.pattern(fl["match"])
      if p is not None and p not in pats:
        pats.append(p)
    return sorted(pats, key=lambda p: (p["inp"], p["src"], p["dst"], p["shs"]))

  def _inst(self, c2s):
    out = []
    for m in c2s:
      if m["type"] != rb.FLOW_MOD or m["command"] not in (rb.FC_ADD, rb.FC_MODIFY, rb.FC_MODIFY_STRICT):
        continue
      p = self.pattern(m["match"])
      if p is None:
        continue
      ports = []
      for a in m["actions"]:
        if a.get("type") == 0 and "body" in a:
          q = int(a["body"][:4], 16)
          if 1 <= q <= self.t["nports"] and q not in ports:
            ports.append(q)
      p = dict(p, out=sorted(ports), ito=m["idle_timeout"], hto=m["hard_timeout"])
      out = [x for x in out if (x["inp"], x["src"], x["dst"], x["shs"]) !=
             (p["inp"], p["src"], p["dst"], p["shs"])]
      out.append(p)
    return out

  # -- actions
  def step(self, a, args):
    if a == "At":
      for h, sp in enumerate(args["at"], 1):
        self.at[h] = (sp[0], sp[1])
      return {}
    if a == "Move":
      self.at[args["h"]] = (args["s"], args["p"])
      return {}
    if a == "Tick":
      self.sim.tick(args["d"])
      if args["sweep"]:
        self.sim.sweep()
      return dict(tbls=[self.table(s) for s in range(1, self.t["nsw"] + 1)])
    if a == "Send":
      s, p = self.at[args["h"]]
      fr = self.frame(args["h"], args["dst"], args["sh"])
      # (a transparent bridge forwards LLDP frames; POX re-serialises the parsed LLDPDU, which ends at its End
      #  TLV, so the Ethernet padding behind it is not content)
      hops = self.sim.inject(s, p, fr, content=14 + len(self.shapes["l"]["payload"]) if args["sh"] == "l" else None)
      obs = []
      anomalies = []
      for hp in hops:
        pktin = sum(1 for m in hp["s2c"] if m["type"] == rb.PACKET_IN)
        if hp["foreign"]:
          anomalies.append("emission-on-other-switch")
        obs.append(dict(s=hp["s"], i=hp["i"], pktin=pktin, out=list(hp["out"]),
                        mod=1 if hp["modified"] else 0, inst=self._inst(hp["c2s"]),
                        tbl=None, buf=hp["buf"]))
      tb = {}
      for o in obs:
        if o["s"] not in tb:
          tb[o["s"]] = self.table(o["s"])
        o["tbl"] = tb[o["s"]]
        o["buf"] = self.sim.occupancy(o["s"])
      r = dict(hops=obs)
      if anomalies:
        r["anomalies"] = sorted(set(anomalies))
      return r
    raise ValueError(a)

  def mac_tables(self):
    return {s: self.sim.mac_to_port(s) for s in range(1, self.t["nsw"] + 1)}


EMPTY_SEND = dict(hops=[])


def run_behaviour(item):
  """item = dict(topo, variant, steps=[{a,args[,exp]}], at=[[s,p]..] or None).
  Returns dict(trace=[events], agree=bool, info=...)."""
  topo = item["topo"]
  t = TOPOS[topo]
  at = item.get("at") or [list(t["at"][h]) for h in range(1, t["hosts"] + 1)]
  # hosts the behaviour does not place stay where the topology puts them
  at = at + [list(t["at"][h]) for h in range(len(at) + 1, t["hosts"] + 1)]
  opt = dict(hold=0, transp=False)
  opt.update(item.get("opt") or {})
  at_args = dict(at=at, hold=int(opt["hold"]), transp=bool(opt["transp"]))
  try:
    w = World(topo, item.get("variant", 0), opt)
  except ns.HandshakeFailed as e:
    # the network never came up: no frame can be forwarded at all
    return dict(trace=[dict(a="At", args=at_args, obs={}, wf=False,
                            why="handshake-failed", detail=str(e)[:200])], agree=False,
                world=dict(topo=topo, variant=item.get("variant", 0)))
  trace = [dict(a="At", args=at_args, obs={}, wf=True)]
  w.step("At", dict(at=at))
  agree = True
  for st in item["steps"]:
    a, args = st["a"], st["args"]
    wf = True
    why = ""
    try:
      obs = w.step(a, args)
    except ns.Diverged as e:
      obs, wf, why = None, False, "diverged"
    except Machinery:
      raise
    except Exception as e:          # an exception that escaped from the code under test
      obs, wf, why = None, False, "exception:" + type(e).__name__
    if a == "Send":
      if obs is None:
        obs = dict(EMPTY_SEND)
      if "anomalies" in obs:
        wf, why = False, "anomaly:" + ",".join(obs.pop("anomalies"))
    elif a == "Tick":
      if obs is None:
        obs = dict(tbls=[[] for _ in range(t["nsw"])])
    ev = dict(a=a, args=args, obs=obs, wf=wf)
    if why:
      ev["why"] = why
    trace.append(ev)
    if "exp" in st and wf and not item.get("mutant"):     # (a witness history carries a MUTANT design's prediction)
      if a == "Send":
        got = sorted([h["s"], h["i"], h["pktin"], sorted(set(h["out"]))] for h in obs["hops"])
        want = sorted([h["s"], h["i"], h["pktin"], sorted(h["out"])] for h in st["exp"]["hops"])
        agree = agree and got == want
      elif a == "Tick" and "tbls" in st["exp"]:
        def key(ps):
          return sorted((p["inp"], p["src"], p["dst"], tuple(sorted(p["shs"]))) for p in ps)
        agree = agree and [key(x) for x in obs["tbls"]] == [key(x) for x in st["exp"]["tbls"]]
    if not wf:
      break
  return dict(trace=trace, agree=agree, world=w.describe())


def brief(hops):
  """[s, i, pktin, ports, dup, mod, buf] per hop, sorted - the part of a Send
  observation that the design model predicts exactly."""
  out = []
  for h in hops:
    ports = sorted(set(h["out"]))
    out.append([h["s"], h["i"], h["pktin"], ports, 1 if len(ports) != len(h["out"]) else 0,
                h.get("mod", 0), h.get("buf", 0)])
  return sorted(out)


class ReplayAdapter(object):
  """For `./check C11 --replay FILE`: re-runs the inputs of a recorded
  violation and compares every Send with what the DESIGN model of
  LearningNet.tla predicts (the check itself decides with the property layer
  through TLC; this is the quick way to see a failure again / gone)."""

  def __init__(self, topo="T1", variant=0, at=None, opt=None):
    self.w = World(topo, variant, opt)
    if at:
      self.w.step("At", dict(at=at))

  def step(self, a, args):
    try:
      obs = self.w.step(a, args)
    except ns.Diverged:
      return {"DIVERGED": 1}
    if a == "Send":
      r = {"hops": brief(obs["hops"])}
      if "anomalies" in obs:
        r["anomalies"] = obs["anomalies"]
      return r
    return {}

  def signature(self, st, obs):
    return {"action": st["a"], "via": "replay"}
